import EoVerif.Props.C01
import EoVerif.Props.C02
import EoVerif.Props.C03b
/-!
# C01b — round trip of the model of the GENERATED code

`ser_conforms` (C02), `spec_roundtrip` (C01) and `de_conforms` (C03b) composed: for an accepted forest of
the fragment `FragmentDe`, a wire-unambiguous class and a lossless, typed value, what the generated
`serialize` writes the generated `deserialize` reads back — field by field, consuming the bytes exactly and
recording their number as the byte size.  The round trip no longer speaks of the declarative semantics only
(`Spec.wireClass` / `Spec.readClass`) but of the models `execSer` / `execDe` of the generated code.

`hty : Typed t cls v` is needed on top of `hv : RTValue t cls v`: `RTValue` does not bound integers (the
declarative writer refuses out-of-range ones), `Typed` demands `0 ≤ n`; see `rtvalue_not_typed` below.
-/
namespace EoVerif.Gen
open EoVerif.Spec

theorem abs_new (data : Bytes) : Reader.abs (Reader.new data) = ⟨data, 0, false, 0⟩ := rfl

/-- a wire-unambiguous class is a class of the specification -/
theorem find_of_unambiguous (t : TSpec) (cls : String) (hu : Spec.RT.Unambiguous t cls = true) :
    (t.find? cls).isSome = true := by
  unfold Spec.RT.Unambiguous at hu
  simp only [Spec.RT.okClass] at hu
  cases hf : t.find? cls with
  | none => rw [hf] at hu; cases hu
  | some c => rfl

/-- **Round trip of the generated code's model.** -/
theorem model_roundtrip (files : List ProtoFile) (out : GenOutput) (t : TSpec)
    (hc : compile files = .ok out) (he : Spec.elabSpec files = some t) (hfrag : FragmentDe files = true)
    (cls : String) (v : Value)
    (hu : Spec.RT.Unambiguous t cls = true) (hv : Spec.RT.RTValue t cls v) (hty : Typed t cls v)
    (w : Writer) (hs : execSer out out.depth cls v { data := [], san := false } = (w, .ok ())) :
    ∃ r' v', execDe out out.depth cls (Reader.new w.data) = (r', .ok v') ∧
      Spec.RT.SameFields v' v ∧ (Reader.abs r').pos = w.data.length ∧ (Reader.abs r').remaining = 0 ∧
      Spec.RT.byteSizeOf v' = w.data.length := by
  have hfr : Fragment files = true := by
    unfold FragmentDe at hfrag
    simp only [Bool.and_eq_true] at hfrag
    exact hfrag.1.1
  have h1 := ser_conforms files out t hc he hfr cls v false hty
  rw [hs] at h1
  cases hw : Spec.wireClass t (t.classes.length + 1) cls v false with
  | none => rw [hw] at h1; exact h1.elim
  | some bs =>
    rw [hw] at h1
    have h1' : w.data = bs := h1
    obtain ⟨ar, v', hrd, hsf, hpos, hrem, hsz⟩ := Spec.RT.spec_roundtrip t cls v bs hu hv hw
    have h3 := de_conforms files out t hc he hfrag cls (find_of_unambiguous t cls hu)
      (Reader.new w.data) (Reader.inv_new w.data)
    rw [abs_new, h1', hrd] at h3
    generalize hx : execDe out out.depth cls (Reader.new bs) = x at h3
    obtain ⟨r', o⟩ := x
    cases o with
    | error e => exact h3.elim
    | ok v2 =>
      obtain ⟨hv2, habs, _⟩ := h3
      subst hv2
      refine ⟨r', v2, ?_, hsf, ?_, ?_, ?_⟩
      · rw [h1']; exact hx
      · rw [habs, h1']; exact hpos
      · rw [habs]; exact hrem
      · rw [h1']; exact hsz

/-- **Refusal**: the generated serializer raises exactly when the declarative writing rules refuse
    (direct from `ser_conforms`; the error is then `SerializationError` / `ValueError`). -/
theorem model_serialize_refuses_iff (files : List ProtoFile) (out : GenOutput) (t : TSpec)
    (hc : compile files = .ok out) (he : Spec.elabSpec files = some t) (hfrag : Fragment files = true)
    (cls : String) (obj : Value) (san : Bool) (hty : Typed t cls obj) :
    (∃ w e, execSer out out.depth cls obj { data := [], san := san } = (w, .error e)) ↔
      Spec.wireClass t (t.classes.length + 1) cls obj san = none := by
  have h := ser_conforms files out t hc he hfrag cls obj san hty
  generalize execSer out out.depth cls obj { data := [], san := san } = x at h
  obtain ⟨w, o⟩ := x
  cases hw : Spec.wireClass t (t.classes.length + 1) cls obj san with
  | none =>
    rw [hw] at h
    cases o with
    | error e => exact ⟨fun _ => rfl, fun _ => ⟨w, e, rfl⟩⟩
    | ok u => cases u; exact h.elim
  | some bs =>
    rw [hw] at h
    cases o with
    | error e => exact h.elim
    | ok u =>
      constructor
      · rintro ⟨w', e, h'⟩; cases h'
      · intro h'; cases h'

/-- the same, with the error named: a refusal of the generated code is a `SerializationError` or a
    `ValueError`, and the declarative side refuses as well -/
theorem model_serialize_error (files : List ProtoFile) (out : GenOutput) (t : TSpec)
    (hc : compile files = .ok out) (he : Spec.elabSpec files = some t) (hfrag : Fragment files = true)
    (cls : String) (obj : Value) (san : Bool) (hty : Typed t cls obj) (w : Writer) (e : PyErr)
    (hs : execSer out out.depth cls obj { data := [], san := san } = (w, .error e)) :
    Spec.wireClass t (t.classes.length + 1) cls obj san = none ∧
      (e = .SerializationError ∨ e = .ValueError) := by
  have h := ser_conforms files out t hc he hfrag cls obj san hty
  rw [hs] at h
  cases hw : Spec.wireClass t (t.classes.length + 1) cls obj san with
  | none => rw [hw] at h; exact ⟨rfl, h⟩
  | some bs => rw [hw] at h; exact h.elim

/-- the same, stated from the declarative writer: if the writing rules produce `bs`, the generated
    `serialize` succeeds with exactly `bs` and the generated `deserialize` reads them back -/
theorem model_roundtrip_of_wire (files : List ProtoFile) (out : GenOutput) (t : TSpec)
    (hc : compile files = .ok out) (he : Spec.elabSpec files = some t) (hfrag : FragmentDe files = true)
    (cls : String) (v : Value)
    (hu : Spec.RT.Unambiguous t cls = true) (hv : Spec.RT.RTValue t cls v) (hty : Typed t cls v)
    (bs : Bytes) (hw : Spec.wireClass t (t.classes.length + 1) cls v false = some bs) :
    ∃ w, execSer out out.depth cls v { data := [], san := false } = (w, .ok ()) ∧ w.data = bs ∧
      ∃ r' v', execDe out out.depth cls (Reader.new w.data) = (r', .ok v') ∧
        Spec.RT.SameFields v' v ∧ (Reader.abs r').pos = w.data.length ∧ (Reader.abs r').remaining = 0 ∧
        Spec.RT.byteSizeOf v' = w.data.length := by
  have hfr : Fragment files = true := by
    unfold FragmentDe at hfrag
    simp only [Bool.and_eq_true] at hfrag
    exact hfrag.1.1
  have h1 := ser_conforms files out t hc he hfr cls v false hty
  rw [hw] at h1
  generalize hx : execSer out out.depth cls v { data := [], san := false } = x at h1
  obtain ⟨w, o⟩ := x
  cases o with
  | error e => exact h1.elim
  | ok u =>
    cases u
    exact ⟨w, rfl, h1, model_roundtrip files out t hc he hfrag cls v hu hv hty w hx⟩

/-! ## Non-vacuity (tests, labelled as such): the example forest of `Props/C03b.lean` -/
namespace ModelRT.Example
open EoVerif.Gen.Conform EoVerif.Gen.DeConform.Example

def pkt : String := "TalkTellClientPacket"

def pktBody : List TInstr := [.chunked
   [.field "name" (.str false none false) false, .brk,
    .field "message" (.str false none false) false, .brk,
    .array "pts" (.struct "Coords") none false false true (some 2)]]

def coords (x y : Int) : Value := .obj "Coords" [("x", .int x), ("y", .int y)] 0

def pktVal : Value := .obj pkt [("name", .str [0x41, 0x62]), ("message", .str [0x48, 0x69, 0x21]),
  ("pts", .tuple [coords 3 250, coords 0 7])] 0

theorem of_spec {P : TSpec → Bool} (h : ((elabSpec exFiles).map P) = some true) :
    ∀ t, elabSpec exFiles = some t → P t = true := by
  intro t ht
  rw [ht] at h
  exact Option.some.inj h

theorem ex_unambiguous : ∀ t, elabSpec exFiles = some t → Spec.RT.Unambiguous t pkt = true :=
  of_spec (P := fun t => Spec.RT.Unambiguous t pkt) (by decide +kernel)

theorem ex_rtvalue : ∀ t, elabSpec exFiles = some t → Spec.RT.RTValue t pkt pktVal :=
  of_spec (P := fun t => Spec.RT.rtClass t (t.classes.length + 1) pkt pktVal false) (by decide +kernel)

theorem ex_len : ∀ t, elabSpec exFiles = some t → t.classes.length = 5 := by
  intro t ht
  have := of_spec (P := fun t => t.classes.length == 5) (by decide +kernel) t ht
  simpa using this

theorem of_find {cls : String} {c : TClass} (h : (elabSpec exFiles).bind (fun t => t.find? cls) = some c) :
    ∀ t, elabSpec exFiles = some t → t.find? cls = some c := by
  intro t ht
  rw [ht] at h
  exact h

theorem ex_find_pkt : ∀ t, elabSpec exFiles = some t → t.find? pkt = some ⟨pkt, pktBody⟩ :=
  of_find (by rfl)

theorem ex_find_coords : ∀ t, elabSpec exFiles = some t →
    t.find? "Coords" = some ⟨"Coords", [.field "x" (.int .char) false, .field "y" (.int .char) false]⟩ :=
  of_find (by rfl)

theorem ex_typed_coords (t : TSpec) (ht : elabSpec exFiles = some t) (k : Nat) (x y : Int)
    (hx : 0 ≤ x) (hy : 0 ≤ y) : TypedC t (k + 1) "Coords" (coords x y) := by
  rw [typedC_succ]
  refine ⟨_, ex_find_coords t ht, ?_⟩
  simp only [TypedInstrs, TypedInstr, TypedVal]
  exact ⟨Or.inr ⟨x, rfl, hx⟩, Or.inr ⟨y, rfl, hy⟩, trivial⟩

theorem ex_typed : ∀ t, elabSpec exFiles = some t → Typed t pkt pktVal := by
  intro t ht
  unfold Typed
  rw [ex_len t ht, typedC_succ]
  refine ⟨_, ex_find_pkt t ht, ?_⟩
  simp only [pktBody, TypedInstrs, TypedInstr, TypedVal]
  refine ⟨⟨Or.inr ⟨[0x41, 0x62], rfl, fun f h => by cases h⟩, trivial,
    Or.inr ⟨[0x48, 0x69, 0x21], rfl, fun f h => by cases h⟩, trivial,
    Or.inr ⟨[coords 3 250, coords 0 7], rfl, ?_, fun f h => by cases h⟩, trivial⟩, trivial⟩
  intro v hv
  simp only [List.mem_cons, List.not_mem_nil, or_false] at hv
  rcases hv with rfl | rfl
  · exact ⟨⟨_, _, _, rfl⟩, ex_typed_coords t ht 4 3 250 (by decide) (by decide)⟩
  · exact ⟨⟨_, _, _, rfl⟩, ex_typed_coords t ht 4 0 7 (by decide) (by decide)⟩

/-- `model_roundtrip` instantiated: whatever the generator outputs for the example forest, if its
    `serialize` accepts `pktVal`, its `deserialize` reads the bytes written back to `pktVal` -/
example (out : GenOutput) (t : TSpec) (hc : compile exFiles = .ok out) (he : elabSpec exFiles = some t)
    (w : Writer) (hs : execSer out out.depth pkt pktVal { data := [], san := false } = (w, .ok ())) :
    ∃ r' v', execDe out out.depth pkt (Reader.new w.data) = (r', .ok v') ∧
      Spec.RT.SameFields v' pktVal ∧ (Reader.abs r').pos = w.data.length ∧ (Reader.abs r').remaining = 0 ∧
      Spec.RT.byteSizeOf v' = w.data.length :=
  model_roundtrip exFiles out t hc he (by decide +kernel) pkt pktVal (ex_unambiguous t he) (ex_rtvalue t he)
    (ex_typed t he) w hs

/-- … and the serializer does accept it: the declarative writer produces bytes, so by `ser_conforms` the
    generated one does (the hypothesis `hs` above is satisfiable) -/
theorem ex_wire : ∀ t, elabSpec exFiles = some t →
    Spec.wireClass t (t.classes.length + 1) pkt pktVal false =
      some [0x41, 0x62, 0xFF, 0x48, 0x69, 0x21, 0xFF, 4, 251, 1, 8] := by
  intro t ht
  have := of_spec (P := fun t => Spec.wireClass t (t.classes.length + 1) pkt pktVal false ==
    some [0x41, 0x62, 0xFF, 0x48, 0x69, 0x21, 0xFF, 4, 251, 1, 8]) (by decide +kernel) t ht
  simpa using this


/-- end to end, no hypothesis on the run left: on whatever the generator outputs for the example forest,
    `serialize` accepts `pktVal` and writes these eleven bytes, and `deserialize` reads them back to
    `pktVal`, consuming them exactly -/
theorem ex_end_to_end (out : GenOutput) (t : TSpec) (hc : compile exFiles = .ok out)
    (he : elabSpec exFiles = some t) :
    ∃ w r' v', execSer out out.depth pkt pktVal { data := [], san := false } = (w, .ok ()) ∧
      w.data = [0x41, 0x62, 0xFF, 0x48, 0x69, 0x21, 0xFF, 4, 251, 1, 8] ∧
      execDe out out.depth pkt (Reader.new w.data) = (r', .ok v') ∧
      Spec.RT.SameFields v' pktVal ∧ (Reader.abs r').pos = 11 ∧ (Reader.abs r').remaining = 0 ∧
      Spec.RT.byteSizeOf v' = 11 := by
  obtain ⟨w, hs, hd, r', v', h1, h2, h3, h4, h5⟩ := model_roundtrip_of_wire exFiles out t hc he
    (by decide +kernel) pkt pktVal (ex_unambiguous t he) (ex_rtvalue t he) (ex_typed t he) _ (ex_wire t he)
  refine ⟨w, r', v', hs, hd, h1, h2, ?_, h4, ?_⟩
  · rw [h3, hd]; rfl
  · rw [h5, hd]; rfl

/-! `Typed` is not implied by `RTValue` (and `Unambiguous`): `RTValue` leaves the range of an integer to
    the writer ("`wireClass` refuses otherwise"), `Typed` demands `0 ≤ n`.  So the hypothesis `hty` of
    `model_roundtrip` cannot be derived from `hv` and `hu` (a test, labelled as such). -/
theorem rtvalue_not_typed (t : TSpec) (he : elabSpec exFiles = some t) :
    Spec.RT.Unambiguous t "Coords" = true ∧ Spec.RT.RTValue t "Coords" (coords (-1) 5) ∧
      ¬ Typed t "Coords" (coords (-1) 5) := by
  refine ⟨of_spec (P := fun t => Spec.RT.Unambiguous t "Coords") (by decide +kernel) t he,
    of_spec (P := fun t => Spec.RT.rtClass t (t.classes.length + 1) "Coords" (coords (-1) 5) false)
      (by decide +kernel) t he, ?_⟩
  unfold Typed
  rw [typedC_succ]
  rintro ⟨c, hf, h⟩
  rw [ex_find_coords t he] at hf
  cases hf
  simp only [TypedInstrs, TypedInstr, TypedVal] at h
  rcases h.1 with h0 | ⟨n, hn, hpos⟩
  · cases h0
  · have : n = -1 := by
      have := hn
      simp only [coords, Value.attr] at this
      simpa using this.symm
    omega

end ModelRT.Example

end EoVerif.Gen
