import EoVerif.Model.Str
import EoVerif.Lemmas.Str
/-!
# C08 — EO string encoding is length-preserving, self-inverse and break-safe

`bs` ranges over all byte strings (lists of naturals; no bound on the values is needed).
`flagAt n i` is the value of `flippy` when `_invert_characters` visits position `i` of a string of
length `n`.
-/
namespace EoVerif.Str

/-- Byte table: the per-byte map is an involution except at `0x7E`. -/
theorem invByte_invol (f : Bool) (c : Nat) (hc : c ≠ 0x7E) : invByte f (invByte f c) = c := by
  cases f
  · simp only [invByte_false]; repeat' split
    all_goals omega
  · simp only [invByte_true]; repeat' split
    all_goals omega

/-- Bytes outside `0x22..0x7E` are untouched. -/
theorem invByte_outside (f : Bool) (c : Nat) (h : ¬ (0x22 ≤ c ∧ c ≤ 0x7E)) : invByte f c = c := by
  unfold invByte; exact if_neg h

/-- Bytes `0x22..0x7E` are mapped into `0x21..0x7D`. -/
theorem invByte_inside (f : Bool) (c : Nat) (h : 0x22 ≤ c ∧ c ≤ 0x7E) :
    0x21 ≤ invByte f c ∧ invByte f c ≤ 0x7D := by
  cases f
  · rw [invByte_false, if_pos h]; omega
  · rw [invByte_true, if_pos h]; split <;> omega

/-- Hence a `0x00` or `0xFF` is never created or destroyed. -/
theorem invByte_break_safe (f : Bool) (c : Nat) :
    (invByte f c = 0x00 ↔ c = 0x00) ∧ (invByte f c = 0xFF ↔ c = 0xFF) := by
  cases f
  · rw [invByte_false]; split <;> omega
  · rw [invByte_true]; repeat' split
    all_goals omega

theorem encode_length (bs : Bytes) : (encode bs).length = bs.length := by
  simp [encode, invert_length]

theorem decode_length (bs : Bytes) : (decode bs).length = bs.length := by
  simp [decode, invert_length]

/-- Encoding reverses the byte order and applies the per-byte map with the flag of the source
    position. -/
theorem encode_get (bs : Bytes) (i : Nat) (hi : i < bs.length) :
    (encode bs)[i]? = some (invByte (flagAt bs.length (bs.length - 1 - i)) (bs.getD (bs.length - 1 - i) 0)) := by
  unfold encode
  have h1 : i < (invert bs).length := by rw [invert_length]; exact hi
  have h2 : bs.length - 1 - i < bs.length := by omega
  rw [List.getElem?_reverse h1, invert_length, invert_getElem?, getD_eq_of_lt bs _ h2]
  rfl

/-- Decoding reverses the byte order and applies the per-byte map with the flag of the target
    position. -/
theorem decode_get (bs : Bytes) (i : Nat) (hi : i < bs.length) :
    (decode bs)[i]? = some (invByte (flagAt bs.length i) (bs.getD (bs.length - 1 - i) 0)) := by
  unfold decode
  have h1 : i < bs.length := hi
  rw [invert_getElem?, List.length_reverse, List.getElem?_reverse h1,
    getD_eq_of_lt bs _ (by omega)]
  rfl

/-- decode ∘ encode is the identity at every position whose byte is not `0x7E`. -/
theorem decode_encode_at (bs : Bytes) (i : Nat) (hi : i < bs.length) (h : bs.getD i 0 ≠ 0x7E) :
    (decode (encode bs))[i]? = bs[i]? := by
  have hl := encode_length bs
  have h2 : bs.length - 1 - i < bs.length := by omega
  have h3 : bs.length - 1 - (bs.length - 1 - i) = i := by omega
  have hd := decode_get (encode bs) i (by rw [hl]; exact hi)
  have he := encode_get bs (bs.length - 1 - i) h2
  rw [hl] at hd
  rw [h3] at he
  rw [hd, List.getD_eq_getElem?_getD, he, Option.getD_some, invByte_invol _ _ h,
    getD_eq_of_lt bs i hi]

/-- encode ∘ decode is the identity at every position whose byte is not `0x7E`. -/
theorem encode_decode_at (bs : Bytes) (i : Nat) (hi : i < bs.length) (h : bs.getD i 0 ≠ 0x7E) :
    (encode (decode bs))[i]? = bs[i]? := by
  have hl := decode_length bs
  have h2 : bs.length - 1 - i < bs.length := by omega
  have h3 : bs.length - 1 - (bs.length - 1 - i) = i := by omega
  have he := encode_get (decode bs) i (by rw [hl]; exact hi)
  have hd := decode_get bs (bs.length - 1 - i) h2
  rw [hl] at he
  rw [h3] at hd
  rw [he, List.getD_eq_getElem?_getD, hd, Option.getD_some, invByte_invol _ _ h,
    getD_eq_of_lt bs i hi]

/-- Whole-string corollary: strings without `0x7E` round-trip exactly, both ways. -/
theorem decode_encode (bs : Bytes) (h : ∀ b ∈ bs, b ≠ 0x7E) : decode (encode bs) = bs := by
  apply List.ext_getElem?
  intro i
  by_cases hi : i < bs.length
  · apply decode_encode_at bs i hi
    apply h
    rw [List.getD_eq_getElem?_getD, List.getElem?_eq_getElem hi, Option.getD_some]
    exact List.getElem_mem hi
  · have hi' : bs.length ≤ i := by omega
    rw [List.getElem?_eq_none hi', List.getElem?_eq_none]
    rw [decode_length, encode_length]; exact hi'

theorem encode_decode (bs : Bytes) (h : ∀ b ∈ bs, b ≠ 0x7E) : encode (decode bs) = bs := by
  apply List.ext_getElem?
  intro i
  by_cases hi : i < bs.length
  · apply encode_decode_at bs i hi
    apply h
    rw [List.getD_eq_getElem?_getD, List.getElem?_eq_getElem hi, Option.getD_some]
    exact List.getElem_mem hi
  · have hi' : bs.length ≤ i := by omega
    rw [List.getElem?_eq_none hi', List.getElem?_eq_none]
    rw [encode_length, decode_length]; exact hi'

/-- Neither direction creates or destroys a `0x00` / `0xFF`: position `i` of the output holds one
    iff the mirrored position of the input holds the same byte. -/
theorem encode_break_safe (bs : Bytes) (i : Nat) (hi : i < bs.length) (v : Nat) (hv : v = 0x00 ∨ v = 0xFF) :
    ((encode bs)[i]? = some v ↔ bs[bs.length - 1 - i]? = some v) ∧
    ((decode bs)[i]? = some v ↔ bs[bs.length - 1 - i]? = some v) := by
  have h2 : bs.length - 1 - i < bs.length := by omega
  have hb := invByte_break_safe
  rw [encode_get bs i hi, decode_get bs i hi, getD_eq_of_lt bs _ h2]
  simp only [Option.some.injEq]
  rcases hv with rfl | rfl
  · exact ⟨(hb _ _).1, (hb _ _).1⟩
  · exact ⟨(hb _ _).2, (hb _ _).2⟩

/-- In particular no `0xFF` appears in the encoding of a string that has none (used by C06). -/
theorem encode_no_FF (bs : Bytes) (h : 0xFF ∉ bs) : 0xFF ∉ encode bs := by
  intro hm
  obtain ⟨i, hi, hx⟩ := List.getElem_of_mem hm
  have hi' : i < bs.length := by rw [encode_length] at hi; exact hi
  have h1 : (encode bs)[i]? = some 0xFF := by rw [List.getElem?_eq_getElem hi, hx]
  have h2 := ((encode_break_safe bs i hi' 0xFF (Or.inr rfl)).1).1 h1
  exact h (List.mem_of_getElem? h2)

/-! Sanity instances (tests, labelled as such). -/
example : encode [0x48, 0x65, 0x6c, 0x6c, 0x6f] = [0x5e, 0x33, 0x61, 0x3a, 0x29] := by decide
example : decode (encode [0x7E, 0x41]) ≠ [0x7E, 0x41] := by decide

end EoVerif.Str
