import EoVerif.Spec.RW
import EoVerif.Lemmas.RW
/-!
# C04 — EoWriter output read back by EoReader returns the values written
-/
namespace EoVerif.RW

/-- Strings come back as their cp1252 image: characters outside windows-1252 become `?`, and
    nothing else changes. -/
theorem ansi_image (s : Ansi.Str) :
    image s = s.map (fun c => if (Ansi.encodeCp? c).isSome then c else 0x3F) := by
  exact image_eq s

/-- **Round trip**: for every well-formed sequence of typed writes on a fresh writer, every write is
    accepted, and reading the output with the matching calls in the same order on a fresh reader
    returns the values written (strings as their cp1252 image) and consumes the output exactly. -/
theorem roundtrip (items : List Item) (h : wellFormed items = true) :
    ∃ w, writeAll {} (items.map Item.writeOp) = .ok w ∧
      (readAll (Reader.new w.data) (items.map Item.readOp)).2 = items.map (fun i => .ok i.expect) ∧
      (readAll (Reader.new w.data) (items.map Item.readOp)).1.pos = w.data.length ∧
      (readAll (Reader.new w.data) (items.map Item.readOp)).1.remaining = 0 := by
  obtain ⟨hw, hr⟩ := roundtrip_gen items {} h rfl
  refine ⟨_, hw, ?_⟩
  have hrd := hr (Reader.new ([] ++ allBytes items)) [] rfl rfl rfl
  rw [hrd]
  refine ⟨rfl, rfl, ?_⟩
  simp [Reader.remaining, Reader.new]

/-! Non-vacuity / sanity (tests, labelled as such): a multi-feature well-formed sequence, and the
    documented lossy inputs really are lossy. -/
def sampleItems : List Item :=
  [.char 252, .short 64008, .three 0, .int 4097152080, .byte 255, .bytes [0, 255, 254],
   .fixedString [0x41, 0x394, 0x20AC] true 5, .fixedEncodedString [0x48, 0x69] false 2,
   .fixedEncodedString [0x48, 0x69] true 4, .encodedString [0x48, 0xFF, 0x21]]
example : wellFormed sampleItems = true := by decide
example : (readAll (Reader.new ((Writer.run {} (sampleItems.map Item.writeOp)).data)) (sampleItems.map Item.readOp)).2
    = sampleItems.map (fun i => .ok i.expect) := by decide
example : wellFormed [.fixedString [0xFF, 0x41] true 3] = false := by decide
example : (readAll (Reader.new ((Writer.run {} [.addFixedString [0xFF, 0x41] 3 true]).data)) [.getFixedString 3 true]).2
    = [.ok (.str [])] := by decide

end EoVerif.RW
