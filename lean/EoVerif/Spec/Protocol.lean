import EoVerif.Model.GenExec
import EoVerif.Spec.AReader
/-!
# The declarative reading of the eo-protocol grammar

An interpretation of the XML that is independent of the generator: `elab` turns a specification
into a typed instruction tree (booleans read as booleans, lengths as numbers or field references,
case values as integers), `wire` says which bytes the XML prescribes for an object, `readSpec`
(further down) says which object the reading rules prescribe for a byte string.  Nothing here
mentions the generator's context flags, emitted guards or local variables.
-/
namespace EoVerif.Spec
open EoVerif.Gen (IntKind Value)

/-- declared length of a string or array -/
inductive TLen where
  | lit (n : Int)
  | byField (name : String)
  deriving Repr, DecidableEq, Inhabited

/-- the wire type of one item -/
inductive Scalar where
  | int (k : IntKind)
  | bool (k : IntKind)
  | enum (k : IntKind)
  | str (encoded : Bool) (len : Option TLen) (padded : Bool)
  | blob
  | struct (name : String)
  deriving Repr, DecidableEq, Inhabited

inductive ConstV where
  | int (n : Int)
  | bool (b : Bool)
  | str (s : String)
  deriving Repr, DecidableEq, Inhabited

mutual
inductive TInstr where
  /-- a named field holding a value of the object -/
  | field (name : String) (ty : Scalar) (optional : Bool)
  /-- an unnamed field: a constant on the wire, nothing in the object -/
  | const (ty : Scalar) (value : ConstV)
  /-- a named field with a hard-coded value -/
  | namedConst (name : String) (ty : Scalar) (value : ConstV) (optional : Bool)
  /-- a length field: carries `len(object.ref) - offset` -/
  | length (name : String) (k : IntKind) (offset : Int) (optional : Bool) (ref : String)
  | array (name : String) (elem : Scalar) (len : Option TLen) (optional delimited trailing : Bool)
      (elemFixed : Option Int)
  | dummy (ty : Scalar) (value : ConstV)
  | switch (field : String) (cases : List TCase)
  | chunked (body : List TInstr)
  | brk
  deriving Repr, Inhabited
inductive TCase where
  /-- `cond = none` is the default case; an empty body is a case without data -/
  | mk (cond : Option Int) (cls : String) (body : List TInstr)
  deriving Repr, Inhabited
end

structure TClass where
  name : String
  body : List TInstr
  deriving Repr, Inhabited

structure TSpec where
  classes : List TClass
  deriving Repr, Inhabited

def TSpec.find? (t : TSpec) (n : String) : Option TClass := t.classes.find? (·.name == n)

/-! ## Elaboration -/

structure Env where
  /-- enum name ↦ (underlying kind, members (name, ordinal)) -/
  enums : List (String × IntKind × List (String × Int))
  structs : List String

def xmlBool (e : Xml) (name : String) (dflt : Bool := false) : Bool :=
  match e.get name with
  | none => dflt
  | some t => PyStr.lower t == "true"

/-- resolve a `type` attribute (with optional `:underlying` override) -/
def scalarOf (env : Env) (typeStr : String) (len : Option TLen) (padded : Bool) : Option Scalar :=
  let parts := PyStr.splitColon typeStr
  let base := parts.headD typeStr
  let over : Option IntKind := match parts with | [_, u] => IntKind.ofName? u | _ => none
  match IntKind.ofName? base with
  | some k => some (.int k)
  | none =>
    if base == "bool" then some (.bool (over.getD .char))
    else if base == "string" then some (.str false len padded)
    else if base == "encoded_string" then some (.str true len padded)
    else if base == "blob" then some .blob
    else match env.enums.find? (·.1 == base) with
      | some (_, k, _) => some (.enum (over.getD k))
      | none => if env.structs.contains base then some (.struct base) else none

def tlenOf (s : Option String) : Option TLen :=
  s.map (fun l => match PyStr.pyInt? l with | some n => .lit n | none => .byField l)

def constOf (ty : Scalar) (text : String) : ConstV :=
  match ty with
  | .str _ _ _ => .str text
  | .bool _ => .bool (text == "true")
  | _ => .int ((PyStr.pyInt? text).getD 0)

/-- the name of the field/array whose `length=` refers to length field `n`, searching `rest` -/
def findRef (n : String) : List Xml → String
  | [] => ""
  | e :: rest => if (e.tag == "field" || e.tag == "array") && e.get "length" == some n then (e.get "name").getD "" else findRef n rest

/-- declared fixed size of an element type, when it has one (needed by the reading rule for arrays
    without a length): integers, bools and enums have their size; strings a literal length; structs the
    sum of their items if all are fixed and there is no optional / chunked / switch / variable-length item. -/
def fixedOfScalar (structSize : String → Option Int) : Scalar → Option Int
  | .int k | .bool k | .enum k => some k.size
  | .str _ (some (.lit n)) _ => some n
  | .str _ _ _ => none
  | .blob => none
  | .struct n => structSize n

/-- the declared `type` of the field named `n` in a class body (looking inside `<chunked>` sections) -/
def findFieldType (n : String) : List Xml → Option String
  | [] => none
  | .mk tag attrs text tail children :: rest =>
    let e := Xml.mk tag attrs text tail children
    if tag == "field" && e.get "name" == some n then e.get "type"
    else if tag == "chunked" then
      (match findFieldType n children with
       | some t => some t
       | none => findFieldType n rest)
    else findFieldType n rest

/-- members of the enum a `type` attribute names (ignoring an `:underlying` override) -/
def enumMembers (env : Env) (typeStr : Option String) : List (String × Int) :=
  match typeStr with
  | none => []
  | some t =>
    let base := (PyStr.splitColon t).headD t
    match env.enums.find? (·.1 == base) with
    | some (_, _, ms) => ms
    | none => []

mutual
def elabInstr (env : Env) (structSize : String → Option Int) (clsName : String) (scope following : List Xml) :
    Xml → Option (List TInstr)
  | .mk tag attrs text tail children =>
    let e := Xml.mk tag attrs text tail children
    let textOf : Option String := match e.getText with | .ok t => t | .error _ => none
    if tag == "field" then
      let padded := xmlBool e "padded"
      match (e.get "type").bind (fun t => scalarOf env t (tlenOf (e.get "length")) padded) with
      | none => none
      | some ty =>
        match e.get "name", textOf with
        | none, some t => some [.const ty (constOf ty t)]
        | none, none => none
        | some n, some t => some [.namedConst n ty (constOf ty t) (xmlBool e "optional")]
        | some n, none => some [.field n ty (xmlBool e "optional")]
    else if tag == "length" then
      match e.get "name", (e.get "type").bind IntKind.ofName? with
      | some n, some k =>
        some [.length n k ((e.get "offset").bind PyStr.pyInt? |>.getD 0) (xmlBool e "optional") (findRef n following)]
      | _, _ => none
    else if tag == "array" then
      match e.get "name", (e.get "type").bind (fun t => scalarOf env t none false) with
      | some n, some ty =>
        some [.array n ty (tlenOf (e.get "length")) (xmlBool e "optional") (xmlBool e "delimited")
               (xmlBool e "trailing-delimiter" true) (fixedOfScalar structSize ty)]
      | _, _ => none
    else if tag == "dummy" then
      match (e.get "type").bind (fun t => scalarOf env t none false), textOf with
      | some ty, some t => some [.dummy ty (constOf ty t)]
      | _, _ => none
    else if tag == "chunked" then
      (elabBody env structSize clsName scope children false).map (fun b => [.chunked b])
    else if tag == "break" then some [.brk]
    else if tag == "switch" then
      match e.get "field" with
      | none => none
      | some f => (elabCases env structSize clsName f (enumMembers env (findFieldType f scope)) children).map (fun cs => [.switch f cs])
    else some []

def elabBody (env : Env) (structSize : String → Option Int) (clsName : String) (scope : List Xml) : List Xml → Bool → Option (List TInstr)
  | [], _ => some []
  | c :: cs, b =>
    match elabInstr env structSize clsName scope cs c, elabBody env structSize clsName scope cs b with
    | some a, some r => some (a ++ r)
    | _, _ => none

def elabCases (env : Env) (structSize : String → Option Int) (clsName fieldName : String) (members : List (String × Int)) : List Xml → Option (List TCase)
  | [] => some []
  | c :: cs =>
    match c with
    | .mk ctag cattrs ctext ctail cchildren =>
      let ce := Xml.mk ctag cattrs ctext ctail cchildren
      if ctag != "case" then elabCases env structSize clsName fieldName members cs
      else
        let dflt := xmlBool ce "default"
        let valueText := (ce.get "value").getD ""
        let cls := clsName ++ "." ++ PyStr.snakeToPascal fieldName ++ "Data" ++ (if dflt then "Default" else valueText)
        -- a case value is a numeral, or the name of a member of the switch field's enum
        let cond : Option Int :=
          if dflt then none
          else match PyStr.pyInt? valueText with
            | some n => some n
            | none => (members.find? (·.1 == valueText)).map (·.2)
        match elabBody env structSize cls cchildren cchildren false, elabCases env structSize clsName fieldName members cs with
        | some b, some r => some (TCase.mk cond cls b :: r)
        | _, _ => none
end

/-! ## `wire`: the bytes the XML prescribes -/

/-- a refusal (`none`) or the bytes -/
abbrev W := Option Bytes

def limitOf : IntKind → Int
  | .byte => 256 | .char => 253 | .short => 64009 | .three => 16194277 | .int => 4097152081

/-- the declared encoding of a non-negative integer below the type's limit -/
def encInt (k : IntKind) (n : Int) : W :=
  if n < 0 ∨ n ≥ limitOf k then none
  else match k with
    | .byte => some [n.toNat]
    | _ => match Num.encode n with
      | .ok bs => some (bs.take k.size)
      | .error _ => none

/-- cp1252 image, `ÿ → y` when sanitising -/
def strBytes (san : Bool) (s : List Nat) : Bytes :=
  let bs := Ansi.encode s
  if san then bs.map (fun b => if b = 0xFF then 0x79 else b) else bs

def lengthLimit (k : IntKind) (offset : Int) : Int := limitOf k - 1 + offset

structure LenInfo where
  k : IntKind
  offset : Int

/-- one item; `lens` gives the declared length fields of the body, `call` writes a struct -/
def wireScalar (call : String → Value → Bool → W) (lens : String → Option LenInfo) (san : Bool) :
    Scalar → Value → W
  | .int k, .int n => encInt k n
  | .int k, .bool b => encInt k (if b then 1 else 0)
  | .bool k, v => (match v with | .none => none | _ => encInt k (if v.truthy then 1 else 0))
  | .enum k, v => (match v.toInt? with | some n => encInt k n | none => none)
  | .str encoded len padded, .str s =>
    let payload := strBytes san s
    let body : W :=
      match len with
      | none => some payload
      | some (.lit n) =>
        if padded then (if (s.length : Int) ≤ n then some (payload ++ List.replicate (n.toNat - s.length) 0xFF) else none)
        else (if (s.length : Int) = n then some payload else none)
      | some (.byField f) =>
        match lens f with
        | some li => if (s.length : Int) ≤ lengthLimit li.k li.offset then some payload else none
        | none => none
    body.map (fun b => if encoded then Str.encode b else b)
  | .blob, .bytes bs => some bs
  | .struct n, v => (match v with | .obj _ _ _ => call n v san | _ => none)
  | _, _ => none

def constValue : ConstV → Value
  | .int n => .int n
  | .bool b => .bool b
  | .str s => .str (s.toList.map Char.toNat)

structure WSt where
  /-- bytes written so far by this body -/
  out : Bytes := []
  san : Bool
  /-- an absent optional was met in the current segment -/
  stopped : Bool := false

mutual

/-- instructions in document order; `lex` = lexically inside a `<chunked>` of this body -/
def wireInstrs (call : String → Value → Bool → W) (lens : String → Option LenInfo) (obj : Value) (lex : Bool) :
    List TInstr → WSt → Option WSt
  | [], st => some st
  | i :: rest, st =>
    match wireInstr call lens obj lex i st with
    | none => none
    | some st' => wireInstrs call lens obj lex rest st'

def wireInstr (call : String → Value → Bool → W) (lens : String → Option LenInfo) (obj : Value) (lex : Bool) :
    TInstr → WSt → Option WSt
  | .field name ty optional, st =>
    let v := obj.attr name
    if optional then
      if st.stopped || v.isNone then some { st with stopped := true }
      else (wireScalar call lens st.san ty v).map (fun b => { st with out := st.out ++ b })
    else (match v with
      | .none => none
      | _ => (wireScalar call lens st.san ty v).map (fun b => { st with out := st.out ++ b }))
  | .const ty c, st => (wireScalar call lens st.san ty (constValue c)).map (fun b => { st with out := st.out ++ b })
  | .namedConst _ ty c optional, st =>
    -- the object always holds the constant; as an optional item it is still subject to "stop at the first absent optional"
    if optional && st.stopped then some st
    else (wireScalar call lens st.san ty (constValue c)).map (fun b => { st with out := st.out ++ b })
  | .length _ k offset optional ref, st =>
    let rv := obj.attr ref
    if optional && (st.stopped || rv.isNone) then some { st with stopped := true }
    else match rv.len? with
      | none => none
      | some n => (encInt k ((n : Int) - offset)).map (fun b => { st with out := st.out ++ b })
  | .array name elem len optional delimited trailing _, st =>
    let v := obj.attr name
    if optional && (st.stopped || v.isNone) then some { st with stopped := true }
    else match v with
      | .tuple vs =>
        let lenOk : Bool := match len with
          | none => true
          | some (.lit n) => (vs.length : Int) == n
          | some (.byField f) => (match lens f with
            | some li => decide ((vs.length : Int) ≤ lengthLimit li.k li.offset)
            | none => false)
        if !lenOk then none
        else
          let rec elems (vs : List Value) (first : Bool) (acc : Bytes) : W :=
            match vs with
            | [] => some acc
            | x :: xs =>
              match wireScalar call lens st.san elem x with
              | none => none
              | some b =>
                let pre := if delimited && !trailing && !first then [0xFF] else []
                let post := if delimited && trailing then [0xFF] else []
                elems xs false (acc ++ pre ++ b ++ post)
          (elems vs true []).map (fun b => { st with out := st.out ++ b })
      | _ => none
  | .dummy ty c, st =>
    if st.out.isEmpty then (wireScalar call lens st.san ty (constValue c)).map (fun b => { st with out := st.out ++ b })
    else some st
  | .switch f cases, st =>
    let fv := obj.attr f
    let data := obj.attr (f ++ "_data")
    wireCases call lens lex fv data cases st
  | .chunked body, st =>
    if lex then wireInstrs call lens obj true body st
    else (wireInstrs call lens obj true body { st with san := true }).map (fun s => { s with san := false })
  | .brk, st => some { st with out := st.out ++ [0xFF], stopped := false }

/-- the case body selected by the switch value (first matching value, else the default) -/
def wireCases (call : String → Value → Bool → W) (lens : String → Option LenInfo) (lex : Bool) (fv data : Value) :
    List TCase → WSt → Option WSt
  | [], st => if data.isNone then some st else none   -- no case matches: there must be no case data
  | .mk cond cls body :: rest, st =>
    let hit : Bool := match cond with
      | none => true
      | some n => (match fv.toInt? with | some m => m == n | none => false)
    if !hit then wireCases call lens lex fv data rest st
    else if body.isEmpty then (if data.isNone then some st else none)
    else if data.cls? == some cls then
      -- a case body is a data structure of its own: own optional chain, own dummy rule, own length
      -- fields; the mode it starts in is the current one and is restored afterwards.  It is lexically
      -- inside whatever chunked section the switch sits in.
      (wireInstrs call (lensOf body) data lex body { san := st.san }).map (fun s => { st with out := st.out ++ s.out })
    else none

/-- the length fields declared in a body -/
def lensOf : List TInstr → String → Option LenInfo
  | [], _ => none
  | .length n k off _ _ :: rest, q => if n == q then some ⟨k, off⟩ else lensOf rest q
  | .chunked b :: rest, q => (match lensOf b q with | some li => some li | none => lensOf rest q)
  | _ :: rest, q => lensOf rest q

end

/-- the bytes of an object of class `cls` written in mode `san` (mode restored afterwards) -/
def wireClass (t : TSpec) : Nat → String → Value → Bool → W
  | 0, _, _, _ => none
  | fuel + 1, cls, obj, san =>
    match t.find? cls with
    | none => none
    | some c => (wireInstrs (wireClass t fuel) (lensOf c.body) obj false c.body { san := san }).map (·.out)

end EoVerif.Spec

namespace EoVerif.Spec
open EoVerif.Gen (IntKind Value ProtoFile)

/-! ## `readSpec`: the object the reading rules prescribe, over the documented reader model -/

structure RSt where
  r : AReader
  env : List (String × Value) := []
  /-- attributes of the object being built, in declaration order -/
  attrs : List (String × Value) := []
  start : Nat := 0

def RSt.get (s : RSt) (n : String) : Value := ((s.env.find? (·.1 == n)).map (·.2)).getD .missing
def RSt.bind (s : RSt) (n : String) (v : Value) : RSt :=
  { s with env := s.env.filter (·.1 != n) ++ [(n, v)],
           attrs := if s.attrs.any (·.1 == n) then s.attrs.map (fun p => if p.1 == n then (n, v) else p) else s.attrs ++ [(n, v)] }

/-- the only failure the rules allow: a negative fixed-string length -/
inductive RErr where
  | negativeLength
  | diverges
  deriving Repr, DecidableEq

abbrev RCall := String → AReader → Except RErr (AReader × Value)

def areadInt (r : AReader) (k : IntKind) : AReader × Int :=
  match k with
  | .byte => let (r', v) := r.step .getByte; (r', match v with | .ok (.int n) => n | _ => 0)
  | _ => let (r', bs) := r.read k.size; (r', Num.decode bs)

def readScalar (call : RCall) (s : RSt) : Scalar → Except RErr (AReader × Value)
  | .int k => let (r, n) := areadInt s.r k; .ok (r, .int n)
  | .bool k => let (r, n) := areadInt s.r k; .ok (r, .bool (n != 0))
  | .enum k => let (r, n) := areadInt s.r k; .ok (r, .int n)
  | .str encoded len padded =>
    let fin (bs : Bytes) : Value :=
      let bs := if encoded then Str.decode bs else bs
      let bs := if padded then Reader.removePadding bs else bs
      .str (Ansi.decode bs)
    (match len with
     | none => let (r, bs) := s.r.read s.r.remaining; .ok (r, fin bs)
     | some (.lit n) => if n < 0 then .error .negativeLength else let (r, bs) := s.r.read n.toNat; .ok (r, fin bs)
     | some (.byField f) =>
       match s.get f with
       | .int n => if n < 0 then .error .negativeLength else let (r, bs) := s.r.read n.toNat; .ok (r, fin bs)
       | _ => .error .negativeLength)
  | .blob => let (r, bs) := s.r.read s.r.remaining; .ok (r, .bytes bs)
  | .struct n => call n s.r

def nextChunkA (r : AReader) : AReader := (r.step .nextChunk).1

/-- `k` elements -/
def readCounted (call : RCall) (elem : Scalar) (delimited trailing : Bool) (n : Int) :
    Nat → Nat → RSt → List Value → Except RErr (RSt × List Value)
  | 0, _, s, acc => .ok (s, acc)
  | k + 1, i, s, acc =>
    match readScalar call s elem with
    | .error e => .error e
    | .ok (r, v) =>
      let r := if delimited && (trailing || (i : Int) + 1 < n) then nextChunkA r else r
      readCounted call elem delimited trailing n k (i + 1) { s with r := r } (acc ++ [v])

/-- elements until nothing remains (in the current chunk) -/
def readWhile (call : RCall) (elem : Scalar) (delimited : Bool) : Nat → RSt → List Value → Except RErr (RSt × List Value)
  | 0, s, acc => if s.r.remaining > 0 then .error .diverges else .ok (s, acc)
  | k + 1, s, acc =>
    if s.r.remaining == 0 then .ok (s, acc) else
    match readScalar call s elem with
    | .error e => .error e
    | .ok (r, v) =>
      let r' := if delimited then nextChunkA r else r
      if r'.pos == s.r.pos && r'.chunkStart == s.r.chunkStart && r'.remaining > 0 then .error .diverges
      else readWhile call elem delimited k { s with r := r' } (acc ++ [v])

mutual

def readInstrs (call : RCall) (lex : Bool) : List TInstr → RSt → Except RErr RSt
  | [], s => .ok s
  | i :: rest, s =>
    match readInstr call lex i s with
    | .error e => .error e
    | .ok s' => readInstrs call lex rest s'

def readInstr (call : RCall) (lex : Bool) : TInstr → RSt → Except RErr RSt
  | .field name ty optional, s =>
    if optional && s.r.remaining == 0 then .ok (s.bind name .none)
    else (match readScalar call s ty with
      | .error e => .error e
      | .ok (r, v) => .ok ({ s with r := r }.bind name v))
  | .const ty _, s => (readScalar call s ty).map (fun (r, _) => { s with r := r })
  | .namedConst name ty c optional, s =>
    if optional && s.r.remaining == 0 then .ok (s.bind name (constValue c))
    else (readScalar call s ty).map (fun (r, _) => ({ s with r := r }).bind name (constValue c))
  | .length name k offset optional _, s =>
    if optional && s.r.remaining == 0 then .ok (s.bind name .none)
    else let (r, n) := areadInt s.r k; .ok (({ s with r := r }).bind name (.int (n + offset)))
  | .array name elem len optional delimited trailing elemFixed, s =>
    if optional && s.r.remaining == 0 then .ok (s.bind name .none)
    else
      let count : Option Int :=
        match len with
        | some (.lit n) => some n
        | some (.byField f) => (match s.get f with | .int n => some n | _ => some 0)
        | none => if !delimited then (match elemFixed with
            | some sz => if sz == 0 then some 0 else some ((s.r.remaining : Int).tdiv sz)
            | none => none) else none
      let res := match count with
        | some n => readCounted call elem delimited trailing n n.toNat 0 s []
        | none => readWhile call elem delimited (2 * s.r.data.length + 2) s []
      (match res with
       | .error e => .error e
       | .ok (s', vs) => .ok (s'.bind name (.tuple vs)))
  | .dummy ty _, s =>
    if s.r.pos == s.start then (readScalar call s ty).map (fun (r, _) => { s with r := r }) else .ok s
  | .switch f cases, s => readCases call lex (s.get f) (f ++ "_data") cases (s.bind (f ++ "_data") .none)
  | .chunked body, s =>
    if lex then readInstrs call true body s
    else
      let on : RSt := { s with r := (s.r.step (.setChunked true)).1 }
      (match readInstrs call true body on with
       | .error e => .error e
       | .ok s' => .ok { s' with r := (s'.r.step (.setChunked false)).1 })
  | .brk, s => .ok { s with r := nextChunkA s.r }

def readCases (call : RCall) (lex : Bool) (fv : Value) (dataName : String) : List TCase → RSt → Except RErr RSt
  | [], s => .ok s
  | .mk cond cls body :: rest, s =>
    let hit : Bool := match cond with
      | none => true
      | some n => (match fv.toInt? with | some m => m == n | none => false)
    if !hit then readCases call lex fv dataName rest s
    else if body.isEmpty then .ok (s.bind dataName .none)
    else
      -- the case body is read as a data structure of its own, in the current mode (restored after)
      let mode := s.r.chunked
      match readInstrs call lex body { r := s.r, start := s.r.pos } with
      | .error e => .error e
      | .ok cs =>
        let r' := (cs.r.step (.setChunked mode)).1
        let obj := finishObj cls body cs.attrs ((cs.r.pos : Int) - s.r.pos)
        .ok ({ s with r := r' }.bind dataName obj)

/-- the finished object: declared attributes in order; a length field holds the length of the field
    it describes -/
def finishObj (cls : String) (body : List TInstr) (attrs : List (String × Value)) (size : Int) : Value :=
  let fix (p : String × Value) : String × Value :=
    match lenRefOf body p.1 with
    | some ref =>
      (match ((attrs.find? (·.1 == ref)).map (·.2)).getD .missing with
       | .str x => (p.1, .int x.length)
       | .tuple x => (p.1, .int x.length)
       | .none => (p.1, .none)
       | _ => p)
    | none => p
  .obj cls (attrs.map fix) size

def lenRefOf : List TInstr → String → Option String
  | [], _ => none
  | .length n _ _ _ ref :: rest, q => if n == q then some ref else lenRefOf rest q
  | .chunked b :: rest, q => (match lenRefOf b q with | some r => some r | none => lenRefOf rest q)
  | _ :: rest, q => lenRefOf rest q

end

def readClass (t : TSpec) : Nat → RCall
  | 0 => fun _ _ => .error .diverges
  | fuel + 1 => fun cls r =>
    match t.find? cls with
    | none => .error .diverges
    | some c =>
      let mode := r.chunked
      match readInstrs (readClass t fuel) false c.body { r := r, start := r.pos } with
      | .error e => .error e
      | .ok s =>
        .ok ((s.r.step (.setChunked mode)).1, finishObj cls c.body s.attrs ((s.r.pos : Int) - r.pos))

/-! ## Whole-specification elaboration -/

def sizeOfBody (env : Env) (ss : String → Option Int) : List Xml → Option Int
  | [] => some 0
  | e :: rest =>
    let here : Option Int :=
      if e.tag == "field" then
        if xmlBool e "optional" then none
        else ((e.get "type").bind (fun t => scalarOf env t (tlenOf (e.get "length")) false)).bind (fixedOfScalar ss)
      else if e.tag == "array" then
        if xmlBool e "optional" || xmlBool e "delimited" then none
        else match (e.get "length").bind PyStr.pyInt?, ((e.get "type").bind (fun t => scalarOf env t none false)).bind (fixedOfScalar ss) with
          | some n, some sz => some (n * sz)
          | _, _ => none
      else if e.tag == "dummy" then ((e.get "type").bind (fun t => scalarOf env t none false)).bind (fixedOfScalar ss)
      else if e.tag == "length" then ((e.get "type").bind IntKind.ofName?).map (fun k => (k.size : Int))
      else if e.tag == "chunked" || e.tag == "switch" then none
      else some 0
    match here, sizeOfBody env ss rest with
    | some a, some b => some (a + b)
    | _, _ => none

def structFixed (env : Env) (structs : List (String × Xml)) : Nat → String → Option Int
  | 0, _ => none
  | fuel + 1, n =>
    match structs.find? (·.1 == n) with
    | none => none
    | some (_, x) => sizeOfBody env (structFixed env structs fuel) x.children

def elabSpec (files : List ProtoFile) : Option TSpec :=
  let enumXs := (files.map (fun f => f.root.findall "enum")).flatten
  let structXs := (files.map (fun f => f.root.findall "struct")).flatten
  let enums := enumXs.filterMap (fun e =>
    match e.get "name", (e.get "type").bind IntKind.ofName? with
    | some n, some k => some (n, k, (e.findall "value").filterMap (fun v =>
        match v.get "name", (match v.getText with | .ok t => t | .error _ => none).bind PyStr.pyInt? with
        | some vn, some o => some (vn, o)
        | _, _ => none))
    | _, _ => none)
  let structs := structXs.filterMap (fun s => (s.get "name").map (fun n => (n, s)))
  let env : Env := ⟨enums, structs.map (·.1)⟩
  let ss := structFixed env structs (structs.length + 2)
  let mk (name : String) (x : Xml) : Option TClass := (elabBody env ss name x.children x.children false).map (fun b => ⟨name, b⟩)
  let structCs := structs.map (fun (n, x) => mk n x)
  let packetCs := (files.map (fun f => (f.root.findall "packet").map (fun p =>
    let suffix := if f.dir == "net/client" then "ClientPacket" else "ServerPacket"
    mk ((p.get "family").getD "" ++ (p.get "action").getD "" ++ suffix) p))).flatten
  if (structCs ++ packetCs).any Option.isNone then none
  else some ⟨(structCs ++ packetCs).filterMap id⟩

end EoVerif.Spec
