import EoVerif.Model.Xml
/-!
# Type-level well-formedness rules of a specification, stated declaratively

Rules that need to look at declarations rather than at the position in a body: enum declarations,
type references of fields / arrays / length fields / dummies, packets, file roots, uniqueness of type
names.  Like `WellFormed.lean`, nothing here mentions the generator's data structures.
-/
namespace EoVerif.Spec

def intTypeNames : List String := ["byte", "char", "short", "three", "int"]
def builtinTypeNames : List String := intTypeNames ++ ["bool", "string", "encoded_string", "blob"]

/-- the text of an element as the grammar reads it: stripped `.text`, else the single non-blank tail of
    a child; `none` when there is none or more than one piece of text -/
def textOf (e : Xml) : Option String :=
  let t := PyStr.strip (e.text.getD "")
  let tails := Xml.nonBlankTails e.children
  match tails with
  | [] => if t.isEmpty then none else some t
  | [x] => if t.isEmpty then some x else none
  | _ => none

/-- an `<enum>` declaration: a name, an integer underlying type other than itself, and values with
    names, integer ordinals, no ordinal twice and no name twice (`None` is spelled `None_`) -/
def enumWF (e : Xml) : Bool :=
  match e.get "name", e.get "type" with
  | some n, some ty =>
    intTypeNames.contains ty && n != ty &&
    (let vals := e.findall "value"
     let names : List (Option String) := vals.map (fun v => (v.get "name").map (fun x => if x == "None" then x ++ "_" else x))
     let ords : List (Option Int) := vals.map (fun v => PyStr.tryParseInt (textOf v))
     names.all Option.isSome && ords.all Option.isSome &&
     decide (names.Nodup) && decide (ords.Nodup))
  | _, _ => false

/-- names of the custom types a forest declares (enums first, then structs, per file, in file order) -/
def declaredTypeNames (roots : List Xml) : List String :=
  (roots.map (fun r => ((r.findall "enum") ++ (r.findall "struct")).filterMap (fun e => e.get "name"))).flatten

/-- the element's own `name` attribute contains a `':'`.  An enum whose own name contains `':'` is resolved
    by the generator as an underlying-type override of ANOTHER enum (the part before the colon), so its
    own `type` attribute and its own values' ordinals are never read.  Counterexample to the unguarded
    rule: `<enum name="A" type="char">…</enum>` + `<enum name="A:char" type="string"/>` is accepted. -/
def nameHasColon (e : Xml) : Bool :=
  match e.get "name" with
  | some n => PyStr.splitColon n != [n]
  | none => false

/-- a forest's type declarations: every file root is `<protocol>`, every enum / struct has a name, no type
    name is declared twice (across all files), and every enum declaration whose name has no `':'` is
    well-formed (see `nameHasColon` for why the others are exempt) -/
def declsWF (roots : List Xml) : Bool :=
  roots.all (fun r => r.tag == "protocol") &&
  roots.all (fun r => ((r.findall "enum") ++ (r.findall "struct")).all (fun e => (e.get "name").isSome)) &&
  decide ((declaredTypeNames roots).Nodup) &&
  roots.all (fun r => (r.findall "enum").all (fun e => nameHasColon e || enumWF e))

/-- a `<packet>` of a file in directory `dir`: only under `net/client` or `net/server`, with family and
    action attributes naming members of the `PacketFamily` / `PacketAction` enums, and no other packet
    with the same family and action earlier in the same file -/
def packetWF (families actions : List String) (dir : String) (earlier : List Xml) (p : Xml) : Bool :=
  (dir == "net/client" || dir == "net/server") &&
  (match p.get "family", p.get "action" with
   | some f, some a =>
     families.contains f && actions.contains a &&
     !(earlier.any (fun q => q.get "family" == some f && q.get "action" == some a))
   | _, _ => false)

def memberNames (roots : List Xml) (enumName : String) : List String :=
  match (roots.map (fun r => r.findall "enum")).flatten.find? (fun e => e.get "name" == some enumName) with
  | some e => (e.findall "value").filterMap (fun v => v.get "name")
  | none => []

def packetsWFAux (fams acts : List String) (dir : String) : List Xml → List Xml → Bool
  | _, [] => true
  | earlier, p :: ps => packetWF fams acts dir earlier p && packetsWFAux fams acts dir (earlier ++ [p]) ps

/-- all packets of a forest given as `(dir, root)` pairs -/
def packetsWF (files : List (String × Xml)) : Bool :=
  let roots := files.map (·.2)
  let fams := memberNames roots "PacketFamily"
  let acts := memberNames roots "PacketAction"
  files.all (fun (dir, r) => packetsWFAux fams acts dir [] (r.findall "packet"))

end EoVerif.Spec
