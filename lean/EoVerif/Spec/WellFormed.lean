import EoVerif.Model.Xml
/-!
# Context-sensitive well-formedness of a specification body, stated declaratively

`wfBody` walks a class body (struct, packet or switch-case body) in document order carrying only
the *declarative* context of the position: whether it lies inside a `<chunked>` section (of the same
class, or of the class the enclosing switch sits in), whether an optional item / a `<dummy>` occurred
earlier in the current segment (segments end at `<break>`), and which field and length-field names
are visible (those declared earlier in the **same** class body — a case body starts with none).
It returns `none` as soon as one of these grammar rules is broken:

* anything after a `<dummy>`;
* a required field / array / length after an optional one;
* a field name declared twice in a body;
* `length=` that is neither a numeral nor a visible length field, or a length field referenced twice;
* a delimited array or a `<break>` outside a chunked section;
* an unnamed field without a value, an unnamed optional field, an array or length field without a name,
  a `<dummy>` without a value;
* a switch (with at least one case) on a field that is not visible, or whose first case is the default.

Rules about *types* (unknown types, hard-coded values of the wrong type, enum declarations, packets)
need the type environment and are not part of this predicate.
-/
namespace EoVerif.Spec

/-- how the grammar reads a boolean attribute -/
def battr (e : Xml) (name : String) : Bool :=
  match e.get name with
  | none => false
  | some t => PyStr.lower t == "true"

structure WCtx where
  chunked : Bool := false
  afterOptional : Bool := false
  afterDummy : Bool := false
  /-- visible field names (length fields included) -/
  names : List String := []
  /-- visible length fields, with "already referenced" -/
  lens : List (String × Bool) := []
  deriving Repr, DecidableEq

def WCtx.lenState (c : WCtx) (n : String) : Option Bool := (c.lens.find? (·.1 == n)).map (·.2)

def WCtx.markRef (c : WCtx) (n : String) : WCtx :=
  { c with lens := c.lens.map (fun p => if p.1 == n then (p.1, true) else p) }

/-- has the element any text of its own (stripped `.text`, or a non-blank tail of a child) -/
def hasText (e : Xml) : Bool :=
  !(PyStr.strip (e.text.getD "")).isEmpty || !(Xml.nonBlankTails e.children).isEmpty

/-- the checks common to `<field>`, `<array>`, `<length>` and the context they leave behind -/
def wfNamed (c : WCtx) (e : Xml) (isArray isLength : Bool) : Option WCtx :=
  let optional := battr e "optional"
  if c.afterOptional && !optional then none
  else if isArray && battr e "delimited" && !c.chunked then none
  else
    match e.get "name" with
    | none =>
      -- unnamed: only plain fields, with a value, not optional
      if isArray || isLength then none
      else if !hasText e then none
      else if optional then none
      else
        (match e.get "length" with
         | none => some c
         | some l =>
           if !PyStr.isdigit l && (c.lenState l).isNone then none
           else if (c.lenState l).getD false then none
           else some c)
    | some n =>
      if c.names.contains n then none
      else
        let lenOk : Option WCtx :=
          if isLength then some c
          else match e.get "length" with
            | none => some c
            | some l =>
              if !PyStr.isdigit l && (c.lenState l).isNone then none
              else if (c.lenState l).getD false then none
              else some (if (c.lenState l).isSome then c.markRef l else c)
        lenOk.map (fun c' =>
          { c' with names := c'.names ++ [n],
                    lens := if isLength then c'.lens ++ [(n, false)] else c'.lens,
                    afterOptional := c'.afterOptional || optional })

mutual

def wfInstr (c : WCtx) : Xml → Option WCtx
  | .mk tag attrs text tail children =>
    let e := Xml.mk tag attrs text tail children
    if c.afterDummy then none
    else if tag == "field" then wfNamed c e false false
    else if tag == "array" then wfNamed c e true false
    else if tag == "length" then wfNamed c e false true
    else if tag == "dummy" then (if hasText e then some { c with afterDummy := true } else none)
    else if tag == "break" then
      (if c.chunked then some { c with afterOptional := false, afterDummy := false } else none)
    else if tag == "chunked" then
      (wfBody { c with chunked := true } children false).map (fun c' => { c' with chunked := c.chunked })
    else if tag == "switch" then
      match e.get "field" with
      | none => none
      | some f =>
        (wfCases c f children true c.afterOptional c.afterDummy).map
          (fun (ro, rd) => { c with afterOptional := ro, afterDummy := rd })
    else some c

/-- `onlyInstr`: class bodies look only at instruction elements; `<chunked>` looks at every child -/
def wfBody (c : WCtx) : List Xml → Bool → Option WCtx
  | [], _ => some c
  | x :: xs, onlyInstr =>
    if onlyInstr && !(Xml.instructionTags.contains x.tag) then wfBody c xs onlyInstr
    else match wfInstr c x with
      | none => none
      | some c' => wfBody c' xs onlyInstr

/-- the cases of a switch on field `f`; returns the merged "optional seen" / "dummy seen" flags -/
def wfCases (c : WCtx) (f : String) : List Xml → Bool → Bool → Bool → Option (Bool × Bool)
  | [], _, ro, rd => some (ro, rd)
  | x :: xs, start, ro, rd =>
    match x with
    | .mk ctag cattrs ctext ctail cchildren =>
      let ce := Xml.mk ctag cattrs ctext ctail cchildren
      if ctag != "case" then wfCases c f xs start ro rd
      else if battr ce "default" && start then none
      else if !battr ce "default" && (ce.get "value").isNone then none
      else if !c.names.contains f then none
      else
        -- a case body is a class of its own: it inherits the position flags, not the names
        match wfBody { c with names := [], lens := [] } cchildren true with
        | none => none
        | some c' => wfCases c f xs false (ro || c'.afterOptional) (rd || c'.afterDummy)

end

/-- a struct or packet element is well-formed (as far as the context rules go) -/
def wfClass (e : Xml) : Bool := (wfBody {} e.children true).isSome

end EoVerif.Spec
