import EoVerif.Model.Basic
/-! The game client's arithmetic: the published formula evaluated with truncating (C-style) `%`. -/
namespace EoVerif.Hash

def hashC (challenge : Int) : Int :=
  let ch := challenge + 1
  110905 + (ch.tmod 9 + 1) * (11092004 - ch).tmod ((ch.tmod 11 + 1) * 119) * 119 + ch.tmod 2004

end EoVerif.Hash
