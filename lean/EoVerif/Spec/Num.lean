import EoVerif.Model.Basic
/-! The documented positional formula for EO numbers (independent of the code's loop). -/
namespace EoVerif.Num

/-- The digits that count: at most four bytes, up to (not including) the first `0xFE`. -/
def digits (bs : Bytes) : Bytes := (bs.take 4).takeWhile (· ≠ 0xFE)

/-- `Σ_i (ds[i] − 1) · 253^(i+k)` -/
def positional (k : Nat) : Bytes → Int
  | [] => 0
  | b :: bs => ((b : Int) - 1) * 253 ^ k + positional (k + 1) bs

/-- sum of `(byte − 1) · 253^i` up to the first `0xFE`, at most four bytes. -/
def decodeFormula (bs : Bytes) : Int := positional 0 (digits bs)

end EoVerif.Num
