import EoVerif.Model.Reader
/-! The documented chunked-reading model, with no cache: the abstract reader. -/
namespace EoVerif

structure AReader where
  data : Bytes
  pos : Nat := 0
  chunked : Bool := false
  chunkStart : Nat := 0
  deriving Repr, DecidableEq

namespace AReader

/-- the break of the current chunk: first 0xFF at or after `chunkStart`, else the end of data -/
def brk (a : AReader) : Nat :=
  if a.chunkStart ≤ a.data.length then Reader.findFrom (a.data.drop a.chunkStart) a.chunkStart else a.data.length

def remaining (a : AReader) : Nat :=
  if a.chunked then a.brk - min a.pos a.brk else a.data.length - a.pos

/-- every read takes `min n remaining` bytes -/
def read (a : AReader) (n : Nat) : AReader × Bytes :=
  let k := min n a.remaining
  ({ a with pos := a.pos + k }, (a.data.drop a.pos).take k)

def step (a : AReader) : Reader.Op → AReader × Except PyErr Reader.Val
  | .getByte => let (a', bs) := a.read 1; (a', .ok (.int (bs.headD 0)))
  | .getBytes n => let (a', bs) := a.read n; (a', .ok (.bytes bs))
  | .getChar => let (a', bs) := a.read 1; (a', .ok (.int (Num.decode bs)))
  | .getShort => let (a', bs) := a.read 2; (a', .ok (.int (Num.decode bs)))
  | .getThree => let (a', bs) := a.read 3; (a', .ok (.int (Num.decode bs)))
  | .getInt => let (a', bs) := a.read 4; (a', .ok (.int (Num.decode bs)))
  | .getString => let (a', bs) := a.read a.remaining; (a', .ok (.str (Ansi.decode bs)))
  | .getFixedString length padded =>
    if length < 0 then (a, .error .ValueError) else
    let (a', bs) := a.read length.toNat
    (a', .ok (.str (Ansi.decode (if padded then Reader.removePadding bs else bs))))
  | .getEncodedString => let (a', bs) := a.read a.remaining; (a', .ok (.str (Ansi.decode (Str.decode bs))))
  | .getFixedEncodedString length padded =>
    if length < 0 then (a, .error .ValueError) else
    let (a', bs) := a.read length.toNat
    let bs := Str.decode bs
    (a', .ok (.str (Ansi.decode (if padded then Reader.removePadding bs else bs))))
  | .setChunked b => ({ a with chunked := b }, .ok .none)
  | .nextChunk =>
    if !a.chunked then (a, .error .RuntimeError) else
    let p := if a.brk < a.data.length then a.brk + 1 else a.brk
    ({ a with pos := p, chunkStart := p }, .ok .none)

end AReader
end EoVerif
