import EoVerif.Model.Writer
import EoVerif.Model.Reader
/-! Vocabulary for C04 (typed writes paired with their reads) and C06 (chunks and read plans). -/
namespace EoVerif.RW

/-- run a list of writes, stopping at the first rejected one -/
def writeAll (w : Writer) : List Writer.Op → Except PyErr Writer
  | [] => .ok w
  | op :: ops =>
    match w.step op with
    | (w', .ok ()) => writeAll w' ops
    | (_, .error e) => .error e

/-- run a list of reads, collecting every result -/
def readAll (r : Reader) : List Reader.Op → Reader × List (Except PyErr Reader.Val)
  | [] => (r, [])
  | op :: ops =>
    let (r', out) := r.step op
    let (r'', outs) := readAll r' ops
    (r'', out :: outs)

/-- the windows-1252 image of a string: what survives encode-then-decode -/
def image (s : Ansi.Str) : Ansi.Str := Ansi.decode (Ansi.encode s)

/-! ### C04: items -/

inductive Item where
  | byte (v : Nat) | bytes (bs : Bytes)
  | char (n : Int) | short (n : Int) | three (n : Int) | int (n : Int)
  | fixedString (s : Ansi.Str) (padded : Bool) (length : Nat)
  | fixedEncodedString (s : Ansi.Str) (padded : Bool) (length : Nat)
  | string (s : Ansi.Str) | encodedString (s : Ansi.Str)
  deriving Repr, DecidableEq

def Item.writeOp : Item → Writer.Op
  | .byte v => .addByte v
  | .bytes bs => .addBytes bs
  | .char n => .addChar n
  | .short n => .addShort n
  | .three n => .addThree n
  | .int n => .addInt n
  | .fixedString s p l => .addFixedString s l p
  | .fixedEncodedString s p l => .addFixedEncodedString s l p
  | .string s => .addString s
  | .encodedString s => .addEncodedString s

def Item.readOp : Item → Reader.Op
  | .byte _ => .getByte
  | .bytes bs => .getBytes bs.length
  | .char _ => .getChar
  | .short _ => .getShort
  | .three _ => .getThree
  | .int _ => .getInt
  | .fixedString _ p l => .getFixedString l p
  | .fixedEncodedString _ p l => .getFixedEncodedString l p
  | .string _ => .getString
  | .encodedString _ => .getEncodedString

def Item.expect : Item → Reader.Val
  | .byte v => .int v
  | .bytes bs => .bytes bs
  | .char n => .int n
  | .short n => .int n
  | .three n => .int n
  | .int n => .int n
  | .fixedString s _ _ => .str (image s)
  | .fixedEncodedString s _ _ => .str (image s)
  | .string s => .str (image s)
  | .encodedString s => .str (image s)

/-- unbounded items read to the end of the data -/
def Item.trailing : Item → Bool
  | .string _ => true
  | .encodedString _ => true
  | _ => false

/-- in-range integers, matching lengths, and none of the characters the format cannot carry
    (0xFF inside padded strings, `~` inside encoded strings) -/
def Item.ok : Item → Bool
  | .byte v => decide (v < 256)
  | .bytes _ => true
  | .char n => decide (0 ≤ n ∧ n < 253)
  | .short n => decide (0 ≤ n ∧ n < 64009)
  | .three n => decide (0 ≤ n ∧ n < 16194277)
  | .int n => decide (0 ≤ n ∧ n < 4097152081)
  | .fixedString s p l =>
    if p then decide (s.length ≤ l) && !(Ansi.encode s).contains 0xFF else decide (s.length = l)
  | .fixedEncodedString s p l =>
    !(Ansi.encode s).contains 0x7E &&
      (if p then decide (s.length ≤ l) && !(Ansi.encode s).contains 0xFF else decide (s.length = l))
  | .string _ => true
  | .encodedString s => !(Ansi.encode s).contains 0x7E

/-- every item ok; an unbounded item only as the last one -/
def wellFormed : List Item → Bool
  | [] => true
  | [x] => x.ok
  | x :: rest => x.ok && !x.trailing && wellFormed rest

/-! ### C06: chunks of fields and read plans -/

inductive Field where
  | char (n : Int) | short (n : Int) | three (n : Int) | int (n : Int)
  | string (s : Ansi.Str) | encodedString (s : Ansi.Str)
  /-- unpadded fixed strings: the declared length is the string's length -/
  | fixedString (s : Ansi.Str) | fixedEncodedString (s : Ansi.Str)
  deriving Repr, DecidableEq

def Field.writeOp : Field → Writer.Op
  | .char n => .addChar n
  | .short n => .addShort n
  | .three n => .addThree n
  | .int n => .addInt n
  | .string s => .addString s
  | .encodedString s => .addEncodedString s
  | .fixedString s => .addFixedString s s.length false
  | .fixedEncodedString s => .addFixedEncodedString s s.length false

def Field.readOp : Field → Reader.Op
  | .char _ => .getChar
  | .short _ => .getShort
  | .three _ => .getThree
  | .int _ => .getInt
  | .string _ => .getString
  | .encodedString _ => .getEncodedString
  | .fixedString s => .getFixedString s.length false
  | .fixedEncodedString s => .getFixedEncodedString s.length false

/-- the sanitised windows-1252 bytes of a string (ÿ → y) -/
def sanBytes (s : Ansi.Str) : Bytes := (Ansi.encode s).map (fun b => if b = 0xFF then 0x79 else b)
/-- what a sanitised string reads back as -/
def sanImage (s : Ansi.Str) : Ansi.Str := Ansi.decode (sanBytes s)

def Field.expect : Field → Reader.Val
  | .char n => .int n
  | .short n => .int n
  | .three n => .int n
  | .int n => .int n
  | .string s => .str (sanImage s)
  | .encodedString s => .str (sanImage s)
  | .fixedString s => .str (sanImage s)
  | .fixedEncodedString s => .str (sanImage s)

def Field.trailing : Field → Bool
  | .string _ => true
  | .encodedString _ => true
  | _ => false

def Field.ok : Field → Bool
  | .char n => decide (0 ≤ n ∧ n < 253)
  | .short n => decide (0 ≤ n ∧ n < 64009)
  | .three n => decide (0 ≤ n ∧ n < 16194277)
  | .int n => decide (0 ≤ n ∧ n < 4097152081)
  | .string _ => true
  | .encodedString s => !(sanBytes s).contains 0x7E
  | .fixedString _ => true
  | .fixedEncodedString s => !(sanBytes s).contains 0x7E

def chunkOk : List Field → Bool
  | [] => true
  | [x] => x.ok
  | x :: rest => x.ok && !x.trailing && chunkOk rest

/-- a surplus read, issued after a chunk's own fields have all been read -/
inductive Surplus where
  | byte | bytes (n : Nat) | char | short | three | int | string | encodedString
  | fixedString (length : Nat) (padded : Bool) | fixedEncodedString (length : Nat) (padded : Bool)
  deriving Repr, DecidableEq

def Surplus.readOp : Surplus → Reader.Op
  | .byte => .getByte
  | .bytes n => .getBytes n
  | .char => .getChar
  | .short => .getShort
  | .three => .getThree
  | .int => .getInt
  | .string => .getString
  | .encodedString => .getEncodedString
  | .fixedString l p => .getFixedString l p
  | .fixedEncodedString l p => .getFixedEncodedString l p

/-- zeros and empty strings -/
def Surplus.zero : Surplus → Reader.Val
  | .byte => .int 0
  | .bytes _ => .bytes []
  | .char => .int 0
  | .short => .int 0
  | .three => .int 0
  | .int => .int 0
  | .string => .str []
  | .encodedString => .str []
  | .fixedString _ _ => .str []
  | .fixedEncodedString _ _ => .str []

/-- how a chunk is consumed: fewer fields than it holds, or all of them and then surplus reads -/
inductive Plan where
  | under (k : Nat)
  | over (surplus : List Surplus)
  deriving Repr, DecidableEq

def planOps (c : List Field) : Plan → List Reader.Op
  | .under k => (c.take k).map Field.readOp ++ [.nextChunk]
  | .over sp => c.map Field.readOp ++ sp.map Surplus.readOp ++ [.nextChunk]

def planExpect (c : List Field) : Plan → List (Except PyErr Reader.Val)
  | .under k => (c.take k).map (fun f => .ok f.expect) ++ [.ok .none]
  | .over sp => c.map (fun f => .ok f.expect) ++ sp.map (fun s => .ok s.zero) ++ [.ok .none]

/-- the writes for a list of chunks: fields of a chunk in order, chunks separated by a break byte -/
def chunkWrites : List (List Field) → List Writer.Op
  | [] => []
  | [c] => c.map Field.writeOp
  | c :: rest => c.map Field.writeOp ++ [.addByte 0xFF] ++ chunkWrites rest

def allPlanOps : List (List Field) → List Plan → List Reader.Op
  | c :: cs, p :: ps => planOps c p ++ allPlanOps cs ps
  | _, _ => []

def allPlanExpect : List (List Field) → List Plan → List (Except PyErr Reader.Val)
  | c :: cs, p :: ps => planExpect c p ++ allPlanExpect cs ps
  | _, _ => []

end EoVerif.RW
