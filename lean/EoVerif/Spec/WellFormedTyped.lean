import EoVerif.Model.Xml
import EoVerif.Spec.WellFormed
import EoVerif.Spec.WellFormedTypes
/-!
# Type-level well-formedness of the instructions of a specification, stated declaratively

`typedSpec` looks at every `<struct>` and `<packet>` of a forest with the table of the forest's type
declarations (`declTable`: every named `<enum>` with its member names and ordinals, every named `<struct>`;
the first declaration of a name wins) and walks each class body in document order, carrying only the
fields *visible* at the position (name, kind of type, "is an array") — those declared earlier in the
**same** class body: a `<chunked>` section shares the scope of its body, a case body starts with none.
Class bodies look only at instruction elements, `<chunked>` at every child (as in `wfBody`).  A body is
rejected as soon as one of these rules is broken:

* **T1 unknown types.**  The `type` attribute of every `<field>` (named or not), `<array>`, `<length>` and
  `<dummy>` must be present and resolve (`resolveKind`): it is `base` or `base:underlying`, split at
  **every** `':'` (so more than one `':'` never resolves, and `bool:` has the empty underlying name);
  `base` is a builtin (`byte char short three int bool string encoded_string blob`) or a declared enum /
  struct name — builtins shadow declarations of the same name; `:underlying` is allowed only when `base`
  is `bool` or an enum, and must be one of `byte char short three int`.  An `<array>` / `<length>` needs
  a `name`.
* **T2** the type of a `<length>` resolves to an integer type.
* **T3 hard-coded values** (the element's text, `textOf`; checked for named and unnamed `<field>`s and for
  `<dummy>`s): an integer type needs a numeral (`isdigit`), `bool` needs `true` / `false`, a string type
  whose `length` attribute reads as an integer (Python `int()`: a numeral, but also a length field *named*
  `0_3`) needs exactly that many characters; every other type — enum, struct, blob — takes no value at all.
* **T4** a `<field>` with a `length` attribute must have `type` exactly `string` or `encoded_string`.  The
  `length` of an `<array>` is an element count and puts no constraint on its type.
* **T5 switches.**  A `<switch>` needs a `field` attribute.  If it has at least one `<case>` child, the
  field must be visible, not an array, of an integer or enum type, and each non-default `<case>` needs a
  `value`: a numeral for an integer field; for an enum field, a value that reads as an integer (Python
  `int()`) must **not** be the ordinal of a declared member, and any other value must be a declared
  member name.  (So for an enum with a member *named* `7`, `value="7"` is read as the number 7.)

No guard was needed: every rule holds of every forest the generator accepts (`Props/C17c.lean`).  Where the
generator is *stricter* than one might expect, the rule says so (examples there): a hard-coded value on an
enum-typed field is rejected, and so is `type="string:char"`.  Nothing here mentions the generator's data.
-/
namespace EoVerif.Spec

/-- what the rules need to know about a type -/
inductive Kind where
  | int | bool | str | blob
  | enum (members : List String) (ordinals : List Int)
  | struct
  deriving DecidableEq, Repr

/-- association-list lookup, first entry wins -/
def lookup {α} (l : List (String × α)) (n : String) : Option α := (l.find? (·.1 == n)).map (·.2)

/-- an `<enum>` declaration: the names and the ordinals of its `<value name=…>ordinal</value>` children -/
def enumKind (e : Xml) : Kind :=
  .enum ((e.findall "value").filterMap (fun v => v.get "name"))
        ((e.findall "value").filterMap (fun v => PyStr.tryParseInt (textOf v)))

/-- the named declarations of one file: enums first, then structs -/
def declsOf (r : Xml) : List (String × Kind) :=
  (r.findall "enum").filterMap (fun e => (e.get "name").map (fun n => (n, enumKind e))) ++
  (r.findall "struct").filterMap (fun e => (e.get "name").map (fun n => (n, Kind.struct)))

def declTable (roots : List Xml) : List (String × Kind) := (roots.map declsOf).flatten

/-- a type name without `':'` -/
def baseKind (tbl : List (String × Kind)) (n : String) : Option Kind :=
  if intTypeNames.contains n then some .int
  else if n == "bool" then some .bool
  else if n == "string" || n == "encoded_string" then some .str
  else if n == "blob" then some .blob
  else lookup tbl n

/-- T1: a `type` attribute, `base` or `base:underlying` -/
def resolveKind (tbl : List (String × Kind)) (typeAttr : String) : Option Kind :=
  match PyStr.splitColon typeAttr with
  | [n] => baseKind tbl n
  | [n, u] =>
    if intTypeNames.contains u then
      match baseKind tbl n with
      | some .bool => some .bool
      | some (.enum ms os) => some (.enum ms os)
      | _ => none
    else none
  | _ => none

/-- T1 + T4: the type of a (non-array) `<field>` with its optional `length` attribute -/
def fieldKind (tbl : List (String × Kind)) (typeAttr : String) (len : Option String) : Option Kind :=
  match len with
  | none => resolveKind tbl typeAttr
  | some _ => if typeAttr == "string" || typeAttr == "encoded_string" then some .str else none

/-- T3: a hard-coded value `h` for a field of kind `k` whose `length` attribute is `len` -/
def valueOK (k : Kind) (len : Option String) (h : String) : Bool :=
  match k with
  | .int => PyStr.isdigit h
  | .bool => h == "true" || h == "false"
  | .str => (match PyStr.tryParseInt len with | some n => n == (h.length : Int) | none => true)
  | _ => false

/-- T3 for an element: if it has a text, the text is a value of kind `k` -/
def typedValue (k : Kind) (len : Option String) (e : Xml) : Bool :=
  match textOf e with
  | none => true
  | some h => valueOK k len h

def Kind.switchable : Kind → Bool
  | .int | .enum _ _ => true
  | _ => false

/-- T5: the `value` of a non-default `<case>` of a switch on a field of kind `k` -/
def caseValueOK (k : Kind) (c : Xml) : Bool :=
  match c.get "value" with
  | none => false
  | some v =>
    match k with
    | .int => PyStr.isdigit v
    | .enum members ordinals =>
      (match PyStr.pyInt? v with
       | some o => !ordinals.contains o
       | none => members.contains v)
    | _ => false

/-- visible fields: name, kind, is-array -/
abbrev Visible := List (String × Kind × Bool)

/-- a `<field>`, named or not: T1, T4, T3; a named one becomes visible -/
def typedField (tbl : List (String × Kind)) (vis : Visible) (e : Xml) : Option Visible :=
  match e.get "type" with
  | none => none
  | some ty =>
    match fieldKind tbl ty (e.get "length") with
    | none => none
    | some k =>
      if typedValue k (e.get "length") e then
        some (match e.get "name" with | some n => vis ++ [(n, k, false)] | none => vis)
      else none

/-- an `<array>`: T1 for the element type -/
def typedArray (tbl : List (String × Kind)) (vis : Visible) (e : Xml) : Option Visible :=
  match e.get "name", e.get "type" with
  | some n, some ty => (resolveKind tbl ty).map (fun k => vis ++ [(n, k, true)])
  | _, _ => none

/-- a `<length>`: T1, T2 -/
def typedLength (tbl : List (String × Kind)) (vis : Visible) (e : Xml) : Option Visible :=
  match e.get "name", e.get "type" with
  | some n, some ty => if resolveKind tbl ty = some .int then some (vis ++ [(n, .int, false)]) else none
  | _, _ => none

/-- a `<dummy>`: T1, T3 -/
def typedDummy (tbl : List (String × Kind)) (vis : Visible) (e : Xml) : Option Visible :=
  match e.get "type" with
  | none => none
  | some ty =>
    match resolveKind tbl ty with
    | none => none
    | some k => if typedValue k none e then some vis else none

mutual

def typedInstr (tbl : List (String × Kind)) (vis : Visible) : Xml → Option Visible
  | .mk tag attrs text tail children =>
    let e := Xml.mk tag attrs text tail children
    if tag == "field" then typedField tbl vis e
    else if tag == "array" then typedArray tbl vis e
    else if tag == "length" then typedLength tbl vis e
    else if tag == "dummy" then typedDummy tbl vis e
    else if tag == "chunked" then typedBody tbl vis children false
    else if tag == "switch" then
      match e.get "field" with
      | none => none
      | some f =>
        if !(children.any (·.tag == "case")) then some vis
        else match lookup vis f with
          | some (k, false) => if k.switchable && typedCases tbl k children then some vis else none
          | _ => none
    else some vis

/-- `onlyInstr`: class bodies look only at instruction elements; `<chunked>` looks at every child -/
def typedBody (tbl : List (String × Kind)) (vis : Visible) : List Xml → Bool → Option Visible
  | [], _ => some vis
  | x :: xs, onlyInstr =>
    if onlyInstr && !(Xml.instructionTags.contains x.tag) then typedBody tbl vis xs onlyInstr
    else match typedInstr tbl vis x with
      | none => none
      | some vis' => typedBody tbl vis' xs onlyInstr

/-- the `<case>` children of a switch on a field of kind `k`: value and body (a class of its own) -/
def typedCases (tbl : List (String × Kind)) (k : Kind) : List Xml → Bool
  | [] => true
  | x :: xs =>
    match x with
    | .mk ctag cattrs ctext ctail cchildren =>
      let ce := Xml.mk ctag cattrs ctext ctail cchildren
      if ctag != "case" then typedCases tbl k xs
      else (battr ce "default" || caseValueOK k ce) &&
           (typedBody tbl [] cchildren true).isSome && typedCases tbl k xs

end

/-- a struct or packet element is well-typed -/
def typedClass (tbl : List (String × Kind)) (e : Xml) : Bool := (typedBody tbl [] e.children true).isSome

/-- every struct and packet of every file of the forest is well-typed -/
def typedSpec (roots : List Xml) : Bool :=
  roots.all (fun r => (r.findall "struct" ++ r.findall "packet").all (typedClass (declTable roots)))

end EoVerif.Spec
