import EoVerif.Lemmas.DeConformBase
import EoVerif.Lemmas.ConformSwitch
/-! Definitions for C03b: the emitted deserializer statements as a relation on the declarative instruction
    tree (`OpsI` / `OpsL`), the declarations of a class body (`Decl`), and the computable side conditions
    (`bodyOK`) under which the two readings agree. -/
namespace EoVerif.Gen.DeConform
open EoVerif EoVerif.Gen EoVerif.Spec EoVerif.Gen.Conform

/-! ### The emitted reader call of a declarative scalar -/

def lenES : TLen → LenE
  | .lit n => .lit n
  | .byField f => .field f

def ioKindS : Scalar → IOKind
  | .int k => .int k
  | .bool k => .int k
  | .enum k => .int k
  | .str e len p => .str e (len.map lenES) p
  | .blob => .blob
  | .struct n => .struct n

def coerceS : Scalar → Coerce
  | .bool _ => .bool
  | .enum _ => .enum
  | _ => .none

def rdOp (tg : Target) (ty : Scalar) : DeOp := .read tg (ioKindS ty) (coerceS ty) 0

def wrapOpt (opt : Bool) (n : String) (body : List DeOp) : List DeOp :=
  if opt then [.optRead n body] else body

/-- the local holding the element count of an array read to the end of the data -/
def tempName (n : String) : String := n ++ "_length"

/-- the statements emitted for a (present) array -/
def arrayBody (n : String) (elem : Scalar) (len : Option TLen) (del trail : Bool) (ef : Option Int) : List DeOp :=
  let rd : DeOp := rdOp (.append n) elem
  let delim : Delim := if !del then .none else if !trail then .guarded else .always
  match len with
  | some (.lit k) => [.initList n, .forRange (.lit k) [rd] delim]
  | some (.byField f) => [.initList n, .forRange (.var f) [rd] delim]
  | none =>
    if !del then
      match ef with
      | some sz => [.lenVar (tempName n) sz, .initList n, .forRange (.var (tempName n)) [rd] delim]
      | none => [.initList n, .whileRemaining [rd] del]
    else [.initList n, .whileRemaining [rd] del]

def caseDe (fd : String) : TCase → DeCase
  | .mk cond cls b => ⟨cond, if b.isEmpty then .setNone fd else .callCls fd cls⟩

mutual
/-- `ops` are the statements the generator emits for the instruction (`lex`: lexically inside `<chunked>`;
    `pre`: nothing has been emitted for this class yet) -/
def OpsI (lex pre : Bool) : TInstr → List DeOp → Prop
  | .field n ty opt, ops => ops = wrapOpt opt n [rdOp (.var n) ty]
  | .const ty _, ops => ops = [rdOp .discard ty]
  | .namedConst n ty _ opt, ops => ops = wrapOpt opt n [rdOp (.var n) ty]
  | .length n k off opt _, ops => ops = wrapOpt opt n [.read (.var n) (.int k) .none off]
  | .array n elem len opt del trail ef, ops =>
    (del = true → lex = true) ∧ ops = wrapOpt opt n (arrayBody n elem len del trail ef)
  | .dummy ty _, ops => ops = [.dummyGuard [rdOp .discard ty]] ∨ (pre = true ∧ ops = [rdOp .discard ty])
  | .switch f cases, ops => ops = [.declNone (f ++ "_data"), .switch f (cases.map (caseDe (f ++ "_data")))]
  | .chunked b, ops =>
    if lex = true then OpsL true pre b ops
    else ∃ o, ops = [.setChunked true] ++ o ++ [.setChunked false] ∧ OpsL true false b o
  | .brk, ops => lex = true ∧ ops = [.nextChunk]
def OpsL (lex pre : Bool) : List TInstr → List DeOp → Prop
  | [], ops => ops = []
  | i :: rest, ops => ∃ o1 o2, ops = o1 ++ o2 ∧ OpsI lex pre i o1 ∧ OpsL lex (pre && o1.isEmpty) rest o2
end

/-! ### Declarations -/

inductive DKind where
  | param
  | const (c : ConstV)
  | len
  | arr
  | data
  deriving Repr, DecidableEq, Inhabited

def DKind.isLen : DKind → Bool | .len => true | _ => false
/-- the local of the generated code holds the attribute value (not so for a hard-coded field) -/
def DKind.isVar : DKind → Bool | .const _ => false | _ => true

/-- an attribute of the generated class: `lenOf` = the length field it sets in `__init__` -/
structure Decl where
  name : String
  kind : DKind
  optional : Bool
  lenOf : Option String
  deriving Repr, DecidableEq, Inhabited

def scalarLen : Scalar → Option String
  | .str _ (some (.byField l)) _ => some l
  | _ => none

def tlenRef : Option TLen → Option String
  | some (.byField l) => some l
  | _ => none

/-- does reading the array use the temporary `<name>_length`? -/
def usesTemp (len : Option TLen) (del : Bool) (ef : Option Int) : Bool :=
  len.isNone && !del && ef.isSome

mutual
def declsI : TInstr → List Decl
  | .field n ty opt => [⟨n, .param, opt, scalarLen ty⟩]
  | .namedConst n ty c opt => [⟨n, .const c, opt, scalarLen ty⟩]
  | .length n _ _ opt _ => [⟨n, .len, opt, none⟩]
  | .array n _ len opt _ _ _ => [⟨n, .arr, opt, tlenRef len⟩]
  | .switch f _ => [⟨f ++ "_data", .data, true, none⟩]
  | .chunked b => declsL b
  | .const _ _ => []
  | .dummy _ _ => []
  | .brk => []
def declsL : List TInstr → List Decl
  | [] => []
  | i :: rest => declsI i ++ declsL rest
end

mutual
/-- every name the generated `deserialize` assigns: the attributes and the temporaries -/
def namesI : TInstr → List String
  | .field n _ _ => [n]
  | .namedConst n _ _ _ => [n]
  | .length n _ _ _ _ => [n]
  | .array n _ len _ del _ ef => if usesTemp len del ef then [n, tempName n] else [n]
  | .switch f _ => [f ++ "_data"]
  | .chunked b => namesL b
  | .const _ _ => []
  | .dummy _ _ => []
  | .brk => []
def namesL : List TInstr → List String
  | [] => []
  | i :: rest => namesI i ++ namesL rest
end

theorem declsL_append : ∀ (a b : List TInstr), declsL (a ++ b) = declsL a ++ declsL b
  | [], b => by simp [declsL]
  | i :: a, b => by rw [List.cons_append, declsL, declsL, declsL_append a b, List.append_assoc]

theorem namesL_append : ∀ (a b : List TInstr), namesL (a ++ b) = namesL a ++ namesL b
  | [], b => by simp [namesL]
  | i :: a, b => by rw [List.cons_append, namesL, namesL, namesL_append a b, List.append_assoc]

mutual
theorem decl_names_sub_I : ∀ (i : TInstr) (d : Decl), d ∈ declsI i → d.name ∈ namesI i
  | .field n ty opt, d, h => by simp only [declsI, List.mem_singleton] at h; subst h; simp [namesI]
  | .namedConst n ty c opt, d, h => by simp only [declsI, List.mem_singleton] at h; subst h; simp [namesI]
  | .length n k off opt r, d, h => by simp only [declsI, List.mem_singleton] at h; subst h; simp [namesI]
  | .array n e len opt del tr ef, d, h => by
    simp only [declsI, List.mem_singleton] at h; subst h
    rw [namesI]; split <;> simp
  | .switch f cs, d, h => by simp only [declsI, List.mem_singleton] at h; subst h; simp [namesI]
  | .chunked b, d, h => by rw [declsI] at h; rw [namesI]; exact decl_names_sub_L b d h
  | .const _ _, d, h => by simp [declsI] at h
  | .dummy _ _, d, h => by simp [declsI] at h
  | .brk, d, h => by simp [declsI] at h
theorem decl_names_sub_L : ∀ (is : List TInstr) (d : Decl), d ∈ declsL is → d.name ∈ namesL is
  | [], d, h => by simp [declsL] at h
  | i :: rest, d, h => by
    rw [declsL, List.mem_append] at h
    rw [namesL, List.mem_append]
    rcases h with h | h
    · exact Or.inl (decl_names_sub_I i d h)
    · exact Or.inr (decl_names_sub_L rest d h)
end

/-! ### Length-field references, in a form the kernel can evaluate -/

mutual
def lenRefI : TInstr → String → Option String
  | .length n _ _ _ ref, q => if n == q then some ref else none
  | .chunked b, q => lenRefL b q
  | _, _ => none
def lenRefL : List TInstr → String → Option String
  | [], _ => none
  | i :: rest, q => match lenRefI i q with
    | some r => some r
    | none => lenRefL rest q
end

theorem lenRefL_eq : ∀ (b : List TInstr) (q : String), lenRefL b q = lenRefOf b q
  | [], q => by rw [lenRefL, lenRefOf]
  | .length n k off o r :: rest, q => by
    rw [lenRefL, lenRefI, lenRefOf, ← lenRefL_eq rest q]
    split <;> simp_all
  | .chunked b :: rest, q => by
    rw [lenRefL, lenRefI, lenRefOf, ← lenRefL_eq rest q, ← lenRefL_eq b q]
    cases lenRefL b q <;> rfl
  | .field _ _ _ :: rest, q => by simp [lenRefL, lenRefI, lenRefOf, lenRefL_eq rest q]
  | .const _ _ :: rest, q => by simp [lenRefL, lenRefI, lenRefOf, lenRefL_eq rest q]
  | .namedConst _ _ _ _ :: rest, q => by simp [lenRefL, lenRefI, lenRefOf, lenRefL_eq rest q]
  | .array _ _ _ _ _ _ _ :: rest, q => by simp [lenRefL, lenRefI, lenRefOf, lenRefL_eq rest q]
  | .dummy _ _ :: rest, q => by simp [lenRefL, lenRefI, lenRefOf, lenRefL_eq rest q]
  | .switch _ _ :: rest, q => by simp [lenRefL, lenRefI, lenRefOf, lenRefL_eq rest q]
  | .brk :: rest, q => by simp [lenRefL, lenRefI, lenRefOf, lenRefL_eq rest q]

/-! ### The side conditions (computable) -/

def declaredLen (Ds : List Decl) (l : String) : Bool := Ds.any (fun d => d.name == l && d.kind.isLen)
def declaredVar (Ds : List Decl) (f : String) : Bool := Ds.any (fun d => d.name == f && d.kind.isVar)

/-- a length-field reference names a length field declared before; no `padded` without a length -/
def scalarOK (Ds : List Decl) : Scalar → Bool
  | .str _ (some (.byField l)) _ => declaredLen Ds l
  | .str _ none true => false
  | _ => true

/-- a hard-coded value of a string type is a string -/
def constStrOK : Scalar → ConstV → Bool
  | .str _ _ _, .str _ => true
  | .str _ _ _, _ => false
  | _, _ => true

def lenOK (Ds : List Decl) : Option TLen → Bool
  | some (.byField l) => declaredLen Ds l
  | _ => true

/-- every length field is set by exactly one item of the class, and that is the item the declarative
    reading found for it -/
def lenRefsOK (b : List TInstr) : Bool :=
  (declsL b).all (fun d =>
    if d.kind.isLen then
      match (declsL b).filter (fun d' => d'.lenOf == some d.name) with
      | [d'] => lenRefL b d.name == some d'.name
      | _ => false
    else true)

mutual
def okI (Ds : List Decl) : TInstr → Bool
  | .field _ ty _ => scalarOK Ds ty
  | .const ty _ => scalarOK Ds ty
  | .namedConst _ ty c _ => scalarOK Ds ty && constStrOK ty c
  | .length _ _ _ opt _ => !opt
  | .array _ elem len _ _ _ ef => scalarOK Ds elem && lenOK Ds len && !(ef == some 0)
  | .dummy ty _ => scalarOK Ds ty
  | .switch f cases => declaredVar Ds f && okCases cases
  | .chunked b => okL Ds b
  | .brk => true
def okL (Ds : List Decl) : List TInstr → Bool
  | [] => true
  | i :: rest => okI Ds i && okL (Ds ++ declsI i) rest
def okCases : List TCase → Bool
  | [] => true
  | .mk _ _ b :: rest => (okL [] b && decide (namesL b).Nodup && lenRefsOK b) && okCases rest
end

/-- the side conditions on a class (or case) body -/
def bodyOK (b : List TInstr) : Bool := okL [] b && decide (namesL b).Nodup && lenRefsOK b

end EoVerif.Gen.DeConform
