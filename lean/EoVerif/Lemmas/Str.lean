import EoVerif.Model.Str
/-! Helper definitions and lemmas for C08. -/
namespace EoVerif.Str

/-- Value of `flippy` at position `i` of a string of length `n`. -/
def flagAt (n i : Nat) : Bool := (n + i) % 2 == 1

/-! ### Per-byte map in closed (natural-number) form -/

theorem invByte_false (c : Nat) :
    invByte false c = if 0x22 ≤ c ∧ c ≤ 0x7E then 0x9F - c else c := by
  unfold invByte
  split
  · simp only [Bool.false_eq_true, if_false]; omega
  · rfl

theorem invByte_true (c : Nat) : invByte true c =
    if 0x22 ≤ c ∧ c ≤ 0x7E then (if 0x50 ≤ c then 0xCD - c else 0x71 - c) else c := by
  unfold invByte
  split
  · simp only [if_true]; split <;> omega
  · rfl

/-! ### Flags -/

theorem flagAt_zero (n : Nat) : flagAt n 0 = (n % 2 == 1) := by simp [flagAt]

/-- The flag seen at position `i` when the running flag started as `f`. -/
def stepFlag (f : Bool) (i : Nat) : Bool := f != (i % 2 == 1)

theorem stepFlag_zero (f : Bool) : stepFlag f 0 = f := by simp [stepFlag]

theorem stepFlag_succ (f : Bool) (i : Nat) : stepFlag (!f) i = stepFlag f (i + 1) := by
  unfold stepFlag
  rcases Nat.mod_two_eq_zero_or_one i with h | h <;>
    have h' : (i + 1) % 2 = 1 - i % 2 := by omega
  all_goals (rw [h', h]; cases f <;> rfl)

theorem stepFlag_length (n i : Nat) : stepFlag (n % 2 == 1) i = flagAt n i := by
  unfold stepFlag flagAt
  rcases Nat.mod_two_eq_zero_or_one n with h | h <;>
    rcases Nat.mod_two_eq_zero_or_one i with h2 | h2 <;>
    have h' : (n + i) % 2 = (n % 2 + i % 2) % 2 := by omega
  all_goals (rw [h', h, h2]; rfl)

/-! ### `invertAux` / `invert` position-wise -/

theorem invertAux_length (f : Bool) (bs : Bytes) : (invertAux f bs).length = bs.length := by
  induction bs generalizing f with
  | nil => rfl
  | cons c cs ih => simp [invertAux, ih]

theorem invertAux_getElem? (f : Bool) (bs : Bytes) (i : Nat) :
    (invertAux f bs)[i]? = (bs[i]?).map (invByte (stepFlag f i)) := by
  induction bs generalizing f i with
  | nil => simp [invertAux]
  | cons c cs ih =>
    cases i with
    | zero => simp [invertAux, stepFlag_zero]
    | succ j => simp [invertAux, ih, stepFlag_succ]

theorem invert_length (bs : Bytes) : (invert bs).length = bs.length :=
  invertAux_length _ bs

theorem invert_getElem? (bs : Bytes) (i : Nat) :
    (invert bs)[i]? = (bs[i]?).map (invByte (flagAt bs.length i)) := by
  unfold invert
  rw [invertAux_getElem?, stepFlag_length]

theorem getD_eq_of_lt (bs : Bytes) (i : Nat) (h : i < bs.length) : bs[i]? = some (bs.getD i 0) := by
  simp [List.getD, List.getElem?_eq_getElem h]

end EoVerif.Str
