import EoVerif.Lemmas.RoundTripSize
import EoVerif.Lemmas.RoundTripObj
/-!
# Round trip at the level of the declarative semantics — bodies (nested instruction lists)
-/
set_option linter.unusedSimpArgs false

namespace EoVerif.Spec.RT
open EoVerif
open EoVerif.Gen (IntKind Value)

theorem wireCases_cons (cw : String → Value → Bool → W) (lens : String → Option LenInfo)
    (lex : Bool) (fv data : Value) (cond : Option Int) (cls : String) (body : List TInstr)
    (rest : List TCase) (st : WSt) :
    wireCases cw lens lex fv data (.mk cond cls body :: rest) st =
      if !caseHit cond fv then wireCases cw lens lex fv data rest st
      else if body.isEmpty then (if data.isNone then some st else none)
      else if data.cls? == some cls then
        (wireInstrs cw (lensOf body) data lex body { san := st.san }).map
          (fun s => { st with out := st.out ++ s.out })
      else none := by
  simp only [wireCases, caseHit]
  rfl

theorem readCases_cons (cr : RCall) (lex : Bool) (fv : Value) (dataName : String)
    (cond : Option Int) (cls : String) (body : List TInstr) (rest : List TCase) (s : RSt) :
    readCases cr lex fv dataName (.mk cond cls body :: rest) s =
      if !caseHit cond fv then readCases cr lex fv dataName rest s
      else if body.isEmpty then .ok (s.bind dataName .none)
      else
        match readInstrs cr lex body { r := s.r, start := s.r.pos } with
        | .error e => .error e
        | .ok cs =>
          .ok ({ s with r := (cs.r.step (.setChunked s.r.chunked)).1 }.bind dataName
            (finishObj cls body cs.attrs ((cs.r.pos : Int) - s.r.pos))) := by
  simp only [readCases, caseHit]
  rfl

/-! ### the writer only appends -/

theorem elems_mono (cw : String → Value → Bool → W) (lens : String → Option LenInfo)
    (elem : Scalar) (delimited trailing : Bool) (st : WSt) (vs : List Value) :
    ∀ (first : Bool) (acc out : Bytes),
      wireInstr.elems cw lens elem delimited trailing st vs first acc = some out →
      ∃ w, out = acc ++ w := by
  induction vs with
  | nil =>
    intro first acc out h
    simp only [wireInstr.elems, Option.some.injEq] at h
    exact ⟨[], by simp [h]⟩
  | cons x xs ih =>
    intro first acc out h
    simp only [wireInstr.elems] at h
    cases hx : wireScalar cw lens st.san elem x with
    | none => rw [hx] at h; cases h
    | some b =>
      rw [hx] at h
      simp only at h
      obtain ⟨w, hw⟩ := ih _ _ _ h
      exact ⟨(if (delimited && !trailing && !first) = true then [255] else []) ++ (b ++
        ((if (delimited && trailing) = true then [255] else []) ++ w)),
        by rw [hw]; simp only [List.append_assoc]⟩

mutual
theorem wireInstr_mono (cw : String → Value → Bool → W) :
    ∀ (i : TInstr) (lens : String → Option LenInfo) (obj : Value) (lex : Bool) (st st1 : WSt),
      wireInstr cw lens obj lex i st = some st1 → ∃ w, st1.out = st.out ++ w
  | .field name ty optional, lens, obj, lex, st, st1, hw => by
    simp only [wireInstr] at hw
    split at hw
    · split at hw
      · simp only [Option.some.injEq] at hw; subst hw; exact ⟨[], by simp⟩
      · obtain ⟨b, _, rfl⟩ := map_some_inv _ _ _ hw; exact ⟨b, rfl⟩
    · split at hw
      · cases hw
      · obtain ⟨b, _, rfl⟩ := map_some_inv _ _ _ hw; exact ⟨b, rfl⟩
  | .const ty c, lens, obj, lex, st, st1, hw => by
    simp only [wireInstr] at hw
    obtain ⟨b, _, rfl⟩ := map_some_inv _ _ _ hw; exact ⟨b, rfl⟩
  | .namedConst name ty c optional, lens, obj, lex, st, st1, hw => by
    simp only [wireInstr] at hw
    split at hw
    · simp only [Option.some.injEq] at hw; subst hw; exact ⟨[], by simp⟩
    · obtain ⟨b, _, rfl⟩ := map_some_inv _ _ _ hw; exact ⟨b, rfl⟩
  | .length name k offset optional ref, lens, obj, lex, st, st1, hw => by
    simp only [wireInstr] at hw
    split at hw
    · simp only [Option.some.injEq] at hw; subst hw; exact ⟨[], by simp⟩
    · split at hw
      · cases hw
      · obtain ⟨b, _, rfl⟩ := map_some_inv _ _ _ hw; exact ⟨b, rfl⟩
  | .dummy ty c, lens, obj, lex, st, st1, hw => by
    simp only [wireInstr] at hw
    split at hw
    · obtain ⟨b, _, rfl⟩ := map_some_inv _ _ _ hw; exact ⟨b, rfl⟩
    · simp only [Option.some.injEq] at hw; subst hw; exact ⟨[], by simp⟩
  | .array name elem len optional delimited trailing ef, lens, obj, lex, st, st1, hw => by
    simp only [wireInstr] at hw
    split at hw
    · simp only [Option.some.injEq] at hw; subst hw; exact ⟨[], by simp⟩
    · split at hw
      · rw [Option.ite_none_left_eq_some] at hw
        obtain ⟨b, _, rfl⟩ := map_some_inv _ _ _ hw.2; exact ⟨b, rfl⟩
      · cases hw
  | .switch f cases, lens, obj, lex, st, st1, hw => by
    simp only [wireInstr] at hw
    exact wireCases_mono cw cases lens lex _ _ st st1 hw
  | .chunked body, lens, obj, lex, st, st1, hw => by
    simp only [wireInstr] at hw
    split at hw
    · exact wireInstrs_mono cw body lens obj true st st1 hw
    · obtain ⟨s2, h2, rfl⟩ := map_some_inv _ _ _ hw
      exact wireInstrs_mono cw body lens obj true { st with san := true } s2 h2
  | .brk, lens, obj, lex, st, st1, hw => by
    simp only [wireInstr, Option.some.injEq] at hw
    subst hw; exact ⟨[0xFF], rfl⟩
theorem wireInstrs_mono (cw : String → Value → Bool → W) :
    ∀ (l : List TInstr) (lens : String → Option LenInfo) (obj : Value) (lex : Bool) (st st' : WSt),
      wireInstrs cw lens obj lex l st = some st' → ∃ w, st'.out = st.out ++ w
  | [], lens, obj, lex, st, st', hw => by
    simp only [wireInstrs, Option.some.injEq] at hw
    subst hw; exact ⟨[], by simp⟩
  | i :: rest, lens, obj, lex, st, st', hw => by
    simp only [wireInstrs] at hw
    cases h1 : wireInstr cw lens obj lex i st with
    | none => rw [h1] at hw; cases hw
    | some st1 =>
      rw [h1] at hw
      obtain ⟨w1, e1⟩ := wireInstr_mono cw i lens obj lex st st1 h1
      obtain ⟨w2, e2⟩ := wireInstrs_mono cw rest lens obj lex st1 st' hw
      exact ⟨w1 ++ w2, by rw [e2, e1, List.append_assoc]⟩
theorem wireCases_mono (cw : String → Value → Bool → W) :
    ∀ (cs : List TCase) (lens : String → Option LenInfo) (lex : Bool) (fv data : Value)
      (st st' : WSt),
      wireCases cw lens lex fv data cs st = some st' → ∃ w, st'.out = st.out ++ w
  | [], lens, lex, fv, data, st, st', hw => by
    simp only [wireCases] at hw
    split at hw
    · simp only [Option.some.injEq] at hw; subst hw; exact ⟨[], by simp⟩
    · cases hw
  | .mk cond cls body :: rest, lens, lex, fv, data, st, st', hw => by
    rw [wireCases_cons] at hw
    split at hw
    · exact wireCases_mono cw rest lens lex fv data st st' hw
    · split at hw
      · split at hw
        · simp only [Option.some.injEq] at hw; subst hw; exact ⟨[], by simp⟩
        · cases hw
      · split at hw
        · obtain ⟨s2, _, rfl⟩ := map_some_inv _ _ _ hw
          exact ⟨s2.out, rfl⟩
        · cases hw
end

/-! ### what follows an item that must end its segment -/

/-- a stopped writer writes nothing for an optional item and stays stopped -/
theorem wireInstr_stopped (cw : String → Value → Bool → W) (lens : String → Option LenInfo)
    (obj : Value) (lex : Bool) (i : TInstr) (st st1 : WSt) (hop : isOptional i = true)
    (hs : st.stopped = true)
    (hw : wireInstr cw lens obj lex i st = some st1) : st1.out = st.out ∧ st1.stopped = true := by
  cases i <;> simp only [isOptional] at hop <;> try cases hop
  all_goals
    simp only [wireInstr, hs, Bool.true_or, Bool.and_true, Bool.true_and, if_true,
      Option.some.injEq] at hw
    subst hw
    first | exact ⟨rfl, hs⟩ | exact ⟨rfl, rfl⟩

theorem brk_tail_end (cw : String → Value → Bool → W) (lens : String → Option LenInfo)
    (obj : Value) (lex : Bool) (r : List TInstr) (st st' : WSt) (w post : Bytes)
    (hw : wireInstrs cw lens obj lex (.brk :: r) st = some st') (e : st'.out = st.out ++ w) :
    End true (w ++ post) := by
  simp only [wireInstrs, wireInstr] at hw
  obtain ⟨w3, e3⟩ := wireInstrs_mono cw r lens obj lex _ st' hw
  simp only [List.append_assoc] at e3
  rw [e3] at e
  have := List.append_cancel_left e
  rw [← this]
  exact End.brk _

/-- an item in last position is followed by the end of its segment -/
theorem lastPos_end (cw : String → Value → Bool → W) (lens : String → Option LenInfo)
    (obj : Value) (lex ch tl : Bool) (rest : List TInstr) (st st' : WSt) (w post : Bytes)
    (hl : lastPos ch tl rest = true) (hw : wireInstrs cw lens obj lex rest st = some st')
    (e : st'.out = st.out ++ w) (htl : tl = true → End ch post) : End ch (w ++ post) := by
  cases rest with
  | nil =>
    simp only [wireInstrs, Option.some.injEq] at hw
    subst hw
    have : w = [] := (List.append_cancel_left (e.symm.trans (List.append_nil _).symm))
    subst this
    simpa using htl hl
  | cons i r =>
    cases i <;> simp only [lastPos] at hl <;> try cases hl
    exact brk_tail_end cw lens obj lex r st st' w post hw e

/-- after an optional item that stopped the writer, what follows ends the segment -/
theorem optTail_end (cw : String → Value → Bool → W) (lens : String → Option LenInfo)
    (obj : Value) (lex ch tl : Bool) (rest : List TInstr) :
    ∀ (st st' : WSt) (w post : Bytes), optTail ch tl rest = true → st.stopped = true →
      wireInstrs cw lens obj lex rest st = some st' → st'.out = st.out ++ w →
      (tl = true → End ch post) → End ch (w ++ post) := by
  induction rest with
  | nil =>
    intro st st' w post hot _ hw e htl
    simp only [wireInstrs, Option.some.injEq] at hw
    subst hw
    have : w = [] := (List.append_cancel_left (e.symm.trans (List.append_nil _).symm))
    subst this
    simpa using htl hot
  | cons i r ih =>
    intro st st' w post hot hs hw e htl
    by_cases hb : i = .brk
    · subst hb
      simp only [optTail] at hot
      subst hot
      exact brk_tail_end cw lens obj lex r st st' w post hw e
    · have hop : isOptional i = true ∧ optTail ch tl r = true := by
        cases i <;> simp only [optTail, Bool.and_eq_true] at hot <;>
          first | exact hot | exact absurd rfl hb
      simp only [wireInstrs] at hw
      cases h1 : wireInstr cw lens obj lex i st with
      | none => rw [h1] at hw; cases hw
      | some st1 =>
        rw [h1] at hw
        obtain ⟨e1, hs1⟩ := wireInstr_stopped cw lens obj lex i st st1 hop.1 hs h1
        exact ih st1 st' w post hop.2 hs1 hw (by rw [e1]; exact e) htl

/-! ### `<break>` and `<chunked>` -/

theorem brk_rt (cw : String → Value → Bool → W) (cr : RCall) (okc : OkC) (szc : SzC)
    (lens : String → Option LenInfo)
    (obj : Value) (lex ch tl cl cl' : Bool) (bound : List String) (rest : List TInstr)
    (st st1 : WSt) (s : RSt) (A₀ X post : Bytes)
    (hok : okInstr okc szc lex ch tl bound cl rest .brk = some cl')
    (hw : wireInstr cw lens obj lex .brk st = some st1)
    (hinv : Inv obj ch cl bound st s A₀ X) (hX : st.out ++ X = st1.out ++ post) :
    ∃ s1, readInstr cr lex .brk s = .ok s1 ∧
      Inv obj ch (ch || (cl && cl')) bound st1 s1 A₀ post := by
  simp only [okInstr] at hok
  split at hok
  case isFalse => cases hok
  rename_i hch
  simp only [Option.some.injEq] at hok
  subst hok
  simp only [wireInstr, Option.some.injEq] at hw
  subst hw
  have hXb := suffix_of_out st [0xFF] X post hX
  obtain ⟨hd, hp⟩ := hinv.frame [0xFF] post hXb
  have hcl : Clean s.r := hinv.clean (by simp [hch])
  have hnc := nextChunk_at s.r (A₀ ++ st.out) post (by rw [hd]; simp) hp
    (by rw [hinv.mode]; exact hch) hcl
  have hadv : Adv s.r (nextChunkA s.r) [0xFF].length (ch || true) := by
    rw [hnc]
    refine ⟨rfl, by show (A₀ ++ st.out).length + 1 = s.r.pos + 1; rw [hp], rfl, ?_⟩
    intro _
    refine ⟨Nat.le_refl _, ?_⟩
    show 0xFF ∉ (s.r.data.take ((A₀ ++ st.out).length + 1)).drop ((A₀ ++ st.out).length + 1)
    rw [List.drop_take_self]
    simp
  have hinv' := (hinv.advance [0xFF] post hXb _ true hadv).stop false
  exact ⟨_, by simp only [readInstr], hinv'.after cl⟩

/-- entering a chunked section -/
theorem Inv.enter {obj : Value} {bound : List String} {st : WSt} {s : RSt}
    {A₀ X : Bytes} (h : Inv obj false true bound st s A₀ X) :
    Inv obj true true bound { st with san := true }
      { s with r := (s.r.step (.setChunked true)).1 } A₀ X :=
  ⟨h.data, h.pos, h.start, rfl, rfl, fun _ => h.clean rfl, h.env, h.names, h.nodup, h.vals⟩

/-- leaving a chunked section -/
theorem Inv.leave {obj : Value} {c : Bool} {bound : List String} {st : WSt} {s : RSt}
    {A₀ X : Bytes} (h : Inv obj true c bound st s A₀ X) :
    Inv obj false true bound { st with san := false }
      { s with r := (s.r.step (.setChunked false)).1 } A₀ X :=
  ⟨h.data, h.pos, h.start, rfl, rfl, fun _ => h.clean rfl, h.env, h.names, h.nodup, h.vals⟩

/-! ### bodies as objects of their own (classes, switch cases) -/

/-- the invariant at the start of a body -/
theorem Inv.init (obj : Value) (ch cl : Bool) (r : AReader) (A X : Bytes)
    (hd : r.data = A ++ X) (hp : r.pos = A.length) (hm : r.chunked = ch)
    (hc : (ch || cl) = true → Clean r) :
    Inv obj ch cl [] { san := ch } { r := r, start := r.pos } A X := by
  refine ⟨?_, ?_, hp, hm, rfl, hc, rfl, rfl, List.nodup_nil, ?_⟩
  · show r.data = A ++ [] ++ X
    rw [hd]; simp only [List.append_nil]
  · show r.pos = A.length + 0
    rw [hp]; rfl
  · intro p hp; cases hp

/-- the invariant at the end of a body: the finished object is the one written -/
theorem body_finish (cls : String) (body : List TInstr) (data : Value) (ch a : Bool) (st' : WSt)
    (cs : RSt) (r : AReader) (A post : Bytes)
    (hshape : shapeOK cls body data = true)
    (hinv' : Inv data ch a (bodyNames body) st' cs A post)
    (hd : r.data = A ++ st'.out ++ post) (hp : r.pos = A.length) :
    SameFields (finishObj cls body cs.attrs ((cs.r.pos : Int) - r.pos)) data ∧
      Adv r (cs.r.step (.setChunked r.chunked)).1 st'.out.length (ch || a) ∧
      byteSizeOf (finishObj cls body cs.attrs ((cs.r.pos : Int) - r.pos)) = st'.out.length := by
  cases data with
  | obj cn fs sz =>
    simp only [shapeOK, Bool.and_eq_true, beq_iff_eq] at hshape
    obtain ⟨⟨hcn, hnames⟩, hfix⟩ := hshape
    subst hcn
    have hpos : cs.r.pos = A.length + st'.out.length := hinv'.pos
    refine ⟨?_, ⟨?_, ?_, rfl, ?_⟩, ?_⟩
    · exact finishObj_same cn body cs.attrs fs _ sz (by rw [hinv'.names, hnames])
        (by rw [hnames]; exact hinv'.nodup) hinv'.vals hfix
    · show cs.r.data = r.data
      rw [hinv'.data, hd]
    · show cs.r.pos = r.pos + st'.out.length
      rw [hpos, hp]
    · intro hs
      have := hinv'.clean hs
      exact ⟨this.1, this.2⟩
    · rw [finishObj_eq]
      simp only [byteSizeOf, hpos, hp]
      omega
  | _ => cases hshape

theorem caseHit_congr (cond : Option Int) (fv fv' : Value) (h : fv'.toInt? = fv.toInt?) :
    caseHit cond fv' = caseHit cond fv := by
  unfold caseHit
  rw [h]

theorem toInt_of_same (a b : Value) (h : SameFields a b) : a.toInt? = b.toInt? := by
  cases a <;> cases b <;> simp only [SameFields, strip] at h <;> first | cases h | rfl | skip
  all_goals
    first
    | (injection h with h; subst h; rfl)
    | rfl

/-- rebinding the attribute that was bound last -/
theorem bind_bind (s0 : RSt) (dn : String) (v v' : Value) (r' : AReader) (he : s0.env = s0.attrs)
    (hn : dn ∉ s0.attrs.map (·.1)) :
    ({ (s0.bind dn v) with r := r' }).bind dn v' = ({ s0 with r := r' }).bind dn v' := by
  rw [bind_fresh s0 dn v he hn, bind_fresh { s0 with r := r' } dn v' he hn]
  unfold RSt.bind
  have hf : ∀ l : List (String × Value), dn ∉ l.map (·.1) → l.filter (·.1 != dn) = l := by
    intro l hl
    rw [List.filter_eq_self]
    intro p hp
    simp only [bne_iff_ne, ne_eq]
    intro e
    exact hl (e ▸ List.mem_map_of_mem hp)
  have hm : ∀ l : List (String × Value), dn ∉ l.map (·.1) →
      l.map (fun p => if p.1 == dn then (dn, v') else p) = l := by
    intro l hl
    conv => rhs; rw [← List.map_id l]
    apply List.map_congr_left
    intro p hp
    have : (p.1 == dn) = false := by
      rw [beq_eq_false_iff_ne]
      intro e
      exact hl (e ▸ List.mem_map_of_mem hp)
    simp [this]
  simp only [List.filter_append, List.any_append, List.map_append, List.filter_cons, List.any_cons,
    List.map_cons, beq_self_eq_true, bne_self_eq_false, Bool.false_eq_true, if_false,
    List.filter_nil, List.append_nil, Bool.or_true, if_true, List.any_nil, List.map_nil,
    hf s0.env (he ▸ hn), hm s0.attrs hn]
  simp

/-! ### the simulation, by recursion on the instruction tree -/

mutual
theorem instr_rt (cw : String → Value → Bool → W) (cr : RCall) (okc : OkC) (szc : SzC) (rtc : RtC)
    (hcall : CallOK cw cr okc rtc) (hsz : SizeOK cw szc) :
    ∀ (i : TInstr) (lens : String → Option LenInfo) (obj : Value) (lex ch tl cl cl' : Bool)
      (bound : List String) (rest : List TInstr) (st st1 : WSt) (s : RSt) (A₀ X post : Bytes),
      okInstr okc szc lex ch tl bound cl rest i = some cl' →
      wireInstr cw lens obj lex i st = some st1 →
      rtInstr cw rtc lens obj lex i st = true →
      Inv obj ch cl bound st s A₀ X → st.out ++ X = st1.out ++ post →
      (lastPos ch tl rest = true → End ch post) →
      (optTail ch tl rest = true → st1.stopped = true → End ch post) →
      ∃ s1, readInstr cr lex i s = .ok s1 ∧
        Inv obj ch (ch || (cl && cl')) (bound ++ instrNames i) st1 s1 A₀ post
  | .field name ty optional, lens, obj, lex, ch, tl, cl, cl', bound, rest, st, st1, s, A₀, X, post,
      hok, hw, hv, hinv, hX, hlast, hopt =>
    field_rt cw cr okc szc rtc hcall lens obj lex ch tl cl cl' bound rest name ty optional st st1 s A₀ X
      post hok hw hv hinv hX hlast hopt
  | .const ty c, lens, obj, lex, ch, tl, cl, cl', bound, rest, st, st1, s, A₀, X, post,
      hok, hw, hv, hinv, hX, hlast, _ => by
    simp only [instrNames, List.append_nil]
    exact const_rt cw cr okc szc rtc hcall lens obj lex ch tl cl cl' bound rest ty c st st1 s A₀ X post
      hok hw hv hinv hX hlast
  | .namedConst name ty c optional, lens, obj, lex, ch, tl, cl, cl', bound, rest, st, st1, s, A₀, X,
      post, hok, hw, hv, hinv, hX, hlast, hopt =>
    namedConst_rt cw cr okc szc rtc hcall lens obj lex ch tl cl cl' bound rest name ty c optional st st1
      s A₀ X post hok hw hv hinv hX hlast hopt
  | .length name k offset optional ref, lens, obj, lex, ch, tl, cl, cl', bound, rest, st, st1, s,
      A₀, X, post, hok, hw, hv, hinv, hX, _, hopt =>
    length_rt cw cr okc szc rtc lens obj lex ch tl cl cl' bound rest name k offset optional ref st st1 s
      A₀ X post hok hw hv hinv hX hopt
  | .dummy ty c, lens, obj, lex, ch, tl, cl, cl', bound, rest, st, st1, s, A₀, X, post,
      hok, hw, hv, hinv, hX, hlast, _ => by
    simp only [instrNames, List.append_nil]
    exact dummy_rt cw cr okc szc rtc hcall lens obj lex ch tl cl cl' bound rest ty c st st1 s A₀ X post
      hok hw hv hinv hX hlast
  | .array name elem len optional delimited trailing ef, lens, obj, lex, ch, tl, cl, cl', bound,
      rest, st, st1, s, A₀, X, post, hok, hw, hv, hinv, hX, hlast, hopt =>
    array_rt cw cr okc szc rtc hcall hsz lens obj lex ch tl cl cl' bound rest name elem len optional
      delimited trailing ef st st1 s A₀ X post hok hw hv hinv hX hlast hopt
  | .switch f cases, lens, obj, lex, ch, tl, cl, cl', bound, rest, st, st1, s, A₀, X, post,
      hok, hw, hv, hinv, hX, hlast, _ => by
    simp only [okInstr] at hok
    rw [Option.ite_none_right_eq_some] at hok
    obtain ⟨hcond, hok⟩ := hok
    simp only [Bool.and_eq_true, Bool.not_eq_true', List.contains_eq_mem, decide_eq_true_eq,
      decide_eq_false_iff_not] at hcond
    obtain ⟨hf, hfresh⟩ := hcond
    simp only [wireInstr] at hw
    simp only [rtInstr] at hv
    simp only [instrNames]
    have hfv := toInt_of_same _ _ (hinv.get f hf)
    obtain ⟨hd, hp⟩ := hinv.frame [] X rfl
    obtain ⟨w, r', v', hst1, hrd, hsame, hadv⟩ := cases_rt cw cr okc szc rtc hcall hsz cases lens lex ch
      (lastPos ch tl rest) cl cl' (obj.attr f) (s.get f) (obj.attr (f ++ "_data")) (f ++ "_data")
      st st1 s (A₀ ++ st.out) X post hok hw hv hfv hX (by simpa using hd) hp hinv.mode hinv.san
      hinv.clean hlast hinv.env (by rw [hinv.names]; exact hfresh)
    subst hst1
    have hXw := suffix_of_out st w X post hX
    have hinv' := hinv.advance w post hXw r' cl' hadv
    refine ⟨_, by simp only [readInstr]; exact hrd, (hinv'.bind (f ++ "_data") v' ?_ hsame).after cl⟩
    simpa using hfresh
  | .chunked body, lens, obj, lex, ch, tl, cl, cl', bound, rest, st, st1, s, A₀, X, post,
      hok, hw, hv, hinv, hX, hlast, _ => by
    simp only [okInstr] at hok
    simp only [wireInstr] at hw
    simp only [rtInstr] at hv
    simp only [instrNames]
    cases lex with
    | true =>
      simp only [if_true] at hok hw hv
      split at hok
      case isFalse => cases hok
      rename_i hch
      subst hch
      obtain ⟨s1, h1, h2⟩ := instrs_rt cw cr okc szc rtc hcall hsz body lens obj true true
        (lastPos true tl rest) cl cl' bound st st1 s A₀ X post hok hw hv hinv hX hlast
      exact ⟨s1, by simp only [readInstr, if_true, h1], h2.after cl⟩
    | false =>
      simp only [Bool.false_eq_true, if_false] at hok hw hv
      split at hok
      case isFalse => cases hok
      rename_i hcc
      simp only [Bool.and_eq_true, Bool.not_eq_true'] at hcc
      obtain ⟨hch, hcl⟩ := hcc
      subst hch hcl
      obtain ⟨c, hokb, rfl⟩ := map_some_inv _ _ _ hok
      obtain ⟨s2, hw2, rfl⟩ := map_some_inv _ _ _ hw
      obtain ⟨s1, h1, h2⟩ := instrs_rt cw cr okc szc rtc hcall hsz body lens obj true true
        (lastPos false tl rest) true c bound { st with san := true } s2
        { s with r := (s.r.step (.setChunked true)).1 } A₀ X post hokb hw2 hv hinv.enter hX
        (fun hl => (hlast hl).mono true)
      refine ⟨{ s1 with r := (s1.r.step (.setChunked false)).1 }, ?_, ?_⟩
      · simp only [readInstr, Bool.false_eq_true, if_false, h1]
      · exact h2.leave
  | .brk, lens, obj, lex, ch, tl, cl, cl', bound, rest, st, st1, s, A₀, X, post,
      hok, hw, _, hinv, hX, _, _ => by
    simp only [instrNames, List.append_nil]
    exact brk_rt cw cr okc szc lens obj lex ch tl cl cl' bound rest st st1 s A₀ X post hok hw hinv hX
theorem instrs_rt (cw : String → Value → Bool → W) (cr : RCall) (okc : OkC) (szc : SzC) (rtc : RtC)
    (hcall : CallOK cw cr okc rtc) (hsz : SizeOK cw szc) :
    ∀ (instrs : List TInstr) (lens : String → Option LenInfo) (obj : Value) (lex ch tl cl cl' : Bool)
      (bound : List String) (st st' : WSt) (s : RSt) (A₀ X post : Bytes),
      okInstrs okc szc lex ch tl bound cl instrs = some cl' →
      wireInstrs cw lens obj lex instrs st = some st' →
      rtInstrs cw rtc lens obj lex instrs st = true →
      Inv obj ch cl bound st s A₀ X → st.out ++ X = st'.out ++ post →
      (tl = true → End ch post) →
      ∃ s', readInstrs cr lex instrs s = .ok s' ∧
        Inv obj ch cl' (bound ++ bodyNames instrs) st' s' A₀ post
  | [], lens, obj, lex, ch, tl, cl, cl', bound, st, st', s, A₀, X, post,
      hok, hw, _, hinv, hX, _ => by
    simp only [okInstrs, Option.some.injEq] at hok
    subst hok
    simp only [wireInstrs, Option.some.injEq] at hw
    subst hw
    have hXp : X = post := List.append_cancel_left hX
    subst hXp
    exact ⟨s, rfl, by simpa [bodyNames] using hinv⟩
  | i :: rest, lens, obj, lex, ch, tl, cl, cl', bound, st, st', s, A₀, X, post,
      hok, hw, hv, hinv, hX, htl => by
    simp only [okInstrs] at hok
    simp only [wireInstrs] at hw
    simp only [rtInstrs, Bool.and_eq_true] at hv
    cases hk : okInstr okc szc lex ch tl bound cl rest i with
    | none => rw [hk] at hok; cases hok
    | some c1 =>
      rw [hk] at hok
      simp only at hok
      cases h1 : wireInstr cw lens obj lex i st with
      | none => rw [h1] at hw; cases hw
      | some st1 =>
        rw [h1] at hw hv
        simp only at hw hv
        obtain ⟨w2, e2⟩ := wireInstrs_mono cw rest lens obj lex st1 st' hw
        have hX1 : st.out ++ X = st1.out ++ (w2 ++ post) := by
          rw [hX, e2, List.append_assoc]
        obtain ⟨s1, hr1, hinv1⟩ := instr_rt cw cr okc szc rtc hcall hsz i lens obj lex ch tl cl c1 bound rest
          st st1 s A₀ X (w2 ++ post) hk h1 hv.1 hinv hX1
          (fun hl => lastPos_end cw lens obj lex ch tl rest st1 st' w2 post hl hw e2 htl)
          (fun hot hs1 => optTail_end cw lens obj lex ch tl rest st1 st' w2 post hot hs1 hw e2 htl)
        obtain ⟨s', hr', hinv'⟩ := instrs_rt cw cr okc szc rtc hcall hsz rest lens obj lex ch tl
          (ch || (cl && c1)) cl' (bound ++ instrNames i) st1 st' s1 A₀ (w2 ++ post) post hok hw hv.2
          hinv1 (by rw [e2, List.append_assoc]) htl
        refine ⟨s', ?_, ?_⟩
        · simp only [readInstrs, hr1, hr']
        · simpa only [bodyNames, List.append_assoc] using hinv'
theorem cases_rt (cw : String → Value → Bool → W) (cr : RCall) (okc : OkC) (szc : SzC) (rtc : RtC)
    (hcall : CallOK cw cr okc rtc) (hsz : SizeOK cw szc) :
    ∀ (cs : List TCase) (lens : String → Option LenInfo) (lex ch tl cl cl' : Bool)
      (fv fv' data : Value) (dn : String) (st st1 : WSt) (s0 : RSt) (A X post : Bytes),
      okCases okc szc lex ch tl cl cs = some cl' →
      wireCases cw lens lex fv data cs st = some st1 →
      rtCases cw rtc lex fv data cs st = true →
      fv'.toInt? = fv.toInt? →
      st.out ++ X = st1.out ++ post →
      s0.r.data = A ++ X → s0.r.pos = A.length → s0.r.chunked = ch → st.san = ch →
      ((ch || cl) = true → Clean s0.r) → (tl = true → End ch post) →
      s0.env = s0.attrs → dn ∉ s0.attrs.map (·.1) →
      ∃ w r' v', st1 = { st with out := st.out ++ w } ∧
        readCases cr lex fv' dn cs (s0.bind dn .none) = .ok (({ s0 with r := r' }).bind dn v') ∧
        SameFields v' data ∧ Adv s0.r r' w.length (ch || cl')
  | [], lens, lex, ch, tl, cl, cl', fv, fv', data, dn, st, st1, s0, A, X, post,
      hok, hw, _, _, _, _, _, _, _, hcl, _, _, _ => by
    simp only [okCases, Option.some.injEq] at hok
    subst hok
    simp only [wireCases] at hw
    split at hw
    case isFalse => cases hw
    rename_i hnone
    simp only [Option.some.injEq] at hw
    subst hw
    refine ⟨[], s0.r, .none, by simp, rfl, ?_, Adv.refl s0.r _ hcl⟩
    rw [isNone_eq _ hnone]; exact rfl
  | .mk cond cls body :: rest, lens, lex, ch, tl, cl, cl', fv, fv', data, dn, st, st1, s0, A, X, post,
      hok, hw, hv, hfv, hX, hd, hp, hm, hsan, hcl, htl, henv, hdn => by
    simp only [okCases] at hok
    cases hoa : okInstrs okc szc lex ch tl [] cl body with
    | none => rw [hoa] at hok; cases hok
    | some a =>
      cases hob : okCases okc szc lex ch tl cl rest with
      | none => rw [hoa, hob] at hok; cases hok
      | some b' =>
        rw [hoa, hob] at hok
        simp only [Option.some.injEq] at hok
        subst hok
        rw [wireCases_cons] at hw
        simp only [rtCases] at hv
        rw [readCases_cons, caseHit_congr cond fv fv' hfv]
        by_cases hhit : caseHit cond fv = true
        · simp only [hhit, Bool.not_true, Bool.false_eq_true, if_false] at hw hv ⊢
          by_cases hemp : body.isEmpty = true
          · simp only [hemp, if_true] at hw ⊢
            split at hw
            case isFalse => cases hw
            rename_i hnone
            simp only [Option.some.injEq] at hw
            subst hw
            have hbody : body = [] := List.isEmpty_iff.1 hemp
            subst hbody
            simp only [okInstrs, Option.some.injEq] at hoa
            subst hoa
            refine ⟨[], s0.r, .none, by simp, ?_, ?_, Adv.refl s0.r _ ?_⟩
            · have hb := bind_bind s0 dn .none .none s0.r henv hdn
              have he : ({ (s0.bind dn .none) with r := s0.r } : RSt) = s0.bind dn .none := by
                rw [bind_fresh s0 dn .none henv hdn]
              rw [he] at hb
              rw [hb]
            · rw [isNone_eq _ hnone]; exact rfl
            · intro h; apply hcl
              cases ch <;> cases cl <;> cases b' <;> simp_all
          · simp only [hemp, Bool.false_eq_true, if_false] at hw hv ⊢
            split at hw
            case isFalse => cases hw
            obtain ⟨s2, hws, rfl⟩ := map_some_inv _ _ _ hw
            simp only [Bool.and_eq_true] at hv
            obtain ⟨hshape, hrt⟩ := hv
            rw [lensL_fun, hsan] at hrt
            rw [hsan] at hws
            have hXw : X = s2.out ++ post := suffix_of_out st s2.out X post hX
            have hinv0 := Inv.init data ch cl s0.r A X hd hp hm hcl
            obtain ⟨cs', hrd, hinv'⟩ := instrs_rt cw cr okc szc rtc hcall hsz body (lensOf body) data lex ch
              tl cl a [] { san := ch } s2 { r := s0.r, start := s0.r.pos } A X post hoa hws hrt hinv0
              (by simpa using hXw) htl
            simp only [List.nil_append] at hinv'
            obtain ⟨h1, h2, _⟩ := body_finish cls body data ch a s2 cs' s0.r A post hshape hinv'
              (by rw [hd, hXw, List.append_assoc]) hp
            refine ⟨s2.out, (cs'.r.step (.setChunked s0.r.chunked)).1, _, rfl, ?_, h1,
              h2.weaken _ (by intro h; cases ch <;> cases a <;> cases b' <;> simp_all)⟩
            have hrd' : readInstrs cr lex body
                { r := (s0.bind dn .none).r, start := (s0.bind dn .none).r.pos } = .ok cs' := by
              rw [bind_fresh s0 dn .none henv hdn]; exact hrd
            simp only [hrd']
            rw [show (s0.bind dn .none).r = s0.r by rw [bind_fresh s0 dn .none henv hdn]]
            rw [bind_bind s0 dn .none _ _ henv hdn]
        · simp only [hhit, Bool.not_false, if_true] at hw hv ⊢
          obtain ⟨w, r', v', h1, h2, h3, h4⟩ := cases_rt cw cr okc szc rtc hcall hsz rest lens lex ch tl cl b' fv
            fv' data dn st st1 s0 A X post hob hw hv hfv hX hd hp hm hsan hcl htl henv hdn
          exact ⟨w, r', v', h1, h2, h3,
            h4.weaken _ (by intro h; cases ch <;> cases a <;> cases b' <;> simp_all)⟩
end

end EoVerif.Spec.RT
