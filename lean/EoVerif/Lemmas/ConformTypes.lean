import EoVerif.Lemmas.ConformBody
/-! Type resolution for C02: `getType` (the generator) against `scalarOf` (the declarative reading). -/
namespace EoVerif.Gen.Conform
open EoVerif EoVerif.Gen EoVerif.Spec EoVerif.Gen.WF

theorem splitOnChar_ne_nil (sep : Char) : ∀ (l cur : List Char), PyStr.splitOnChar sep l cur ≠ []
  | [], cur => by simp [PyStr.splitOnChar]
  | c :: cs, cur => by
    unfold PyStr.splitOnChar
    split
    · simp
    · exact splitOnChar_ne_nil sep cs _

theorem splitOnChar_single (sep : Char) : ∀ (l cur y : List Char), PyStr.splitOnChar sep l cur = [y] →
    y = cur.reverse ++ l
  | [], cur, y, h => by simp [PyStr.splitOnChar] at h; simp [h]
  | c :: cs, cur, y, h => by
    unfold PyStr.splitOnChar at h
    split at h
    · simp only [List.cons.injEq] at h
      exact absurd h.2 (splitOnChar_ne_nil sep cs [])
    · have := splitOnChar_single sep cs (c :: cur) y h
      simp [this]

theorem splitColon_single (s x : String) (h : PyStr.splitColon s = [x]) : x = s := by
  unfold PyStr.splitColon at h
  cases hl : PyStr.splitOnChar ':' s.toList [] with
  | nil => rw [hl] at h; cases h
  | cons a as =>
    rw [hl] at h
    cases as with
    | cons b bs => simp at h
    | nil =>
      simp only [List.map_cons, List.map_nil, List.cons.injEq, and_true] at h
      have := splitOnChar_single ':' s.toList [] a hl
      simp at this
      rw [← h, this, String.ofList_toList]


/-! ### `createType`, decomposed -/

def underOf (defs : Defs) (fuel : Nat) (parts : List String) : Except GenErr (Option Ty) :=
  match parts with
  | [_] => .ok none
  | [typeName, underName] =>
    if typeName == underName then .error "type cannot specify itself as an underlying type"
    else match getType defs fuel underName none with
      | .error m => .error m
      | .ok u => (match u with
        | .int _ => .ok (some u)
        | _ => .error "not a numeric type, cannot be an underlying type")
  | _ => .error "type syntax is invalid (only one colon is allowed)"

def customOf (defs : Defs) (fuel : Nat) (name : String) (underK : Option IntKind) : Except GenErr Ty :=
  match defs.find? name with
  | none => .error s!"{name} type is not defined"
  | some u =>
    if u.xml.tag == "enum" then createEnum defs fuel u underK
    else if u.xml.tag == "struct" then createStruct defs fuel u
    else .error "unhandled custom type element"

def resultOf (defs : Defs) (fuel : Nat) (name : String) (underK : Option IntKind) : Except GenErr Ty :=
  match IntKind.ofName? name with
  | some k => .ok (.int k)
  | none =>
    if name == "bool" then .ok (.bool (underK.getD .char))
    else if name == "string" then .ok (.str false none)
    else if name == "encoded_string" then .ok (.str true none)
    else if name == "blob" then .ok .blob
    else customOf defs fuel name underK

def finalOf (under : Option Ty) (result : Ty) : Except GenErr Ty :=
  match under, result with
  | some _, .bool _ => .ok result
  | some _, .enum _ _ _ _ => .ok result
  | some _, _ => .error "type has no underlying type; override not allowed"
  | none, _ => .ok result

def nameOf (s : String) : String := match PyStr.splitColon s with | n :: _ => n | [] => s

theorem createType_eq (defs : Defs) (fuel : Nat) (s : String) :
    createType defs (fuel + 1) s =
      match underOf defs fuel (PyStr.splitColon s) with
      | .error m => .error m
      | .ok under =>
        match resultOf defs fuel (nameOf s) (under.bind Ty.asInt?) with
        | .error m => .error m
        | .ok result => finalOf under result := by
  rw [createType]; rfl

theorem createType_ok {defs : Defs} {fuel : Nat} {s : String} {ty : Ty} (h : createType defs (fuel + 1) s = .ok ty) :
    ∃ under, underOf defs fuel (PyStr.splitColon s) = .ok under ∧
      resultOf defs fuel (nameOf s) (under.bind Ty.asInt?) = .ok ty ∧ finalOf under ty = .ok ty := by
  rw [createType_eq] at h
  cases hu : underOf defs fuel (PyStr.splitColon s) with
  | error m => rw [hu] at h; cases h
  | ok under =>
    rw [hu] at h
    simp only at h
    cases hr : resultOf defs fuel (nameOf s) (under.bind Ty.asInt?) with
    | error m => rw [hr] at h; cases h
    | ok r =>
      rw [hr] at h
      simp only at h
      have : r = ty := by
        unfold finalOf at h
        split at h <;> first | (cases h; rfl) | cases h
      subst this
      exact ⟨under, rfl, hr, h⟩

theorem underOf_ok {defs : Defs} {fuel : Nat} {parts : List String} {under : Option Ty}
    (h : underOf defs fuel parts = .ok under) :
    (∃ x, parts = [x] ∧ under = none) ∨
    (∃ x y k, parts = [x, y] ∧ getType defs fuel y none = .ok (.int k) ∧ under = some (.int k)) := by
  unfold underOf at h
  split at h
  · cases h; exact Or.inl ⟨_, rfl, rfl⟩
  · split at h
    · cases h
    · split at h
      · cases h
      · rename_i u hu
        split at h
        · cases h; exact Or.inr ⟨_, _, _, rfl, hu, rfl⟩
        · cases h
  · cases h

theorem createEnum_ok {defs : Defs} {fuel : Nat} {u : Unresolved} {o : Option IntKind} {t : Ty}
    (h : createEnum defs fuel u o = .ok t) : ∃ n p k v, t = .enum n p k v := by
  cases fuel with
  | zero => rw [createEnum] at h; cases h
  | succ f =>
    rw [createEnum] at h
    repeat' split at h
    all_goals first | (cases h; exact ⟨_, _, _, _, rfl⟩) | cases h

theorem createStruct_ok {defs : Defs} {fuel : Nat} {u : Unresolved} {t : Ty}
    (h : createStruct defs fuel u = .ok t) :
    ∃ n fs b, t = .struct n u.path fs b ∧ u.xml.getReq "name" = .ok n := by
  cases fuel with
  | zero => rw [createStruct] at h; cases h
  | succ f =>
    rw [createStruct] at h
    split at h
    · cases h
    · rename_i n hn
      dsimp only at h
      split at h
      · cases h
      · split at h
        · cases h
        · cases h; exact ⟨_, _, _, rfl, hn⟩

theorem getType_none (defs : Defs) (fuel : Nat) (s : String) :
    getType defs (fuel + 1) s none = createType defs fuel s := by rw [getType]

theorem finalOf_none {r ty : Ty} (h : finalOf none r = .ok ty) : r = ty := by
  unfold finalOf at h; cases r <;> (cases h; rfl)

/-- a resolved integer type is named by its own name -/
theorem getType_int {defs : Defs} {fuel : Nat} {y : String} {k : IntKind}
    (h : getType defs fuel y none = .ok (.int k)) : IntKind.ofName? y = some k := by
  cases fuel with
  | zero => rw [getType] at h; cases h
  | succ f =>
    rw [getType_none] at h
    cases f with
    | zero => rw [createType] at h; cases h
    | succ f =>
      obtain ⟨under, hu, hr, hf⟩ := createType_ok h
      rcases underOf_ok hu with ⟨x, hp, rfl⟩ | ⟨x, y', k', hp, _, rfl⟩
      · have hx : x = y := splitColon_single y x hp
        have hn : nameOf y = y := by unfold nameOf; rw [hp, hx]
        rw [hn] at hr
        unfold resultOf at hr
        split at hr
        · rename_i k' hk; cases hr; exact hk
        · repeat' split at hr
          all_goals first | cases hr | skip
          unfold customOf at hr
          repeat' split at hr
          all_goals first | cases hr | skip
          · obtain ⟨_, _, _, _, he⟩ := createEnum_ok hr; cases he
          · obtain ⟨_, _, _, he, _⟩ := createStruct_ok hr; cases he
      · unfold finalOf at hf; simp at hf

/-! ### Basic types: `getType` against `scalarOf` -/

def basicName (b : String) : Bool :=
  (IntKind.ofName? b).isSome || b == "bool" || b == "string" || b == "encoded_string" || b == "blob"

/-- the type names covered: the built-in types, `bool` possibly with an `:underlying` override -/
def okBasic (s : String) : Bool := basicName (nameOf s)

def overOf (parts : List String) : Option IntKind :=
  match parts with | [_, u] => IntKind.ofName? u | _ => none

theorem scalarOf_eq (env : Env) (s : String) (len : Option TLen) (padded : Bool) :
    scalarOf env s len padded =
      match IntKind.ofName? (nameOf s) with
      | some k => some (.int k)
      | none =>
        if nameOf s == "bool" then some (.bool ((overOf (PyStr.splitColon s)).getD .char))
        else if nameOf s == "string" then some (.str false len padded)
        else if nameOf s == "encoded_string" then some (.str true len padded)
        else if nameOf s == "blob" then some .blob
        else match env.enums.find? (·.1 == nameOf s) with
          | some (_, k, _) => some (.enum ((overOf (PyStr.splitColon s)).getD k))
          | none => if env.structs.contains (nameOf s) then some (.struct (nameOf s)) else none := by
  have hn : (PyStr.splitColon s).headD s = nameOf s := by
    unfold nameOf; cases PyStr.splitColon s <;> rfl
  unfold scalarOf
  simp only [hn]
  rfl

theorem tfOK_basic (defs : Defs) (fuel : Nat) (env : Env) : TfOK okBasic (getType defs (fuel + 2)) env := by
  refine ⟨?_, ?_, ?_, ?_⟩
  · intro s len ty padded hok h
    cases len with
    | some l =>
      rw [getType] at h
      split at h
      · rename_i hs
        cases h
        have : s = "string" := by simpa using hs
        subst this
        exact ⟨_, by rw [scalarOf_eq]; rfl, rfl⟩
      · split at h
        · rename_i hs
          cases h
          have : s = "encoded_string" := by simpa using hs
          subst this
          exact ⟨_, by rw [scalarOf_eq]; rfl, rfl⟩
        · cases h
    | none =>
      rw [getType_none] at h
      obtain ⟨under, hu, hr, hf⟩ := createType_ok h
      rw [scalarOf_eq]
      unfold okBasic basicName at hok
      unfold resultOf at hr
      cases hk : IntKind.ofName? (nameOf s) with
      | some k =>
        rw [hk] at hr; cases hr
        exact ⟨_, rfl, rfl⟩
      | none =>
        rw [hk] at hr hok
        simp only [Option.isSome_none, Bool.false_or] at hok hr
        by_cases h1 : (nameOf s == "bool") = true
        · rw [if_pos h1] at hr ⊢
          cases hr
          refine ⟨_, rfl, ?_⟩
          show Scalar.bool _ = Scalar.bool _
          rcases underOf_ok hu with ⟨x, hp, rfl⟩ | ⟨x, y, k, hp, hg, rfl⟩
          · rw [hp]; rfl
          · rw [hp]; simp only [overOf, getType_int hg]; rfl
        rw [if_neg h1] at hr ⊢
        by_cases h2 : (nameOf s == "string") = true
        · rw [if_pos h2] at hr ⊢; cases hr; exact ⟨_, rfl, rfl⟩
        rw [if_neg h2] at hr ⊢
        by_cases h3 : (nameOf s == "encoded_string") = true
        · rw [if_pos h3] at hr ⊢; cases hr; exact ⟨_, rfl, rfl⟩
        rw [if_neg h3] at hr ⊢
        by_cases h4 : (nameOf s == "blob") = true
        · rw [if_pos h4] at hr ⊢; cases hr; exact ⟨_, rfl, rfl⟩
        simp [h1, h2, h3, h4] at hok
  · intro s l ty h
    rw [getType] at h
    split at h
    · cases h; exact ⟨_, rfl⟩
    · split at h
      · cases h; exact ⟨_, rfl⟩
      · cases h
  · intro s k t hk h
    rw [getType_none] at h
    obtain ⟨under, hu, hr, hf⟩ := createType_ok h
    have hs : PyStr.splitColon s = [s] := by
      unfold IntKind.ofName? at hk
      split at hk <;> first | rfl | cases hk
    have hn : nameOf s = s := by unfold nameOf; rw [hs]
    rw [hn] at hr
    unfold resultOf at hr
    rw [hk] at hr
    cases hr; rfl
  · intro s en path k vals hok h
    exfalso
    rw [getType_none] at h
    obtain ⟨under, hu, hr, hf⟩ := createType_ok h
    unfold okBasic basicName at hok
    unfold resultOf at hr
    cases hk : IntKind.ofName? (nameOf s) with
    | some k' => rw [hk] at hr; cases hr
    | none =>
      rw [hk] at hr hok
      simp only [Option.isSome_none, Bool.false_or] at hok hr
      by_cases h1 : (nameOf s == "bool") = true
      · rw [if_pos h1] at hr; cases hr
      rw [if_neg h1] at hr
      by_cases h2 : (nameOf s == "string") = true
      · rw [if_pos h2] at hr; cases hr
      rw [if_neg h2] at hr
      by_cases h3 : (nameOf s == "encoded_string") = true
      · rw [if_pos h3] at hr; cases hr
      rw [if_neg h3] at hr
      by_cases h4 : (nameOf s == "blob") = true
      · rw [if_pos h4] at hr; cases hr
      simp [h1, h2, h3, h4] at hok

/-! ### Enum members -/

/-- the `(name, ordinal)` pairs the declarative side reads off the `<value>` elements -/
def valueEntries (vs : List Xml) : List (String × Int) :=
  vs.filterMap (fun v =>
    match v.get "name", (match v.getText with | .ok t => t | .error _ => none).bind PyStr.pyInt? with
    | some vn, some o => some (vn, o)
    | _, _ => none)

theorem enumValues_entries (en : String) : ∀ (vs : List Xml) (ords : List Int) (names : List String)
    (vals : List EnumVal), enumValues en vs ords names = .ok vals →
    valueEntries vs = vals.map (fun ev => (ev.name, ev.ordinal))
  | [], ords, names, vals, h => by
    rw [enumValues] at h; cases h; rfl
  | v :: vs, ords, names, vals, h => by
    rw [enumValues] at h
    split at h
    · cases h
    rename_i text htext
    split at h
    · cases h
    rename_i valueName hname
    dsimp only at h
    generalize (if valueName == "None" then valueName ++ "_" else valueName) = pyName at h
    split at h
    · cases h
    rename_i ordinal hord
    split at h
    · cases h
    split at h
    · cases h
    cases hrest : enumValues en vs (ordinal :: ords) (pyName :: names) with
    | error m => rw [hrest] at h; cases h
    | ok rest =>
      rw [hrest] at h
      cases h
      have ih := enumValues_entries en vs _ _ rest hrest
      unfold valueEntries at ih ⊢
      rw [List.filterMap_cons]
      have hn := getReq_ok hname
      have ho : (match v.getText with | .ok t => t | .error _ => none).bind PyStr.pyInt? = some ordinal := by
        rw [htext]
        cases text with
        | none => cases hord
        | some tx => exact hord
      simp only [hn, ho, ih, List.map_cons]

theorem createEnum_vals {defs : Defs} {fuel : Nat} {u : Unresolved} {o : Option IntKind}
    {en path : String} {k : IntKind} {vals : List EnumVal}
    (h : createEnum defs fuel u o = .ok (.enum en path k vals)) :
    enumValues en (u.xml.findall "value") [] [] = .ok vals := by
  cases fuel with
  | zero => rw [createEnum] at h; cases h
  | succ f =>
    rw [createEnum] at h
    repeat' split at h
    all_goals first | (cases h; done) | (cases h; assumption)

end EoVerif.Gen.Conform
