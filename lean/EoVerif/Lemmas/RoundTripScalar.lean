import EoVerif.Lemmas.RoundTripDefs
import EoVerif.Lemmas.RoundTripReader
import EoVerif.Lemmas.RW
/-!
# Round trip at the level of the declarative semantics — one scalar item
-/
namespace EoVerif.Spec.RT
open EoVerif
open EoVerif.Gen (IntKind Value)

/-! ### integers -/

theorem limitOf_pow (k : IntKind) (hk : k ≠ .byte) : limitOf k = 253 ^ k.size := by
  cases k <;> first | exact absurd rfl hk | decide

theorem size_bounds (k : IntKind) : 1 ≤ k.size ∧ k.size ≤ 4 := by
  cases k <;> simp [IntKind.size]

theorem limitOf_le (k : IntKind) (hk : k ≠ .byte) : limitOf k ≤ Num.INT_MAX := by
  cases k <;> first | exact absurd rfl hk | decide

/-- the encoding of a non-`byte` integer: `size` bytes of `encode_number`, decoding to `n` -/
theorem encInt_nonbyte (k : IntKind) (hk : k ≠ .byte) (n : Int) (b : Bytes)
    (h : encInt k n = some b) :
    0 ≤ n ∧ n < Num.INT_MAX ∧ b.length = k.size ∧ Num.decode b = n ∧
      ∃ bs, Num.encode n = .ok bs ∧ b = bs.take k.size := by
  unfold encInt at h
  split at h
  · cases h
  · rename_i hr
    have h0 : 0 ≤ n := by omega
    have hlim := limitOf_le k hk
    have h1 : n < Num.INT_MAX := by omega
    obtain ⟨bs, hbs, hl, _⟩ := Num.decode_encode n h0 h1
    have hb : b = bs.take k.size := by
      cases k
      case byte => exact absurd rfl hk
      all_goals
        simp only [hbs, Option.some.injEq] at h
        exact h.symm
    have hdec := (Num.encode_prefix k.size (size_bounds k) n h0
        (by rw [← limitOf_pow k hk]; omega) bs hbs).1
    refine ⟨h0, h1, ?_, ?_, bs, hbs, hb⟩
    · rw [hb, List.length_take, hl]; have := (size_bounds k).2; omega
    · rw [hb]; exact hdec

theorem encInt_byte (n : Int) (b : Bytes) (h : encInt .byte n = some b) :
    0 ≤ n ∧ n < 256 ∧ b = [n.toNat] := by
  unfold encInt at h
  split at h
  · cases h
  · rename_i hr
    simp only [limitOf] at hr
    simp only [Option.some.injEq] at h
    exact ⟨by omega, by omega, h.symm⟩

theorem encInt_length (k : IntKind) (n : Int) (b : Bytes) (h : encInt k n = some b) :
    b.length = k.size := by
  by_cases hk : k = .byte
  · subst hk; rw [(encInt_byte n b h).2.2]; rfl
  · exact (encInt_nonbyte k hk n b h).2.2.1

theorem encInt_nonempty (k : IntKind) (n : Int) (b : Bytes) (h : encInt k n = some b) : b ≠ [] := by
  have h1 := encInt_length k n b h
  have h2 := (size_bounds k).1
  intro e; subst e; simp at h1; omega

/-- a non-`byte` integer never produces a break byte -/
theorem encInt_noFF (k : IntKind) (hk : k ≠ .byte) (n : Int) (b : Bytes) (h : encInt k n = some b) :
    0xFF ∉ b := by
  obtain ⟨h0, h1, _, _, bs, hbs, hb⟩ := encInt_nonbyte k hk n b h
  intro hm
  rw [hb] at hm
  exact (Num.encode_wire_safe n h0 h1 bs hbs _ (List.mem_of_mem_take hm)).2.1 rfl

/-- reading back an encoded integer -/
theorem areadInt_exact (k : IntKind) (n : Int) (b : Bytes) (h : encInt k n = some b)
    (r : AReader) (A post : Bytes) (hd : r.data = A ++ b ++ post) (hp : r.pos = A.length)
    (hc : r.chunked = true → Clean r ∧ 0xFF ∉ b) :
    areadInt r k = ({ r with pos := A.length + b.length }, n) := by
  by_cases hk : k = .byte
  · subst hk
    obtain ⟨h0, _, hb⟩ := encInt_byte n b h
    subst hb
    have hr1 := read_exact' r A [n.toNat] post 1 rfl hd hp hc
    simp only [areadInt, AReader.step, hr1, List.headD_cons, List.length_cons, List.length_nil]
    congr 1
    omega
  · obtain ⟨_, _, hlen, hdec, _⟩ := encInt_nonbyte k hk n b h
    have hr1 := read_exact' r A b post _ hlen.symm hd hp hc
    cases k
    case byte => exact absurd rfl hk
    all_goals simp only [areadInt, hr1, hdec]

/-! ### strings -/

theorem strBytes_length (san : Bool) (s : List Nat) : (strBytes san s).length = s.length := by
  unfold strBytes
  cases san <;> simp [Ansi.encode]

theorem removePadding_id (p : Bytes) (h : 0xFF ∉ p) : Reader.removePadding p = p := by
  have := RW.removePadding_append p 0 (fun b hb e => h (e ▸ hb))
  simpa using this

/-- the post-processing of the bytes of a string item gives the string back -/
theorem fin_spec (enc padded : Bool) (p : Bytes) (m : Nat) (s : List Nat)
    (hm : 0 < m → padded = true) (h7 : enc = true → 0x7E ∉ p) (hf : padded = true → 0xFF ∉ p)
    (hs : Ansi.decode p = s) :
    Ansi.decode
      (if padded = true then
        Reader.removePadding
          (if enc = true then Str.decode (if enc = true then Str.encode (p ++ List.replicate m 0xFF)
            else p ++ List.replicate m 0xFF)
           else (if enc = true then Str.encode (p ++ List.replicate m 0xFF)
            else p ++ List.replicate m 0xFF))
       else
          (if enc = true then Str.decode (if enc = true then Str.encode (p ++ List.replicate m 0xFF)
            else p ++ List.replicate m 0xFF)
           else (if enc = true then Str.encode (p ++ List.replicate m 0xFF)
            else p ++ List.replicate m 0xFF))) = s := by
  have hde : (if enc = true then Str.decode (if enc = true then Str.encode (p ++ List.replicate m 0xFF)
            else p ++ List.replicate m 0xFF)
           else (if enc = true then Str.encode (p ++ List.replicate m 0xFF)
            else p ++ List.replicate m 0xFF)) = p ++ List.replicate m 0xFF := by
    cases enc with
    | false => simp
    | true =>
      simp only [if_true]
      apply Str.decode_encode
      intro b hb e
      subst e
      rcases List.mem_append.1 hb with hb | hb
      · exact h7 rfl hb
      · simp only [List.mem_replicate] at hb; omega
  rw [hde]
  cases padded with
  | true =>
    simp only [if_true]
    rw [RW.removePadding_append p m (fun b hb e => hf rfl (e ▸ hb))]
    exact hs
  | false =>
    have : m = 0 := by
      rcases Nat.eq_zero_or_pos m with h | h
      · exact h
      · exact absurd (hm h) (by simp)
    subst this
    simpa using hs

/-! ### one scalar -/

theorem encIf_length (enc : Bool) (B : Bytes) :
    (if enc = true then Str.encode B else B).length = B.length := by
  cases enc <;> simp [Str.encode_length]

/-- value part of a string item -/
theorem str_val (rtc : RtC) (san enc padded : Bool) (len : Option TLen) (x : List Nat) (m : Nat)
    (hm : 0 < m → padded = true)
    (h : rtScalar rtc san (.str enc len padded) (.str x) = true) :
    SameFields (Value.str (Ansi.decode
      (if padded = true then
        Reader.removePadding
          (if enc = true then Str.decode (if enc = true then Str.encode (strBytes san x ++ List.replicate m 0xFF)
            else strBytes san x ++ List.replicate m 0xFF)
           else (if enc = true then Str.encode (strBytes san x ++ List.replicate m 0xFF)
            else strBytes san x ++ List.replicate m 0xFF))
       else
          (if enc = true then Str.decode (if enc = true then Str.encode (strBytes san x ++ List.replicate m 0xFF)
            else strBytes san x ++ List.replicate m 0xFF)
           else (if enc = true then Str.encode (strBytes san x ++ List.replicate m 0xFF)
            else strBytes san x ++ List.replicate m 0xFF))))) (Value.str x) := by
  simp only [rtScalar, Bool.and_eq_true, beq_iff_eq, Bool.or_eq_true, Bool.not_eq_true',
    List.contains_eq_mem, decide_eq_false_iff_not] at h
  obtain ⟨⟨h1, h2⟩, h3⟩ := h
  rw [fin_spec enc padded (strBytes san x) m x hm ?_ ?_ h1]
  · exact rfl
  · intro he; rcases h2 with h2 | h2
    · rw [he] at h2; cases h2
    · exact h2
  · intro he; rcases h3 with h3 | h3
    · rw [he] at h3; cases h3
    · exact h3

theorem SameFields.rfl' (v : Value) : SameFields v v := rfl

/-- **prefix parsing of one (non-struct) item**: the bytes written for `v` are read back as `v`,
    moving the position by their length.  Bounded items: any `post`; unbounded ones: `post` must end
    the segment. -/
theorem scalar_rt (cw : String → Value → Bool → W) (cr : RCall) (rtc : RtC)
    (lens : String → Option LenInfo) (san : Bool) (ty : Scalar) (v : Value) (b : Bytes) (s : RSt) (A post : Bytes)
    (hty : ∀ n, ty ≠ .struct n)
    (hw : wireScalar cw lens san ty v = some b)
    (hd : s.r.data = A ++ b ++ post) (hp : s.r.pos = A.length) (hm : s.r.chunked = san)
    (hc : san = true → Clean s.r ∧ 0xFF ∉ b)
    (hlen : ∀ e f p, ty = .str e (some (.byField f)) p → s.get f = .int b.length)
    (hend : unboundedScalar ty = true → End san post) :
    ∃ v', readScalar cr s ty = .ok ({ s.r with pos := A.length + b.length }, v') ∧
      (rtScalar rtc san ty v = true → SameFields v' v) := by
  have hc' : s.r.chunked = true → Clean s.r ∧ 0xFF ∉ b := fun h => hc (hm ▸ h)
  cases ty with
  | struct n => exact absurd rfl (hty n)
  | int k =>
    cases v <;> simp only [wireScalar] at hw <;> try cases hw
    · rename_i n
      refine ⟨.int n, ?_, fun _ => rfl⟩
      simp only [readScalar, areadInt_exact k n b hw s.r A post hd hp hc']
    · rename_i bb
      refine ⟨.int (if bb = true then 1 else 0), ?_, fun h => by simp [rtScalar] at h⟩
      simp only [readScalar, areadInt_exact k _ b hw s.r A post hd hp hc']
  | bool k =>
    have key : ∀ n : Int, encInt k n = some b →
        readScalar cr s (.bool k) = .ok ({ s.r with pos := A.length + b.length }, .bool (n != 0)) := by
      intro n h
      simp only [readScalar, areadInt_exact k n b h s.r A post hd hp hc']
    cases v <;> simp only [wireScalar] at hw <;> try cases hw
    all_goals refine ⟨_, key _ hw, ?_⟩
    all_goals intro h; simp only [rtScalar] at h; try cases h
    rename_i bb
    cases bb <;> rfl
  | enum k =>
    simp only [wireScalar] at hw
    cases hv : v.toInt? with
    | none => rw [hv] at hw; cases hw
    | some n =>
      rw [hv] at hw
      simp only at hw
      refine ⟨.int n, ?_, ?_⟩
      · simp only [readScalar, areadInt_exact k n b hw s.r A post hd hp hc']
      · intro h
        cases v <;> simp only [rtScalar] at h <;> try cases h
        simp only [Value.toInt?, Option.some.injEq] at hv
        subst hv; rfl
  | blob =>
    cases v <;> simp only [wireScalar] at hw <;> try cases hw
    have hrem := remaining_end s.r A b post hd hp hc' (hm ▸ hend rfl)
    refine ⟨.bytes b, ?_, fun _ => rfl⟩
    simp only [readScalar, read_exact' s.r A b post _ hrem hd hp hc']
  | str enc len padded =>
    cases v <;> simp only [wireScalar] at hw <;> try cases hw
    rename_i x
    -- normal form of the bytes: payload, padding, optional encoding
    have norm : ∃ m, b = (if enc = true then Str.encode (strBytes san x ++ List.replicate m 0xFF)
          else strBytes san x ++ List.replicate m 0xFF) ∧ (0 < m → padded = true) ∧
        (∀ n, len = some (.lit n) → 0 ≤ n ∧ n.toNat = b.length) := by
      cases len with
      | none =>
        simp only [Option.map_some, Option.some.injEq] at hw
        exact ⟨0, by simpa using hw.symm, by omega, by intro n h; cases h⟩
      | some l =>
        cases l with
        | lit n =>
          simp only at hw
          cases padded with
          | true =>
            simp only [if_true] at hw
            by_cases hle : (x.length : Int) ≤ n
            · rw [if_pos hle] at hw
              simp only [Option.map_some, Option.some.injEq] at hw
              refine ⟨n.toNat - x.length, hw.symm, fun _ => rfl, ?_⟩
              intro n' h
              cases h
              rw [← hw, encIf_length, List.length_append, List.length_replicate, strBytes_length]
              omega
            · rw [if_neg hle] at hw; cases hw
          | false =>
            simp only [Bool.false_eq_true, if_false] at hw
            by_cases he : (x.length : Int) = n
            · rw [if_pos he] at hw
              simp only [Option.map_some, Option.some.injEq] at hw
              refine ⟨0, by simpa using hw.symm, by omega, ?_⟩
              intro n' h
              cases h
              rw [← hw, encIf_length, strBytes_length]
              omega
            · rw [if_neg he] at hw; cases hw
        | byField f =>
          simp only at hw
          cases hl : lens f with
          | none => rw [hl] at hw; cases hw
          | some li =>
            rw [hl] at hw
            simp only at hw
            by_cases he : (x.length : Int) ≤ lengthLimit li.k li.offset
            · rw [if_pos he] at hw
              simp only [Option.map_some, Option.some.injEq] at hw
              exact ⟨0, by simpa using hw.symm, by omega, by intro n h; cases h⟩
            · rw [if_neg he] at hw; cases hw
    obtain ⟨m, hb, hmp, hlit⟩ := norm
    have hread : ∀ k, k = b.length → s.r.read k = ({ s.r with pos := A.length + b.length }, b) :=
      fun k hk => read_exact' s.r A b post k hk hd hp hc'
    refine ⟨_, ?_, fun h => hb ▸ str_val rtc san enc padded len x m hmp h⟩
    cases len with
    | none =>
      have hrem := remaining_end s.r A b post hd hp hc' (hm ▸ hend rfl)
      simp only [readScalar, hread _ hrem]
    | some l =>
      cases l with
      | lit n =>
        obtain ⟨h0, hn⟩ := hlit n rfl
        simp only [readScalar, if_neg (show ¬ n < 0 by omega), hread _ hn]
      | byField f =>
        have hg := hlen enc f padded rfl
        simp only [readScalar, hg, if_neg (show ¬ ((b.length : Nat) : Int) < 0 by omega),
          Int.toNat_natCast, hread _ rfl]

/-- statically break-free scalars are break-free -/
theorem ffFree_noFF (cw : String → Value → Bool → W) (lens : String → Option LenInfo) (san : Bool)
    (ty : Scalar) (v : Value) (b : Bytes) (hf : ffFreeScalar ty = true)
    (hw : wireScalar cw lens san ty v = some b) : 0xFF ∉ b := by
  cases ty <;> simp only [ffFreeScalar, bne_iff_ne, ne_eq] at hf <;> try cases hf
  case int k =>
    cases v <;> simp only [wireScalar] at hw <;> try cases hw
    all_goals exact encInt_noFF k hf _ b hw
  case bool k =>
    cases v <;> simp only [wireScalar] at hw <;> try cases hw
    all_goals exact encInt_noFF k hf _ b hw
  case enum k =>
    simp only [wireScalar] at hw
    cases hv : v.toInt? with
    | none => rw [hv] at hw; cases hw
    | some n => rw [hv] at hw; exact encInt_noFF k hf _ b hw

end EoVerif.Spec.RT
