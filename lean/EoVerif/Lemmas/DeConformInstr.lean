import EoVerif.Lemmas.DeConformArray
set_option linter.unusedVariables false
/-! The instructions of C03b one by one: `<array>`, `<length>`, `<dummy>`, `<break>`. -/
namespace EoVerif.Gen.DeConform
open EoVerif EoVerif.Gen EoVerif.Spec EoVerif.Gen.Conform

/-! ### `<array>` -/

def arrCount (s : RSt) (len : Option TLen) (del : Bool) (ef : Option Int) : Option Int :=
  match len with
  | some (.lit n) => some n
  | some (.byField f) => (match s.get f with | .int n => some n | _ => some 0)
  | none => if !del then (match ef with
      | some sz => if sz == 0 then some 0 else some ((s.r.remaining : Int).tdiv sz)
      | none => none) else none

def arrRes (rcall : RCall) (s : RSt) (elem : Scalar) (len : Option TLen) (del trail : Bool) (ef : Option Int) :
    Except RErr (RSt × List Value) :=
  match arrCount s len del ef with
  | some n => readCounted rcall elem del trail n n.toNat 0 s []
  | none => readWhile rcall elem del (2 * s.r.data.length + 2) s []

theorem readInstr_array (rcall : RCall) (lex : Bool) (name : String) (elem : Scalar) (len : Option TLen)
    (opt del trail : Bool) (ef : Option Int) (s : RSt) :
    readInstr rcall lex (.array name elem len opt del trail ef) s =
      if (opt && s.r.remaining == 0) = true then .ok (s.bind name .none)
      else (match arrRes rcall s elem len del trail ef with
        | .error e => .error e
        | .ok (s', vs) => .ok (s'.bind name (.tuple vs))) := by
  simp only [readInstr]; rfl

theorem exec_initList (call : DeCall) (n : String) (st : DeSt) :
    execDeOp call (.initList n) st = (st.set n (.tuple []), .ok ()) := by rw [execDeOp]

theorem exec_lenVar (call : DeCall) (n : String) (sz : Int) (st : DeSt) (h : sz ≠ 0) :
    execDeOp call (.lenVar n sz) st = (st.set n (.int (st.r.remaining.tdiv sz)), .ok ()) := by
  rw [execDeOp]
  have : (sz == 0) = false := by simpa using h
  simp [this]

/-- after the loop: the array is bound -/
theorem loop_finish {B B' Ds emp lexm st s} (h : DynD B Ds emp lexm st s) {n : String} {d : Decl} {st0 : DeSt}
    {vs : List Value} {st' : DeSt} {s' : RSt} (hL : LoopRel n st0 s vs st' s')
    (hn : n ∉ B) (hB : ∀ x ∈ B, x ∈ B') (hnB : n ∈ B') (hd : d.name = n) (hk : d.kind = .arr)
    (h0 : ∀ m ∈ B, st0.get m = st.get m) (hst0 : st0.startPos = st.startPos)
    (hch : st0.r.chunked = st.r.chunked) :
    DynD B' (Ds ++ [d]) false lexm st' (s'.bind n (.tuple vs)) := by
  refine h.extend (vm := .tuple vs) hn hB hnB hd hL.r (hL.start.trans hst0) hL.env hL.attrs hL.sstart ?_ ?_ hL.acc
    (by simp) ?_ (fun _ => rfl)
  · intro hl; rw [hL.chunked, hch]; exact h.mode hl
  · intro m hm
    rw [hL.others m (fun he => hn (he ▸ hm))]
    exact h0 m hm
  · unfold ValOK; rw [hk]; exact Or.inl ⟨vs, rfl⟩

theorem tempName_ne (n : String) : tempName n ≠ n := by
  intro h
  have := congrArg String.length h
  simp [tempName, String.length_append] at this

set_option maxHeartbeats 800000 in
/-- the statements of a present array -/
theorem array_present {call : DeCall} {rcall : RCall} {B Ds emp lexm st s} (h : DynD B Ds emp lexm st s)
    {n : String} {st1 : DeSt} (hag : Agree n st st1) {elem : Scalar} {len : Option TLen} {opt del trail : Bool}
    {ef : Option Int}
    (hnd : (B ++ namesI (.array n elem len opt del trail ef)).Nodup)
    (hok : okI Ds (.array n elem len opt del trail ef) = true)
    (hdel : del = true → lexm = true)
    (hcall : ∀ x ∈ scalarRefs elem, CallAt call rcall x) :
    ConfD (execDeOps call (arrayBody n elem len del trail ef) st1)
      (match arrRes rcall s elem len del trail ef with
        | .error e => .error e
        | .ok (s', vs) => .ok (s'.bind n (.tuple vs)))
      (fun st' _ s' => DynD (B ++ namesI (.array n elem len opt del trail ef))
        (Ds ++ [⟨n, .arr, opt, tlenRef len⟩]) false lexm st' s') := by
  rw [okI, Bool.and_eq_true, Bool.and_eq_true] at hok
  obtain ⟨⟨hoke, hokl⟩, hokz⟩ := hok
  -- names
  have hnB : n ∉ B := by
    intro hx
    rw [List.nodup_append] at hnd
    exact hnd.2.2 n hx n (by rw [namesI]; split <;> simp) rfl
  have hnIn : n ∈ B ++ namesI (.array n elem len opt del trail ef) :=
    List.mem_append_right _ (by rw [namesI]; split <;> simp)
  have hBsub : ∀ x ∈ B, x ∈ B ++ namesI (.array n elem len opt del trail ef) := fun x hx => List.mem_append_left _ hx
  have hst1 : ∀ m ∈ B, st1.get m = st.get m := fun m hm => hag.2.2 m (fun he => hnB (he ▸ hm))
  -- the element reads
  have hpad := scalarOK_pad hoke
  have hlenOf : ∀ (st0 : DeSt), (∀ m ∈ B, st0.get m = st.get m) → ∀ e f p, elem = .str e (some (.byField f)) p →
      ∃ k, st0.get f = some (.int k) ∧ s.get f = .int k ∧ f ≠ n := by
    intro st0 h0 e f p hs
    obtain ⟨k, h1, h2, hB⟩ := h.len_lookup (scalarOK_len hoke e f p hs)
    exact ⟨k, by rw [h0 f hB]; exact h1, h2, fun he => hnB (he ▸ hB)⟩
  -- the finishing step, from the state after `name = []`
  have hfin : ∀ (st0 : DeSt), (∀ m ∈ B, st0.get m = st.get m) → st0.startPos = st.startPos →
      st0.r.chunked = st.r.chunked → ∀ vs st' s', LoopRel n st0 s vs st' s' →
      DynD (B ++ namesI (.array n elem len opt del trail ef)) (Ds ++ [⟨n, .arr, opt, tlenRef len⟩]) false lexm st'
        (s'.bind n (.tuple vs)) := by
    intro st0 h0 h1 h2 vs st' s' hL
    exact loop_finish h hL hnB hBsub hnIn rfl rfl h0 h1 h2
  -- the loop from a state `st2` (= `st1`, possibly with the temporary assigned)
  have hloopInit : ∀ (st2 : DeSt), st2.r = st.r → LoopRel n (st2.set n (.tuple [])) s [] (st2.set n (.tuple [])) s := by
    intro st2 hr2
    exact ⟨by rw [DeSt.set_r, hr2]; exact h.r, rfl, rfl, get_set_self _ _ _, fun _ _ => rfl, rfl, rfl, rfl⟩
  have hmode : ∀ (st2 : DeSt), st2.r = st.r → del = true → (st2.set n (.tuple [])).r.chunked = true := by
    intro st2 hr2 hd
    rw [DeSt.set_r, hr2]; exact h.mode (hdel hd)
  have hset : ∀ (st2 : DeSt), (∀ m ∈ B, st2.get m = st.get m) → ∀ m ∈ B, (st2.set n (.tuple [])).get m = st.get m := by
    intro st2 h2 m hm
    rw [get_set_ne _ _ _ _ (fun he => hnB (by rw [he]; exact hm))]; exact h2 m hm
  -- a counted loop
  have hcounted : ∀ (st2 : DeSt) (N : Int), st2.r = st.r → st2.startPos = st.startPos →
      (∀ m ∈ B, st2.get m = st.get m) →
      ConfD (repeatM (iterF call [rdOp (.append n) elem] (delimOf del trail) N) N.toNat 0 (st2.set n (.tuple [])))
        (match readCounted rcall elem del trail N N.toNat 0 s [] with
          | .error e => .error e
          | .ok (s', vs) => .ok (s'.bind n (.tuple vs)))
        (fun st' _ s' => DynD (B ++ namesI (.array n elem len opt del trail ef))
          (Ds ++ [⟨n, .arr, opt, tlenRef len⟩]) false lexm st' s') := by
    intro st2 N hr2 hs2 hg2
    have hc := counted_sim (call := call) (rcall := rcall) (n := n) (elem := elem)
      (st0 := st2.set n (.tuple [])) (s0 := s) del trail N hcall
      (hlenOf _ (hset st2 hg2)) hpad (hmode st2 hr2) N.toNat 0 [] _ _ (hloopInit st2 hr2)
    generalize repeatM (iterF call [rdOp (.append n) elem] (delimOf del trail) N) N.toNat 0 (st2.set n (.tuple [])) = x at hc
    obtain ⟨st', o⟩ := x
    cases hy : readCounted rcall elem del trail N N.toNat 0 s [] with
    | error e' =>
      rw [hy] at hc
      cases o with
      | error e => simpa using hc
      | ok v => exact hc.elim
    | ok p =>
      rw [hy] at hc
      obtain ⟨s', vs⟩ := p
      cases o with
      | error e => exact hc.elim
      | ok u =>
        simp only [ConfD_ok_ok] at hc ⊢
        exact hfin _ (hset st2 hg2) (by rw [set_startPos]; exact hs2) (by rw [DeSt.set_r, hr2]) vs st' s' hc
  unfold arrayBody arrRes arrCount
  cases len with
  | some tl =>
    cases tl with
    | lit k =>
      simp only
      rw [execDeOps_cons, exec_initList, bindD_ok, execDeOps_single, exec_forRange_lit]
      exact hcounted st1 k hag.1 hag.2.1 hst1
    | byField f =>
      obtain ⟨k, h1, h2, hB⟩ := h.len_lookup (l := f) hokl
      simp only [h2]
      rw [execDeOps_cons, exec_initList, bindD_ok, execDeOps_single,
        exec_forRange_var call f k _ _ _ (by rw [hset st1 hst1 f hB]; exact h1)]
      exact hcounted st1 k hag.1 hag.2.1 hst1
  | none =>
    -- the `while` loop
    have hwhile : ConfD (execDeOps call [.initList n, .whileRemaining [rdOp (.append n) elem] del] st1)
        (match readWhile rcall elem del (2 * s.r.data.length + 2) s [] with
          | .error e => .error e
          | .ok (s', vs) => .ok (s'.bind n (.tuple vs)))
        (fun st' _ s' => DynD (B ++ namesI (.array n elem none opt del trail ef))
          (Ds ++ [⟨n, .arr, opt, tlenRef none⟩]) false lexm st' s') := by
      rw [execDeOps_cons, exec_initList, bindD_ok, execDeOps_single, exec_while]
      have hdata : (st1.set n (.tuple [])).r.data.length = s.r.data.length := by
        rw [DeSt.set_r, hag.1, h.r.data]
      rw [hdata]
      have hc := while_sim (call := call) (rcall := rcall) (n := n) (elem := elem)
        (st0 := st1.set n (.tuple [])) (s0 := s) del hcall
        (hlenOf _ (hset st1 hst1)) hpad (hmode st1 hag.1) (2 * s.r.data.length + 2) [] _ _ (hloopInit st1 hag.1)
      generalize whileM (fun s => s.r.remaining > 0) (whileF call [rdOp (.append n) elem] del)
        (2 * s.r.data.length + 2) (st1.set n (.tuple [])) = x at hc
      obtain ⟨st', o⟩ := x
      cases hy : readWhile rcall elem del (2 * s.r.data.length + 2) s [] with
      | error e' =>
        rw [hy] at hc
        cases o with
        | error e => simpa using hc
        | ok v => exact hc.elim
      | ok p =>
        rw [hy] at hc
        obtain ⟨s', vs⟩ := p
        cases o with
        | error e => exact hc.elim
        | ok u =>
          simp only [ConfD_ok_ok] at hc ⊢
          exact hfin _ (hset st1 hst1) (by rw [set_startPos]; exact hag.2.1) (by rw [DeSt.set_r, hag.1]) vs st' s' hc
    cases del with
    | true =>
      simp only [Bool.not_true, Bool.false_eq_true, if_false]
      exact hwhile
    | false =>
      cases ef with
      | none =>
        simp only [Bool.not_false, if_true]
        exact hwhile
      | some sz =>
        simp only [Bool.not_false, if_true]
        have hsz : sz ≠ 0 := by
          intro he; subst he; simp at hokz
        have hsz' : (sz == 0) = false := by simpa using hsz
        simp only [hsz', Bool.false_eq_true, if_false]
        -- the temporary
        have hT : tempName n ∈ namesI (.array n elem none opt false trail (some sz)) := by
          rw [namesI]; simp [usesTemp]
        have hTB : tempName n ∉ B := by
          intro hx
          rw [List.nodup_append] at hnd
          exact hnd.2.2 _ hx _ hT rfl
        rw [execDeOps_cons, exec_lenVar _ _ _ _ hsz, bindD_ok, execDeOps_cons, exec_initList, bindD_ok,
          execDeOps_single]
        have hg2 : ∀ m ∈ B, (st1.set (tempName n) (.int (st1.r.remaining.tdiv sz))).get m = st.get m := by
          intro m hm
          rw [get_set_ne _ _ _ _ (fun he => hTB (by rw [he]; exact hm))]; exact hst1 m hm
        have hrem : st1.r.remaining = (s.r.remaining : Int) := by rw [hag.1]; exact h.r.remaining
        rw [exec_forRange_var call (tempName n) (st1.r.remaining.tdiv sz) _ _ _
          (by rw [get_set_ne _ _ _ _ (Ne.symm (tempName_ne n)), get_set_self])]
        rw [hrem]
        exact hcounted _ _ (by rw [DeSt.set_r]; exact hag.1) (by rw [set_startPos]; exact hag.2.1)
          (by rw [← hrem]; exact hg2)

/-- `<array>` -/
theorem array_sim {call : DeCall} {rcall : RCall} {B Ds emp lexm st s} (h : DynD B Ds emp lexm st s)
    {n : String} {elem : Scalar} {len : Option TLen} {opt del trail : Bool} {ef : Option Int} {pre : Bool}
    {ops : List DeOp}
    (hops : OpsI lexm pre (.array n elem len opt del trail ef) ops)
    (hnd : (B ++ namesI (.array n elem len opt del trail ef)).Nodup)
    (hok : okI Ds (.array n elem len opt del trail ef) = true)
    (hcall : ∀ x ∈ scalarRefs elem, CallAt call rcall x) :
    ConfD (execDeOps call ops st) (readInstr rcall lexm (.array n elem len opt del trail ef) s)
      (fun st' _ s' => DynD (B ++ namesI (.array n elem len opt del trail ef))
        (Ds ++ declsI (.array n elem len opt del trail ef)) false lexm st' s') := by
  rw [OpsI] at hops
  obtain ⟨hdel, rfl⟩ := hops
  rw [readInstr_array, declsI]
  have hnB : n ∉ B := by
    intro hx
    rw [List.nodup_append] at hnd
    exact hnd.2.2 n hx n (by rw [namesI]; split <;> simp) rfl
  refine item_sim h.r ?_ ?_
  · intro hopt
    refine h.extend (s0 := s) (vm := .none) hnB (fun x hx => List.mem_append_left _ hx)
      (List.mem_append_right _ (by rw [namesI]; split <;> simp)) rfl ?_ (set_startPos _ _ _) rfl rfl rfl ?_ ?_
      (get_set_self _ _ _) (by simp) ?_ (fun _ => rfl)
    · rw [DeSt.set_r]; exact h.r
    · intro hl; rw [DeSt.set_r]; exact h.mode hl
    · intro m hm; exact get_set_ne _ _ _ _ (fun he => hnB (by rw [he]; exact hm))
    · unfold ValOK; exact Or.inr ⟨rfl, hopt⟩
  · intro st1 hag
    exact array_present h hag hnd hok hdel hcall

end EoVerif.Gen.DeConform
