import EoVerif.Lemmas.GenDecls
/-! Helper lemmas for C18b (namespace EoVerif.Gen.Perm): `compile` does not depend on the order in which the
    protocol files are enumerated.

    * `indexFiles` accepts a forest iff every file is acceptable on its own and the declared names of the
      whole forest are pairwise distinct (`indexFiles_complete`, converse of `Decls.indexFiles_spec`);
    * type resolution consults the indexed definitions only through `Defs.find?` and through the *number*
      of definitions (the fuel), `resolve_congr`; a lookup by name in a list with distinct names does not
      depend on the order of the list, `find_perm`;
    * `mapM'` is `List.map` when every element succeeds. -/
namespace EoVerif.Gen.Perm
open EoVerif.Gen.Decls EoVerif.Gen.WF

/-! ### lookups -/

theorem getReq_of_get {e : Xml} {n v : String} (h : e.get n = some v) : e.getReq n = .ok v := by
  unfold Xml.getReq; rw [h]

theorem find_none_of_not_mem {d : Defs} {n : String} (h : n ∉ d.map (·.1)) : d.find? n = none := by
  unfold Defs.find?
  rw [Option.map_eq_none_iff, List.find?_eq_none]
  intro p hp hpn
  exact h (List.mem_map.2 ⟨p, hp, by simpa using hpn⟩)

theorem find_perm_some {d d' : Defs} (hp : d.Perm d') (hnd : (d.map (·.1)).Nodup) {n : String} {u : Unresolved}
    (h : d.find? n = some u) : d'.find? n = some u :=
  find_of_nodup ((hp.map (·.1)).nodup_iff.1 hnd) (hp.mem_iff.1 (find_mem h))

/-- a lookup by name in an association list with pairwise distinct names is independent of the order -/
theorem find_perm {d d' : Defs} (hp : d.Perm d') (hnd : (d.map (·.1)).Nodup) (n : String) :
    d.find? n = d'.find? n := by
  cases h : d.find? n with
  | some u => exact (find_perm_some hp hnd h).symm
  | none =>
    cases h' : d'.find? n with
    | none => rfl
    | some u =>
      have := find_perm_some hp.symm ((hp.map (·.1)).nodup_iff.1 hnd) h'
      rw [h] at this; cases this

/-! ### type resolution only looks definitions up by name -/

theorem resolve_congr {defs defs' : Defs} (hf : ∀ n, defs.find? n = defs'.find? n) : ∀ fuel : Nat,
    getType defs fuel = getType defs' fuel ∧ createType defs fuel = createType defs' fuel ∧
    createEnum defs fuel = createEnum defs' fuel ∧ createStruct defs fuel = createStruct defs' fuel
  | 0 => by
    refine ⟨?_, ?_, ?_, ?_⟩
    · funext n l; simp [getType]
    · funext n; simp [createType]
    · funext u o; simp [createEnum]
    · funext u; simp [createStruct]
  | fuel + 1 => by
    obtain ⟨h1, h2, h3, h4⟩ := resolve_congr hf fuel
    refine ⟨?_, ?_, ?_, ?_⟩
    · funext n l; simp only [getType, h2]
    · funext n; simp only [createType, h1, h3, h4, hf]
    · funext u o; simp only [createEnum, h1]
    · funext u; simp only [createStruct, h1]

/-- the type environment `compile` builds from the indexed definitions -/
def envOf (defs : Defs) : TypeEnv := getType defs (4 * defs.length + 16)

theorem envOf_perm {d d' : Defs} (hp : d.Perm d') (hnd : (d.map (·.1)).Nodup) : envOf d = envOf d' := by
  unfold envOf
  rw [hp.length_eq]
  exact (resolve_congr (find_perm hp hnd) _).1

/-! ### indexing: the converse of `indexFiles_spec` -/

/-- what `_index_protocol_file` checks of a file on its own -/
def FileOk (f : ProtoFile) : Prop :=
  (f.root.tag == "protocol") = true ∧
  (∀ e ∈ f.root.findall "enum" ++ f.root.findall "struct", (e.get "name").isSome = true) ∧
  indexFiles.packets (f.root.findall "packet") [] = .ok ()

theorem defineAll_complete (f : ProtoFile) : ∀ (es : List Xml) (acc : Defs),
    (∀ e ∈ es, (e.get "name").isSome = true) → ((acc ++ entries f.dir es).map (·.1)).Nodup →
    indexFiles.defineAll f es acc = .ok (acc ++ entries f.dir es)
  | [], acc, _, _ => by unfold indexFiles.defineAll; simp [entries]
  | e :: es, acc, hn, hnd => by
    obtain ⟨n, hn'⟩ := Option.isSome_iff_exists.1 (hn e (List.mem_cons_self ..))
    have hent : entries f.dir (e :: es) = (n, (⟨e, f.dir⟩ : Unresolved)) :: entries f.dir es := by
      simp [entries, hn']
    rw [hent] at hnd ⊢
    have hnd' : (((acc ++ [(n, (⟨e, f.dir⟩ : Unresolved))]) ++ entries f.dir es).map (·.1)).Nodup := by
      simpa [List.append_assoc] using hnd
    have hnot : n ∉ acc.map (·.1) := by
      rw [List.map_append, List.nodup_append] at hnd
      intro hm
      exact hnd.2.2 n hm n (by simp) rfl
    unfold indexFiles.defineAll
    rw [getReq_of_get hn']
    simp only [find_none_of_not_mem hnot, Option.isSome_none, Bool.false_eq_true, ↓reduceIte]
    rw [defineAll_complete f es _ (fun x hx => hn x (List.mem_cons_of_mem _ hx)) hnd']
    simp

theorem allEntries_cons (f : ProtoFile) (fs : List ProtoFile) :
    allEntries (f :: fs) = entries f.dir (f.root.findall "enum") ++ entries f.dir (f.root.findall "struct")
      ++ allEntries fs := by
  simp [allEntries, fileEntries, entries, List.filterMap_append]

theorem indexFiles_complete : ∀ (fs : List ProtoFile) (acc : Defs),
    (∀ f ∈ fs, FileOk f) → ((acc ++ allEntries fs).map (·.1)).Nodup →
    indexFiles fs acc = .ok (acc ++ allEntries fs)
  | [], acc, _, _ => by unfold indexFiles; simp [allEntries]
  | f :: fs, acc, hok, hnd => by
    obtain ⟨htag, hnames, hpk⟩ := hok f (List.mem_cons_self ..)
    rw [allEntries_cons] at hnd ⊢
    rw [← List.append_assoc, ← List.append_assoc] at hnd
    have hnd2 : ((acc ++ entries f.dir (f.root.findall "enum") ++ entries f.dir (f.root.findall "struct")).map
        (·.1)).Nodup := by
      rw [List.map_append, List.nodup_append] at hnd; exact hnd.1
    have hnd1 : ((acc ++ entries f.dir (f.root.findall "enum")).map (·.1)).Nodup := by
      rw [List.map_append, List.nodup_append] at hnd2; exact hnd2.1
    have e1 := defineAll_complete f (f.root.findall "enum") acc
      (fun e he => hnames e (List.mem_append_left _ he)) hnd1
    have e2 := defineAll_complete f (f.root.findall "struct") _
      (fun e he => hnames e (List.mem_append_right _ he)) hnd2
    have e3 := indexFiles_complete fs _ (fun g hg => hok g (List.mem_cons_of_mem _ hg)) hnd
    have htag' : (f.root.tag != "protocol") = false := by
      rw [bne, htag]; rfl
    unfold indexFiles
    simp only [htag', Bool.false_eq_true, ↓reduceIte, e1, e2, hpk, bind, Except.bind]
    rw [e3]
    simp only [List.append_assoc]

theorem allEntries_perm {files files' : List ProtoFile} (hp : files.Perm files') :
    (allEntries files).Perm (allEntries files') :=
  (hp.map fileEntries).flatten

/-- `indexFiles` accepts exactly the forests whose files are acceptable one by one and whose declared names
    are pairwise distinct; the index is then `allEntries` -/
theorem indexFiles_ok_iff (files : List ProtoFile) (defs : Defs) :
    indexFiles files [] = .ok defs ↔
      (∀ f ∈ files, FileOk f) ∧ ((allEntries files).map (·.1)).Nodup ∧ defs = allEntries files := by
  constructor
  · intro h
    obtain ⟨h1, h2, h3⟩ := indexFiles_spec files [] defs h
    have h2' : defs = allEntries files := by simpa using h2
    exact ⟨h1, h2' ▸ h3 (by simp), h2'⟩
  · rintro ⟨h1, h2, rfl⟩
    simpa using indexFiles_complete files [] h1 (by simpa using h2)

/-! ### `mapM'` -/

/-- the value of a successful computation (`d` otherwise) -/
def okD {α} (d : α) : Except GenErr α → α
  | .ok a => a
  | .error _ => d

theorem mapM'_eq_map {α β} (d : β) {g : α → Except GenErr β} : ∀ {l : List α} {r : List β},
    mapM' g l = .ok r → r = l.map (fun x => okD d (g x))
  | [], r, h => by unfold mapM' at h; cases h; rfl
  | a :: as, r, h => by
    unfold mapM' at h
    split at h
    · cases h
    · rename_i b hb
      cases hr : mapM' g as with
      | error m => rw [hr] at h; cases h
      | ok r' =>
        rw [hr] at h
        simp only [Except.map] at h
        cases h
        rw [List.map_cons, hb, ← mapM'_eq_map d hr]; rfl

theorem mapM'_of_forall {α β} (d : β) {g : α → Except GenErr β} : ∀ {l : List α},
    (∀ x ∈ l, ∃ y, g x = .ok y) → mapM' g l = .ok (l.map (fun x => okD d (g x)))
  | [], _ => by unfold mapM'; rfl
  | a :: as, h => by
    obtain ⟨b, hb⟩ := h a (List.mem_cons_self ..)
    unfold mapM'
    rw [hb, mapM'_of_forall d (fun x hx => h x (List.mem_cons_of_mem _ hx))]
    simp [Except.map, okD, hb]

theorem mapM'_ok_iff {α β} (d : β) {g : α → Except GenErr β} {l : List α} {r : List β} :
    mapM' g l = .ok r ↔ (∀ x ∈ l, ∃ y, g x = .ok y) ∧ r = l.map (fun x => okD d (g x)) :=
  ⟨fun h => ⟨mapM'_ok h, mapM'_eq_map d h⟩, fun ⟨h, e⟩ => e ▸ mapM'_of_forall d h⟩

/-! ### `compile`, stage by stage, as an equivalence -/

/-- the type environment of a forest: resolution against all its declarations -/
def typeEnv (files : List ProtoFile) : TypeEnv := envOf (allEntries files)

/-- what a file emits under a type environment (empty when generation fails) -/
def fileOut (tf : TypeEnv) (f : ProtoFile) : GenOutput := okD {} (genFile tf f)

/-- `compile`'s result from the per-file results, in enumeration order -/
def assemble (outs : List GenOutput) : GenOutput :=
  { classes := (outs.map (·.classes)).flatten, enums := (outs.map (·.enums)).flatten,
    files := (outs.map (·.files)).flatten }

theorem compile_ok_iff (files : List ProtoFile) (out : GenOutput) :
    compile files = .ok out ↔
      (∀ f ∈ files, FileOk f) ∧ ((allEntries files).map (·.1)).Nodup ∧
      (∀ f ∈ files, ∃ o, genFile (typeEnv files) f = .ok o) ∧
      out = assemble (files.map (fileOut (typeEnv files))) := by
  constructor
  · intro h
    unfold compile at h
    obtain ⟨defs, hd, h⟩ := except_bind_ok h
    extract_lets tf at h
    obtain ⟨outs, ho, h⟩ := except_bind_ok h
    obtain ⟨h1, h2, rfl⟩ := (indexFiles_ok_iff files defs).1 hd
    obtain ⟨h3, rfl⟩ := (mapM'_ok_iff ({} : GenOutput)).1 ho
    cases h
    exact ⟨h1, h2, h3, rfl⟩
  · rintro ⟨h1, h2, h3, rfl⟩
    have hd := (indexFiles_ok_iff files _).2 ⟨h1, h2, rfl⟩
    have ho := mapM'_of_forall ({} : GenOutput) h3
    unfold compile
    rw [hd]
    simp only [bind, Except.bind]
    unfold typeEnv envOf at ho
    rw [ho]
    rfl

theorem typeEnv_perm {files files' : List ProtoFile} (hp : files.Perm files')
    (hnd : ((allEntries files).map (·.1)).Nodup) : typeEnv files = typeEnv files' :=
  envOf_perm (allEntries_perm hp) hnd

theorem assemble_perm {o o' : List GenOutput} (hp : o.Perm o') :
    (assemble o).files.Perm (assemble o').files ∧ (assemble o).classes.Perm (assemble o').classes ∧
    (assemble o).enums.Perm (assemble o').enums :=
  ⟨(hp.map _).flatten, (hp.map _).flatten, (hp.map _).flatten⟩

end EoVerif.Gen.Perm
