import EoVerif.Lemmas.DeConformTree
set_option linter.unusedVariables false
/-! `__init__` against `finishObj` (C03b): the object the generated constructor builds from the locals of
    `deserialize` is the object the declarative reading finishes. -/
namespace EoVerif.Gen.DeConform
open EoVerif EoVerif.Gen EoVerif.Spec EoVerif.Gen.Conform

/-! ### The class members of a declaration list -/

def fieldOfDecl (d : Decl) : FieldDecl :=
  ⟨d.name, (match d.kind with | .len => .length | .data => .caseData | _ => .normal),
    (match d.kind with | .arr => true | _ => false)⟩

def paramOfDecl (d : Decl) : Option Param :=
  match d.kind with
  | .len => none
  | .data => some ⟨d.name, true⟩
  | _ => some ⟨d.name, d.optional⟩

def argOfDecl (d : Decl) : Option String :=
  match d.kind with
  | .len => none
  | _ => some d.name

def lenStmt (d : Decl) : List InitStmt :=
  match d.lenOf with
  | some l => [.lenOf l d.name d.optional]
  | none => []

/-- the value of a hard-coded initialiser -/
def evalConst : InitExpr → Option Value
  | .strLit s => some (.str (s.toList.map Char.toNat))
  | .boolLit b => some (.bool b)
  | .pasted t => if PyStr.isdigit t then some (.int ((PyStr.pyInt? t).getD 0)) else none
  | _ => none

def ExprOK (d : Decl) (e : InitExpr) : Prop :=
  match d.kind with
  | .param => e = .param d.name
  | .data => e = .param d.name
  | .arr => e = .tupleOf d.name d.optional
  | .const c => evalConst e = some (constValue c)
  | .len => False

/-- the `__init__` body of a declaration list -/
def InitOK : List Decl → List InitStmt → Prop
  | [], I => I = []
  | d :: Ds, I =>
    if d.kind.isLen = true then InitOK Ds I
    else ∃ e rest, I = .assign d.name e :: (lenStmt d ++ rest) ∧ ExprOK d e ∧ InitOK Ds rest

theorem InitOK_append : ∀ (D1 D2 : List Decl) (I1 I2 : List InitStmt), InitOK D1 I1 → InitOK D2 I2 →
    InitOK (D1 ++ D2) (I1 ++ I2)
  | [], D2, I1, I2, h1, h2 => by rw [InitOK] at h1; subst h1; exact h2
  | d :: D1, D2, I1, I2, h1, h2 => by
    rw [List.cons_append, InitOK]
    rw [InitOK] at h1
    by_cases hl : d.kind.isLen = true
    · rw [if_pos hl] at h1 ⊢
      exact InitOK_append D1 D2 I1 I2 h1 h2
    · rw [if_neg hl] at h1 ⊢
      obtain ⟨e, rest, rfl, he, hr⟩ := h1
      exact ⟨e, rest ++ I2, by simp [List.append_assoc], he, InitOK_append D1 D2 rest I2 hr h2⟩

/-! ### The finished object -/

def fixWith (lr : String → Option String) (attrs : List (String × Value)) (p : String × Value) : String × Value :=
  match lr p.1 with
  | some ref =>
    (match ((attrs.find? (·.1 == ref)).map (·.2)).getD .missing with
     | .str x => (p.1, .int x.length)
     | .tuple x => (p.1, .int x.length)
     | .none => (p.1, .none)
     | _ => p)
  | none => p

theorem finishObj_eq (cls : String) (body : List TInstr) (attrs : List (String × Value)) (size : Int) :
    finishObj cls body attrs size = .obj cls (attrs.map (fixWith (lenRefOf body) attrs)) size := by
  simp only [finishObj]
  rfl

/-! ### Association lists -/

def look (A : List (String × Value)) (k : String) : Value := ((A.find? (·.1 == k)).map (·.2)).getD .missing

theorem look_cons (a : String) (v : Value) (A : List (String × Value)) (k : String) :
    look ((a, v) :: A) k = if a == k then v else look A k := by
  unfold look
  rw [List.find?_cons]
  cases h : (a == k) <;> simp

theorem look_append_of_mem {A B : List (String × Value)} {k : String} (h : k ∈ A.map (·.1)) :
    look (A ++ B) k = look A k := by
  induction A with
  | nil => cases h
  | cons x xs ih =>
    obtain ⟨a, v⟩ := x
    rw [List.cons_append, look_cons, look_cons]
    by_cases ha : (a == k) = true
    · rw [if_pos ha, if_pos ha]
    · rw [if_neg ha, if_neg ha]
      simp only [List.map_cons, List.mem_cons] at h
      rcases h with h | h
      · exact absurd (by simp [h]) ha
      · exact ih h

theorem look_append_of_not_mem {A B : List (String × Value)} {k : String} (h : k ∉ A.map (·.1)) :
    look (A ++ B) k = look B k := by
  induction A with
  | nil => rfl
  | cons x xs ih =>
    obtain ⟨a, v⟩ := x
    simp only [List.map_cons, List.mem_cons, not_or] at h
    rw [List.cons_append, look_cons, if_neg (by simpa using Ne.symm h.1)]
    exact ih h.2

theorem look_of_mem {A : List (String × Value)} {k : String} {v : Value} (hnd : (A.map (·.1)).Nodup)
    (h : (k, v) ∈ A) : look A k = v := by
  induction A with
  | nil => cases h
  | cons x xs ih =>
    obtain ⟨a, w⟩ := x
    rw [List.map_cons, List.nodup_cons] at hnd
    rw [look_cons]
    rcases List.mem_cons.1 h with h | h
    · cases h; simp
    · have : (a == k) = false := by
        cases hq : (a == k) with
        | false => rfl
        | true =>
          have : a = k := by simpa using hq
          subst this
          exact absurd (List.mem_map.2 ⟨(a, v), h, rfl⟩) hnd.1
      rw [this]
      exact ih hnd.2 h

/-! ### Running `__init__` -/

def lenVal : Value → Value
  | .str x => .int x.length
  | .tuple x => .int x.length
  | _ => .none

/-- the attribute list `__init__` builds -/
def initA (av : String → Value) : List Decl → List (String × Value)
  | [] => []
  | d :: Ds =>
    if d.kind.isLen = true then initA av Ds
    else (d.name, av d.name) :: ((match d.lenOf with
      | some l => [(l, lenVal (av d.name))]
      | none => []) ++ initA av Ds)

theorem go_nil (args : List (String × Value)) (A : List (String × Value)) : runInit.go args [] A = .ok A := by
  rw [runInit.go]

/-- the value assigned by `.assign a e` -/
def assignVal (args : List (String × Value)) : InitExpr → Except PyErr Value
  | .param n => .ok (((args.find? (·.1 == n)).map (·.2)).getD .none)
  | .tupleOf n optional =>
    (match ((args.find? (·.1 == n)).map (·.2)).getD .none with
     | .tuple vs => .ok (.tuple vs)
     | .none => if optional then .ok .none else .error .TypeError
     | _ => .error .TypeError)
  | .strLit s => .ok (.str (s.toList.map Char.toNat))
  | .pasted t => pastedValue t
  | .boolLit b => .ok (.bool b)

theorem go_assign (args : List (String × Value)) (a : String) (e : InitExpr) (rest : List InitStmt)
    (A : List (String × Value)) (v : Value) (h : assignVal args e = .ok v) :
    runInit.go args (.assign a e :: rest) A = runInit.go args rest (A ++ [(a, v)]) := by
  cases e <;> simp only [assignVal] at h <;> simp only [runInit.go]
  all_goals first
    | (cases h; rfl)
    | (rw [h])
    | skip
  · rename_i n optional
    generalize (Option.map (fun x => x.snd) (List.find? (fun x => x.fst == n) args)).getD Value.none = w at h ⊢
    cases w <;> simp only at h
    all_goals first
      | (cases h; rfl)
      | (cases h; done)
      | skip
    cases optional <;> simp only [Bool.false_eq_true, if_false, if_true] at h ⊢
    · cases h
    · cases h; rfl

theorem go_lenOf (args : List (String × Value)) (l o : String) (optional : Bool) (rest : List InitStmt)
    (A : List (String × Value)) (v : Value)
    (h : (∃ x, look A o = .str x ∧ v = .int x.length) ∨ (∃ x, look A o = .tuple x ∧ v = .int x.length) ∨
      (look A o = .none ∧ optional = true ∧ v = .none)) :
    runInit.go args (.lenOf l o optional :: rest) A = runInit.go args rest (A ++ [(l, v)]) := by
  simp only [runInit.go]
  have hl : ((A.find? (fun p => p.1 == o)).map (fun p => p.2)).getD Value.missing = look A o := rfl
  simp only [hl]
  rcases h with ⟨x, h1, rfl⟩ | ⟨x, h1, rfl⟩ | ⟨h1, h2, rfl⟩
  · rw [h1]; rfl
  · rw [h1]; rfl
  · rw [h1, h2]; rfl

theorem name_inj {L : List Decl} (hnd : (L.map (·.name)).Nodup) {a b : Decl} (ha : a ∈ L) (hb : b ∈ L)
    (hab : a.name = b.name) : a = b := by
  induction L with
  | nil => cases ha
  | cons x xs ih =>
    rw [List.map_cons, List.nodup_cons] at hnd
    rcases List.mem_cons.1 ha with ha | ha <;> rcases List.mem_cons.1 hb with hb | hb
    · rw [ha, hb]
    · exact absurd (List.mem_map.2 ⟨b, hb, by rw [← hab, ha]⟩) hnd.1
    · exact absurd (List.mem_map.2 ⟨a, ha, by rw [hab, hb]⟩) hnd.1
    · exact ih hnd.2 ha hb

/-- what `__init__` needs to know about the argument of a declaration -/
def AssignOK (args : List (String × Value)) (av : String → Value) (d : Decl) : Prop :=
  (∀ e, ExprOK d e → assignVal args e = .ok (av d.name)) ∧
  (∀ l, d.lenOf = some l → (∃ x, av d.name = .str x) ∨ (∃ x, av d.name = .tuple x) ∨
    (av d.name = .none ∧ d.optional = true))

theorem go_initA (args : List (String × Value)) (av : String → Value) :
    ∀ (L : List Decl) (I : List InitStmt) (A0 : List (String × Value)),
    InitOK L I →
    (∀ d ∈ L, d.kind.isLen = false → AssignOK args av d) →
    (∀ d ∈ L, d.kind.isLen = false → d.name ∉ A0.map (·.1)) →
    (∀ d ∈ L, d.kind.isLen = false → ∀ d' ∈ L, ∀ l, d'.lenOf = some l → d.name ≠ l) →
    (L.map (·.name)).Nodup →
    runInit.go args I A0 = .ok (A0 ++ initA av L)
  | [], I, A0, hI, _, _, _, _ => by
    rw [InitOK] at hI
    subst hI
    rw [go_nil, initA, List.append_nil]
  | d :: L, I, A0, hI, hass, hfresh, hsep, hnd => by
    rw [InitOK] at hI
    rw [initA]
    have hnd' : (L.map (·.name)).Nodup := by rw [List.map_cons, List.nodup_cons] at hnd; exact hnd.2
    by_cases hl : d.kind.isLen = true
    · rw [if_pos hl] at hI ⊢
      exact go_initA args av L I A0 hI (fun d' hd' => hass d' (List.mem_cons_of_mem _ hd'))
        (fun d' hd' => hfresh d' (List.mem_cons_of_mem _ hd'))
        (fun d1 h1 k1 d2 h2 => hsep d1 (List.mem_cons_of_mem _ h1) k1 d2 (List.mem_cons_of_mem _ h2)) hnd'
    · rw [if_neg hl] at hI ⊢
      have hl' : d.kind.isLen = false := by simpa using hl
      obtain ⟨e, rest, rfl, he, hr⟩ := hI
      obtain ⟨ha1, ha2⟩ := hass d (List.mem_cons_self ..) hl'
      rw [go_assign args d.name e _ A0 _ (ha1 e he)]
      have hdfresh := hfresh d (List.mem_cons_self ..) hl'
      have hlook : look (A0 ++ [(d.name, av d.name)]) d.name = av d.name := by
        rw [look_append_of_not_mem hdfresh, look_cons]; simp
      -- the tail, from the attribute list extended by `X`
      have htail : ∀ (X : List (String × Value)), (∀ k ∈ X.map (·.1), k = d.name ∨ d.lenOf = some k) →
          runInit.go args rest (A0 ++ X) = .ok ((A0 ++ X) ++ initA av L) := by
        intro X hX
        refine go_initA args av L rest (A0 ++ X) hr (fun d' hd' => hass d' (List.mem_cons_of_mem _ hd')) ?_
          (fun d1 h1 k1 d2 h2 => hsep d1 (List.mem_cons_of_mem _ h1) k1 d2 (List.mem_cons_of_mem _ h2)) hnd'
        intro d' hd' hk' hmem
        rw [List.map_append, List.mem_append] at hmem
        rcases hmem with hmem | hmem
        · exact hfresh d' (List.mem_cons_of_mem _ hd') hk' hmem
        · rcases hX _ hmem with hx | hx
          · rw [List.map_cons, List.nodup_cons] at hnd
            exact hnd.1 (List.mem_map.2 ⟨d', hd', hx⟩)
          · exact hsep d' (List.mem_cons_of_mem _ hd') hk' d (List.mem_cons_self ..) _ hx rfl
      cases hlo : d.lenOf with
      | none =>
        have : lenStmt d = [] := by unfold lenStmt; rw [hlo]
        rw [this, List.nil_append]
        simp only [List.nil_append]
        have := htail [(d.name, av d.name)] (by intro k hk; simp at hk; exact Or.inl hk)
        rw [this]; simp
      | some l =>
        have : lenStmt d = [.lenOf l d.name d.optional] := by unfold lenStmt; rw [hlo]
        rw [this, List.singleton_append]
        have hv : (∃ x, look (A0 ++ [(d.name, av d.name)]) d.name = .str x ∧ lenVal (av d.name) = .int x.length) ∨
            (∃ x, look (A0 ++ [(d.name, av d.name)]) d.name = .tuple x ∧ lenVal (av d.name) = .int x.length) ∨
            (look (A0 ++ [(d.name, av d.name)]) d.name = .none ∧ d.optional = true ∧ lenVal (av d.name) = .none) := by
          rw [hlook]
          rcases ha2 l hlo with ⟨x, hx⟩ | ⟨x, hx⟩ | ⟨hx, ho⟩
          · exact Or.inl ⟨x, hx, by rw [hx]; rfl⟩
          · exact Or.inr (Or.inl ⟨x, hx, by rw [hx]; rfl⟩)
          · exact Or.inr (Or.inr ⟨hx, ho, by rw [hx]; rfl⟩)
        rw [go_lenOf args l d.name d.optional rest _ _ hv, List.append_assoc]
        have := htail [(d.name, av d.name), (l, lenVal (av d.name))] (by
          intro k hk
          simp at hk
          rcases hk with hk | hk
          · exact Or.inl hk
          · exact Or.inr (by rw [hk]; exact hlo))
        simp only [List.cons_append, List.nil_append] at this ⊢
        rw [this]; simp

theorem look_initA_nonlen (av : String → Value) : ∀ (L : List Decl), (L.map (·.name)).Nodup →
    (∀ d ∈ L, d.kind.isLen = false → ∀ d' ∈ L, ∀ l, d'.lenOf = some l → d.name ≠ l) →
    ∀ d ∈ L, d.kind.isLen = false → look (initA av L) d.name = av d.name
  | [], _, _, d, hd, _ => by cases hd
  | d0 :: L, hnd, hsep, d, hd, hk => by
    have hnd' : (L.map (·.name)).Nodup := by rw [List.map_cons, List.nodup_cons] at hnd; exact hnd.2
    have hsep' : ∀ d ∈ L, d.kind.isLen = false → ∀ d' ∈ L, ∀ l, d'.lenOf = some l → d.name ≠ l :=
      fun d1 h1 k1 d2 h2 => hsep d1 (List.mem_cons_of_mem _ h1) k1 d2 (List.mem_cons_of_mem _ h2)
    rw [initA]
    by_cases hl : d0.kind.isLen = true
    · rw [if_pos hl]
      rcases List.mem_cons.1 hd with rfl | hd
      · rw [hk] at hl; cases hl
      · exact look_initA_nonlen av L hnd' hsep' d hd hk
    · rw [if_neg hl, look_cons]
      rcases List.mem_cons.1 hd with rfl | hd
      · simp
      · have hne : (d0.name == d.name) = false := by
          cases hq : (d0.name == d.name) with
          | false => rfl
          | true =>
            have := name_inj hnd (List.mem_cons_self ..) (List.mem_cons_of_mem _ hd) (by simpa using hq)
            subst this
            rw [List.map_cons, List.nodup_cons] at hnd
            exact absurd (List.mem_map.2 ⟨d0, hd, rfl⟩) hnd.1
        rw [hne]
        simp only [Bool.false_eq_true, if_false]
        cases hlo : d0.lenOf with
        | none => simp only [List.nil_append]; exact look_initA_nonlen av L hnd' hsep' d hd hk
        | some l =>
          simp only [List.singleton_append]
          rw [look_cons]
          have : (l == d.name) = false := by
            cases hq : (l == d.name) with
            | false => rfl
            | true =>
              exact absurd (by simpa using hq : l = d.name).symm
                (hsep d (List.mem_cons_of_mem _ hd) hk d0 (List.mem_cons_self ..) l hlo)
          rw [this]
          simp only [Bool.false_eq_true, if_false]
          exact look_initA_nonlen av L hnd' hsep' d hd hk

theorem look_initA_len (av : String → Value) (k : String) (d' : Decl) (hk' : d'.lenOf = some k)
    (hnl : d'.kind.isLen = false) : ∀ (L : List Decl),
    (∀ d ∈ L, d.kind.isLen = false → d.name ≠ k) →
    (∀ d ∈ L, d.lenOf = some k → d = d') → d' ∈ L →
    look (initA av L) k = lenVal (av d'.name)
  | [], _, _, hd => by cases hd
  | d0 :: L, hsep, huniq, hd => by
    have hsep' : ∀ d ∈ L, d.kind.isLen = false → d.name ≠ k := fun d hd => hsep d (List.mem_cons_of_mem _ hd)
    have huniq' : ∀ d ∈ L, d.lenOf = some k → d = d' := fun d hd => huniq d (List.mem_cons_of_mem _ hd)
    rw [initA]
    by_cases hl : d0.kind.isLen = true
    · rw [if_pos hl]
      rcases List.mem_cons.1 hd with rfl | hd
      · rw [hnl] at hl; cases hl
      · exact look_initA_len av k d' hk' hnl L hsep' huniq' hd
    · rw [if_neg hl, look_cons]
      have hne : (d0.name == k) = false := by
        cases hq : (d0.name == k) with
        | false => rfl
        | true => exact absurd (by simpa using hq) (hsep d0 (List.mem_cons_self ..) (by simpa using hl))
      rw [hne]
      simp only [Bool.false_eq_true, if_false]
      cases hlo : d0.lenOf with
      | none =>
        simp only [List.nil_append]
        rcases List.mem_cons.1 hd with rfl | hd
        · rw [hlo] at hk'; cases hk'
        · exact look_initA_len av k d' hk' hnl L hsep' huniq' hd
      | some l =>
        simp only [List.singleton_append]
        rw [look_cons]
        by_cases hlk : (l == k) = true
        · have : l = k := by simpa using hlk
          subst this
          have := huniq d0 (List.mem_cons_self ..) hlo
          subst this
          rw [if_pos hlk]
        · rw [if_neg hlk]
          rcases List.mem_cons.1 hd with rfl | hd
          · rw [hlo] at hk'; cases hk'; simp at hlk
          · exact look_initA_len av k d' hk' hnl L hsep' huniq' hd

end EoVerif.Gen.DeConform
