import EoVerif.Lemmas.ConformTypes
/-! From `compile` / `elabSpec` down to the class bodies (C02). -/
namespace EoVerif.Gen.Conform
open EoVerif EoVerif.Gen EoVerif.Spec EoVerif.Gen.WF

/-- every indexed definition is filed under its own `name` attribute -/
def DefsOK (defs : Defs) : Prop := ∀ p ∈ defs, p.2.xml.get "name" = some p.1

theorem defineAll_ok (f : ProtoFile) : ∀ (es : List Xml) (defs defs' : Defs), DefsOK defs →
    indexFiles.defineAll f es defs = .ok defs' → DefsOK defs'
  | [], defs, defs', hd, h => by
    rw [indexFiles.defineAll] at h; cases h; exact hd
  | e :: es, defs, defs', hd, h => by
    rw [indexFiles.defineAll] at h
    split at h
    · cases h
    · rename_i n hn
      split at h
      · cases h
      · refine defineAll_ok f es _ defs' ?_ h
        intro p hp
        rw [List.mem_append, List.mem_singleton] at hp
        rcases hp with hp | rfl
        · exact hd p hp
        · exact getReq_ok hn

theorem indexFiles_ok : ∀ (files : List ProtoFile) (defs defs' : Defs), DefsOK defs →
    indexFiles files defs = .ok defs' → DefsOK defs'
  | [], defs, defs', hd, h => by rw [indexFiles] at h; cases h; exact hd
  | f :: fs, defs, defs', hd, h => by
    rw [indexFiles] at h
    split at h
    · simp only [throw_bind_ok] at h
    · simp only [bind_ok_iff] at h
      obtain ⟨d1, h1, d2, h2, _, _, h3⟩ := h
      exact indexFiles_ok fs d2 defs' (defineAll_ok f _ _ _ (defineAll_ok f _ _ _ hd h1) h2) h3

theorem defs_find_mem {defs : Defs} {n : String} {u : Unresolved} (h : defs.find? n = some u) :
    ∃ k, (k, u) ∈ defs ∧ k = n := by
  unfold Defs.find? at h
  cases hf : List.find? (fun x => x.1 == n) defs with
  | none => rw [hf] at h; cases h
  | some p =>
    rw [hf] at h
    simp only [Option.map_some, Option.some.injEq] at h
    subst h
    refine ⟨p.1, List.mem_of_find?_eq_some hf, ?_⟩
    simpa using List.find?_some hf

/-- a struct type resolves under the name it was asked for -/
theorem getType_struct_name {defs : Defs} {fuel : Nat} {n name path : String} {fs : Option Int} {b : Bool}
    (hd : DefsOK defs) (h : getType defs (fuel + 2) n none = .ok (.struct name path fs b)) : name = n := by
  rw [getType_none] at h
  obtain ⟨under, hu, hr, hf⟩ := createType_ok h
  rcases underOf_ok hu with ⟨x, hp, rfl⟩ | ⟨x, y, k, hp, _, rfl⟩
  · have hx : x = n := splitColon_single n x hp
    have hn : nameOf n = n := by unfold nameOf; rw [hp, hx]
    rw [hn] at hr
    unfold resultOf at hr
    split at hr
    · cases hr
    · repeat' split at hr
      all_goals first | cases hr | skip
      unfold customOf at hr
      split at hr
      · cases hr
      · rename_i u hfu
        split at hr
        · obtain ⟨_, _, _, _, he⟩ := createEnum_ok hr; cases he
        · split at hr
          · obtain ⟨n', fs', b', he, hn'⟩ := createStruct_ok hr
            cases he
            obtain ⟨k, hk, rfl⟩ := defs_find_mem hfu
            have := hd _ hk
            have h2 := getReq_ok hn'
            simp only at this
            rw [this] at h2
            cases h2; rfl
          · cases hr
  · unfold finalOf at hf; simp at hf


/-! ### From `compile` to the class bodies -/

theorem mapM'_spec {α β} {g : α → Except GenErr β} : ∀ {l : List α} {r : List β}, mapM' g l = .ok r →
    r.length = l.length ∧ (∀ y ∈ r, ∃ x ∈ l, g x = .ok y) ∧ (∀ x ∈ l, ∃ y ∈ r, g x = .ok y)
  | [], r, h => by rw [mapM'] at h; cases h; simp
  | a :: as, r, h => by
    rw [mapM'] at h
    split at h
    · cases h
    · rename_i b hb
      cases hm : mapM' g as with
      | error m => rw [hm] at h; cases h
      | ok bs =>
        rw [hm] at h
        cases h
        obtain ⟨h1, h2, h3⟩ := mapM'_spec hm
        refine ⟨by simp [h1], ?_, ?_⟩
        · intro y hy
          rcases List.mem_cons.1 hy with rfl | hy
          · exact ⟨a, List.mem_cons_self .., hb⟩
          · obtain ⟨x, hx, hfx⟩ := h2 y hy
            exact ⟨x, List.mem_cons_of_mem _ hx, hfx⟩
        · intro x hx
          rcases List.mem_cons.1 hx with rfl | hx
          · exact ⟨b, List.mem_cons_self .., hb⟩
          · obtain ⟨y, hy, hfx⟩ := h3 x hx
            exact ⟨y, List.mem_cons_of_mem _ hy, hfx⟩

/-- the class name the two sides give a `<packet>` in directory `dir` -/
def pktName (dir : String) (p : Xml) : String :=
  (p.get "family").getD "" ++ (p.get "action").getD "" ++
    (if dir == "net/client" then "ClientPacket" else "ServerPacket")

theorem genObject_spec {tf : TypeEnv} {name : String} {e : Xml} {cs : List ClassIR}
    (h : genObject tf name e = .ok cs) :
    ∃ ctx d, genBody tf {} { className := name } e.children true = .ok (ctx, d) ∧ cs = d.toClass ctx :: d.aux := by
  unfold genObject at h
  split at h
  · cases h
  · rename_i ctx d hb; cases h; exact ⟨ctx, d, hb, rfl⟩

theorem genStruct_spec {defs : Defs} {fuel : Nat} {s : Xml} {r : List ClassIR × GenFile} (hd : DefsOK defs)
    (h : genStruct (getType defs (fuel + 2)) s = .ok r) :
    ∃ n ctx d, s.get "name" = some n ∧
      genBody (getType defs (fuel + 2)) {} { className := n } s.children true = .ok (ctx, d) ∧
      r.1 = d.toClass ctx :: d.aux := by
  unfold genStruct at h
  obtain ⟨n, hn, h⟩ := except_bind_ok h
  obtain ⟨t, ht, h⟩ := except_bind_ok h
  split at h
  · rename_i name path fs b
    obtain ⟨cs, hcs, h⟩ := except_bind_ok h
    simp only [pure, Except.pure, Except.ok.injEq] at h
    subst h
    have := getType_struct_name hd ht
    subst this
    obtain ⟨ctx, d, hb, rfl⟩ := genObject_spec hcs
    exact ⟨_, ctx, d, getReq_ok hn, hb, rfl⟩
  · cases h

theorem genPacket_spec {tf : TypeEnv} {dir : String} {p : Xml} {r : List ClassIR × GenFile}
    (h : genPacket tf dir p = .ok r) :
    ∃ ctx d c, genBody tf {} { className := pktName dir p } p.children true = .ok (ctx, d) ∧
      r.1 = c :: d.aux ∧ c.name = d.className ∧ c.ser = d.ser := by
  unfold genPacket at h
  extract_lets jp at h
  obtain ⟨suffix, hsuf, h⟩ : ∃ s, s = (if dir == "net/client" then "ClientPacket" else "ServerPacket") ∧
      jp s = .ok r := by
    split at h
    · rename_i hd; exact ⟨_, by rw [if_pos hd], h⟩
    · rename_i hd
      split at h
      · exact ⟨_, by rw [if_neg hd], h⟩
      · simp only [throw_bind_ok] at h
  simp only [jp] at h
  obtain ⟨fam, hfam, h⟩ := except_bind_ok h
  obtain ⟨act, hact, h⟩ := except_bind_ok h
  have hname : fam ++ act ++ suffix = pktName dir p := by
    unfold pktName; rw [getReq_ok hfam, getReq_ok hact, hsuf]; rfl
  obtain ⟨ft, _, h⟩ := except_bind_ok h
  split at h
  · obtain ⟨fvals, _, h⟩ := except_bind_ok h
    obtain ⟨at_, _, h⟩ := except_bind_ok h
    split at h
    · obtain ⟨avals, _, h⟩ := except_bind_ok h
      split at h
      · obtain ⟨fv, _, h⟩ := except_bind_ok h
        split at h
        · obtain ⟨av, _, h⟩ := except_bind_ok h
          obtain ⟨cs, hcs, h⟩ := except_bind_ok h
          rw [hname] at hcs
          obtain ⟨ctx, d, hb, rfl⟩ := genObject_spec hcs
          simp only [pure, Except.pure, Except.ok.injEq] at h
          subst h
          exact ⟨ctx, d, _, hb, rfl, rfl, rfl⟩
        · simp only [throw_bind_ok] at h
      · simp only [throw_bind_ok] at h
    · simp only [throw_bind_ok] at h
  · simp only [throw_bind_ok] at h


/-! ### `elabSpec`, decomposed -/

def specStructs (files : List ProtoFile) : List (String × Xml) :=
  ((files.map (fun f => f.root.findall "struct")).flatten).filterMap (fun s => (s.get "name").map (fun n => (n, s)))

def specEnums (files : List ProtoFile) : List (String × IntKind × List (String × Int)) :=
  ((files.map (fun f => f.root.findall "enum")).flatten).filterMap (fun e =>
    match e.get "name", (e.get "type").bind IntKind.ofName? with
    | some n, some k => some (n, k, (e.findall "value").filterMap (fun v =>
        match v.get "name", (match v.getText with | .ok t => t | .error _ => none).bind PyStr.pyInt? with
        | some vn, some o => some (vn, o)
        | _, _ => none))
    | _, _ => none)

def specEnv (files : List ProtoFile) : Env := ⟨specEnums files, (specStructs files).map (·.1)⟩

def specSS (files : List ProtoFile) : String → Option Int :=
  structFixed (specEnv files) (specStructs files) ((specStructs files).length + 2)

def mkClass (files : List ProtoFile) (name : String) (x : Xml) : Option TClass :=
  (elabBody (specEnv files) (specSS files) name x.children x.children false).map (fun b => ⟨name, b⟩)

def specPackets (files : List ProtoFile) : List (String × Xml) :=
  (files.map (fun f => (f.root.findall "packet").map (fun p => (pktName f.dir p, p)))).flatten

/-- the class sources: every named `<struct>` and every `<packet>`, with the class name -/
def srcs (files : List ProtoFile) : List (String × Xml) := specStructs files ++ specPackets files

theorem elabSpec_eq (files : List ProtoFile) :
    elabSpec files =
      if ((srcs files).map (fun p => mkClass files p.1 p.2)).any Option.isNone then none
      else some ⟨((srcs files).map (fun p => mkClass files p.1 p.2)).filterMap id⟩ := by
  have h : (srcs files).map (fun p => mkClass files p.1 p.2)
      = (specStructs files).map (fun p => mkClass files p.1 p.2) ++
        (files.map (fun f => (f.root.findall "packet").map (fun p => mkClass files (pktName f.dir p) p))).flatten := by
    unfold srcs specPackets
    rw [List.map_append, List.map_flatten, List.map_map]
    congr 2
    apply List.map_congr_left
    intro f _
    simp [List.map_map, Function.comp_def]
  rw [h]
  rfl

theorem elabSpec_classes {files : List ProtoFile} {t : TSpec} (h : elabSpec files = some t) :
    (∀ c ∈ t.classes, ∃ p ∈ srcs files, mkClass files p.1 p.2 = some c) ∧
    (∀ p ∈ srcs files, ∃ c ∈ t.classes, mkClass files p.1 p.2 = some c) ∧
    t.classes.length ≤ (srcs files).length := by
  rw [elabSpec_eq] at h
  split at h
  · cases h
  · rename_i hany
    cases h
    refine ⟨?_, ?_, ?_⟩
    · intro c hc
      simp only [List.mem_filterMap, List.mem_map, id] at hc
      obtain ⟨_, ⟨p, hp, rfl⟩, hc⟩ := hc
      exact ⟨p, hp, hc⟩
    · intro p hp
      cases hm : mkClass files p.1 p.2 with
      | none =>
        exfalso
        apply hany
        rw [List.any_eq_true]
        exact ⟨none, List.mem_map.2 ⟨p, hp, hm⟩, rfl⟩
      | some c =>
        refine ⟨c, ?_, rfl⟩
        simp only [List.mem_filterMap, List.mem_map, id]
        exact ⟨some c, ⟨p, hp, hm⟩, rfl⟩
    · refine Nat.le_trans (List.length_filterMap_le _ _) ?_
      simp


/-! ### The index of definitions -/

/-- the index against the elements processed so far -/
structure DefsInv (defs : Defs) (S : List (Xml × String)) : Prop where
  nodup : (defs.map (·.1)).Nodup
  named : DefsOK defs
  complete : ∀ q ∈ S, ∃ n, q.1.get "name" = some n ∧ (n, ⟨q.1, q.2⟩) ∈ defs
  sound : ∀ p ∈ defs, (p.2.xml, p.2.path) ∈ S

theorem defs_find_none {defs : Defs} {n : String} (h : (defs.find? n).isSome = false) :
    n ∉ defs.map (·.1) := by
  intro hm
  obtain ⟨p, hp, rfl⟩ := List.mem_map.1 hm
  unfold Defs.find? at h
  cases hf : List.find? (fun x => x.1 == p.1) defs with
  | none =>
    rw [List.find?_eq_none] at hf
    exact hf p hp (by simp)
  | some q => rw [hf] at h; cases h

theorem defineAll_inv (f : ProtoFile) : ∀ (es : List Xml) (defs defs' : Defs) (S : List (Xml × String)),
    DefsInv defs S → indexFiles.defineAll f es defs = .ok defs' →
    DefsInv defs' (S ++ es.map (fun e => (e, f.dir)))
  | [], defs, defs', S, hi, h => by
    rw [indexFiles.defineAll] at h; cases h; simpa using hi
  | e :: es, defs, defs', S, hi, h => by
    rw [indexFiles.defineAll] at h
    split at h
    · cases h
    · rename_i n hn
      split at h
      · cases h
      · rename_i hfree
        have hfree' : (defs.find? n).isSome = false := by simpa using hfree
        have := defineAll_inv f es _ defs' (S ++ [(e, f.dir)]) ?_ h
        · simpa [List.append_assoc] using this
        · refine ⟨?_, ?_, ?_, ?_⟩
          · rw [List.map_append, List.nodup_append]
            refine ⟨hi.nodup, by simp, ?_⟩
            intro a ha b hb hab
            simp only [List.map_cons, List.map_nil, List.mem_singleton] at hb
            subst hb; subst hab
            exact defs_find_none hfree' ha
          · intro p hp
            rw [List.mem_append, List.mem_singleton] at hp
            rcases hp with hp | rfl
            · exact hi.named p hp
            · exact getReq_ok hn
          · intro q hq
            rw [List.mem_append, List.mem_singleton] at hq
            rcases hq with hq | rfl
            · obtain ⟨m, hm1, hm2⟩ := hi.complete q hq
              exact ⟨m, hm1, List.mem_append_left _ hm2⟩
            · exact ⟨n, getReq_ok hn, List.mem_append_right _ (List.mem_singleton.2 rfl)⟩
          · intro p hp
            rw [List.mem_append, List.mem_singleton] at hp
            rcases hp with hp | rfl
            · exact List.mem_append_left _ (hi.sound p hp)
            · exact List.mem_append_right _ (List.mem_singleton.2 rfl)

/-- the enum and struct elements of the files, with their directory -/
def allDefs (files : List ProtoFile) : List (Xml × String) :=
  (files.map (fun f => (f.root.findall "enum").map (fun e => (e, f.dir)) ++
    (f.root.findall "struct").map (fun e => (e, f.dir)))).flatten

theorem indexFiles_inv : ∀ (files : List ProtoFile) (defs defs' : Defs) (S : List (Xml × String)),
    DefsInv defs S → indexFiles files defs = .ok defs' → DefsInv defs' (S ++ allDefs files)
  | [], defs, defs', S, hi, h => by
    rw [indexFiles] at h; cases h; simpa [allDefs] using hi
  | f :: fs, defs, defs', S, hi, h => by
    rw [indexFiles] at h
    split at h
    · simp only [throw_bind_ok] at h
    · simp only [bind_ok_iff] at h
      obtain ⟨d1, h1, d2, h2, _, _, h3⟩ := h
      have i1 := defineAll_inv f _ _ _ _ hi h1
      have i2 := defineAll_inv f _ _ _ _ i1 h2
      have := indexFiles_inv fs d2 defs' _ i2 h3
      simpa [allDefs, List.append_assoc] using this


/-! ### Custom types -/

/-- every `<enum>` declares one of the integer types as its underlying type -/
def EnumsValid (files : List ProtoFile) : Prop :=
  ∀ f ∈ files, ∀ e ∈ f.root.findall "enum", ∃ k, (e.get "type").bind IntKind.ofName? = some k

theorem mem_findall_tag {e x : Xml} {t : String} (h : x ∈ e.findall t) : (x.tag == t) = true := by
  unfold Xml.findall at h
  exact (List.mem_filter.1 h).2

theorem allDefs_mem {files : List ProtoFile} {q : Xml × String} (h : q ∈ allDefs files) :
    ∃ f ∈ files, q.2 = f.dir ∧ (q.1 ∈ f.root.findall "enum" ∨ q.1 ∈ f.root.findall "struct") := by
  unfold allDefs at h
  simp only [List.mem_flatten, List.mem_map] at h
  obtain ⟨_, ⟨f, hf, rfl⟩, hq⟩ := h
  rw [List.mem_append] at hq
  rcases hq with hq | hq
  · obtain ⟨e, he, rfl⟩ := List.mem_map.1 hq
    exact ⟨f, hf, rfl, Or.inl he⟩
  · obtain ⟨e, he, rfl⟩ := List.mem_map.1 hq
    exact ⟨f, hf, rfl, Or.inr he⟩

theorem mem_allDefs_enum {files : List ProtoFile} {f : ProtoFile} {e : Xml} (hf : f ∈ files)
    (he : e ∈ f.root.findall "enum") : (e, f.dir) ∈ allDefs files := by
  unfold allDefs
  simp only [List.mem_flatten, List.mem_map]
  exact ⟨_, ⟨f, hf, rfl⟩, List.mem_append_left _ (List.mem_map.2 ⟨e, he, rfl⟩)⟩

theorem mem_allDefs_struct {files : List ProtoFile} {f : ProtoFile} {e : Xml} (hf : f ∈ files)
    (he : e ∈ f.root.findall "struct") : (e, f.dir) ∈ allDefs files := by
  unfold allDefs
  simp only [List.mem_flatten, List.mem_map]
  exact ⟨_, ⟨f, hf, rfl⟩, List.mem_append_right _ (List.mem_map.2 ⟨e, he, rfl⟩)⟩

/-- two index entries under the same key are the same entry -/
theorem defs_unique {defs : Defs} (hnd : (defs.map (·.1)).Nodup) {n : String} {u u' : Unresolved}
    (h1 : (n, u) ∈ defs) (h2 : (n, u') ∈ defs) : u = u' := by
  induction defs with
  | nil => cases h1
  | cons p ps ih =>
    rw [List.map_cons, List.nodup_cons] at hnd
    rcases List.mem_cons.1 h1 with h1 | h1 <;> rcases List.mem_cons.1 h2 with h2 | h2
    · rw [← h1] at h2; cases h2; rfl
    · exact absurd (List.mem_map.2 ⟨(n, u'), h2, by rw [← h1]⟩) hnd.1
    · exact absurd (List.mem_map.2 ⟨(n, u), h1, by rw [← h2]⟩) hnd.1
    · exact ih hnd.2 h1 h2

/-- the `env.enums` entry of an enum element -/
def enumEntry (e : Xml) : Option (String × IntKind × List (String × Int)) :=
  match e.get "name", (e.get "type").bind IntKind.ofName? with
  | some n, some k => some (n, k, valueEntries (e.findall "value"))
  | _, _ => none

theorem specEnums_eq (files : List ProtoFile) :
    specEnums files = ((files.map (fun f => f.root.findall "enum")).flatten).filterMap enumEntry := rfl

theorem enumEntry_some {e : Xml} {r : String × IntKind × List (String × Int)} (h : enumEntry e = some r) :
    e.get "name" = some r.1 ∧ (e.get "type").bind IntKind.ofName? = some r.2.1 := by
  unfold enumEntry at h
  split at h
  · rename_i n k hn hk; cases h; exact ⟨hn, hk⟩
  · cases h

/-- looking an enum up in the declarative environment -/
theorem specEnums_find {files : List ProtoFile} {defs : Defs} (hinv : DefsInv defs (allDefs files))
    {name : String} {u : Unresolved} (hu : (name, u) ∈ defs) (htag : (u.xml.tag == "enum") = true)
    {k : IntKind} (hk : (u.xml.get "type").bind IntKind.ofName? = some k) :
    (specEnums files).find? (·.1 == name) = some (name, k, valueEntries (u.xml.findall "value")) := by
  -- the element is one of the enum elements
  obtain ⟨f, hf, hdir, hor⟩ := allDefs_mem (hinv.sound _ hu)
  have hmem : u.xml ∈ f.root.findall "enum" := by
    rcases hor with h | h
    · exact h
    · have := mem_findall_tag h
      have h1 : u.xml.tag = "enum" := by simpa using htag
      rw [h1] at this; exact absurd this (by decide)
  have hname : u.xml.get "name" = some name := hinv.named _ hu
  have hentry : enumEntry u.xml = some (name, k, valueEntries (u.xml.findall "value")) := by
    unfold enumEntry; rw [hname, hk]
  have hin : (name, k, valueEntries (u.xml.findall "value")) ∈ specEnums files := by
    rw [specEnums_eq, List.mem_filterMap]
    refine ⟨u.xml, ?_, hentry⟩
    rw [List.mem_flatten]
    exact ⟨_, List.mem_map.2 ⟨f, hf, rfl⟩, hmem⟩
  cases hfind : (specEnums files).find? (·.1 == name) with
  | none =>
    rw [List.find?_eq_none] at hfind
    exact absurd (by simp) (hfind _ hin)
  | some r =>
    have hr1 : r.1 = name := by simpa using List.find?_some hfind
    have hrm := List.mem_of_find?_eq_some hfind
    rw [specEnums_eq, List.mem_filterMap] at hrm
    obtain ⟨e', he', hre⟩ := hrm
    rw [List.mem_flatten] at he'
    obtain ⟨_, hl, he'⟩ := he'
    obtain ⟨f', hf', rfl⟩ := List.mem_map.1 hl
    obtain ⟨hn', hk'⟩ := enumEntry_some hre
    obtain ⟨m, hm1, hm2⟩ := hinv.complete _ (mem_allDefs_enum hf' he')
    simp only at hm1 hm2
    rw [hn', hr1] at hm1
    cases hm1
    have := defs_unique hinv.nodup hu hm2
    subst this
    rw [hentry] at hre
    simp only [Option.some.injEq] at hre
    rw [← hre]

theorem specEnums_find_none {files : List ProtoFile} {defs : Defs} (hinv : DefsInv defs (allDefs files))
    {name : String} {u : Unresolved} (hu : (name, u) ∈ defs) (htag : (u.xml.tag == "enum") = false) :
    (specEnums files).find? (·.1 == name) = none := by
  rw [List.find?_eq_none]
  intro r hrm hr
  have hr1 : r.1 = name := by simpa using hr
  rw [specEnums_eq, List.mem_filterMap] at hrm
  obtain ⟨e', he', hre⟩ := hrm
  rw [List.mem_flatten] at he'
  obtain ⟨_, hl, he'⟩ := he'
  obtain ⟨f', hf', rfl⟩ := List.mem_map.1 hl
  obtain ⟨hn', _⟩ := enumEntry_some hre
  obtain ⟨m, hm1, hm2⟩ := hinv.complete _ (mem_allDefs_enum hf' he')
  simp only at hm1 hm2
  rw [hn', hr1] at hm1
  cases hm1
  have := defs_unique hinv.nodup hu hm2
  subst this
  have := mem_findall_tag he'
  rw [this] at htag; cases htag

theorem specStructs_contains {files : List ProtoFile} {defs : Defs} (hinv : DefsInv defs (allDefs files))
    {name : String} {u : Unresolved} (hu : (name, u) ∈ defs) (htag : (u.xml.tag == "struct") = true) :
    ((specStructs files).map (·.1)).contains name = true := by
  obtain ⟨f, hf, hdir, hor⟩ := allDefs_mem (hinv.sound _ hu)
  have hmem : u.xml ∈ f.root.findall "struct" := by
    rcases hor with h | h
    · have := mem_findall_tag h
      have h1 : u.xml.tag = "struct" := by simpa using htag
      rw [h1] at this; exact absurd this (by decide)
    · exact h
  have hname : u.xml.get "name" = some name := hinv.named _ hu
  rw [List.contains_iff_mem, List.mem_map]
  refine ⟨(name, u.xml), ?_, rfl⟩
  unfold specStructs
  rw [List.mem_filterMap]
  refine ⟨u.xml, ?_, by rw [hname]; rfl⟩
  rw [List.mem_flatten]
  exact ⟨_, List.mem_map.2 ⟨f, hf, rfl⟩, hmem⟩


theorem createEnum_kind {defs : Defs} {fuel : Nat} {u : Unresolved} {o : Option IntKind}
    {en path : String} {k : IntKind} {vals : List EnumVal}
    (h : createEnum defs fuel u o = .ok (.enum en path k vals)) :
    o = some k ∨ (o = none ∧ (u.xml.get "type").bind IntKind.ofName? = some k) := by
  cases fuel with
  | zero => rw [createEnum] at h; cases h
  | succ f =>
    rw [createEnum] at h
    split at h
    · cases h
    · rename_i enumName _
      cases o with
      | some k0 =>
        simp only at h
        split at h
        · cases h
        · cases h; exact Or.inl rfl
      | none =>
        simp only at h
        split at h
        · cases h
        · rename_i k' hk'
          split at h
          · cases h
          · cases h
            refine Or.inr ⟨rfl, ?_⟩
            split at hk'
            · cases hk'
            · rename_i tn htn
              split at hk'
              · cases hk'
              · split at hk'
                · cases hk'
                · rename_i k'' hg
                  cases hk'
                  rw [getReq_ok htn]
                  exact getType_int hg
                · cases hk'

theorem tfOK_all (files : List ProtoFile) (defs : Defs) (fuel : Nat) (hinv : DefsInv defs (allDefs files))
    (hev : EnumsValid files) : TfOK (fun _ => true) (getType defs (fuel + 2)) (specEnv files) := by
  have hb := tfOK_basic defs fuel (specEnv files)
  refine ⟨?_, hb.withLen, hb.intName, ?_⟩
  rotate_left
  · -- the members of a resolved enum
    intro s en path k vals _ h
    rw [getType_none] at h
    obtain ⟨under, hu, hr, hf⟩ := createType_ok h
    unfold resultOf at hr
    have hn : (PyStr.splitColon s).headD s = nameOf s := by
      unfold nameOf; cases PyStr.splitColon s <;> rfl
    cases hk : IntKind.ofName? (nameOf s) with
    | some k' => rw [hk] at hr; cases hr
    | none =>
      rw [hk] at hr
      simp only at hr
      by_cases h1 : (nameOf s == "bool") = true
      · rw [if_pos h1] at hr; cases hr
      rw [if_neg h1] at hr
      by_cases h2 : (nameOf s == "string") = true
      · rw [if_pos h2] at hr; cases hr
      rw [if_neg h2] at hr
      by_cases h3 : (nameOf s == "encoded_string") = true
      · rw [if_pos h3] at hr; cases hr
      rw [if_neg h3] at hr
      by_cases h4 : (nameOf s == "blob") = true
      · rw [if_pos h4] at hr; cases hr
      rw [if_neg h4] at hr
      unfold customOf at hr
      cases hfu : defs.find? (nameOf s) with
      | none => rw [hfu] at hr; cases hr
      | some u =>
        rw [hfu] at hr
        simp only at hr
        obtain ⟨key, hkm, rfl⟩ := defs_find_mem hfu
        by_cases htag : (u.xml.tag == "enum") = true
        · rw [if_pos htag] at hr
          obtain ⟨f, hf', _, hor⟩ := allDefs_mem (hinv.sound _ hkm)
          have hmem : u.xml ∈ f.root.findall "enum" := by
            rcases hor with h' | h'
            · exact h'
            · have := mem_findall_tag h'
              have h1' : u.xml.tag = "enum" := by simpa using htag
              rw [h1'] at this; exact absurd this (by decide)
          obtain ⟨k0, hk0⟩ := hev f hf' _ hmem
          have hfind := specEnums_find hinv hkm htag hk0
          have hfind' : List.find? (fun x => x.1 == nameOf s) (specEnv files).enums
              = some (nameOf s, k0, valueEntries (u.xml.findall "value")) := hfind
          unfold enumMembers
          simp only [hn, hfind']
          have hvals := createEnum_vals hr
          exact enumValues_entries _ _ _ _ _ hvals
        · rw [if_neg htag] at hr
          by_cases htag2 : (u.xml.tag == "struct") = true
          · rw [if_pos htag2] at hr
            obtain ⟨_, _, _, he', _⟩ := createStruct_ok hr
            cases he'
          · rw [if_neg htag2] at hr; cases hr
  intro s len ty padded _ h
  by_cases hbasic : okBasic s = true
  · exact hb.resolve s len ty padded hbasic h
  cases len with
  | some l =>
    obtain ⟨e, rfl⟩ := hb.withLen s l ty h
    rw [getType] at h
    exfalso
    apply hbasic
    split at h
    · rename_i hs
      have : s = "string" := by simpa using hs
      subst this; decide
    · split at h
      · rename_i hs
        have : s = "encoded_string" := by simpa using hs
        subst this; decide
      · cases h
  | none =>
    rw [getType_none] at h
    obtain ⟨under, hu, hr, hf⟩ := createType_ok h
    rw [scalarOf_eq]
    unfold okBasic basicName at hbasic
    unfold resultOf at hr
    cases hk : IntKind.ofName? (nameOf s) with
    | some k => rw [hk] at hbasic; simp at hbasic
    | none =>
      rw [hk] at hr hbasic
      simp only [Option.isSome_none, Bool.false_or, Bool.or_eq_true, not_or, Bool.not_eq_true] at hbasic hr
      obtain ⟨⟨⟨h1, h2⟩, h3⟩, h4⟩ := hbasic
      simp only [h1, h2, h3, h4, Bool.false_eq_true, if_false] at hr ⊢
      unfold customOf at hr
      cases hfu : defs.find? (nameOf s) with
      | none => rw [hfu] at hr; cases hr
      | some u =>
        rw [hfu] at hr
        simp only at hr
        obtain ⟨key, hkm, rfl⟩ := defs_find_mem hfu
        -- the override, as the declarative side reads it
        have hover : overOf (PyStr.splitColon s) = under.bind Ty.asInt? := by
          rcases underOf_ok hu with ⟨x, hp, rfl⟩ | ⟨x, y, k, hp, hg, rfl⟩
          · rw [hp]; rfl
          · rw [hp]; simp only [overOf, getType_int hg]; rfl
        by_cases htag : (u.xml.tag == "enum") = true
        · rw [if_pos htag] at hr
          obtain ⟨en, path, k, vals, rfl⟩ := createEnum_ok hr
          -- the element's own underlying type
          obtain ⟨f, hf', _, hor⟩ := allDefs_mem (hinv.sound _ hkm)
          have hmem : u.xml ∈ f.root.findall "enum" := by
            rcases hor with h' | h'
            · exact h'
            · have := mem_findall_tag h'
              have h1' : u.xml.tag = "enum" := by simpa using htag
              rw [h1'] at this; exact absurd this (by decide)
          obtain ⟨k0, hk0⟩ := hev f hf' _ hmem
          have hfind := specEnums_find hinv hkm htag hk0
          have hfind' : List.find? (fun x => x.1 == nameOf s) (specEnv files).enums
              = some (nameOf s, k0, valueEntries (u.xml.findall "value")) := hfind
          rw [hfind']
          refine ⟨_, rfl, ?_⟩
          show Scalar.enum _ = Scalar.enum _
          rw [hover]
          rcases createEnum_kind hr with ho | ⟨ho, hk'⟩
          · rw [ho]; rfl
          · rw [ho]
            rw [hk0] at hk'
            cases hk'; rfl
        · rw [if_neg htag] at hr
          by_cases htag2 : (u.xml.tag == "struct") = true
          · rw [if_pos htag2] at hr
            obtain ⟨n', fs', b', rfl, hn'⟩ := createStruct_ok hr
            have hnone := specEnums_find_none hinv hkm (by simpa using htag)
            have hnone' : List.find? (fun x => x.1 == nameOf s) (specEnv files).enums = none := hnone
            have hcont : (specEnv files).structs.contains (nameOf s) = true := specStructs_contains hinv hkm htag2
            rw [hnone']
            simp only [hcont, if_true]
            refine ⟨_, rfl, ?_⟩
            show Scalar.struct _ = Scalar.struct _
            have h2' := getReq_ok hn'
            rw [hinv.named _ hkm] at h2'
            cases h2'; rfl
          · rw [if_neg htag2] at hr; cases hr

/-! ### `compile`, decomposed -/

theorem mapM'_sum_le {α β} {g : α → Except GenErr β} (w : α → Nat) (m : β → Nat)
    (hw : ∀ x y, g x = .ok y → w x ≤ m y) : ∀ {l : List α} {r : List β}, mapM' g l = .ok r →
    (l.map w).sum ≤ (r.map m).sum
  | [], r, h => by rw [mapM'] at h; cases h; simp
  | a :: as, r, h => by
    rw [mapM'] at h
    split at h
    · cases h
    · rename_i b hb
      cases hm : mapM' g as with
      | error e => rw [hm] at h; cases h
      | ok bs =>
        rw [hm] at h
        cases h
        have := mapM'_sum_le w m hw hm
        have := hw a b hb
        simp only [List.map_cons, List.sum_cons]
        omega

theorem sum_map_add {α} (l : List α) (a b : α → Nat) :
    (l.map (fun x => a x + b x)).sum = (l.map a).sum + (l.map b).sum := by
  induction l with
  | nil => rfl
  | cons x xs ih => simp only [List.map_cons, List.sum_cons, ih]; omega

theorem genFile_spec {tf : TypeEnv} {f : ProtoFile} {o : GenOutput} (h : genFile tf f = .ok o) :
    ∃ structs packets, mapM' (genStruct tf) (f.root.findall "struct") = .ok structs ∧
      mapM' (genPacket tf f.dir) (f.root.findall "packet") = .ok packets ∧
      o.classes = (structs.map (·.1)).flatten ++ (packets.map (·.1)).flatten := by
  unfold genFile at h
  simp only [bind_ok_iff, pure_ok_iff] at h
  obtain ⟨enums, _, structs, hs, packets, hp, rfl⟩ := h
  exact ⟨structs, packets, hs, hp, rfl⟩

theorem srcs_length_le (files : List ProtoFile) :
    (srcs files).length ≤ (files.map (fun f => (f.root.findall "struct").length + (f.root.findall "packet").length)).sum := by
  unfold srcs specStructs specPackets
  rw [List.length_append, sum_map_add]
  have h1 := List.length_filterMap_le (fun s : Xml => (s.get "name").map (fun n => (n, s)))
    ((files.map (fun f => f.root.findall "struct")).flatten)
  rw [List.length_flatten, List.map_map] at h1
  rw [List.length_flatten, List.map_map]
  have h2 : (List.map (List.length ∘ fun f : ProtoFile => List.map (fun p => (pktName f.dir p, p)) (f.root.findall "packet")) files)
      = files.map (fun f => (f.root.findall "packet").length) := by
    apply List.map_congr_left; intro f _; simp
  rw [h2]
  have h3 : (List.map (List.length ∘ fun f : ProtoFile => f.root.findall "struct") files)
      = files.map (fun f => (f.root.findall "struct").length) := rfl
  rw [h3] at h1
  omega

theorem length_le_flatten {α} : ∀ (L : List (List α)), (∀ l ∈ L, 1 ≤ l.length) → L.length ≤ L.flatten.length
  | [], _ => by simp
  | l :: L, h => by
    have := length_le_flatten L (fun l' hl' => h l' (List.mem_cons_of_mem _ hl'))
    have := h l (List.mem_cons_self ..)
    simp only [List.length_cons, List.flatten_cons, List.length_append]
    omega

theorem compile_spec {files : List ProtoFile} {out : GenOutput} (hc : compile files = .ok out) :
    ∃ defs, DefsInv defs (allDefs files) ∧
      (∀ ir ∈ out.classes, ∃ p ∈ srcs files, ∃ ctx d,
        genBody (getType defs (4 * defs.length + 16)) {} { className := p.1 } p.2.children true = .ok (ctx, d) ∧
        ((ir.name = d.className ∧ ir.ser = d.ser) ∨ ir ∈ d.aux)) ∧
      (∀ p ∈ srcs files, ∃ ctx d ir,
        genBody (getType defs (4 * defs.length + 16)) {} { className := p.1 } p.2.children true = .ok (ctx, d) ∧
        ir ∈ out.classes ∧ ir.name = d.className ∧ ir.ser = d.ser ∧ ∀ a ∈ d.aux, a ∈ out.classes) ∧
      (srcs files).length ≤ out.classes.length := by
  unfold compile at hc
  simp only [bind_ok_iff, pure_ok_iff] at hc
  obtain ⟨defs, hdefs, outs, houts, rfl⟩ := hc
  have hinv : DefsInv defs (allDefs files) := by
    have := indexFiles_inv files [] defs [] ⟨by simp, (fun p hp => by cases hp), (fun q hq => by cases hq),
      (fun p hp => by cases hp)⟩ hdefs
    simpa using this
  have hd : DefsOK defs := hinv.named
  obtain ⟨_, hm1, hm2⟩ := mapM'_spec houts
  have hfuel : 4 * defs.length + 16 = (4 * defs.length + 14) + 2 := rfl
  refine ⟨defs, hinv, ?_, ?_, ?_⟩
  · intro ir hir
    simp only [List.mem_flatten, List.mem_map] at hir
    obtain ⟨_, ⟨o, ho, rfl⟩, hir⟩ := hir
    obtain ⟨f, hf, hgf⟩ := hm1 o ho
    obtain ⟨structs, packets, hs, hp, hcls⟩ := genFile_spec hgf
    rw [hcls, List.mem_append] at hir
    rcases hir with hir | hir
    · simp only [List.mem_flatten, List.mem_map] at hir
      obtain ⟨_, ⟨r, hr, rfl⟩, hir⟩ := hir
      obtain ⟨s, hsm, hgs⟩ := (mapM'_spec hs).2.1 r hr
      rw [hfuel] at hgs
      obtain ⟨n, ctx, d, hn, hb, hr1⟩ := genStruct_spec hd hgs
      refine ⟨(n, s), ?_, ctx, d, hb, ?_⟩
      · unfold srcs specStructs
        apply List.mem_append_left
        rw [List.mem_filterMap]
        refine ⟨s, ?_, by rw [hn]; rfl⟩
        rw [List.mem_flatten]
        exact ⟨_, List.mem_map.2 ⟨f, hf, rfl⟩, hsm⟩
      · rw [hr1] at hir
        rcases List.mem_cons.1 hir with rfl | hir
        · exact Or.inl ⟨rfl, rfl⟩
        · exact Or.inr hir
    · simp only [List.mem_flatten, List.mem_map] at hir
      obtain ⟨_, ⟨r, hr, rfl⟩, hir⟩ := hir
      obtain ⟨p, hpm, hgp⟩ := (mapM'_spec hp).2.1 r hr
      obtain ⟨ctx, d, c, hb, hr1, hcn, hcs⟩ := genPacket_spec hgp
      refine ⟨(pktName f.dir p, p), ?_, ctx, d, hb, ?_⟩
      · unfold srcs specPackets
        apply List.mem_append_right
        rw [List.mem_flatten]
        exact ⟨_, List.mem_map.2 ⟨f, hf, rfl⟩, List.mem_map.2 ⟨p, hpm, rfl⟩⟩
      · rw [hr1] at hir
        rcases List.mem_cons.1 hir with rfl | hir
        · exact Or.inl ⟨hcn, hcs⟩
        · exact Or.inr hir
  · intro p hp
    unfold srcs at hp
    rw [List.mem_append] at hp
    rcases hp with hp | hp
    · unfold specStructs at hp
      rw [List.mem_filterMap] at hp
      obtain ⟨s, hs, hsn⟩ := hp
      rw [List.mem_flatten] at hs
      obtain ⟨_, hl, hs⟩ := hs
      obtain ⟨f, hf, rfl⟩ := List.mem_map.1 hl
      obtain ⟨o, ho, hgf⟩ := hm2 f hf
      obtain ⟨structs, packets, hss, hpp, hcls⟩ := genFile_spec hgf
      obtain ⟨r, hr, hgs⟩ := (mapM'_spec hss).2.2 s hs
      rw [hfuel] at hgs
      obtain ⟨n, ctx, d, hn, hb, hr1⟩ := genStruct_spec hd hgs
      rw [hn] at hsn
      simp only [Option.map_some, Option.some.injEq] at hsn
      subst hsn
      have hall : ∀ a ∈ r.1, a ∈ (List.map (fun x => x.classes) outs).flatten := by
        intro a ha
        simp only [List.mem_flatten, List.mem_map]
        refine ⟨_, ⟨o, ho, rfl⟩, ?_⟩
        rw [hcls]
        apply List.mem_append_left
        simp only [List.mem_flatten, List.mem_map]
        exact ⟨_, ⟨r, hr, rfl⟩, ha⟩
      rw [hr1] at hall
      exact ⟨ctx, d, d.toClass ctx, hb, hall _ (List.mem_cons_self ..), rfl, rfl,
        fun a ha => hall a (List.mem_cons_of_mem _ ha)⟩
    · unfold specPackets at hp
      rw [List.mem_flatten] at hp
      obtain ⟨_, hl, hp⟩ := hp
      obtain ⟨f, hf, rfl⟩ := List.mem_map.1 hl
      obtain ⟨x, hx, rfl⟩ := List.mem_map.1 hp
      obtain ⟨o, ho, hgf⟩ := hm2 f hf
      obtain ⟨structs, packets, hss, hpp, hcls⟩ := genFile_spec hgf
      obtain ⟨r, hr, hgp⟩ := (mapM'_spec hpp).2.2 x hx
      obtain ⟨ctx, d, c, hb, hr1, hcn, hcs⟩ := genPacket_spec hgp
      have hall : ∀ a ∈ r.1, a ∈ (List.map (fun x => x.classes) outs).flatten := by
        intro a ha
        simp only [List.mem_flatten, List.mem_map]
        refine ⟨_, ⟨o, ho, rfl⟩, ?_⟩
        rw [hcls]
        apply List.mem_append_right
        simp only [List.mem_flatten, List.mem_map]
        exact ⟨_, ⟨r, hr, rfl⟩, ha⟩
      rw [hr1] at hall
      exact ⟨ctx, d, c, hb, hall _ (List.mem_cons_self ..), hcn, hcs,
        fun a ha => hall a (List.mem_cons_of_mem _ ha)⟩
  · refine Nat.le_trans (srcs_length_le files) ?_
    show _ ≤ ((outs.map (·.classes)).flatten).length
    rw [List.length_flatten, List.map_map]
    refine mapM'_sum_le _ _ ?_ houts
    intro f o hgf
    obtain ⟨structs, packets, hss, hpp, hcls⟩ := genFile_spec hgf
    show _ ≤ o.classes.length
    rw [hcls, List.length_append]
    have h1 : (f.root.findall "struct").length ≤ ((structs.map (·.1)).flatten).length := by
      rw [← (mapM'_spec hss).1, ← List.length_map (f := (·.1))]
      apply length_le_flatten
      intro l hl
      obtain ⟨r, hr, rfl⟩ := List.mem_map.1 hl
      obtain ⟨s, _, hgs⟩ := (mapM'_spec hss).2.1 r hr
      rw [hfuel] at hgs
      obtain ⟨n, ctx, d, _, _, hr1⟩ := genStruct_spec hd hgs
      rw [hr1]; simp
    have h2 : (f.root.findall "packet").length ≤ ((packets.map (·.1)).flatten).length := by
      rw [← (mapM'_spec hpp).1, ← List.length_map (f := (·.1))]
      apply length_le_flatten
      intro l hl
      obtain ⟨r, hr, rfl⟩ := List.mem_map.1 hl
      obtain ⟨s, _, hgp⟩ := (mapM'_spec hpp).2.1 r hr
      obtain ⟨ctx, d, c, _, hr1, _, _⟩ := genPacket_spec hgp
      rw [hr1]; simp
    omega


end EoVerif.Gen.Conform
