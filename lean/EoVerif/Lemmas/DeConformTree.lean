import EoVerif.Lemmas.DeConformBody
set_option linter.unusedVariables false
/-! The mutual induction of C03b over the declarative instruction tree: the emitted statements of a body
    against `readInstrs`. -/
namespace EoVerif.Gen.DeConform
open EoVerif EoVerif.Gen EoVerif.Spec EoVerif.Gen.Conform

mutual
/-- struct names read directly by an instruction (not those of nested case bodies) -/
def refsI : TInstr → List String
  | .field _ ty _ => scalarRefs ty
  | .const ty _ => scalarRefs ty
  | .namedConst _ ty _ _ => scalarRefs ty
  | .array _ elem _ _ _ _ _ => scalarRefs elem
  | .dummy ty _ => scalarRefs ty
  | .chunked b => refsL b
  | .length _ _ _ _ _ => []
  | .switch _ _ => []
  | .brk => []
def refsL : List TInstr → List String
  | [] => []
  | i :: rest => refsI i ++ refsL rest
end

theorem wrapOpt_isEmpty (opt : Bool) (n : String) (x : DeOp) (xs : List DeOp) :
    (wrapOpt opt n (x :: xs)).isEmpty = false := by
  cases opt <;> rfl

theorem arrayBody_ne (n : String) (elem : Scalar) (len : Option TLen) (del trail : Bool) (ef : Option Int) :
    ∃ x xs, arrayBody n elem len del trail ef = x :: xs := by
  unfold arrayBody
  cases len with
  | some tl => cases tl <;> exact ⟨_, _, rfl⟩
  | none =>
    cases del with
    | true => exact ⟨_, _, rfl⟩
    | false => cases ef <;> exact ⟨_, _, rfl⟩

theorem isEmpty_append {α} (a b : List α) : (a ++ b).isEmpty = (a.isEmpty && b.isEmpty) := by
  cases a <;> cases b <;> rfl

set_option maxHeartbeats 800000 in
mutual
theorem sim_instr {call : DeCall} {rcall : RCall} :
    ∀ (i : TInstr) (lex pre : Bool) (ops : List DeOp) (B : List String) (Ds : List Decl) (st : DeSt) (s : RSt),
    OpsI lex pre i ops → okI Ds i = true → (∀ x ∈ refsI i, CallAt call rcall x) →
    (∀ x ∈ directCasesI lex i, x.2.1 ≠ [] → CaseAt call rcall x.2.2 x.1 x.2.1) →
    (B ++ namesI i).Nodup → DynD B Ds pre lex st s →
    ConfD (execDeOps call ops st) (readInstr rcall lex i s)
      (fun st' _ s' => DynD (B ++ namesI i) (Ds ++ declsI i) (pre && ops.isEmpty) lex st' s')
  | .field n ty opt, lex, pre, ops, B, Ds, st, s, hops, hok, hcall, hcases, hnd, h => by
    have he : (pre && ops.isEmpty) = false := by
      have := hops; rw [OpsI] at this; rw [this, wrapOpt_isEmpty]; simp
    rw [namesI] at hnd ⊢
    rw [declsI]
    rw [okI] at hok
    rw [refsI] at hcall
    exact (field_sim h hops hnd hok hcall).mono (fun _ _ _ hd => hd.cast_emp he)
  | .namedConst n ty c opt, lex, pre, ops, B, Ds, st, s, hops, hok, hcall, hcases, hnd, h => by
    have he : (pre && ops.isEmpty) = false := by
      have := hops; rw [OpsI] at this; rw [this, wrapOpt_isEmpty]; simp
    rw [namesI] at hnd ⊢
    rw [declsI]
    rw [okI, Bool.and_eq_true] at hok
    rw [refsI] at hcall
    exact (namedConst_sim h hops hnd hok.1 hok.2 hcall).mono (fun _ _ _ hd => hd.cast_emp he)
  | .length n k off opt ref, lex, pre, ops, B, Ds, st, s, hops, hok, hcall, hcases, hnd, h => by
    have he : (pre && ops.isEmpty) = false := by
      have := hops; rw [OpsI] at this; rw [this, wrapOpt_isEmpty]; simp
    rw [namesI] at hnd ⊢
    rw [declsI]
    rw [okI] at hok
    exact (length_sim h hops hnd (by simpa using hok)).mono (fun _ _ _ hd => hd.cast_emp he)
  | .const ty c, lex, pre, ops, B, Ds, st, s, hops, hok, hcall, hcases, hnd, h => by
    have he : (pre && ops.isEmpty) = false := by
      have := hops; rw [OpsI] at this; rw [this]; simp
    rw [namesI, declsI, List.append_nil, List.append_nil]
    rw [okI] at hok
    rw [refsI] at hcall
    exact (const_sim h hops hok hcall).mono (fun _ _ _ hd => hd.cast_emp he)
  | .dummy ty c, lex, pre, ops, B, Ds, st, s, hops, hok, hcall, hcases, hnd, h => by
    have he : (pre && ops.isEmpty) = false := by
      have := hops; rw [OpsI] at this
      rcases this with rfl | ⟨_, rfl⟩ <;> simp
    rw [namesI, declsI, List.append_nil, List.append_nil]
    rw [okI] at hok
    rw [refsI] at hcall
    exact (dummy_sim h hops hok hcall).mono (fun _ _ _ hd => hd.cast_emp he)
  | .brk, lex, pre, ops, B, Ds, st, s, hops, hok, hcall, hcases, hnd, h => by
    have he : (pre && ops.isEmpty) = false := by
      have := hops; rw [OpsI] at this; rw [this.2]; simp
    rw [namesI, declsI, List.append_nil, List.append_nil]
    exact (brk_sim h hops).mono (fun _ _ _ hd => hd.cast_emp he)
  | .array n elem len opt del trail ef, lex, pre, ops, B, Ds, st, s, hops, hok, hcall, hcases, hnd, h => by
    have he : (pre && ops.isEmpty) = false := by
      have := hops; rw [OpsI] at this
      obtain ⟨x, xs, hx⟩ := arrayBody_ne n elem len del trail ef
      rw [this.2, hx, wrapOpt_isEmpty]; simp
    rw [refsI] at hcall
    exact (array_sim h hops hnd hok hcall).mono (fun _ _ _ hd => hd.cast_emp he)
  | .switch f cases, lex, pre, ops, B, Ds, st, s, hops, hok, hcall, hcases, hnd, h => by
    have he : (pre && ops.isEmpty) = false := by
      have := hops; rw [OpsI] at this; rw [this]; simp
    rw [namesI] at hnd ⊢
    rw [declsI]
    rw [okI, Bool.and_eq_true] at hok
    exact (switch_sim h hops hnd hok.1 hcases).mono (fun _ _ _ hd => hd.cast_emp he)
  | .chunked b, lex, pre, ops, B, Ds, st, s, hops, hok, hcall, hcases, hnd, h => by
    rw [namesI] at hnd ⊢
    rw [declsI]
    rw [okI] at hok
    rw [refsI] at hcall
    rw [directCasesI] at hcases
    rw [OpsI] at hops
    cases lex with
    | true =>
      rw [if_pos rfl] at hops
      simp only [readInstr, if_true]
      exact sim_instrs b true pre ops B Ds st s hops hok hcall hcases hnd h
    | false =>
      rw [if_neg (by simp)] at hops
      obtain ⟨o, rfl, hopsb⟩ := hops
      simp only [readInstr, Bool.false_eq_true, if_false]
      rw [List.append_assoc, execDeOps_append, execDeOps_single, exec_setChunked]
      obtain ⟨st1, e1, r1, c1, env1, sp1⟩ := rstep_setChunked h.r true
      rw [e1]
      simp only [bindD_ok]
      have h1 : DynD B Ds false true st1 { s with r := (s.r.step (.setChunked true)).1 } :=
        h.reader env1 sp1 r1 (fun _ => c1)
      have hsim := sim_instrs (call := call) (rcall := rcall) b true false o B Ds st1 _ hopsb hok hcall hcases hnd h1
      rw [execDeOps_append]
      generalize execDeOps call o st1 = x at hsim
      obtain ⟨st2, r⟩ := x
      cases hy : readInstrs rcall true b { s with r := (s.r.step (.setChunked true)).1 } with
      | error e' =>
        rw [hy] at hsim
        cases r with
        | error e => simpa using hsim
        | ok u => exact hsim.elim
      | ok s2 =>
        rw [hy] at hsim
        cases r with
        | error e => exact hsim.elim
        | ok u =>
          simp only [ConfD_ok_ok] at hsim
          simp only [bindD_ok]
          rw [execDeOps_single, exec_setChunked]
          obtain ⟨st3, e3, r3, c3, env3, sp3⟩ := rstep_setChunked hsim.r false
          rw [e3]
          simp only [ConfD_ok_ok]
          refine (hsim.reader env3 sp3 r3 (fun hl => by cases hl)).cast rfl rfl ?_
          simp
theorem sim_instrs {call : DeCall} {rcall : RCall} :
    ∀ (is : List TInstr) (lex pre : Bool) (ops : List DeOp) (B : List String) (Ds : List Decl) (st : DeSt) (s : RSt),
    OpsL lex pre is ops → okL Ds is = true → (∀ x ∈ refsL is, CallAt call rcall x) →
    (∀ x ∈ directCases lex is, x.2.1 ≠ [] → CaseAt call rcall x.2.2 x.1 x.2.1) →
    (B ++ namesL is).Nodup → DynD B Ds pre lex st s →
    ConfD (execDeOps call ops st) (readInstrs rcall lex is s)
      (fun st' _ s' => DynD (B ++ namesL is) (Ds ++ declsL is) (pre && ops.isEmpty) lex st' s')
  | [], lex, pre, ops, B, Ds, st, s, hops, hok, hcall, hcases, hnd, h => by
    rw [OpsL] at hops
    subst hops
    rw [execDeOps_nil, readInstrs_nil, namesL, declsL]
    simp only [ConfD_ok_ok]
    exact h.cast (List.append_nil _).symm (List.append_nil _).symm (by simp)
  | i :: rest, lex, pre, ops, B, Ds, st, s, hops, hok, hcall, hcases, hnd, h => by
    rw [OpsL] at hops
    obtain ⟨o1, o2, rfl, h1, h2⟩ := hops
    rw [okL, Bool.and_eq_true] at hok
    rw [refsL] at hcall
    rw [directCases] at hcases
    rw [namesL, ← List.append_assoc] at hnd
    rw [execDeOps_append, readInstrs_cons]
    have hnd1 : (B ++ namesI i).Nodup := (List.nodup_append.1 hnd).1
    have s1 := sim_instr (call := call) (rcall := rcall) i lex pre o1 B Ds st s h1 hok.1
      (fun x hx => hcall x (List.mem_append_left _ hx))
      (fun x hx => hcases x (List.mem_append_left _ hx)) hnd1 h
    refine s1.bind ?_
    intro st' _ s' hd
    have s2 := sim_instrs (call := call) (rcall := rcall) rest lex (pre && o1.isEmpty) o2 (B ++ namesI i)
      (Ds ++ declsI i) st' s' h2 hok.2
      (fun x hx => hcall x (List.mem_append_right _ hx))
      (fun x hx => hcases x (List.mem_append_right _ hx)) hnd hd
    refine s2.mono ?_
    intro st'' _ s'' hd'
    refine hd'.cast ?_ ?_ ?_
    · rw [namesL, List.append_assoc]
    · rw [declsL, List.append_assoc]
    · rw [isEmpty_append, Bool.and_assoc]
end

end EoVerif.Gen.DeConform
