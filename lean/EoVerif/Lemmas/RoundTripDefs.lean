import EoVerif.Spec.Protocol
/-!
# Round trip at the level of the declarative semantics — vocabulary

`SameFields`, `byteSizeOf`, the static predicate `Unambiguous` and the value predicate `RTValue`
of `Props/C01.lean`.
-/
namespace EoVerif.Spec.RT
open EoVerif
open EoVerif.Gen (IntKind Value)

/-! ## Comparing objects up to `byteSize` -/

mutual
/-- forget every `_byte_size`, recursively through tuples and nested objects -/
def strip : Value → Value
  | .obj c fs _ => .obj c (stripFields fs) 0
  | .tuple vs => .tuple (stripList vs)
  | .none => .none
  | .int v => .int v
  | .bool b => .bool b
  | .str s => .str s
  | .bytes b => .bytes b
  | .missing => .missing
def stripList : List Value → List Value
  | [] => []
  | v :: vs => strip v :: stripList vs
def stripFields : List (String × Value) → List (String × Value)
  | [] => []
  | (n, v) :: fs => (n, strip v) :: stripFields fs
end

/-- the two values agree field by field, ignoring `byteSize` (recursively through tuples and nested
    objects): same class names, same attribute names in the same order, same leaves -/
def SameFields (a b : Value) : Prop := strip a = strip b

/-- the `_byte_size` of an object -/
def byteSizeOf : Value → Int
  | .obj _ _ n => n
  | _ => 0

/-! ## Static side: which bodies are wire-unambiguous -/

/-- items that read "everything that remains" -/
def unboundedScalar : Scalar → Bool
  | .str _ none _ => true
  | .blob => true
  | _ => false

def isOptional : TInstr → Bool
  | .field _ _ o => o
  | .namedConst _ _ _ o => o
  | .length _ _ _ o _ => o
  | .array _ _ _ o _ _ _ => o
  | _ => false

/-- the item before `rest` is the last one of its segment: nothing follows (and the caller promises
    that nothing follows the body, `tl`), or a `<break>` follows in chunked mode -/
def lastPos (ch tl : Bool) : List TInstr → Bool
  | [] => tl
  | .brk :: _ => ch
  | _ => false

/-- only optional items follow, up to the end of the segment -/
def optTail (ch tl : Bool) : List TInstr → Bool
  | [] => tl
  | .brk :: _ => ch
  | i :: r => isOptional i && optTail ch tl r

mutual
/-- the names an instruction binds in the object -/
def instrNames : TInstr → List String
  | .field n _ _ => [n]
  | .namedConst n _ _ _ => [n]
  | .length n _ _ _ _ => [n]
  | .array n _ _ _ _ _ _ => [n]
  | .switch f _ => [f ++ "_data"]
  | .chunked body => bodyNames body
  | _ => []
def bodyNames : List TInstr → List String
  | [] => []
  | i :: rest => instrNames i ++ bodyNames rest
end

/-- scalars that can never produce a break byte, whatever the mode and the value -/
def ffFreeScalar : Scalar → Bool
  | .int k => k != .byte
  | .bool k => k != .byte
  | .enum k => k != .byte
  | _ => false

/-- static byte size of a class used as a struct, when all its values have the same size -/
abbrev SzC := String → Option Nat

/-- the number of bytes of every value of the type, when the type fixes it -/
def scalarSize (szc : SzC) : Scalar → Option Nat
  | .int k => some k.size
  | .bool k => some k.size
  | .enum k => some k.size
  | .str _ (some (.lit n)) _ => if 0 ≤ n then some n.toNat else none
  | .struct n => szc n
  | _ => none

/-- the same, when moreover the size is positive -/
def fixedSize (szc : SzC) (ty : Scalar) : Option Nat :=
  match scalarSize szc ty with
  | some m => if 0 < m then some m else none
  | none => none

/-- the number of bytes an instruction always writes: required items of fixed size and
    non-delimited arrays of literal length over such items; `none` = not fixed -/
def instrSize (szc : SzC) : TInstr → Option Nat
  | .field _ ty optional => if optional then none else scalarSize szc ty
  | .const ty _ => scalarSize szc ty
  | .namedConst _ ty _ optional => if optional then none else scalarSize szc ty
  | .length _ k _ optional _ => if optional then none else some k.size
  | .array _ elem (some (.lit n)) optional delimited _ _ =>
    if optional || delimited then none else (scalarSize szc elem).map (fun m => n.toNat * m)
  | _ => none

def bodySize (szc : SzC) : List TInstr → Option Nat
  | [] => some 0
  | i :: rest =>
    match instrSize szc i, bodySize szc rest with
    | some a, some b => some (a + b)
    | _, _ => none

def classSize (t : TSpec) : Nat → SzC
  | 0, _ => none
  | fuel + 1, cls =>
    match t.find? cls with
    | none => none
    | some c => bodySize (classSize t fuel) c.body

/-- static verdict on a class used as a struct: class name, mode (`ch`), "no break byte since the
    chunk start" (`cl`, only meaningful outside chunked mode), "the struct ends its segment" (`tl`);
    the answer is the `cl` flag after the struct, or `none` = not covered -/
abbrev OkC := String → Bool → Bool → Bool → Option Bool

/-- a scalar type at a position: `last` = the item ends its segment; `bound` = attribute names read
    earlier in the body.  Unbounded items (string without length, blob) only in last position; a
    length reference must name an earlier attribute. -/
def okScalar (okc : OkC) (ch last : Bool) (bound : List String) (byFieldOk cl xff : Bool) :
    Scalar → Option Bool
  | .struct n => (okc n ch cl last).map (fun c => ch || c)
  | .str _ (some (.byField f)) _ => if byFieldOk && bound.contains f then some ch else none
  | .str _ none _ => if last then some ch else none
  | .blob => if last then some ch else none
  | ty => some (ch || (cl && (ffFreeScalar ty || xff)))

/-- a hard-coded integer whose bytes are known not to hold a break byte -/
def constFF : Scalar → ConstV → Bool
  | .int k, .int n => (match encInt k n with | some b => !b.contains 0xFF | none => false)
  | _, _ => false

/-- reading an element of this type keeps "no break byte since the chunk start" -/
def keepsClean (okc : OkC) (ch last : Bool) : Scalar → Bool
  | .struct n => okc n ch true last == some true
  | ty => ffFreeScalar ty

mutual
/-- one instruction, given: `lex` (lexically inside `<chunked>`), the mode `ch`, whether the end of
    the body is the end of the segment (`tl`), the names bound so far, the cleanliness flag `cl`
    and the instructions that follow.  Result: the flag after the instruction, `none` = not covered. -/
def okInstr (okc : OkC) (szc : SzC) (lex ch tl : Bool) (bound : List String) (cl : Bool) (rest : List TInstr) :
    TInstr → Option Bool
  | .field name ty optional =>
    if !bound.contains name && (!optional || optTail ch tl rest) then
      okScalar okc ch (lastPos ch tl rest) bound true cl false ty
    else none
  | .const ty c => okScalar okc ch (lastPos ch tl rest) bound false cl (constFF ty c) ty
  | .namedConst name ty c optional =>
    if !bound.contains name && (!optional || optTail ch tl rest) then
      okScalar okc ch (lastPos ch tl rest) bound false cl (constFF ty c) ty
    else none
  | .length name k _ optional _ =>
    if !bound.contains name && (!optional || optTail ch tl rest) then
      some (ch || (cl && k != .byte))
    else none
  | .dummy ty c => okScalar okc ch (lastPos ch tl rest) bound false cl (constFF ty c) ty
  | .array name elem len optional delimited trailing elemFixed =>
    let last := lastPos ch tl rest
    let elemLast := delimited && (trailing || last)
    let lenOk : Bool :=
      match len with
      | some (.lit _) => true
      | some (.byField f) => bound.contains f
      | none =>
        last &&
          (if delimited then trailing
           else match elemFixed with
             | some sz => (match fixedSize szc elem with | some m => (m : Int) == sz | none => false)
             | none => true)
    if !bound.contains name && (!optional || optTail ch tl rest) && (!delimited || ch) && lenOk then
      (okScalar okc ch elemLast [] false (ch || (cl && keepsClean okc ch elemLast elem)) false
          elem).map
        (fun _ => ch || (cl && keepsClean okc ch elemLast elem))
    else none
  | .switch f cases =>
    if bound.contains f && !bound.contains (f ++ "_data") then
      okCases okc szc lex ch (lastPos ch tl rest) cl cases
    else none
  | .chunked body =>
    if lex then (if ch then okInstrs okc szc true true (lastPos ch tl rest) bound cl body else none)
    else if !ch && cl then
      (okInstrs okc szc true true (lastPos ch tl rest) bound true body).map (fun _ => true)
    else none
  | .brk => if ch then some true else none
def okInstrs (okc : OkC) (szc : SzC) (lex ch tl : Bool) :
    List String → Bool → List TInstr → Option Bool
  | _, cl, [] => some cl
  | bound, cl, i :: rest =>
    match okInstr okc szc lex ch tl bound cl rest i with
    | none => none
    | some cl' => okInstrs okc szc lex ch tl (bound ++ instrNames i) (ch || (cl && cl')) rest
/-- every case body is a covered body of its own (fresh names), in the mode of the switch and
    lexically inside whatever `<chunked>` section the switch sits in (`lex`) -/
def okCases (okc : OkC) (szc : SzC) (lex ch tl cl : Bool) : List TCase → Option Bool
  | [] => some cl
  | .mk _ _ body :: rest =>
    match okInstrs okc szc lex ch tl [] cl body, okCases okc szc lex ch tl cl rest with
    | some a, some b => some (a && b)
    | _, _ => none
end

/-! ## Value side: which objects are lossless -/

def isIntVal (v : Value) (n : Int) : Bool :=
  match v with
  | .int m => m == n
  | _ => false

def constMatches : ConstV → Value → Bool
  | .int n, .int m => n == m
  | .bool a, .bool b => a == b
  | .str s, .str x => s.toList.map Char.toNat == x
  | _, _ => false

/-- does the switch value select this case -/
def caseHit (cond : Option Int) (fv : Value) : Bool :=
  match cond with
  | none => true
  | some n => (match fv.toInt? with | some m => m == n | none => false)

/-- value verdict on an object written as a struct: class name, object, mode -/
abbrev RtC := String → Value → Bool → Bool

/-- the value has the type the reader produces, and strings survive the wire:
    cp1252-encodable (and free of ÿ when sanitised), no `~` byte if encoded, no 0xFF byte if padded -/
def rtScalar (rtc : RtC) (san : Bool) : Scalar → Value → Bool
  | .int _, .int _ => true
  | .bool _, .bool _ => true
  | .enum _, .int _ => true
  | .str enc _ padded, .str s =>
    let p := strBytes san s
    (Ansi.decode p == s) && (!enc || !p.contains 0x7E) && (!padded || !p.contains 0xFF)
  | .blob, .bytes _ => true
  | .struct n, v => rtc n v san
  | _, _ => false

/-- a string whose length is carried by a length field: that attribute holds the length -/
def lenAttrOk (obj : Value) : Scalar → Value → Bool
  | .str _ (some (.byField f)) _, .str s => isIntVal (obj.attr f) s.length
  | _, _ => true

/-- in sanitising (chunked) mode the bytes written for a leaf item hold no break byte -/
def ffOK (san : Bool) (ty : Scalar) (b : Bytes) : Bool :=
  match ty with
  | .struct _ => true
  | _ => !san || !b.contains 0xFF

/-- a present optional (or a to-the-end array element) must be visible to `remaining > 0`:
    at least one byte, not starting with a break byte in chunked mode -/
def nonEmptyOK (san : Bool) : Bytes → Bool
  | [] => false
  | x :: _ => !san || x != 0xFF

/-- conditions on the bytes an item is written as -/
def rtWritten (cw : String → Value → Bool → W) (lens : String → Option LenInfo) (san : Bool)
    (ty : Scalar) (v : Value) (nonEmpty : Bool) : Bool :=
  match wireScalar cw lens san ty v with
  | none => true
  | some b => ffOK san ty b && (!nonEmpty || nonEmptyOK san b)

/-! `lensOf` / `lenRefOf` are compiled by well-founded recursion and do not reduce under `decide`;
    these structurally recursive twins do (`lensL_eq`, `refL_eq` in `RoundTripObj.lean`). -/
mutual
def lensI : TInstr → String → Option LenInfo
  | .length n k off _ _, q => if n == q then some ⟨k, off⟩ else none
  | .chunked b, q => lensL b q
  | _, _ => none
def lensL : List TInstr → String → Option LenInfo
  | [], _ => none
  | i :: rest, q => match lensI i q with | some li => some li | none => lensL rest q
end

mutual
def refI : TInstr → String → Option String
  | .length n _ _ _ ref, q => if n == q then some ref else none
  | .chunked b, q => refL b q
  | _, _ => none
def refL : List TInstr → String → Option String
  | [], _ => none
  | i :: rest, q => match refI i q with | some r => some r | none => refL rest q
end

def lookupAttr (fs : List (String × Value)) (n : String) : Value :=
  ((fs.find? (·.1 == n)).map (·.2)).getD .missing

/-- what `finishObj` stores in an attribute -/
def fixAttr (body : List TInstr) (attrs : List (String × Value)) (p : String × Value) :
    String × Value :=
  match lenRefOf body p.1 with
  | some ref =>
    (match lookupAttr attrs ref with
     | .str x => (p.1, .int x.length)
     | .tuple x => (p.1, .int x.length)
     | .none => (p.1, .none)
     | _ => p)
  | none => p

/-- `fixAttr body fs p = p`, decidably: the length attributes of the object hold the lengths of
    the attributes they describe -/
def lenAttrFixed (body : List TInstr) (fs : List (String × Value)) (p : String × Value) : Bool :=
  match refL body p.1 with
  | some ref =>
    (match lookupAttr fs ref with
     | .str x => isIntVal p.2 x.length
     | .tuple x => isIntVal p.2 x.length
     | .none => p.2.isNone
     | _ => true)
  | none => true

/-- the shape of an object of class `cls` with body `body`: class name, attribute names in
    declaration order, consistent length attributes -/
def shapeOK (cls : String) (body : List TInstr) : Value → Bool
  | .obj cn fs _ => cn == cls && fs.map (·.1) == bodyNames body && fs.all (lenAttrFixed body fs)
  | _ => false

mutual
/-- the value conditions for one instruction, evaluated in the writer state `st` it is written in -/
def rtInstr (cw : String → Value → Bool → W) (rtc : RtC) (lens : String → Option LenInfo)
    (obj : Value) (lex : Bool) : TInstr → WSt → Bool
  | .field name ty optional, st =>
    let v := obj.attr name
    if optional && (st.stopped || v.isNone) then v.isNone
    else rtScalar rtc st.san ty v && lenAttrOk obj ty v && rtWritten cw lens st.san ty v optional
  | .const ty c, st => rtWritten cw lens st.san ty (constValue c) false
  | .namedConst name ty c optional, st =>
    constMatches c (obj.attr name) &&
      (if optional && st.stopped then true else rtWritten cw lens st.san ty (constValue c) optional)
  | .length name k offset optional ref, st =>
    let rv := obj.attr ref
    if optional && (st.stopped || rv.isNone) then (obj.attr name).isNone
    else match rv.len? with
      | none => true
      | some n => isIntVal (obj.attr name) n &&
          (match encInt k ((n : Int) - offset) with
           | some b => ffOK st.san (.int k) b
           | none => true)
  | .dummy ty c, st =>
    if st.out.isEmpty then rtWritten cw lens st.san ty (constValue c) false else true
  | .array name elem len optional delimited trailing elemFixed, st =>
    let v := obj.attr name
    if optional && (st.stopped || v.isNone) then v.isNone
    else match v with
      | .tuple vs =>
        -- to-the-end arrays read by a `while remaining > 0` loop need visible elements
        let visible : Bool := len.isNone && (delimited || elemFixed.isNone)
        -- the element count of a to-the-end array of fixed-size elements is computed from
        -- `remaining`: in chunked mode no element may hold a break byte
        let whole : Bool := len.isNone && !delimited && elemFixed.isSome
        vs.all (fun x => rtScalar rtc st.san elem x && rtWritten cw lens st.san elem x visible &&
          (!whole || (match wireScalar cw lens st.san elem x with
            | some b => !st.san || !b.contains 0xFF
            | none => true))) &&
          (match len with
           | some (.byField f) => isIntVal (obj.attr f) vs.length
           | _ => true) &&
          (!optional ||
            (match wireInstr.elems cw lens elem delimited trailing st vs true [] with
             | some b => nonEmptyOK st.san b
             | none => true))
      | _ => true
  | .switch f cases, st => rtCases cw rtc lex (obj.attr f) (obj.attr (f ++ "_data")) cases st
  | .chunked body, st =>
    if lex then rtInstrs cw rtc lens obj true body st
    else rtInstrs cw rtc lens obj true body { st with san := true }
  | .brk, _ => true
/-- the value conditions along the writer's run over a body -/
def rtInstrs (cw : String → Value → Bool → W) (rtc : RtC) (lens : String → Option LenInfo)
    (obj : Value) (lex : Bool) : List TInstr → WSt → Bool
  | [], _ => true
  | i :: rest, st =>
    rtInstr cw rtc lens obj lex i st &&
      (match wireInstr cw lens obj lex i st with
       | none => true
       | some st' => rtInstrs cw rtc lens obj lex rest st')
/-- the case selected by the switch value: its data object is a lossless object of the case class
    (`lex`: the switch sits lexically inside a `<chunked>` section, and so does the case body) -/
def rtCases (cw : String → Value → Bool → W) (rtc : RtC) (lex : Bool) (fv data : Value) :
    List TCase → WSt → Bool
  | [], _ => true
  | .mk cond cls body :: rest, st =>
    if !caseHit cond fv then rtCases cw rtc lex fv data rest st
    else if body.isEmpty then true
    else shapeOK cls body data &&
      rtInstrs cw rtc (lensL body) data lex body { san := st.san }
end

def okClass (t : TSpec) : Nat → OkC
  | 0, _, _, _, _ => none
  | fuel + 1, cls, ch, cl, tl =>
    match t.find? cls with
    | none => none
    | some c => okInstrs (okClass t fuel) (classSize t fuel) false ch tl [] cl c.body

def rtClass (t : TSpec) : Nat → RtC
  | 0, _, _, _ => false
  | fuel + 1, cls, obj, san =>
    match t.find? cls with
    | none => false
    | some c =>
      shapeOK cls c.body obj &&
        rtInstrs (wireClass t fuel) (rtClass t fuel) (lensL c.body) obj false c.body { san := san }

end EoVerif.Spec.RT
