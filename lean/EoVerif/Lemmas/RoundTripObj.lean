import EoVerif.Lemmas.RoundTripDefs
/-!
# Round trip at the level of the declarative semantics — the finished object

`finishObj` versus the object that was written: equal attribute by attribute (up to `byteSize`)
when the raw attributes read are, and the object's length attributes are consistent.
-/
namespace EoVerif.Spec.RT
open EoVerif
open EoVerif.Gen (IntKind Value)

theorem lensL_eq (body : List TInstr) (q : String) : lensL body q = lensOf body q := by
  induction body, q using lensOf.induct with
  | case1 q => simp [lensL, lensOf]
  | case2 n k off optional ref rest q h => simp [lensL, lensI, lensOf, h]
  | case3 n k off optional ref rest q h ih => simp [lensL, lensI, lensOf, h, ih]
  | case4 b rest q li h ih => simp [lensL, lensI, lensOf, h, ih]
  | case5 b rest q h ih1 ih2 => simp [lensL, lensI, lensOf, h, ih1, ih2]
  | case6 head rest q h1 h2 ih =>
    cases head <;> simp [lensL, lensI, lensOf, ih]
    · exact absurd rfl (h1 _ _ _ _ _)
    · exact absurd rfl (h2 _)

theorem refL_eq (body : List TInstr) (q : String) : refL body q = lenRefOf body q := by
  induction body, q using lenRefOf.induct with
  | case1 q => simp [refL, lenRefOf]
  | case2 n k off optional ref rest q h => simp [refL, refI, lenRefOf, h]
  | case3 n k off optional ref rest q h ih => simp [refL, refI, lenRefOf, h, ih]
  | case4 b rest q li h ih => simp [refL, refI, lenRefOf, h, ih]
  | case5 b rest q h ih1 ih2 => simp [refL, refI, lenRefOf, h, ih1, ih2]
  | case6 head rest q h1 h2 ih =>
    cases head <;> simp [refL, refI, lenRefOf, ih]
    · exact absurd rfl (h1 _ _ _ _ _)
    · exact absurd rfl (h2 _)

theorem lensL_fun (body : List TInstr) : lensL body = lensOf body := funext (lensL_eq body)

theorem finishObj_eq (cls : String) (body : List TInstr) (attrs : List (String × Value))
    (size : Int) :
    finishObj cls body attrs size = .obj cls (attrs.map (fixAttr body attrs)) size := rfl

theorem stripFields_eq_map (l : List (String × Value)) :
    stripFields l = l.map (fun p => (p.1, strip p.2)) := by
  induction l with
  | nil => rfl
  | cons p l ih => obtain ⟨n, v⟩ := p; simp only [stripFields, ih, List.map_cons]

theorem stripList_eq_map (l : List Value) : stripList l = l.map strip := by
  induction l with
  | nil => rfl
  | cons p l ih => simp only [stripList, ih, List.map_cons]

theorem stripList_length (l : List Value) : (stripList l).length = l.length := by
  rw [stripList_eq_map, List.length_map]

theorem lookup_strip (l : List (String × Value)) (n : String) :
    lookupAttr (stripFields l) n = strip (lookupAttr l n) := by
  induction l with
  | nil => rfl
  | cons p l ih =>
    obtain ⟨m, v⟩ := p
    unfold lookupAttr at ih ⊢
    simp only [stripFields, List.find?_cons]
    by_cases h : (m == n) = true
    · simp only [h, Option.map_some, Option.getD_some]
    · simp only [h]; exact ih

/-- same names in the same order, no name twice, same values by lookup: same lists -/
theorem stripFields_congr (attrs fs : List (String × Value))
    (hn : attrs.map (·.1) = fs.map (·.1)) (hnd : (fs.map (·.1)).Nodup)
    (hv : ∀ p ∈ attrs, strip p.2 = strip (lookupAttr fs p.1)) :
    stripFields attrs = stripFields fs := by
  induction attrs generalizing fs with
  | nil =>
    cases fs with
    | nil => rfl
    | cons q fs => simp at hn
  | cons p attrs ih =>
    cases fs with
    | nil => simp at hn
    | cons q fs =>
      obtain ⟨n, v⟩ := p
      obtain ⟨m, w⟩ := q
      simp only [List.map_cons, List.cons.injEq] at hn
      obtain ⟨hnm, hn⟩ := hn
      subst hnm
      simp only [List.map_cons, List.nodup_cons] at hnd
      have h1 : strip v = strip w := by
        have := hv (n, v) (by simp)
        simpa [lookupAttr] using this
      have h2 := ih fs hn hnd.2 (by
        intro p hp
        have := hv p (List.mem_cons_of_mem _ hp)
        have hne : (n == p.1) = false := by
          rw [beq_eq_false_iff_ne]
          intro e
          apply hnd.1
          rw [e, ← hn]
          exact List.mem_map_of_mem hp
        simpa [lookupAttr, List.find?_cons, hne] using this)
      simp only [stripFields, h1, h2]

theorem strip_str_inv (v : Value) (x : List Nat) (h : strip v = .str x) : v = .str x := by
  cases v <;> simp only [strip] at h <;> first | exact h | cases h

theorem strip_tuple_inv (v : Value) (x : List Value) (h : strip v = .tuple x) :
    ∃ y, v = .tuple y ∧ stripList y = x := by
  cases v <;> simp only [strip] at h <;> try cases h
  exact ⟨_, rfl, rfl⟩

theorem strip_none_inv' (v : Value) (h : strip v = .none) : v = .none := by
  cases v <;> simp only [strip] at h <;> first | rfl | cases h

/-- `fixAttr` respects equality up to `byteSize` -/
theorem fixAttr_congr (body : List TInstr) (attrs fs : List (String × Value))
    (h : stripFields attrs = stripFields fs) (p q : String × Value) (h1 : p.1 = q.1)
    (h2 : strip p.2 = strip q.2) :
    (fixAttr body attrs p).1 = (fixAttr body fs q).1 ∧
      strip (fixAttr body attrs p).2 = strip (fixAttr body fs q).2 := by
  unfold fixAttr
  rw [h1]
  cases lenRefOf body q.1 with
  | none => exact ⟨h1, h2⟩
  | some ref =>
    simp only
    have hl : strip (lookupAttr attrs ref) = strip (lookupAttr fs ref) := by
      rw [← lookup_strip, ← lookup_strip, h]
    cases ha : lookupAttr attrs ref with
    | str x =>
      rw [ha] at hl
      rw [strip_str_inv _ x hl.symm]
      exact ⟨rfl, rfl⟩
    | tuple x =>
      rw [ha] at hl
      obtain ⟨y, hy, hxy⟩ := strip_tuple_inv _ _ hl.symm
      rw [hy]
      refine ⟨rfl, ?_⟩
      have : x.length = y.length := by
        rw [← stripList_length x, ← stripList_length y, hxy]
      simp only [this]
    | none =>
      rw [ha] at hl
      rw [strip_none_inv' _ hl.symm]
      exact ⟨rfl, rfl⟩
    | int n =>
      rw [ha] at hl
      cases hf : lookupAttr fs ref <;> rw [hf] at hl <;> simp only [strip] at hl <;>
        first | exact ⟨h1, h2⟩ | cases hl
    | bool n =>
      rw [ha] at hl
      cases hf : lookupAttr fs ref <;> rw [hf] at hl <;> simp only [strip] at hl <;>
        first | exact ⟨h1, h2⟩ | cases hl
    | bytes n =>
      rw [ha] at hl
      cases hf : lookupAttr fs ref <;> rw [hf] at hl <;> simp only [strip] at hl <;>
        first | exact ⟨h1, h2⟩ | cases hl
    | obj c g z =>
      rw [ha] at hl
      cases hf : lookupAttr fs ref <;> rw [hf] at hl <;> simp only [strip] at hl <;>
        first | exact ⟨h1, h2⟩ | cases hl
    | missing =>
      rw [ha] at hl
      cases hf : lookupAttr fs ref <;> rw [hf] at hl <;> simp only [strip] at hl <;>
        first | exact ⟨h1, h2⟩ | cases hl

theorem stripFields_map_congr (f g : String × Value → String × Value) :
    ∀ (l1 l2 : List (String × Value)), stripFields l1 = stripFields l2 →
      (∀ p q, p.1 = q.1 → strip p.2 = strip q.2 →
        (f p).1 = (g q).1 ∧ strip (f p).2 = strip (g q).2) →
      stripFields (l1.map f) = stripFields (l2.map g) := by
  intro l1 l2 h hfg
  simp only [stripFields_eq_map] at h ⊢
  induction l1 generalizing l2 with
  | nil =>
    cases l2 with
    | nil => rfl
    | cons q l2 => simp at h
  | cons p l1 ih =>
    cases l2 with
    | nil => simp at h
    | cons q l2 =>
      simp only [List.map_cons, List.cons.injEq, Prod.mk.injEq] at h ⊢
      obtain ⟨⟨hnm, hvw⟩, ht⟩ := h
      exact ⟨hfg p q hnm hvw, ih l2 ht⟩

theorem isIntVal_eq' (v : Value) (n : Int) (h : isIntVal v n = true) : v = .int n := by
  cases v <;> simp only [isIntVal] at h <;> try cases h
  simp only [beq_iff_eq] at h; rw [h]

theorem lenAttrFixed_spec (body : List TInstr) (fs : List (String × Value)) (p : String × Value)
    (h : lenAttrFixed body fs p = true) : fixAttr body fs p = p := by
  unfold lenAttrFixed at h
  rw [refL_eq] at h
  unfold fixAttr
  cases hr : lenRefOf body p.1 with
  | none => rfl
  | some ref =>
    rw [hr] at h
    simp only at h ⊢
    cases hl : lookupAttr fs ref <;> rw [hl] at h <;> simp only at h ⊢
    · -- none
      obtain ⟨n, v⟩ := p
      cases v <;> simp only [Value.isNone] at h <;> first | rfl | cases h
    · rw [← isIntVal_eq' _ _ h]
    · rw [← isIntVal_eq' _ _ h]

/-- the finished object equals the written one, field by field -/
theorem finishObj_same (cls : String) (body : List TInstr) (attrs fs : List (String × Value))
    (size sz : Int)
    (hn : attrs.map (·.1) = fs.map (·.1)) (hnd : (fs.map (·.1)).Nodup)
    (hv : ∀ p ∈ attrs, SameFields p.2 ((Value.obj cls fs sz).attr p.1))
    (hfix : fs.all (lenAttrFixed body fs) = true) :
    SameFields (finishObj cls body attrs size) (.obj cls fs sz) := by
  have hraw : stripFields attrs = stripFields fs := stripFields_congr attrs fs hn hnd hv
  have h1 := stripFields_map_congr (fixAttr body attrs) (fixAttr body fs) attrs fs hraw
    (fixAttr_congr body attrs fs hraw)
  have h2 : fs.map (fixAttr body fs) = fs := by
    rw [List.all_eq_true] at hfix
    conv => rhs; rw [← List.map_id fs]
    apply List.map_congr_left
    intro p hp
    exact lenAttrFixed_spec body fs p (hfix p hp)
  rw [h2] at h1
  rw [finishObj_eq]
  show strip _ = strip _
  simp only [strip, h1]

end EoVerif.Spec.RT
