import EoVerif.Lemmas.DeConformClassSim
import EoVerif.Lemmas.ConformBody
set_option linter.unusedVariables false
/-! Generator-side facts for C03b: which deserializer statements, attribute annotations, parameters and
    `__init__` statements the leaf functions emit. -/
namespace EoVerif.Gen.DeConform
open EoVerif EoVerif.Gen EoVerif.Spec EoVerif.Gen.Conform EoVerif.Gen.WF

/-- the `__init__` expression of a named item -/
def initExprOf (p : FP) (t : Ty) (n : String) : InitExpr :=
  match p.hardcoded with
  | none => if p.arrayField then .tupleOf n p.optional else .param n
  | some h => match t with
    | .str _ _ => .strLit h
    | .bool _ => .boolLit (h == "true")
    | _ => .pasted h

/-- the `self._len = len(...)` statement of a named item (`c1` = the context with the item added) -/
def lenInitG (c1 : Ctx) (p : FP) (n : String) : List InitStmt :=
  match p.lenStr with
  | some l =>
    if (c1.lenRef? l).isSome then
      (match c1.field? l with
       | some lf => [.lenOf lf.name n p.optional]
       | none => [])
    else []
  | none => []

theorem generateField_noname {tf : TypeEnv} {ctx ctx' : Ctx} {d d' : Data} {p : FP} (hn : p.name = none)
    (h : generateField tf ctx d p = .ok (ctx', d')) : d' = d := by
  unfold generateField at h
  simp only [hn, pure, Except.pure, Except.ok.injEq, Prod.mk.injEq] at h
  exact h.2.symm

theorem generateField_decl {tf : TypeEnv} {ctx ctx' : Ctx} {d d' : Data} {p : FP} {n : String}
    (hn : p.name = some n) (h : generateField tf ctx d p = .ok (ctx', d')) :
    d'.de = d.de ∧ d'.deArgs = d.deArgs ∧ d'.aux = d.aux ∧
    d'.fields = d.fields ++ [⟨n, if p.lengthField then .length else .normal, p.arrayField⟩] ∧
    (p.lengthField = true → d'.params = d.params ∧ d'.initBody = d.initBody) ∧
    (p.lengthField = false → d'.params = d.params ++ [⟨n, p.optional⟩] ∧
      ∃ t, tf p.typeStr p.typeLen = .ok t ∧
        d'.initBody = d.initBody ++ [.assign n (initExprOf p t n)]
          ++ lenInitG (ctx.setField ⟨n, t, p.offset, p.arrayField⟩) p n) := by
  unfold generateField at h
  simp only [hn, bind_ok_iff] at h
  obtain ⟨t, ht, h⟩ := h
  cases hlf : p.lengthField with
  | true =>
    simp only [hlf, if_true, pure_ok_iff, Prod.mk.injEq] at h
    obtain ⟨_, rfl⟩ := h
    exact ⟨rfl, rfl, rfl, by simp, fun _ => ⟨rfl, rfl⟩, (fun hh => by cases hh)⟩
  | false =>
    simp only [hlf, Bool.false_eq_true, if_false] at h
    cases hl : p.lenStr with
    | none =>
      simp only [hl, pure_ok_iff, Prod.mk.injEq] at h
      obtain ⟨_, rfl⟩ := h
      refine ⟨rfl, rfl, rfl, by simp, (fun hh => by cases hh), fun _ => ⟨rfl, t, ht, ?_⟩⟩
      simp only [lenInitG, hl, List.append_nil]
      rfl
    | some l =>
      simp only [hl] at h
      cases hs : ((ctx.setField ⟨n, t, p.offset, p.arrayField⟩).lenRef? l).isSome with
      | false =>
        simp only [hs, Bool.false_eq_true, if_false, pure_ok_iff, Prod.mk.injEq] at h
        obtain ⟨_, rfl⟩ := h
        refine ⟨rfl, rfl, rfl, by simp, (fun hh => by cases hh), fun _ => ⟨rfl, t, ht, ?_⟩⟩
        simp only [lenInitG, hl, hs, Bool.false_eq_true, if_false, List.append_nil]
        rfl
      | true =>
        simp only [hs, if_true] at h
        cases hfd : (ctx.setField ⟨n, t, p.offset, p.arrayField⟩).field? l with
        | none => simp only [hfd, throw_ne_ok] at h
        | some lf =>
          simp only [hfd, pure_ok_iff, Prod.mk.injEq] at h
          obtain ⟨_, rfl⟩ := h
          refine ⟨rfl, rfl, rfl, by simp, (fun hh => by cases hh), fun _ => ⟨rfl, t, ht, ?_⟩⟩
          simp only [lenInitG, hl, hs, if_true, hfd]
          rfl

/-- the parts of the generation data the deserializer simulation looks at are unchanged -/
def SameDe (d d' : Data) : Prop :=
  d'.de = d.de ∧ d'.deArgs = d.deArgs ∧ d'.fields = d.fields ∧ d'.params = d.params ∧
  d'.initBody = d.initBody ∧ d'.aux = d.aux

theorem generateSerialize_sameDe {tf : TypeEnv} {ctx : Ctx} {d d' : Data} {p : FP}
    (h : generateSerialize tf ctx d p = .ok d') : SameDe d d' := by
  unfold generateSerialize at h
  cases hA : p.arrayField <;>
    simp only [hA, Bool.false_eq_true, if_false, if_true, bind_ok_iff, pure_ok_iff] at h
  all_goals
    obtain ⟨_, _, _, _, _, _, _, _, rfl⟩ := h
    exact ⟨rfl, rfl, rfl, rfl, rfl, rfl⟩

/-- the target of the emitted read -/
def targetOf (p : FP) : Target := match p.name with | some n => .var n | none => .discard

/-- the statements `generateDeserialize` emits for an array -/
def arrayBodyG (p : FP) (t : Ty) (le : Option LenE) (n : String) : List DeOp :=
  let rd : DeOp := .read (.append n) (ioKind t none p.padded) (coerceOf t) p.offset
  let delim : Delim := if !p.delimited then .none else if !p.trailing then .guarded else .always
  match le with
  | some (.lit k) => [.initList n, .forRange (.lit k) [rd] delim]
  | some (.field f) => [.initList n, .forRange (.var f) [rd] delim]
  | none =>
    if !p.delimited then
      match t.fixedSize with
      | some sz => [.lenVar (n ++ "_length") sz, .initList n, .forRange (.var (n ++ "_length")) [rd] delim]
      | none => [.initList n, .whileRemaining [rd] p.delimited]
    else [.initList n, .whileRemaining [rd] p.delimited]

theorem generateDeserialize_scalar {tf : TypeEnv} {ctx : Ctx} {d d' : Data} {p : FP}
    (ha : p.arrayField = false) (h : generateDeserialize tf ctx d p = .ok d') :
    ∃ t le, tf p.typeStr p.typeLen = .ok t ∧ lenExpr ctx p = .ok le ∧
      d'.de = d.de ++ wrapOpt p.optional (p.name.getD "")
        [.read (targetOf p) (ioKind t le p.padded) (coerceOf t) p.offset] ∧
      d'.deArgs = d.deArgs ++ (if p.name.isSome && !p.lengthField then [p.name.getD ""] else []) ∧
      d'.fields = d.fields ∧ d'.params = d.params ∧ d'.initBody = d.initBody ∧ d'.aux = d.aux := by
  unfold generateDeserialize at h
  simp only [ha, Bool.false_eq_true, if_false, bind_ok_iff, pure_ok_iff] at h
  obtain ⟨t, ht, le, hle, body, rfl, rfl⟩ := h
  refine ⟨t, le, ht, hle, ?_, rfl, rfl, rfl, rfl, rfl⟩
  simp only [wrapOpt, targetOf]
  rfl

theorem generateDeserialize_array {tf : TypeEnv} {ctx : Ctx} {d d' : Data} {p : FP} {n : String}
    (ha : p.arrayField = true) (hn : p.name = some n) (h : generateDeserialize tf ctx d p = .ok d') :
    ∃ t le, tf p.typeStr p.typeLen = .ok t ∧ lenExpr ctx p = .ok le ∧
      d'.de = d.de ++ wrapOpt p.optional n (arrayBodyG p t le n) ∧
      d'.deArgs = d.deArgs ++ (if !p.lengthField then [n] else []) ∧
      d'.fields = d.fields ∧ d'.params = d.params ∧ d'.initBody = d.initBody ∧ d'.aux = d.aux := by
  unfold generateDeserialize at h
  simp only [ha, if_true, bind_ok_iff, pure_ok_iff] at h
  obtain ⟨t, ht, le, hle, body, rfl, rfl⟩ := h
  refine ⟨t, le, ht, hle, ?_, by simp [hn], rfl, rfl, rfl, rfl⟩
  simp only [wrapOpt, arrayBodyG, hn, Option.getD_some]
  cases le with
  | some l => cases l <;> rfl
  | none =>
    cases hd : p.delimited with
    | true => rfl
    | false =>
      simp only [Bool.not_false, if_true]
      cases t.fixedSize <;> rfl

theorem generateAll_split {tf : TypeEnv} {ctx ctx' : Ctx} {d d' : Data} {p : FP}
    (h : generateAll tf ctx d p = .ok (ctx', d')) :
    validateField tf ctx p = .ok () ∧
    ∃ d1 d2, generateField tf ctx d p = .ok (ctx', d1) ∧ generateSerialize tf ctx' d1 p = .ok d2 ∧
      generateDeserialize tf ctx' d2 p = .ok d' := by
  unfold generateAll at h
  simp only [bind_ok_iff, pure_ok_iff] at h
  obtain ⟨_, hv, ⟨c1, d1⟩, h1, d2, h2, d3, h3, h4⟩ := h
  simp only [Prod.mk.injEq] at h4
  obtain ⟨rfl, rfl⟩ := h4
  exact ⟨hv, d1, d2, h1, h2, h3⟩

end EoVerif.Gen.DeConform
