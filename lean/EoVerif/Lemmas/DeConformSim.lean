import EoVerif.Lemmas.DeConformRead
set_option linter.unusedVariables false
/-! The run-time invariant of C03b (`DynD`) and the leaf instructions. -/
namespace EoVerif.Gen.DeConform
open EoVerif EoVerif.Gen EoVerif.Spec EoVerif.Gen.Conform

/-! ### Attribute values -/

/-- the value an attribute of declaration `d` holds while reading -/
def ValOK (d : Decl) (v : Value) : Prop :=
  match d.kind with
  | .param => v ≠ .missing ∧ (d.lenOf.isSome = true → (∃ x, v = .str x) ∨ (v = .none ∧ d.optional = true))
  | .const c => v = constValue c ∧ (d.lenOf.isSome = true → ∃ x, v = .str x)
  | .len => ∃ n, v = .int n
  | .arr => (∃ vs, v = .tuple vs) ∨ (v = .none ∧ d.optional = true)
  | .data => v ≠ .missing

/-- the attributes bound so far are those of the declarations so far, in order -/
def AttrsOK : List Decl → List (String × Value) → Prop
  | [], [] => True
  | d :: Ds, p :: as => p.1 = d.name ∧ ValOK d p.2 ∧ AttrsOK Ds as
  | _, _ => False

theorem AttrsOK_append : ∀ {Ds : List Decl} {as : List (String × Value)} {d : Decl} {n : String} {v : Value},
    AttrsOK Ds as → n = d.name → ValOK d v → AttrsOK (Ds ++ [d]) (as ++ [(n, v)])
  | [], [], d, n, v, _, hn, hv => ⟨hn, hv, trivial⟩
  | [], _ :: _, _, _, _, h, _, _ => h.elim
  | _ :: _, [], _, _, _, h, _, _ => h.elim
  | d' :: Ds, p :: as, d, n, v, h, hn, hv => ⟨h.1, h.2.1, AttrsOK_append h.2.2 hn hv⟩

theorem AttrsOK_names : ∀ {Ds : List Decl} {as : List (String × Value)}, AttrsOK Ds as →
    as.map (·.1) = Ds.map (·.name)
  | [], [], _ => rfl
  | [], _ :: _, h => h.elim
  | _ :: _, [], h => h.elim
  | d :: Ds, p :: as, h => by
    rw [List.map_cons, List.map_cons, h.1, AttrsOK_names h.2.2]

theorem AttrsOK_mem : ∀ {Ds : List Decl} {as : List (String × Value)}, AttrsOK Ds as →
    ∀ d ∈ Ds, ∃ v, (d.name, v) ∈ as ∧ ValOK d v
  | [], [], _, d, hd => by cases hd
  | [], _ :: _, h, _, _ => h.elim
  | _ :: _, [], h, _, _ => h.elim
  | d' :: Ds, p :: as, h, d, hd => by
    rcases List.mem_cons.1 hd with rfl | hd
    · exact ⟨p.2, by rw [← h.1]; exact List.mem_cons_self .., h.2.1⟩
    · obtain ⟨v, hv, hval⟩ := AttrsOK_mem h.2.2 d hd
      exact ⟨v, List.mem_cons_of_mem _ hv, hval⟩

/-! ### The invariant -/

/-- the state of the generated `deserialize` against the state of the declarative reading.
    `B`: the names assigned so far; `Ds`: the attributes declared so far; `emp`: nothing emitted yet;
    `lexm`: lexically inside `<chunked>` -/
structure DynD (B : List String) (Ds : List Decl) (emp lexm : Bool) (st : DeSt) (s : RSt) : Prop where
  r : RRel st.r s.r
  start : st.startPos = s.start
  mode : lexm = true → st.r.chunked = true
  emp : emp = true → st.r.pos = st.startPos
  attrs : AttrsOK Ds s.attrs
  names : ∀ d ∈ Ds, d.name ∈ B
  env : ∀ d ∈ Ds, ∃ vm, st.get d.name = some vm ∧ vm ≠ .missing ∧ (d.kind.isVar = true → s.get d.name = vm)
  attrEnv : ∀ p ∈ s.attrs, s.get p.1 = p.2
  fresh : ∀ n, n ∉ B → RSt.get? s n = none

theorem DynD.attr_names_sub {B Ds emp lexm st s} (h : DynD B Ds emp lexm st s) :
    ∀ n ∈ s.attrs.map (·.1), n ∈ B := by
  intro n hn
  rw [AttrsOK_names h.attrs] at hn
  obtain ⟨d, hd, rfl⟩ := List.mem_map.1 hn
  exact h.names d hd

theorem get_of_env_eq {s s' : RSt} (h : s'.env = s.env) (m : String) : s'.get m = s.get m := by
  unfold RSt.get; rw [h]

theorem get?_of_env_eq {s s' : RSt} (h : s'.env = s.env) (m : String) : RSt.get? s' m = RSt.get? s m := by
  unfold RSt.get?; rw [h]

theorem dget_of_env_eq {st st' : DeSt} (h : st'.env = st.env) (m : String) : st'.get m = st.get m := by
  unfold DeSt.get; rw [h]

/-- a declared length field holds the same integer on both sides -/
theorem DynD.len_lookup {B Ds emp lexm st s} (h : DynD B Ds emp lexm st s) {l : String}
    (hl : declaredLen Ds l = true) : ∃ k, st.get l = some (.int k) ∧ s.get l = .int k ∧ l ∈ B := by
  unfold declaredLen at hl
  rw [List.any_eq_true] at hl
  obtain ⟨d, hd, hdl⟩ := hl
  rw [Bool.and_eq_true] at hdl
  have hname : d.name = l := by simpa using hdl.1
  have hkind : d.kind = .len := by
    cases hk : d.kind <;> simp [hk, DKind.isLen] at hdl
    rfl
  obtain ⟨vm, h1, _, h3⟩ := h.env d hd
  obtain ⟨v, hv, hval⟩ := AttrsOK_mem h.attrs d hd
  have hsv := h.attrEnv _ hv
  simp only at hsv
  unfold ValOK at hval
  rw [hkind] at hval
  obtain ⟨k, rfl⟩ := hval
  have := h3 (by rw [hkind]; rfl)
  rw [hsv] at this
  subst this
  rw [hname] at h1 hsv
  exact ⟨k, h1, hsv, by rw [← hname]; exact h.names d hd⟩

/-- a declared variable holds the same value on both sides -/
theorem DynD.var_lookup {B Ds emp lexm st s} (h : DynD B Ds emp lexm st s) {f : String}
    (hf : declaredVar Ds f = true) : ∃ v, st.get f = some v ∧ s.get f = v ∧ f ∈ B := by
  unfold declaredVar at hf
  rw [List.any_eq_true] at hf
  obtain ⟨d, hd, hdl⟩ := hf
  rw [Bool.and_eq_true] at hdl
  have hname : d.name = f := by simpa using hdl.1
  obtain ⟨vm, h1, _, h3⟩ := h.env d hd
  rw [hname] at h1 h3
  exact ⟨vm, h1, h3 hdl.2, by rw [← hname]; exact h.names d hd⟩

/-- only the reader moved -/
theorem DynD.reader {B Ds emp lexm lexm' st s} (h : DynD B Ds emp lexm st s) {st' : DeSt} {a' : AReader}
    (henv : st'.env = st.env) (hstart : st'.startPos = st.startPos) (hr : RRel st'.r a')
    (hmode : lexm' = true → st'.r.chunked = true) :
    DynD B Ds false lexm' st' { s with r := a' } := by
  refine ⟨hr, hstart.trans h.start, hmode, (fun h' => by cases h'), h.attrs, h.names, ?_, h.attrEnv, h.fresh⟩
  intro d hd
  obtain ⟨vm, h1, h2, h3⟩ := h.env d hd
  exact ⟨vm, by rw [dget_of_env_eq henv]; exact h1, h2, h3⟩

theorem DynD.grow {B B' Ds emp lexm st s} (h : DynD B Ds emp lexm st s) (hB : ∀ x ∈ B, x ∈ B') :
    DynD B' Ds emp lexm st s :=
  ⟨h.r, h.start, h.mode, h.emp, h.attrs, fun d hd => hB _ (h.names d hd), h.env, h.attrEnv,
    fun n hn => h.fresh n (fun hx => hn (hB n hx))⟩

theorem DynD.noemp {B Ds emp lexm st s} (h : DynD B Ds emp lexm st s) : DynD B Ds false lexm st s :=
  ⟨h.r, h.start, h.mode, (fun h' => by cases h'), h.attrs, h.names, h.env, h.attrEnv, h.fresh⟩

/-- a new attribute is bound -/
theorem DynD.extend {B B' Ds emp lexm st s} (h : DynD B Ds emp lexm st s) {n : String} {d : Decl}
    {st' : DeSt} {s0 : RSt} {v vm : Value}
    (hn : n ∉ B) (hB : ∀ x ∈ B, x ∈ B') (hnB : n ∈ B') (hd : d.name = n)
    (hr : RRel st'.r s0.r) (hstart : st'.startPos = st.startPos)
    (henv : s0.env = s.env) (hattrs : s0.attrs = s.attrs) (hs0 : s0.start = s.start)
    (hmode : lexm = true → st'.r.chunked = true)
    (hget : ∀ m ∈ B, st'.get m = st.get m) (hgetn : st'.get n = some vm) (hvm : vm ≠ .missing)
    (hval : ValOK d v) (hvar : d.kind.isVar = true → v = vm) :
    DynD B' (Ds ++ [d]) false lexm st' (s0.bind n v) := by
  have hnattr : n ∉ s0.attrs.map (·.1) := by
    rw [hattrs]; intro hx; exact hn (h.attr_names_sub n hx)
  have hattrs' : (s0.bind n v).attrs = s.attrs ++ [(n, v)] := by
    rw [bind_attrs_fresh s0 n v hnattr, hattrs]
  refine ⟨hr, hstart.trans (h.start.trans hs0.symm), hmode, (fun h' => by cases h'), ?_, ?_, ?_, ?_, ?_⟩
  · rw [hattrs']
    exact AttrsOK_append h.attrs hd.symm hval
  · intro d' hd'
    rcases List.mem_append.1 hd' with hd' | hd'
    · exact hB _ (h.names d' hd')
    · rw [List.mem_singleton] at hd'; subst hd'; rw [hd]; exact hnB
  · intro d' hd'
    rcases List.mem_append.1 hd' with hd' | hd'
    · obtain ⟨vm', h1, h2, h3⟩ := h.env d' hd'
      have hB' := h.names d' hd'
      have hne : n ≠ d'.name := fun he => hn (he ▸ hB')
      refine ⟨vm', by rw [hget _ hB']; exact h1, h2, ?_⟩
      intro hv
      rw [get_bind_ne _ _ _ _ hne, get_of_env_eq henv]
      exact h3 hv
    · rw [List.mem_singleton] at hd'; subst hd'
      rw [hd]
      exact ⟨vm, hgetn, hvm, fun hv => by rw [get_bind_self]; exact hvar hv⟩
  · intro p hp
    rw [hattrs', List.mem_append, List.mem_singleton] at hp
    rcases hp with hp | rfl
    · have hpB := h.attr_names_sub p.1 (List.mem_map.2 ⟨p, hp, rfl⟩)
      have hne : n ≠ p.1 := fun he => hn (he ▸ hpB)
      rw [get_bind_ne _ _ _ _ hne, get_of_env_eq henv]
      exact h.attrEnv p hp
    · exact get_bind_self _ _ _
  · intro m hm
    have hne : (n == m) = false := by
      cases hnm : (n == m) with
      | false => rfl
      | true => have : n = m := by simpa using hnm
                subst this; exact absurd hnB hm
    rw [get?_bind, hne]
    simp only [Bool.false_eq_true, if_false]
    rw [get?_of_env_eq henv]
    exact h.fresh m (fun hx => hm (hB m hx))

/-- the generated state differs from `st` at most in the local `n` -/
def Agree (n : String) (st st1 : DeSt) : Prop :=
  st1.r = st.r ∧ st1.startPos = st.startPos ∧ ∀ m, m ≠ n → st1.get m = st.get m

theorem Agree.refl (n : String) (st : DeSt) : Agree n st st := ⟨rfl, rfl, fun _ _ => rfl⟩

theorem Agree.set (n : String) (st : DeSt) (v : Value) : Agree n st (st.set n v) :=
  ⟨DeSt.set_r st n v, set_startPos st n v, fun m hm => get_set_ne st n m v (Ne.symm hm)⟩

/-! ### The optional wrapper -/

theorem exec_optRead (call : DeCall) (n : String) (body : List DeOp) (st : DeSt) :
    execDeOp call (.optRead n body) st =
      if (st.set n .none).r.remaining > 0 then execDeOps call body (st.set n .none) else (st.set n .none, .ok ()) := by
  rw [execDeOp]

/-- an item behind the "optional and nothing remains" test -/
theorem item_sim {call : DeCall} {n : String} {opt : Bool} {body : List DeOp} {st : DeSt} {s : RSt}
    {X : RSt} {Y : Except RErr RSt} {Q : DeSt → Unit → RSt → Prop}
    (hr : RRel st.r s.r)
    (habs : opt = true → Q (st.set n .none) () X)
    (hpres : ∀ st1, Agree n st st1 → ConfD (execDeOps call body st1) Y Q) :
    ConfD (execDeOps call (wrapOpt opt n body) st)
      (if (opt && s.r.remaining == 0) = true then .ok X else Y) Q := by
  unfold wrapOpt
  cases opt with
  | false =>
    simp only [Bool.false_and, Bool.false_eq_true, if_false]
    exact hpres st (Agree.refl n st)
  | true =>
    simp only [Bool.true_and, if_true]
    rw [execDeOps_single, exec_optRead, DeSt.set_r]
    by_cases hrem : st.r.remaining > 0
    · rw [if_pos hrem, if_neg (hr.remaining_pos.1 hrem)]
      exact hpres _ (Agree.set n st .none)
    · rw [if_neg hrem]
      have : (s.r.remaining == 0) = true := by
        cases hq : (s.r.remaining == 0) with
        | true => rfl
        | false => exact absurd (hr.remaining_pos.2 (by rw [hq]; simp)) hrem
      rw [if_pos this]
      exact habs rfl

/-! ### Leaf instructions -/

theorem scalarOK_len {Ds : List Decl} {sc : Scalar} (h : scalarOK Ds sc = true) :
    ∀ e f p, sc = .str e (some (.byField f)) p → declaredLen Ds f = true := by
  intro e f p hs; subst hs; exact h

theorem scalarOK_pad {Ds : List Decl} {sc : Scalar} (h : scalarOK Ds sc = true) : ∀ e, sc ≠ .str e none true := by
  intro e hs; subst hs; simp [scalarOK] at h

/-- struct names read directly by an instruction list (not those of nested case bodies) -/
def scalarRefs : Scalar → List String
  | .struct n => [n]
  | _ => []

/-- the read of one scalar from a state that agrees with `st` up to the local being assigned -/
theorem scalar_sim {call : DeCall} {rcall : RCall} {B Ds emp lexm st s} (h : DynD B Ds emp lexm st s)
    {st1 : DeSt} (hr1 : st1.r = st.r) (hget : ∀ m ∈ B, st1.get m = st.get m) {sc : Scalar}
    (hok : scalarOK Ds sc = true) (hcall : ∀ x ∈ scalarRefs sc, CallAt call rcall x) :
    ConfD (readVal call st1 (ioKindS sc) (coerceS sc) 0) (readScalar rcall s sc)
      (fun st' v p => v = p.2 ∧ RRel st'.r p.1 ∧ Kept st1 st' ∧ ScalarVal sc v) := by
  refine readVal_conf (by rw [hr1]; exact h.r) ?_ ?_ (scalarOK_pad hok)
  · intro x hx; exact hcall x (by rw [hx]; simp [scalarRefs])
  · intro e f p hs
    obtain ⟨k, h1, h2, hB⟩ := h.len_lookup (scalarOK_len hok e f p hs)
    refine ⟨k, ?_, h2⟩
    rw [hget f hB]
    exact h1

theorem kept_get {st st' : DeSt} (h : Kept st st') (m : String) : st'.get m = st.get m :=
  dget_of_env_eq h.2.1 m

/-- a named item: the value read is bound under `n` -/
theorem named_present {call : DeCall} {rcall : RCall} {B Ds emp lexm st s} (h : DynD B Ds emp lexm st s)
    {n : String} {st1 : DeSt} (hag : Agree n st st1) (hn : n ∉ B) {sc : Scalar} {d : Decl}
    (hok : scalarOK Ds sc = true) (hcall : ∀ x ∈ scalarRefs sc, CallAt call rcall x)
    (hd : d.name = n) (w : Value → Value)
    (hval : ∀ v, ScalarVal sc v → ValOK d (w v)) (hvar : d.kind.isVar = true → ∀ v, w v = v) :
    ConfD (execDeOps call [rdOp (.var n) sc] st1)
      (match readScalar rcall s sc with
       | .error e => .error e
       | .ok (r, v) => .ok (({ s with r := r } : RSt).bind n (w v)))
      (fun st' _ s' => DynD (B ++ [n]) (Ds ++ [d]) false lexm st' s') := by
  rw [execDeOps_single]
  unfold rdOp
  rw [exec_read]
  have hc := scalar_sim (call := call) (rcall := rcall) h hag.1
    (fun m hm => hag.2.2 m (fun he => hn (he ▸ hm))) hok hcall
  generalize readVal call st1 (ioKindS sc) (coerceS sc) 0 = x at hc
  obtain ⟨st2, o⟩ := x
  cases hy : readScalar rcall s sc with
  | error e' =>
    rw [hy] at hc
    cases o with
    | error e => simpa using hc
    | ok v => exact hc.elim
  | ok p =>
    rw [hy] at hc
    cases o with
    | error e => exact hc.elim
    | ok v =>
      obtain ⟨a', v'⟩ := p
      simp only [ConfD_ok_ok] at hc
      obtain ⟨hv, hrr, hk, hsv⟩ := hc
      have hv' : v = v' := hv
      subst hv'
      simp only [bindD_ok, store, ConfD_ok_ok]
      refine h.extend (s0 := { s with r := a' }) (vm := v) hn (fun x hx => List.mem_append_left _ hx)
        (List.mem_append_right _ (List.mem_singleton.2 rfl)) hd ?_ ?_ rfl rfl rfl ?_ ?_ ?_ hsv.ne_missing
        (hval v hsv) (fun hv' => hvar hv' v)
      · rw [DeSt.set_r]; exact hrr
      · rw [set_startPos, hk.2.2, hag.2.1]
      · intro hl
        rw [DeSt.set_r, hk.1, hag.1]
        exact h.mode hl
      · intro m hm
        have hne : n ≠ m := fun he => hn (he ▸ hm)
        rw [get_set_ne _ _ _ _ hne, kept_get hk, hag.2.2 m (Ne.symm hne)]
      · exact get_set_self _ _ _

/-- an unnamed item: the value read is dropped -/
theorem unnamed_sim {call : DeCall} {rcall : RCall} {B Ds emp lexm st s} (h : DynD B Ds emp lexm st s)
    {sc : Scalar} (hok : scalarOK Ds sc = true) (hcall : ∀ x ∈ scalarRefs sc, CallAt call rcall x) :
    ConfD (execDeOps call [rdOp .discard sc] st)
      ((readScalar rcall s sc).map (fun (p : AReader × Value) => ({ s with r := p.1 } : RSt)))
      (fun st' _ s' => DynD B Ds false lexm st' s') := by
  rw [execDeOps_single]
  unfold rdOp
  rw [exec_read]
  have hc := scalar_sim (call := call) (rcall := rcall) h rfl (fun _ _ => rfl) hok hcall
  · generalize readVal call st (ioKindS sc) (coerceS sc) 0 = x at hc
    obtain ⟨st2, o⟩ := x
    cases hy : readScalar rcall s sc with
    | error e' =>
      rw [hy] at hc
      cases o with
      | error e => simpa [Except.map] using hc
      | ok v => exact hc.elim
    | ok p =>
      rw [hy] at hc
      cases o with
      | error e => exact hc.elim
      | ok v =>
        simp only [ConfD_ok_ok] at hc
        obtain ⟨_, hrr, hk, _⟩ := hc
        show ConfD (bindD (st2, .ok v) (store .discard)) (.ok _) _
        simp only [bindD_ok, store, ConfD_ok_ok]
        exact h.reader hk.2.1 hk.2.2 hrr (fun hl => by rw [hk.1]; exact h.mode hl)

end EoVerif.Gen.DeConform
