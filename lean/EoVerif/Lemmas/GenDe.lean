import EoVerif.Model.GenExec
import EoVerif.Props.C05
/-! Helper lemmas for C03 (reader invariant through `execDeOps`). -/
namespace EoVerif.Gen

/-- a `deserialize` callback that keeps the data and the reader invariant -/
def GoodCall (call : DeCall) : Prop :=
  ∀ cls r, Reader.Inv r → (call cls r).1.data = r.data ∧ Reader.Inv (call cls r).1

/-- the reader of the state still walks the data `D` and satisfies the invariant -/
def StOK (D : Bytes) (st : DeSt) : Prop := st.r.data = D ∧ Reader.Inv st.r

theorem DeSt.set_r (st : DeSt) (n : String) (v : Value) : (st.set n v).r = st.r := by
  simp only [DeSt.set]; split <;> rfl

theorem stOK_set {D : Bytes} {st : DeSt} (h : StOK D st) (n : String) (v : Value) :
    StOK D (st.set n v) := by
  unfold StOK; rw [DeSt.set_r]; exact h

theorem stOK_step {D : Bytes} {r : Reader} (hd : r.data = D) (hi : Reader.Inv r) (op : Reader.Op) :
    (r.step op).1.data = D ∧ Reader.Inv (r.step op).1 :=
  ⟨(Reader.step_data r op).trans hd, (Reader.step_refines r hi op).2.2⟩

theorem stOK_rstep {D : Bytes} {st : DeSt} (h : StOK D st) (op : Reader.Op) :
    StOK D (rstep st op).1 := by
  simp only [Gen.rstep, StOK]
  exact stOK_step h.1 h.2 op

theorem stOK_of_eq {D : Bytes} {α : Type} {x : Res DeSt α} {s : DeSt} {o : Except PyErr α}
    (h : StOK D x.1) (heq : x = (s, o)) : StOK D s := by subst heq; exact h

theorem stOK_rstep_eq {D : Bytes} {st s : DeSt} {op : Reader.Op} {o : Except PyErr Reader.Val}
    (h : StOK D st) (heq : rstep st op = (s, o)) : StOK D s :=
  stOK_of_eq (stOK_rstep h op) heq

/-- `rstep` followed by discarding the value -/
theorem stOK_rstepUnit {D : Bytes} {st : DeSt} (h : StOK D st) (op : Reader.Op) :
    StOK D (match rstep st op with | (s, r) => (s, r.map (fun _ => ()))).1 :=
  stOK_rstep h op

theorem stOK_call {D : Bytes} {st : DeSt} {call : DeCall} (hc : GoodCall call) (h : StOK D st)
    (cls : String) : StOK D { st with r := (call cls st.r).1 } :=
  ⟨(hc cls st.r h.2).1.trans h.1, (hc cls st.r h.2).2⟩

theorem stOK_doRead {D : Bytes} {st : DeSt} {call : DeCall} (hc : GoodCall call) (h : StOK D st)
    (kind : IOKind) : StOK D (doRead call st kind).1 := by
  unfold Gen.doRead
  dsimp only
  split
  all_goals first
    | exact stOK_call hc h _
    | (split <;> exact stOK_rstep_eq h (by assumption))
    | skip
  split
  · split <;> exact stOK_rstep_eq h (by assumption)
  · split
    · exact h
    · split <;> exact stOK_rstep_eq h (by assumption)

theorem stOK_repeatM {D : Bytes} {f : Nat → DeSt → Res DeSt Unit}
    (hf : ∀ i s, StOK D s → StOK D (f i s).1) :
    ∀ (k i : Nat) (st : DeSt), StOK D st → StOK D (repeatM f k i st).1
  | 0, _, _, h => h
  | k + 1, i, st, h => by
    have h1 := hf i st h
    simp only [Gen.repeatM]
    split
    · next st' e heq => exact stOK_of_eq h1 heq
    · next st' heq => replace h1 := stOK_of_eq h1 heq; exact stOK_repeatM hf k (i + 1) st' h1

theorem stOK_whileM {D : Bytes} {cond : DeSt → Bool} {body : DeSt → Res DeSt Unit}
    (hf : ∀ s, StOK D s → StOK D (body s).1) :
    ∀ (k : Nat) (st : DeSt), StOK D st → StOK D (whileM cond body k st).1
  | 0, st, h => by
    simp only [Gen.whileM]; split <;> exact h
  | k + 1, st, h => by
    have h1 := hf st h
    simp only [Gen.whileM]
    split
    · exact h
    · split
      · next st' e heq => exact stOK_of_eq h1 heq
      · next st' heq => replace h1 := stOK_of_eq h1 heq; exact stOK_whileM hf k st' h1

mutual

theorem stOK_execDeOp {D : Bytes} {call : DeCall} (hc : GoodCall call) :
    ∀ (op : DeOp) (st : DeSt), StOK D st → StOK D (execDeOp call op st).1
  | .setChunked b, st, h => by
    simp only [Gen.execDeOp]; exact stOK_rstep h _
  | .nextChunk, st, h => by
    simp only [Gen.execDeOp]; exact stOK_rstep h _
  | .optRead name body, st, h => by
    simp only [Gen.execDeOp]
    split
    · exact stOK_execDeOps hc body _ (stOK_set h _ _)
    · exact stOK_set h _ _
  | .read target kind c offset, st, h => by
    have h1 := stOK_doRead hc h kind
    simp only [Gen.execDeOp]
    split
    · next s e heq => exact stOK_of_eq h1 heq
    · next s raw heq =>
      replace h1 := stOK_of_eq h1 heq
      split
      · exact h1
      · split
        · exact h1
        · exact stOK_set h1 _ _
        · split
          · exact stOK_set h1 _ _
          · exact h1
          · exact h1
  | .initList n, st, h => by
    simp only [Gen.execDeOp]; exact stOK_set h _ _
  | .lenVar n size, st, h => by
    simp only [Gen.execDeOp]
    split
    · exact h
    · exact stOK_set h _ _
  | .forRange count body delim, st, h => by
    simp only [Gen.execDeOp]
    split
    · exact h
    · apply stOK_repeatM _ _ _ _ h
      intro i s hs
      have h1 := stOK_execDeOps hc body { s with idx := i } hs
      split
      · next s' e heq => exact stOK_of_eq h1 heq
      · next s' heq =>
        replace h1 := stOK_of_eq h1 heq
        split
        · exact h1
        · exact (stOK_rstep h1 _ : StOK D (rstep s' .nextChunk).1)
        · split
          · exact (stOK_rstep h1 _ : StOK D (rstep s' .nextChunk).1)
          · exact h1
  | .whileRemaining body delimited, st, h => by
    simp only [Gen.execDeOp]
    apply stOK_whileM _ _ _ h
    intro s hs
    have h1 := stOK_execDeOps hc body s hs
    split
    · next s' e heq => exact stOK_of_eq h1 heq
    · next s' heq =>
      replace h1 := stOK_of_eq h1 heq
      have h3 : StOK D (rstep s' .nextChunk).1 := stOK_rstep h1 _
      cases delimited <;> simp only [Bool.false_eq_true, if_false, if_true]
      · split <;> first | exact h1 | (split <;> exact h1)
      · split <;> first | exact h3 | (split <;> exact h3)
  | .dummyGuard body, st, h => by
    simp only [Gen.execDeOp]
    split
    · exact stOK_execDeOps hc body _ h
    · exact h
  | .declNone n, st, h => by
    simp only [Gen.execDeOp]; exact stOK_set h _ _
  | .switch f cases, st, h => by
    simp only [Gen.execDeOp]
    split
    · exact h
    · split
      · exact h
      · split
        · exact stOK_set h _ _
        · next dv cls _ =>
          have h1 := stOK_call hc h cls
          split
          · exact h1
          · exact stOK_set h1 _ _

theorem stOK_execDeOps {D : Bytes} {call : DeCall} (hc : GoodCall call) :
    ∀ (ops : List DeOp) (st : DeSt), StOK D st → StOK D (execDeOps call ops st).1
  | [], st, h => by simp only [Gen.execDeOps]; exact h
  | op :: ops, st, h => by
    have h1 := stOK_execDeOp hc op st h
    simp only [Gen.execDeOps]
    split
    · next st' e heq => exact stOK_of_eq h1 heq
    · next st' heq => replace h1 := stOK_of_eq h1 heq; exact stOK_execDeOps hc ops st' h1

end

/-! ### `deserializeBody`, `execDe` -/

theorem deserializeBody_fst (call : DeCall) (c : ClassIR) (r : Reader) :
    (deserializeBody call c r).1 =
      ((execDeOps call c.de { r := r, startPos := r.pos }).1.r.step (.setChunked r.chunked)).1 := by
  simp only [deserializeBody]
  (repeat' split) <;> rfl

theorem goodCall_deserializeBody {call : DeCall} (hc : GoodCall call) (c : ClassIR) (r : Reader)
    (h : Reader.Inv r) :
    (deserializeBody call c r).1.data = r.data ∧ Reader.Inv (deserializeBody call c r).1 := by
  rw [deserializeBody_fst]
  have h1 : StOK r.data (execDeOps call c.de { r := r, startPos := r.pos }).1 :=
    stOK_execDeOps hc c.de _ ⟨rfl, h⟩
  exact stOK_step h1.1 h1.2 _

theorem goodCall_execDe (o : GenOutput) : ∀ fuel : Nat, GoodCall (execDe o fuel)
  | 0 => fun _ _ h => ⟨rfl, h⟩
  | fuel + 1 => by
    intro cls r h
    simp only [execDe]
    split
    · exact ⟨rfl, h⟩
    · exact goodCall_deserializeBody (goodCall_execDe o fuel) _ r h

/-! ### `byte_size` -/

theorem step_setChunked_pos (r : Reader) (b : Bool) : (r.step (.setChunked b)).1.pos = r.pos := by
  simp only [Reader.step]; split <;> rfl

theorem construct_obj (c : ClassIR) (args : List (String × Value)) (v : Value)
    (h : construct c args = .ok v) : ∃ fs, v = .obj c.name fs 0 := by
  unfold construct at h
  split at h
  · cases h
  · split at h
    · cases h
    · split at h
      · cases h
      · cases h; exact ⟨_, rfl⟩

theorem deserializeBody_byteSize (call : DeCall) (c : ClassIR) (r : Reader) (v : Value)
    (h : (deserializeBody call c r).2 = .ok v) :
    ∃ cn fs, v = .obj cn fs (((deserializeBody call c r).1.pos : Int) - r.pos) := by
  rw [deserializeBody_fst, step_setChunked_pos]
  simp only [deserializeBody] at h
  split at h
  · cases h
  · split at h
    · cases h
    · split at h
      · cases h
      · next v' hv =>
        obtain ⟨fs, rfl⟩ := construct_obj _ _ _ hv
        cases h
        exact ⟨_, _, rfl⟩

theorem execDe_byteSize (o : GenOutput) (fuel : Nat) (cls : String) (r : Reader) (v : Value)
    (h : (execDe o fuel cls r).2 = .ok v) :
    ∃ c fs, v = .obj c fs (((execDe o fuel cls r).1.pos : Int) - r.pos) := by
  cases fuel with
  | zero => simp [execDe] at h
  | succ fuel =>
    simp only [execDe] at h ⊢
    split at h
    · cases h
    · next c hc =>
      exact deserializeBody_byteSize _ c r v h

end EoVerif.Gen
