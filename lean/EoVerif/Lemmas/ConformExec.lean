import EoVerif.Lemmas.ConformGen
/-! Execution-side lemmas for C02: sequencing, the emitted statements one by one, and the agreement of
    one emitted write with `wireScalar` on a typed value. -/
namespace EoVerif.Gen.Conform
open EoVerif EoVerif.Gen EoVerif.Spec EoVerif.Gen.WF

/-- sequencing of results -/
def bindRes {σ : Type} (r : Res σ Unit) (f : σ → Res σ Unit) : Res σ Unit :=
  match r with
  | (s, .error e) => (s, .error e)
  | (s, .ok ()) => f s

@[simp] theorem bindRes_ok {σ : Type} (s : σ) (f : σ → Res σ Unit) : bindRes (s, .ok ()) f = f s := rfl
@[simp] theorem bindRes_err {σ : Type} (s : σ) (e : PyErr) (f : σ → Res σ Unit) :
    bindRes (s, .error e) f = (s, .error e) := rfl

theorem execSerOps_cons (call : SerCall) (obj : Value) (op : SerOp) (ops : List SerOp) (st : SerSt) :
    execSerOps call obj (op :: ops) st = bindRes (execSerOp call obj op st) (execSerOps call obj ops) := by
  rw [execSerOps]
  obtain ⟨s, x⟩ := execSerOp call obj op st
  cases x with
  | error e => rfl
  | ok u => cases u; rfl

theorem execSerOps_nil (call : SerCall) (obj : Value) (st : SerSt) :
    execSerOps call obj [] st = (st, .ok ()) := by rw [execSerOps]

theorem execSerOps_single (call : SerCall) (obj : Value) (op : SerOp) :
    execSerOps call obj [op] = execSerOp call obj op := by
  funext st
  rw [execSerOps_cons]
  obtain ⟨s, x⟩ := execSerOp call obj op st
  cases x with
  | error e => rfl
  | ok u => cases u; simp [execSerOps_nil]

theorem bindRes_assoc {σ : Type} (r : Res σ Unit) (f g : σ → Res σ Unit) :
    bindRes (bindRes r f) g = bindRes r (fun s => bindRes (f s) g) := by
  obtain ⟨s, x⟩ := r
  cases x with
  | error e => rfl
  | ok u => cases u; rfl

theorem execSerOps_append (call : SerCall) (obj : Value) : ∀ (a b : List SerOp) (st : SerSt),
    execSerOps call obj (a ++ b) st = bindRes (execSerOps call obj a st) (execSerOps call obj b)
  | [], b, st => by rw [execSerOps_nil]; rfl
  | op :: a, b, st => by
    rw [List.cons_append, execSerOps_cons, execSerOps_cons, bindRes_assoc]
    congr 1
    funext s
    exact execSerOps_append call obj a b s

theorem wireInstrs_cons (call : String → Value → Bool → W) (lens : String → Option LenInfo) (obj : Value) (lex : Bool)
    (i : TInstr) (rest : List TInstr) (st : WSt) :
    wireInstrs call lens obj lex (i :: rest) st
      = (wireInstr call lens obj lex i st).bind (wireInstrs call lens obj lex rest) := by
  rw [wireInstrs]; cases wireInstr call lens obj lex i st <;> rfl

theorem wireInstrs_nil (call : String → Value → Bool → W) (lens : String → Option LenInfo) (obj : Value) (lex : Bool)
    (st : WSt) : wireInstrs call lens obj lex [] st = some st := by rw [wireInstrs]

theorem wireInstrs_append (call : String → Value → Bool → W) (lens : String → Option LenInfo) (obj : Value) (lex : Bool) :
    ∀ (a b : List TInstr) (st : WSt),
    wireInstrs call lens obj lex (a ++ b) st
      = (wireInstrs call lens obj lex a st).bind (wireInstrs call lens obj lex b)
  | [], b, st => by rw [wireInstrs_nil]; rfl
  | i :: a, b, st => by
    rw [List.cons_append, wireInstrs_cons, wireInstrs_cons]
    cases wireInstr call lens obj lex i st with
    | none => rfl
    | some st' => exact wireInstrs_append call lens obj lex a b st'

theorem Conf_bind {σ α : Type} {r : Res σ Unit} {o : Option α} {P Q : σ → α → Prop}
    {f : σ → Res σ Unit} {g : α → Option α}
    (h : Conf r o P) (hk : ∀ s a, P s a → Conf (f s) (g a) Q) : Conf (bindRes r f) (o.bind g) Q := by
  obtain ⟨s, x⟩ := r
  cases x with
  | error e => cases o <;> simp at h ⊢ <;> exact h
  | ok u =>
    cases u
    cases o with
    | none => exact h.elim
    | some a => exact hk s a h


/-! ### Typed values -/

/-- a present (non-`None`) value of the Python type a scalar declaration calls for.  `TV n v` says that
    `v` is a typed instance of struct `n`; a string whose length is carried by a length field must agree
    with that attribute (what `__init__` establishes). -/
def TypedVal (TV : String → Value → Prop) (obj : Value) : Scalar → Value → Prop
  | .int _, v => ∃ n : Int, v = .int n ∧ 0 ≤ n
  | .bool _, v => ∃ b, v = .bool b
  | .enum _, v => ∃ n : Int, v = .int n ∧ 0 ≤ n
  | .str _ len _, v => ∃ s, v = .str s ∧ ∀ f, len = some (.byField f) → obj.attr f = .int s.length
  | .blob, v => ∃ bs, v = .bytes bs
  | .struct n, v => (∃ c fs z, v = .obj c fs z) ∧ TV n v

theorem TypedVal.ne_none {TV obj sc v} (h : TypedVal TV obj sc v) : v ≠ .none := by
  intro hv; subst hv
  cases sc <;> simp [TypedVal] at h

theorem TypedVal.ne_missing {TV obj sc v} (h : TypedVal TV obj sc v) : v ≠ .missing := by
  intro hv; subst hv
  cases sc <;> simp [TypedVal] at h

/-- the struct serializer callbacks agree on typed instances -/
def CallOK (call : SerCall) (wcall : String → Value → Bool → W) (TV : String → Value → Prop) : Prop :=
  ∀ n v w, TV n v → Conf (call n v w) (wcall n v w.san) (fun w' b => w' = { w with data := w.data ++ b })

def appSt (st : SerSt) (b : Bytes) : SerSt := { st with w := { st.w with data := st.w.data ++ b } }

theorem wstep_conf {st : SerSt} {op : Writer.Op} {o : Option Bytes}
    (h : Conf (st.w.step op) o (fun w' b => w' = { st.w with data := st.w.data ++ b })) :
    Conf (wstep st op) o (fun st' b => st' = appSt st b) := by
  unfold wstep
  generalize st.w.step op = r at h
  obtain ⟨w', x⟩ := r
  cases x with
  | error e => cases o <;> simp at h ⊢ <;> exact h
  | ok u =>
    cases u
    cases o with
    | none => exact h.elim
    | some b =>
      simp only [Conf_ok_some] at h ⊢
      rw [h]; rfl

/-! ### The emitted statements -/

theorem exec_noneCheck (call : SerCall) (obj : Value) (f : String) (st : SerSt)
    (h1 : obj.attr f ≠ .missing) (h2 : obj.attr f ≠ .none) :
    execSerOp call obj (.noneCheck f) st = (st, .ok ()) := by
  rw [execSerOp]
  split
  · rename_i h; exact absurd h h1
  · rename_i h; exact absurd h h2
  · rfl

theorem exec_noneCheck_none (call : SerCall) (obj : Value) (f : String) (st : SerSt)
    (h : obj.attr f = .none) : execSerOp call obj (.noneCheck f) st = (st, .error .SerializationError) := by
  rw [execSerOp, h]

theorem exec_lenCheck (call : SerCall) (obj : Value) (f : String) (gt : Bool) (lim : Int) (st : SerSt)
    (v : Value) (n : Nat) (hv : obj.attr f = v) (hm : v ≠ .missing) (hl : v.len? = some n) :
    execSerOp call obj (.lenCheck f gt lim) st =
      if (if gt then (n : Int) > lim else (n : Int) ≠ lim) then (st, .error .SerializationError) else (st, .ok ()) := by
  rw [execSerOp, hv]
  split
  next => exact absurd rfl hm
  next => simp only [hl]

theorem exec_optGuard (call : SerCall) (obj : Value) (acc : Bool) (f : String) (body : List SerOp) (st : SerSt)
    (v : Value) (old : Bool) (hv : obj.attr f = v) (hm : v ≠ .missing) (hacc : acc = true → st.rmo = some old) :
    execSerOp call obj (.optGuard acc f body) st =
      if ((acc && old) || v.isNone) = true then ({ st with rmo := some ((acc && old) || v.isNone) }, .ok ())
      else execSerOps call obj body { st with rmo := some ((acc && old) || v.isNone) } := by
  rw [execSerOp, hv]
  split
  next => exact absurd rfl hm
  next =>
    cases acc with
    | true => simp only [hacc rfl, if_true, Bool.true_and]
    | false => simp only [Bool.false_eq_true, if_false, Bool.false_and, Bool.false_or]

theorem exec_write (call : SerCall) (obj : Value) (st : SerSt) (kind : IOKind) (vx : VExpr) (c : Coerce) (off : Int)
    (v v' : Value) (hev : evalV obj st.idx vx = .ok v) (hc : coerceW c v = .ok v') :
    execSerOp call obj (.write kind vx c off) st = doWrite call obj st kind v' off := by
  rw [execSerOp, hev]; simp only [hc]

theorem doWrite_int (call : SerCall) (obj : Value) (st : SerSt) (k : IntKind) (m off : Int) :
    doWrite call obj st (.int k) (.int m) off = wstep st (intOp k (m - off)) := by
  cases k <;> rfl

theorem exec_setSan (call : SerCall) (obj : Value) (b : Bool) (st : SerSt) :
    execSerOp call obj (.setSan b) st = ({ st with w := { st.w with san := b } }, .ok ()) := by
  rw [execSerOp]; rfl

theorem exec_addBreak (call : SerCall) (obj : Value) (st : SerSt) :
    execSerOp call obj .addBreak st = (appSt st [0xFF], .ok ()) := by
  rw [execSerOp]; rfl
theorem evalV_field (obj : Value) (idx : Nat) (n : String) (v : Value) (hv : obj.attr n = v) (hm : v ≠ .missing) :
    evalV obj idx (.field n false) = .ok v := by
  simp only [evalV]
  rw [hv]
  split
  next => exact absurd rfl hm
  next => rfl

end EoVerif.Gen.Conform
