import EoVerif.Lemmas.RoundTripScalar
/-!
# Round trip at the level of the declarative semantics — instructions and bodies

The writer (`wireInstrs`) and the reader (`readInstrs`) are run in lockstep over a body; `Inv` is the
simulation invariant.
-/
namespace EoVerif.Spec.RT
open EoVerif
open EoVerif.Gen (IntKind Value)

theorem map_some_inv {α β : Type} (f : α → β) (o : Option α) (y : β) (h : o.map f = some y) :
    ∃ x, o = some x ∧ y = f x := by
  cases o with
  | none => cases h
  | some x => simp only [Option.map_some, Option.some.injEq] at h; exact ⟨x, rfl, h.symm⟩

/-! ### `strip` facts -/

theorem strip_int_inv (v : Value) (n : Int) (h : strip v = .int n) : v = .int n := by
  cases v <;> simp only [strip] at h <;> first | exact h | cases h

theorem strip_none_inv (v : Value) (h : strip v = .none) : v = .none := by
  cases v <;> simp only [strip] at h <;> first | rfl | cases h

theorem sameFields_int (v : Value) (n : Int) (h : SameFields v (.int n)) : v = .int n :=
  strip_int_inv v n h

theorem isIntVal_eq (v : Value) (n : Int) (h : isIntVal v n = true) : v = .int n := by
  cases v <;> simp only [isIntVal] at h <;> try cases h
  simp only [beq_iff_eq] at h; rw [h]

theorem isNone_eq (v : Value) (h : v.isNone = true) : v = .none := by
  cases v <;> simp only [Value.isNone] at h <;> first | rfl | cases h

theorem constMatches_eq (c : ConstV) (v : Value) (h : constMatches c v = true) :
    v = constValue c := by
  cases c <;> cases v <;> simp only [constMatches] at h <;> try cases h
  all_goals simp only [beq_iff_eq] at h; simp only [constValue, h]

/-! ### the reader's environment -/

theorem attr_eq_lookup (c : String) (fs : List (String × Value)) (sz : Int) (n : String) :
    (Value.obj c fs sz).attr n = lookupAttr fs n := rfl

theorem find_none_of_not_mem (l : List (String × Value)) (n : String)
    (h : n ∉ l.map (·.1)) : l.find? (·.1 == n) = none := by
  rw [List.find?_eq_none]
  intro p hp hpn
  simp only [beq_iff_eq] at hpn
  exact h (hpn ▸ List.mem_map_of_mem hp)

theorem bind_fresh (s : RSt) (n : String) (v : Value) (he : s.env = s.attrs)
    (hn : n ∉ s.attrs.map (·.1)) :
    s.bind n v = { s with env := s.env ++ [(n, v)], attrs := s.attrs ++ [(n, v)] } := by
  unfold RSt.bind
  have h1 : s.attrs.any (·.1 == n) = false := by
    rw [List.any_eq_false]
    intro p hp hpn
    simp only [beq_iff_eq] at hpn
    exact hn (hpn ▸ List.mem_map_of_mem hp)
  have h2 : s.env.filter (·.1 != n) = s.env := by
    rw [List.filter_eq_self]
    intro p hp
    rw [he] at hp
    simp only [bne_iff_ne, ne_eq]
    intro hpn
    exact hn (hpn ▸ List.mem_map_of_mem hp)
  simp only [h1, h2, Bool.false_eq_true, if_false]

/-! ### the simulation invariant -/

/-- the reader moved `n` bytes forward; if `c`, it is clean afterwards -/
structure Adv (r r' : AReader) (n : Nat) (c : Bool) : Prop where
  data : r'.data = r.data
  pos : r'.pos = r.pos + n
  mode : r'.chunked = r.chunked
  clean : c = true → Clean r'

/-- writer state `st` and reader state `s` correspond: the reader stands right after the bytes
    written so far (`A₀` precedes the body, `X` is still ahead), both are in mode `ch`, the reader
    is clean in chunked mode or when `cl`, and the attributes read so far are those of the object,
    in order. -/
structure Inv (obj : Value) (ch cl : Bool) (bound : List String) (st : WSt) (s : RSt)
    (A₀ X : Bytes) : Prop where
  data : s.r.data = A₀ ++ st.out ++ X
  pos : s.r.pos = A₀.length + st.out.length
  start : s.start = A₀.length
  mode : s.r.chunked = ch
  san : st.san = ch
  clean : (ch || cl) = true → Clean s.r
  env : s.env = s.attrs
  names : s.attrs.map (·.1) = bound
  nodup : bound.Nodup
  vals : ∀ p ∈ s.attrs, SameFields p.2 (obj.attr p.1)

theorem Inv.get {obj : Value} {ch cl : Bool} {bound : List String} {st : WSt} {s : RSt}
    {A₀ X : Bytes} (h : Inv obj ch cl bound st s A₀ X) (f : String) (hf : f ∈ bound) :
    SameFields (s.get f) (obj.attr f) := by
  unfold RSt.get
  rw [h.env]
  rw [← h.names] at hf
  cases hfind : s.attrs.find? (·.1 == f) with
  | none =>
    rw [List.find?_eq_none] at hfind
    obtain ⟨p, hp, rfl⟩ := List.mem_map.1 hf
    exact absurd (by simp) (hfind p hp)
  | some p =>
    have hp := List.mem_of_find?_eq_some hfind
    have hpn := List.find?_some hfind
    simp only [beq_iff_eq] at hpn
    simp only [Option.map_some, Option.getD_some]
    rw [← hpn]
    exact h.vals p hp

theorem Inv.bind {obj : Value} {ch cl : Bool} {bound : List String} {st : WSt} {s : RSt}
    {A₀ X : Bytes} (h : Inv obj ch cl bound st s A₀ X) (n : String) (v : Value)
    (hn : bound.contains n = false) (hv : SameFields v (obj.attr n)) :
    Inv obj ch cl (bound ++ [n]) st (s.bind n v) A₀ X := by
  have hn' : n ∉ s.attrs.map (·.1) := by
    rw [h.names]; simpa using hn
  rw [bind_fresh s n v h.env hn']
  refine ⟨h.data, h.pos, h.start, h.mode, h.san, h.clean, ?_, ?_, ?_, ?_⟩
  · show s.env ++ [(n, v)] = s.attrs ++ [(n, v)]
    rw [h.env]
  · show (s.attrs ++ [(n, v)]).map (·.1) = bound ++ [n]
    rw [List.map_append, h.names]; rfl
  · rw [List.nodup_append]
    refine ⟨h.nodup, by simp, ?_⟩
    intro a ha b hb
    simp only [List.mem_singleton] at hb
    subst hb
    intro e
    subst e
    simp only [List.contains_eq_mem, decide_eq_false_iff_not] at hn
    exact hn ha
  · intro p hp
    have hp' : p ∈ s.attrs ++ [(n, v)] := hp
    rcases List.mem_append.1 hp' with hp' | hp'
    · exact h.vals p hp'
    · simp only [List.mem_singleton] at hp'
      subst hp'; exact hv

theorem Inv.stop {obj : Value} {ch cl : Bool} {bound : List String} {st : WSt} {s : RSt}
    {A₀ X : Bytes} (h : Inv obj ch cl bound st s A₀ X) (b : Bool) :
    Inv obj ch cl bound { st with stopped := b } s A₀ X :=
  ⟨h.data, h.pos, h.start, h.mode, h.san, h.clean, h.env, h.names, h.nodup, h.vals⟩

/-- forgetting cleanliness -/
theorem Inv.weaken {obj : Value} {ch cl : Bool} {bound : List String} {st : WSt} {s : RSt}
    {A₀ X : Bytes} (h : Inv obj ch cl bound st s A₀ X) (cl' : Bool)
    (hcl : (ch || cl') = true → (ch || cl) = true) :
    Inv obj ch cl' bound st s A₀ X :=
  ⟨h.data, h.pos, h.start, h.mode, h.san, fun hc => h.clean (hcl hc),
    h.env, h.names, h.nodup, h.vals⟩

/-- the flag the static walk continues with after an instruction -/
theorem Inv.after {obj : Value} {ch c : Bool} {bound : List String} {st : WSt} {s : RSt}
    {A₀ X : Bytes} (h : Inv obj ch c bound st s A₀ X) (cl : Bool) :
    Inv obj ch (ch || (cl && c)) bound st s A₀ X :=
  h.weaken _ (by cases ch <;> cases cl <;> cases c <;> simp)

theorem Inv.after' {obj : Value} {ch c : Bool} {bound : List String} {st : WSt} {s : RSt}
    {A₀ X : Bytes} (h : Inv obj ch c bound st s A₀ X) (c' : Bool) :
    Inv obj ch (ch || (c && c')) bound st s A₀ X :=
  h.weaken _ (by cases ch <;> cases c <;> cases c' <;> simp)

/-- the reader's view of the data, with the bytes `b` of the next item made explicit -/
theorem Inv.frame {obj : Value} {ch cl : Bool} {bound : List String} {st : WSt} {s : RSt}
    {A₀ X : Bytes} (h : Inv obj ch cl bound st s A₀ X) (b post : Bytes) (hX : X = b ++ post) :
    s.r.data = (A₀ ++ st.out) ++ b ++ post ∧ s.r.pos = (A₀ ++ st.out).length := by
  refine ⟨?_, ?_⟩
  · rw [h.data, hX]; simp only [List.append_assoc]
  · rw [h.pos, List.length_append]

/-- after reading the bytes `b` of an item -/
theorem Inv.advance {obj : Value} {ch cl : Bool} {bound : List String} {st : WSt} {s : RSt}
    {A₀ X : Bytes} (h : Inv obj ch cl bound st s A₀ X) (b post : Bytes) (hX : X = b ++ post)
    (r' : AReader) (cl' : Bool) (ha : Adv s.r r' b.length (ch || cl')) :
    Inv obj ch cl' bound { st with out := st.out ++ b } { s with r := r' } A₀ post := by
  obtain ⟨hd, hp⟩ := h.frame b post hX
  refine ⟨?_, ?_, h.start, ?_, h.san, ha.clean, h.env, h.names, h.nodup, h.vals⟩
  · show r'.data = A₀ ++ (st.out ++ b) ++ post
    rw [ha.data, hd]; simp only [List.append_assoc]
  · show r'.pos = A₀.length + (st.out ++ b).length
    rw [ha.pos, h.pos]
    simp only [List.length_append]; omega
  · show r'.chunked = ch
    rw [ha.mode, h.mode]

/-- reading break-free bytes exactly -/
theorem Adv.exact (r : AReader) (A b post : Bytes) (c : Bool) (hd : r.data = A ++ b ++ post)
    (hp : r.pos = A.length) (hc : c = true → Clean r ∧ 0xFF ∉ b) :
    Adv r { r with pos := A.length + b.length } b.length c :=
  ⟨rfl, by show A.length + b.length = r.pos + b.length; rw [hp], rfl,
    fun h => clean_advance r A b post hd hp (hc h).1 (hc h).2⟩

/-! ### struct calls -/

/-- what the simulation needs from the writer/reader/checkers of structs: the class-level round
    trip, from any position of any reader in the matching mode -/
def CallOK (cw : String → Value → Bool → W) (cr : RCall) (okc : OkC) (rtc : RtC) : Prop :=
  ∀ (n : String) (v : Value) (san cl tl cl' : Bool) (b : Bytes) (r : AReader) (A post : Bytes),
    okc n san cl tl = some cl' → rtc n v san = true → cw n v san = some b →
    r.data = A ++ b ++ post → r.pos = A.length → r.chunked = san →
    ((san || cl) = true → Clean r) → (tl = true → End san post) →
    ∃ r' v', cr n r = .ok (r', v') ∧ SameFields v' v ∧ Adv r r' b.length (san || cl') ∧
      byteSizeOf v' = b.length

/-- the static struct sizes are the sizes of the bytes written -/
def SizeOK (cw : String → Value → Bool → W) (szc : SzC) : Prop :=
  ∀ (n : String) (m : Nat) (v : Value) (san : Bool) (b : Bytes),
    szc n = some m → cw n v san = some b → b.length = m

/-! ### a written item -/

theorem ffOK_spec (san : Bool) (ty : Scalar) (b : Bytes) (hty : ∀ n, ty ≠ .struct n)
    (h : ffOK san ty b = true) : san = true → 0xFF ∉ b := by
  intro hs
  subst hs
  cases ty <;> first | exact absurd rfl (hty _) | simpa [ffOK] using h

theorem wire_byField_length (cw : String → Value → Bool → W) (lens : String → Option LenInfo)
    (san e p : Bool) (f : String) (x : List Nat) (b : Bytes)
    (h : wireScalar cw lens san (.str e (some (.byField f)) p) (.str x) = some b) :
    b.length = x.length := by
  simp only [wireScalar] at h
  cases hl : lens f with
  | none => rw [hl] at h; cases h
  | some li =>
    rw [hl] at h
    simp only at h
    by_cases he : (x.length : Int) ≤ lengthLimit li.k li.offset
    · rw [if_pos he] at h
      simp only [Option.map_some, Option.some.injEq] at h
      rw [← h, encIf_length, strBytes_length]
    · rw [if_neg he] at h; cases h

theorem wire_byField_str (cw : String → Value → Bool → W) (lens : String → Option LenInfo)
    (san e p : Bool) (f : String) (v : Value) (b : Bytes)
    (h : wireScalar cw lens san (.str e (some (.byField f)) p) v = some b) :
    ∃ x, v = .str x := by
  cases v <;> simp only [wireScalar] at h <;> try cases h
  exact ⟨_, rfl⟩

/-- facts about `okScalar` on a non-struct type -/
theorem okScalar_leaf (okc : OkC) (ch last : Bool) (bound : List String) (byf cl xff cl' : Bool)
    (ty : Scalar) (hty : ∀ n, ty ≠ .struct n)
    (h : okScalar okc ch last bound byf cl xff ty = some cl') :
    (unboundedScalar ty = true → last = true) ∧
      (cl' = true → ch = true ∨ (cl = true ∧ (ffFreeScalar ty = true ∨ xff = true))) ∧
      (∀ e f p, ty = .str e (some (.byField f)) p → byf = true ∧ f ∈ bound) := by
  cases ty with
  | struct n => exact absurd rfl (hty n)
  | str e len p =>
    cases len with
    | none =>
      simp only [okScalar] at h
      split at h
      · rename_i hl
        simp only [Option.some.injEq] at h
        exact ⟨fun _ => hl, fun hc => Or.inl (h ▸ hc), (by intro _ _ _ h; cases h)⟩
      · cases h
    | some l =>
      cases l with
      | lit n =>
        simp only [okScalar, Option.some.injEq] at h
        refine ⟨(by intro h; cases h), ?_, (by intro _ _ _ h; cases h)⟩
        intro hc; subst h
        simp only [ffFreeScalar, Bool.false_or, Bool.or_eq_true, Bool.and_eq_true] at hc
        rcases hc with hc | hc
        · exact Or.inl hc
        · exact Or.inr ⟨hc.1, Or.inr hc.2⟩
      | byField f =>
        simp only [okScalar] at h
        split at h
        · rename_i hl
          simp only [Bool.and_eq_true, List.contains_eq_mem, decide_eq_true_eq] at hl
          simp only [Option.some.injEq] at h
          refine ⟨(by intro h; cases h), fun hc => Or.inl (h ▸ hc), ?_⟩
          intro _ _ _ he; cases he; exact hl
        · cases h
  | blob =>
    simp only [okScalar] at h
    split at h
    · rename_i hl
      simp only [Option.some.injEq] at h
      exact ⟨fun _ => hl, fun hc => Or.inl (h ▸ hc), (by intro _ _ _ h; cases h)⟩
    · cases h
  | int k =>
    simp only [okScalar, Option.some.injEq] at h
    refine ⟨(by intro h; cases h), ?_, (by intro _ _ _ h; cases h)⟩
    intro hc; subst h
    simpa using hc
  | bool k =>
    simp only [okScalar, Option.some.injEq] at h
    refine ⟨(by intro h; cases h), ?_, (by intro _ _ _ h; cases h)⟩
    intro hc; subst h
    simpa using hc
  | enum k =>
    simp only [okScalar, Option.some.injEq] at h
    refine ⟨(by intro h; cases h), ?_, (by intro _ _ _ h; cases h)⟩
    intro hc; subst h
    simpa using hc

/-- **prefix parsing of one item, structs included** -/
theorem scalarG_rt (cw : String → Value → Bool → W) (cr : RCall) (okc : OkC) (rtc : RtC)
    (hcall : CallOK cw cr okc rtc) (lens : String → Option LenInfo)
    (ch last : Bool) (bound : List String) (byf cl xff cl' : Bool) (ty : Scalar) (v : Value)
    (b : Bytes) (s : RSt) (A post : Bytes)
    (hok : okScalar okc ch last bound byf cl xff ty = some cl')
    (hw : wireScalar cw lens ch ty v = some b)
    (hff : ffOK ch ty b = true) (hx : xff = true → 0xFF ∉ b)
    (hrtS : ∀ n, ty = .struct n → rtc n v ch = true)
    (hd : s.r.data = A ++ b ++ post) (hp : s.r.pos = A.length) (hm : s.r.chunked = ch)
    (hc : (ch || cl) = true → Clean s.r)
    (hlen : ∀ e f p, ty = .str e (some (.byField f)) p → s.get f = .int b.length)
    (hend : last = true → End ch post) :
    ∃ r' v', readScalar cr s ty = .ok (r', v') ∧
      (rtScalar rtc ch ty v = true → SameFields v' v) ∧ Adv s.r r' b.length cl' := by
  by_cases hty : ∃ n, ty = .struct n
  · obtain ⟨n, rfl⟩ := hty
    simp only [okScalar] at hok
    obtain ⟨c, hokc, rfl⟩ := map_some_inv _ _ _ hok
    simp only [wireScalar] at hw
    have hrt := hrtS n rfl
    cases v <;> simp only at hw <;> try cases hw
    rename_i cn fs sz
    obtain ⟨r', v', h1, h2, h3, _⟩ := hcall n _ ch cl last c b s.r A post hokc hrt hw hd hp hm hc hend
    exact ⟨r', v', by simp only [readScalar, h1], fun _ => h2, h3⟩
  · have hty' : ∀ n, ty ≠ .struct n := fun n e => hty ⟨n, e⟩
    obtain ⟨hunb, hcl, _⟩ := okScalar_leaf okc ch last bound byf cl xff cl' ty hty' hok
    have hffb := ffOK_spec ch ty b hty' hff
    obtain ⟨v', h1, h2⟩ := scalar_rt cw cr rtc lens ch ty v b s A post hty' hw hd hp hm
      (fun hs => ⟨hc (by simp [hs]), hffb hs⟩) hlen (fun hu => hend (hunb hu))
    refine ⟨_, v', h1, h2, Adv.exact s.r A b post cl' hd hp ?_⟩
    intro hc'
    rcases hcl hc' with h | ⟨h, hfree | hxx⟩
    · exact ⟨hc (by simp [h]), hffb h⟩
    · exact ⟨hc (by simp [h]), ffFree_noFF cw lens ch ty v b hfree hw⟩
    · exact ⟨hc (by simp [h]), hx hxx⟩

theorem okScalar_ch (okc : OkC) (ch last : Bool) (bound : List String) (byf cl xff cl' : Bool)
    (ty : Scalar) (h : okScalar okc ch last bound byf cl xff ty = some cl') (hch : ch = true) :
    cl' = true := by
  subst hch
  cases ty with
  | struct n =>
    simp only [okScalar] at h
    obtain ⟨c, _, rfl⟩ := map_some_inv _ _ _ h
    rfl
  | str e len p =>
    cases len with
    | none => simp only [okScalar] at h; split at h <;> simp_all
    | some l =>
      cases l with
      | lit n => simp only [okScalar, Option.some.injEq] at h; simp_all
      | byField f => simp only [okScalar] at h; split at h <;> simp_all
  | blob => simp only [okScalar] at h; split at h <;> simp_all
  | int k => simp only [okScalar, Option.some.injEq] at h; simp_all
  | bool k => simp only [okScalar, Option.some.injEq] at h; simp_all
  | enum k => simp only [okScalar, Option.some.injEq] at h; simp_all

theorem Adv.weaken {r r' : AReader} {n : Nat} {c : Bool} (h : Adv r r' n c) (c' : Bool)
    (hc : c' = true → c = true) : Adv r r' n c' :=
  ⟨h.data, h.pos, h.mode, fun h' => h.clean (hc h')⟩

/-- an item of type `ty` written as `b` is read back, and the invariant moves past `b` -/
theorem item_rt (cw : String → Value → Bool → W) (cr : RCall) (okc : OkC) (rtc : RtC)
    (hcall : CallOK cw cr okc rtc) (lens : String → Option LenInfo)
    (obj : Value) (ch cl cl' last : Bool) (bound : List String) (st : WSt) (s : RSt)
    (A₀ X post : Bytes) (byf xff : Bool) (ty : Scalar) (v : Value) (b : Bytes)
    (hinv : Inv obj ch cl bound st s A₀ X)
    (hok : okScalar okc ch last bound byf cl xff ty = some cl')
    (hw : wireScalar cw lens st.san ty v = some b)
    (hX : X = b ++ post)
    (hff : ffOK st.san ty b = true) (hx : xff = true → 0xFF ∉ b) (hrtS : ∀ n, ty = .struct n → rtc n v st.san = true)
    (hlen : byf = false ∨ lenAttrOk obj ty v = true)
    (hend : last = true → End ch post) :
    ∃ r' v', readScalar cr s ty = .ok (r', v') ∧
      (rtScalar rtc st.san ty v = true → SameFields v' v) ∧
      Inv obj ch cl' bound { st with out := st.out ++ b } { s with r := r' } A₀ post := by
  obtain ⟨hd, hp⟩ := hinv.frame b post hX
  have hsan := hinv.san
  rw [hsan] at hw hff hrtS
  obtain ⟨r', v', h1, h2, h3⟩ := scalarG_rt cw cr okc rtc hcall lens ch last bound byf cl xff cl'
    ty v b s (A₀ ++ st.out) post hok hw hff hx hrtS hd hp hinv.mode hinv.clean
    (by
      intro e f p hty
      subst hty
      simp only [okScalar] at hok
      split at hok
      · rename_i hl
        simp only [Bool.and_eq_true, List.contains_eq_mem, decide_eq_true_eq] at hl
        rcases hlen with hlen | hlen
        · rw [hlen] at hl; exact absurd hl.1 (by simp)
        · obtain ⟨x, rfl⟩ := wire_byField_str cw lens _ e p f v b hw
          simp only [lenAttrOk] at hlen
          have hg := hinv.get f hl.2
          rw [isIntVal_eq _ _ hlen] at hg
          rw [sameFields_int _ _ hg, wire_byField_length cw lens _ e p f x b hw]
      · cases hok)
    hend
  refine ⟨r', v', h1, fun h => h2 (hsan ▸ h), hinv.advance b post hX r' cl' (h3.weaken _ ?_)⟩
  intro hc
  cases hch : ch with
  | true => exact okScalar_ch okc ch last bound byf cl xff cl' ty hok hch
  | false => rw [hch] at hc; simpa using hc

/-! ### absent / present optional items -/

/-- at the end of the segment nothing remains -/
theorem Inv.remaining_zero {obj : Value} {ch cl : Bool} {bound : List String} {st : WSt} {s : RSt}
    {A₀ X : Bytes} (h : Inv obj ch cl bound st s A₀ X) (he : End ch X) : s.r.remaining = 0 := by
  obtain ⟨hd, hp⟩ := h.frame [] X rfl
  have := remaining_end s.r (A₀ ++ st.out) [] X hd hp
    (fun hc => ⟨h.clean (by rw [← h.mode, hc]; rfl), by simp⟩) (h.mode ▸ he)
  simpa using this

theorem nonEmptyOK_spec (san : Bool) (b : Bytes) (h : nonEmptyOK san b = true) :
    ∃ x b', b = x :: b' ∧ (san = true → x ≠ 0xFF) := by
  cases b with
  | nil => cases h
  | cons x b' =>
    refine ⟨x, b', rfl, ?_⟩
    intro hs
    subst hs
    simpa [nonEmptyOK] using h

/-- before a visible item something remains -/
theorem Inv.remaining_pos {obj : Value} {ch cl : Bool} {bound : List String} {st : WSt} {s : RSt}
    {A₀ X : Bytes} (h : Inv obj ch cl bound st s A₀ X) (b post : Bytes) (hX : X = b ++ post)
    (hb : nonEmptyOK ch b = true) : (s.r.remaining == 0) = false := by
  obtain ⟨x, b', rfl, hx⟩ := nonEmptyOK_spec ch b hb
  obtain ⟨hd, hp⟩ := h.frame [x] (b' ++ post) (by rw [hX]; rfl)
  have := remaining_ge s.r (A₀ ++ st.out) [x] (b' ++ post) hd hp
    (fun hc => ⟨h.clean (by rw [← h.mode, hc]; rfl), by
      have := hx (h.mode ▸ hc)
      simpa using fun e => this e.symm⟩)
  simp only [beq_eq_false_iff_ne, ne_eq]
  simp only [List.length_cons, List.length_nil] at this
  omega

theorem suffix_of_out (st : WSt) (b X post : Bytes) (hX : st.out ++ X = (st.out ++ b) ++ post) :
    X = b ++ post := by
  rw [List.append_assoc] at hX
  exact List.append_cancel_left hX

/-- constants cannot be structs -/
theorem const_not_struct (cw : String → Value → Bool → W) (lens : String → Option LenInfo)
    (san : Bool) (ty : Scalar) (c : ConstV) (b : Bytes)
    (h : wireScalar cw lens san ty (constValue c) = some b) : ∀ n, ty ≠ .struct n := by
  intro n e
  subst e
  cases c <;> simp [wireScalar, constValue] at h

theorem constFF_spec (cw : String → Value → Bool → W) (lens : String → Option LenInfo)
    (san : Bool) (ty : Scalar) (c : ConstV) (b : Bytes)
    (h : wireScalar cw lens san ty (constValue c) = some b) (hx : constFF ty c = true) :
    0xFF ∉ b := by
  cases ty <;> cases c <;> simp only [constFF] at hx <;> try cases hx
  simp only [wireScalar, constValue] at h
  rw [h] at hx
  simpa using hx

/-! ### single instructions -/

theorem field_rt (cw : String → Value → Bool → W) (cr : RCall) (okc : OkC) (szc : SzC) (rtc : RtC)
    (hcall : CallOK cw cr okc rtc) (lens : String → Option LenInfo)
    (obj : Value) (lex ch tl cl cl' : Bool) (bound : List String) (rest : List TInstr)
    (name : String) (ty : Scalar) (optional : Bool)
    (st st1 : WSt) (s : RSt) (A₀ X post : Bytes)
    (hok : okInstr okc szc lex ch tl bound cl rest (.field name ty optional) = some cl')
    (hw : wireInstr cw lens obj lex (.field name ty optional) st = some st1)
    (hv : rtInstr cw rtc lens obj lex (.field name ty optional) st = true)
    (hinv : Inv obj ch cl bound st s A₀ X) (hX : st.out ++ X = st1.out ++ post)
    (hlast : lastPos ch tl rest = true → End ch post)
    (hopt : optTail ch tl rest = true → st1.stopped = true → End ch post) :
    ∃ s1, readInstr cr lex (.field name ty optional) s = .ok s1 ∧
      Inv obj ch (ch || (cl && cl')) (bound ++ [name]) st1 s1 A₀ post := by
  simp only [okInstr] at hok
  split at hok
  case isFalse => cases hok
  rename_i hcond
  simp only [Bool.and_eq_true, Bool.or_eq_true, Bool.not_eq_true'] at hcond
  obtain ⟨hfresh, hoptl⟩ := hcond
  simp only [wireInstr] at hw
  simp only [rtInstr] at hv
  by_cases hab : (optional && (st.stopped || (obj.attr name).isNone)) = true
  · -- absent
    rw [if_pos hab] at hv
    have hopt' : optional = true := by
      simp only [Bool.and_eq_true] at hab; exact hab.1
    subst hopt'
    simp only [Bool.true_and] at hab
    simp only [if_true, if_pos hab, Option.some.injEq] at hw
    subst hw
    have hXp : X = post := List.append_cancel_left hX
    subst hXp
    have hend : End ch X := hopt (by simpa using hoptl) rfl
    have hrem := hinv.remaining_zero hend
    refine ⟨s.bind name .none, ?_, ?_⟩
    · simp only [readInstr, hrem, Bool.true_and, beq_self_eq_true, if_true]
    · exact ((hinv.stop true).bind name .none hfresh
        (by rw [isNone_eq _ hv]; exact rfl)).after' cl'
  · -- present
    rw [if_neg hab] at hv
    simp only [Bool.and_eq_true] at hv
    obtain ⟨⟨hrt, hla⟩, hwr⟩ := hv
    have hws : ∃ b, wireScalar cw lens st.san ty (obj.attr name) = some b ∧
        st1 = { st with out := st.out ++ b } := by
      cases optional with
      | true =>
        simp only [Bool.true_and] at hab
        simp only [if_true, if_neg hab] at hw
        obtain ⟨b, hws, e⟩ := map_some_inv _ _ _ hw
        exact ⟨b, hws, e⟩
      | false =>
        simp only [Bool.false_eq_true, if_false] at hw
        cases hws : wireScalar cw lens st.san ty (obj.attr name) with
        | none =>
          rw [hws] at hw
          split at hw <;> cases hw
        | some b =>
          rw [hws] at hw
          split at hw
          · cases hw
          · simp only [Option.map_some, Option.some.injEq] at hw
            exact ⟨b, rfl, hw.symm⟩
    obtain ⟨b, hws, rfl⟩ := hws
    simp only [rtWritten, hws, Bool.and_eq_true, Bool.or_eq_true, Bool.not_eq_true'] at hwr
    have hXb := suffix_of_out st b X post hX
    obtain ⟨r', v', hrd, hval, hinv'⟩ := item_rt cw cr okc rtc hcall lens obj ch cl cl' _ bound st s
      A₀ X post true false ty (obj.attr name) b hinv hok hws hXb hwr.1 (by intro h; cases h)
      (by intro n e; subst e; simpa [rtScalar] using hrt) (Or.inr hla) hlast
    refine ⟨_, ?_, (hinv'.bind name v' hfresh (hval hrt)).after cl⟩
    have hno : (optional && s.r.remaining == 0) = false := by
      cases optional with
      | false => rfl
      | true =>
        simp only [Bool.true_and]
        refine hinv.remaining_pos b post hXb ?_
        rcases hwr.2 with h | h
        · cases h
        · rw [← hinv.san]; exact h
    simp only [readInstr, hno, Bool.false_eq_true, if_false, hrd]

theorem const_rt (cw : String → Value → Bool → W) (cr : RCall) (okc : OkC) (szc : SzC) (rtc : RtC)
    (hcall : CallOK cw cr okc rtc) (lens : String → Option LenInfo)
    (obj : Value) (lex ch tl cl cl' : Bool) (bound : List String) (rest : List TInstr)
    (ty : Scalar) (c : ConstV)
    (st st1 : WSt) (s : RSt) (A₀ X post : Bytes)
    (hok : okInstr okc szc lex ch tl bound cl rest (.const ty c) = some cl')
    (hw : wireInstr cw lens obj lex (.const ty c) st = some st1)
    (hv : rtInstr cw rtc lens obj lex (.const ty c) st = true)
    (hinv : Inv obj ch cl bound st s A₀ X) (hX : st.out ++ X = st1.out ++ post)
    (hlast : lastPos ch tl rest = true → End ch post) :
    ∃ s1, readInstr cr lex (.const ty c) s = .ok s1 ∧
      Inv obj ch (ch || (cl && cl')) bound st1 s1 A₀ post := by
  simp only [okInstr] at hok
  simp only [wireInstr] at hw
  obtain ⟨b, hws, rfl⟩ := map_some_inv _ _ _ hw
  simp only [rtInstr, rtWritten, hws, Bool.and_eq_true, Bool.or_eq_true, Bool.not_eq_true'] at hv
  have hXb := suffix_of_out st b X post hX
  obtain ⟨r', v', hrd, _, hinv'⟩ := item_rt cw cr okc rtc hcall lens obj ch cl cl' _ bound st s
    A₀ X post false (constFF ty c) ty (constValue c) b hinv hok hws hXb hv.1
    (constFF_spec cw lens _ ty c b hws)
    (fun n e => absurd e (const_not_struct cw lens _ ty c b hws n)) (Or.inl rfl) hlast
  exact ⟨_, by simp only [readInstr, hrd, Except.map], hinv'.after cl⟩

theorem namedConst_rt (cw : String → Value → Bool → W) (cr : RCall) (okc : OkC) (szc : SzC) (rtc : RtC)
    (hcall : CallOK cw cr okc rtc) (lens : String → Option LenInfo)
    (obj : Value) (lex ch tl cl cl' : Bool) (bound : List String) (rest : List TInstr)
    (name : String) (ty : Scalar) (c : ConstV) (optional : Bool)
    (st st1 : WSt) (s : RSt) (A₀ X post : Bytes)
    (hok : okInstr okc szc lex ch tl bound cl rest (.namedConst name ty c optional) = some cl')
    (hw : wireInstr cw lens obj lex (.namedConst name ty c optional) st = some st1)
    (hv : rtInstr cw rtc lens obj lex (.namedConst name ty c optional) st = true)
    (hinv : Inv obj ch cl bound st s A₀ X) (hX : st.out ++ X = st1.out ++ post)
    (hlast : lastPos ch tl rest = true → End ch post)
    (hopt : optTail ch tl rest = true → st1.stopped = true → End ch post) :
    ∃ s1, readInstr cr lex (.namedConst name ty c optional) s = .ok s1 ∧
      Inv obj ch (ch || (cl && cl')) (bound ++ [name]) st1 s1 A₀ post := by
  simp only [okInstr] at hok
  split at hok
  case isFalse => cases hok
  rename_i hcond
  simp only [Bool.and_eq_true, Bool.or_eq_true, Bool.not_eq_true'] at hcond
  obtain ⟨hfresh, hoptl⟩ := hcond
  simp only [wireInstr] at hw
  simp only [rtInstr] at hv
  obtain ⟨hcm, hv⟩ := Bool.and_eq_true_iff.1 hv
  have hval : SameFields (constValue c) (obj.attr name) := by
    rw [constMatches_eq c _ hcm]; exact rfl
  by_cases hab : (optional && st.stopped) = true
  · rw [if_pos hab] at hw
    simp only [Option.some.injEq] at hw
    subst hw
    simp only [Bool.and_eq_true] at hab
    obtain ⟨ho, hst⟩ := hab
    subst ho
    have hXp : X = post := List.append_cancel_left hX
    subst hXp
    have hend : End ch X := hopt (by simpa using hoptl) hst
    have hrem := hinv.remaining_zero hend
    refine ⟨s.bind name (constValue c), ?_, (hinv.bind name _ hfresh hval).after' cl'⟩
    simp only [readInstr, hrem, Bool.true_and, beq_self_eq_true, if_true]
  · rw [if_neg hab] at hw hv
    obtain ⟨b, hws, rfl⟩ := map_some_inv _ _ _ hw
    simp only [rtWritten, hws, Bool.and_eq_true, Bool.or_eq_true, Bool.not_eq_true'] at hv
    have hXb := suffix_of_out st b X post hX
    obtain ⟨r', v', hrd, _, hinv'⟩ := item_rt cw cr okc rtc hcall lens obj ch cl cl' _ bound st s
      A₀ X post false (constFF ty c) ty (constValue c) b hinv hok hws hXb hv.1
      (constFF_spec cw lens _ ty c b hws)
      (fun n e => absurd e (const_not_struct cw lens _ ty c b hws n)) (Or.inl rfl) hlast
    refine ⟨_, ?_, (hinv'.bind name (constValue c) hfresh hval).after cl⟩
    have hno : (optional && s.r.remaining == 0) = false := by
      cases optional with
      | false => rfl
      | true =>
        simp only [Bool.true_and]
        refine hinv.remaining_pos b post hXb ?_
        rcases hv.2 with h | h
        · cases h
        · rw [← hinv.san]; exact h
    simp only [readInstr, hno, Bool.false_eq_true, if_false, hrd, Except.map]

theorem length_rt (cw : String → Value → Bool → W) (cr : RCall) (okc : OkC) (szc : SzC) (rtc : RtC)
    (lens : String → Option LenInfo)
    (obj : Value) (lex ch tl cl cl' : Bool) (bound : List String) (rest : List TInstr)
    (name : String) (k : IntKind) (offset : Int) (optional : Bool) (ref : String)
    (st st1 : WSt) (s : RSt) (A₀ X post : Bytes)
    (hok : okInstr okc szc lex ch tl bound cl rest (.length name k offset optional ref) = some cl')
    (hw : wireInstr cw lens obj lex (.length name k offset optional ref) st = some st1)
    (hv : rtInstr cw rtc lens obj lex (.length name k offset optional ref) st = true)
    (hinv : Inv obj ch cl bound st s A₀ X) (hX : st.out ++ X = st1.out ++ post)
    (hopt : optTail ch tl rest = true → st1.stopped = true → End ch post) :
    ∃ s1, readInstr cr lex (.length name k offset optional ref) s = .ok s1 ∧
      Inv obj ch (ch || (cl && cl')) (bound ++ [name]) st1 s1 A₀ post := by
  simp only [okInstr] at hok
  split at hok
  case isFalse => cases hok
  rename_i hcond
  simp only [Bool.and_eq_true, Bool.or_eq_true, Bool.not_eq_true'] at hcond
  obtain ⟨hfresh, hoptl⟩ := hcond
  simp only [Option.some.injEq] at hok
  simp only [wireInstr] at hw
  simp only [rtInstr] at hv
  by_cases hab : (optional && (st.stopped || (obj.attr ref).isNone)) = true
  · rw [if_pos hab] at hw hv
    simp only [Option.some.injEq] at hw
    subst hw
    simp only [Bool.and_eq_true] at hab
    obtain ⟨ho, _⟩ := hab
    subst ho
    have hXp : X = post := List.append_cancel_left hX
    subst hXp
    have hend : End ch X := hopt (by simpa using hoptl) rfl
    have hrem := hinv.remaining_zero hend
    refine ⟨s.bind name .none, ?_, ?_⟩
    · simp only [readInstr, hrem, Bool.true_and, beq_self_eq_true, if_true]
    · exact ((hinv.stop true).bind name .none hfresh
        (by rw [isNone_eq _ hv]; exact rfl)).after' cl'
  · rw [if_neg hab] at hw hv
    cases hl : (obj.attr ref).len? with
    | none => rw [hl] at hw; cases hw
    | some n =>
      rw [hl] at hw hv
      simp only at hw hv
      obtain ⟨b, hws, rfl⟩ := map_some_inv _ _ _ hw
      simp only [hws, Bool.and_eq_true] at hv
      obtain ⟨hat, hff⟩ := hv
      have hXb := suffix_of_out st b X post hX
      obtain ⟨hd, hp⟩ := hinv.frame b post hXb
      have hffb := ffOK_spec _ (.int k) b (by intro n e; cases e) hff
      have hrd := areadInt_exact k _ b hws s.r (A₀ ++ st.out) post hd hp
        (fun hc => ⟨hinv.clean (by rw [← hinv.mode, hc]; rfl),
          hffb (by rw [hinv.san, ← hinv.mode]; exact hc)⟩)
      have hadv : Adv s.r { s.r with pos := (A₀ ++ st.out).length + b.length } b.length
          (ch || cl') := by
        refine Adv.exact s.r (A₀ ++ st.out) b post _ hd hp ?_
        intro hc
        cases hch : ch with
        | true => exact ⟨hinv.clean (by simp [hch]), hffb (by rw [hinv.san]; exact hch)⟩
        | false =>
          rw [hch] at hc hok
          simp only [Bool.false_or] at hc hok
          rw [← hok] at hc
          simp only [Bool.and_eq_true, bne_iff_ne, ne_eq] at hc
          exact ⟨hinv.clean (by simp [hc.1]), encInt_noFF k hc.2 _ b hws⟩
      have hinv' := hinv.advance b post hXb _ cl' hadv
      have hno : (optional && s.r.remaining == 0) = false := by
        cases optional with
        | false => rfl
        | true =>
          simp only [Bool.true_and]
          refine hinv.remaining_pos b post hXb ?_
          have hne := encInt_nonempty k _ b hws
          cases b with
          | nil => exact absurd rfl hne
          | cons x b' =>
            simp only [nonEmptyOK, Bool.or_eq_true, Bool.not_eq_true', bne_iff_ne, ne_eq]
            cases hch : ch with
            | false => exact Or.inl rfl
            | true =>
              right
              intro e
              exact hffb (by rw [hinv.san]; exact hch) (by simp [e])
      refine ⟨_, ?_, (hinv'.bind name (.int ((n : Int) - offset + offset)) hfresh ?_).after cl⟩
      · simp only [readInstr, hno, Bool.false_eq_true, if_false, hrd]
      · rw [isIntVal_eq _ _ hat]
        show strip _ = strip _
        simp only [strip, Int.sub_add_cancel]

theorem dummy_rt (cw : String → Value → Bool → W) (cr : RCall) (okc : OkC) (szc : SzC) (rtc : RtC)
    (hcall : CallOK cw cr okc rtc) (lens : String → Option LenInfo)
    (obj : Value) (lex ch tl cl cl' : Bool) (bound : List String) (rest : List TInstr)
    (ty : Scalar) (c : ConstV)
    (st st1 : WSt) (s : RSt) (A₀ X post : Bytes)
    (hok : okInstr okc szc lex ch tl bound cl rest (.dummy ty c) = some cl')
    (hw : wireInstr cw lens obj lex (.dummy ty c) st = some st1)
    (hv : rtInstr cw rtc lens obj lex (.dummy ty c) st = true)
    (hinv : Inv obj ch cl bound st s A₀ X) (hX : st.out ++ X = st1.out ++ post)
    (hlast : lastPos ch tl rest = true → End ch post) :
    ∃ s1, readInstr cr lex (.dummy ty c) s = .ok s1 ∧
      Inv obj ch (ch || (cl && cl')) bound st1 s1 A₀ post := by
  simp only [okInstr] at hok
  simp only [wireInstr] at hw
  simp only [rtInstr] at hv
  by_cases hem : st.out.isEmpty = true
  · rw [if_pos hem] at hw hv
    obtain ⟨b, hws, rfl⟩ := map_some_inv _ _ _ hw
    simp only [rtWritten, hws, Bool.and_eq_true, Bool.or_eq_true, Bool.not_eq_true'] at hv
    have hXb := suffix_of_out st b X post hX
    obtain ⟨r', v', hrd, _, hinv'⟩ := item_rt cw cr okc rtc hcall lens obj ch cl cl' _ bound st s
      A₀ X post false (constFF ty c) ty (constValue c) b hinv hok hws hXb hv.1
      (constFF_spec cw lens _ ty c b hws)
      (fun n e => absurd e (const_not_struct cw lens _ ty c b hws n)) (Or.inl rfl) hlast
    have hps : (s.r.pos == s.start) = true := by
      rw [hinv.pos, hinv.start, List.isEmpty_iff.1 hem]; simp
    exact ⟨_, by simp only [readInstr, hps, if_true, hrd, Except.map], hinv'.after cl⟩
  · rw [if_neg hem] at hw
    simp only [Option.some.injEq] at hw
    subst hw
    have hXp : X = post := List.append_cancel_left hX
    subst hXp
    have hps : (s.r.pos == s.start) = false := by
      rw [hinv.pos, hinv.start]
      have : 0 < st.out.length := by
        rcases Nat.eq_zero_or_pos st.out.length with h | h
        · exact absurd (List.isEmpty_iff.2 (List.length_eq_zero_iff.1 h)) hem
        · exact h
      simp only [beq_eq_false_iff_ne, ne_eq]; omega
    exact ⟨s, by simp only [readInstr, hps, Bool.false_eq_true, if_false], hinv.after' cl'⟩

end EoVerif.Spec.RT
