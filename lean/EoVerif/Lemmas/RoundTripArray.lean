import EoVerif.Lemmas.RoundTripInstr
/-!
# Round trip at the level of the declarative semantics — arrays
-/
set_option linter.unusedSimpArgs false

namespace EoVerif.Spec.RT
open EoVerif
open EoVerif.Gen (IntKind Value)

/-! ### composing reader moves -/

theorem Adv.refl (r : AReader) (c : Bool) (hc : c = true → Clean r) : Adv r r 0 c :=
  ⟨rfl, rfl, rfl, hc⟩

theorem Adv.trans {r1 r2 r3 : AReader} {n m : Nat} {c c' : Bool} (h1 : Adv r1 r2 n c)
    (h2 : Adv r2 r3 m c') : Adv r1 r3 (n + m) c' :=
  ⟨h2.data.trans h1.data, by rw [h2.pos, h1.pos]; omega, h2.mode.trans h1.mode, h2.clean⟩

/-- `next_chunk` at a break byte, as a move -/
theorem Adv.nextChunk (r : AReader) (A t : Bytes) (hd : r.data = A ++ 0xFF :: t)
    (hp : r.pos = A.length) (hch : r.chunked = true) (hc : Clean r) :
    Adv r (nextChunkA r) 1 true := by
  rw [nextChunk_at r A t hd hp hch hc]
  refine ⟨rfl, by show A.length + 1 = r.pos + 1; rw [hp], rfl, ?_⟩
  intro _
  refine ⟨Nat.le_refl _, ?_⟩
  show 0xFF ∉ (r.data.take (A.length + 1)).drop (A.length + 1)
  rw [List.drop_take_self]
  simp

/-! ### the bytes of an array -/

/-- the elements' bytes with the delimiters: an element is followed by a break byte iff the array
    is delimited and (the delimiter is trailing or another element follows) -/
def joinElems (delimited trailing : Bool) : List Bytes → Bytes
  | [] => []
  | b :: bs =>
    b ++ (if delimited && (trailing || !bs.isEmpty) then [0xFF] else []) ++
      joinElems delimited trailing bs

theorem elems_join (cw : String → Value → Bool → W) (lens : String → Option LenInfo)
    (elem : Scalar) (delimited trailing : Bool) (st : WSt) (vs : List Value) :
    ∀ (first : Bool) (acc out : Bytes),
      wireInstr.elems cw lens elem delimited trailing st vs first acc = some out →
      ∃ ps : List (Value × Bytes), ps.map (·.1) = vs ∧
        (∀ p ∈ ps, wireScalar cw lens st.san elem p.1 = some p.2) ∧
        out = acc ++ (if delimited && !trailing && !first && !vs.isEmpty then [0xFF] else []) ++
          joinElems delimited trailing (ps.map (·.2)) := by
  induction vs with
  | nil =>
    intro first acc out h
    simp only [wireInstr.elems, Option.some.injEq] at h
    exact ⟨[], rfl, by simp, by simp [joinElems, h]⟩
  | cons x xs ih =>
    intro first acc out h
    simp only [wireInstr.elems] at h
    cases hx : wireScalar cw lens st.san elem x with
    | none => rw [hx] at h; cases h
    | some b =>
      rw [hx] at h
      simp only at h
      obtain ⟨ps, hps, hall, hout⟩ := ih _ _ _ h
      refine ⟨(x, b) :: ps, by simp [hps], ?_, ?_⟩
      · intro p hp
        rcases List.mem_cons.1 hp with rfl | hp
        · exact hx
        · exact hall p hp
      · rw [hout]
        have hemp : (ps.map (·.2)).isEmpty = xs.isEmpty := by
          rw [← hps]; cases ps <;> rfl
        simp only [List.map_cons, joinElems, hemp, List.isEmpty_cons, Bool.not_false,
          Bool.and_true, Bool.not_true, Bool.and_false]
        cases delimited <;> cases trailing <;> cases first <;> cases xs.isEmpty <;>
          simp [List.append_assoc]

/-! ### reading a known number of elements -/

/-- what the value conditions say about one element `p.1` written as `p.2` -/
def ElemOK (cw : String → Value → Bool → W) (rtc : RtC) (lens : String → Option LenInfo)
    (ch : Bool) (elem : Scalar) (p : Value × Bytes) : Prop :=
  wireScalar cw lens ch elem p.1 = some p.2 ∧ ffOK ch elem p.2 = true ∧
    rtScalar rtc ch elem p.1 = true

theorem counted_rt (cw : String → Value → Bool → W) (cr : RCall) (okc : OkC) (rtc : RtC)
    (hcall : CallOK cw cr okc rtc) (lens : String → Option LenInfo)
    (ch elemLast c c'' : Bool) (elem : Scalar) (delimited trailing : Bool) (n : Int)
    (hokE : okScalar okc ch elemLast [] false c false elem = some c'')
    (hstab : c = true → c'' = true) (hcc : ch = true → c = true)
    (hdel : delimited = true → ch = true) (hel : elemLast = true → delimited = true) :
    ∀ (ps : List (Value × Bytes)) (i : Nat) (s : RSt) (A post : Bytes) (acc : List Value),
      (∀ p ∈ ps, ElemOK cw rtc lens ch elem p) →
      s.r.data = A ++ joinElems delimited trailing (ps.map (·.2)) ++ post →
      s.r.pos = A.length → s.r.chunked = ch → (c = true → Clean s.r) →
      n = (i : Int) + ps.length →
      (elemLast = true → (delimited && trailing) = false → End ch post) →
      ∃ r' vs', readCounted cr elem delimited trailing n ps.length i s acc =
          .ok ({ s with r := r' }, acc ++ vs') ∧
        stripList vs' = stripList (ps.map (·.1)) ∧
        Adv s.r r' (joinElems delimited trailing (ps.map (·.2))).length c := by
  intro ps
  induction ps with
  | nil =>
    intro i s A post acc _ _ _ _ hcl _ _
    exact ⟨s.r, [], by simp [readCounted], rfl, by simpa [joinElems] using Adv.refl s.r c hcl⟩
  | cons p ps ih =>
    intro i s A post acc hall hd hp hm hcl hn hpost
    obtain ⟨x, b⟩ := p
    obtain ⟨hwx, hfx, hvx⟩ := hall (x, b) (by simp)
    simp only [List.map_cons, joinElems] at hd ⊢
    -- the delimiter after this element
    generalize hsep : (if (delimited && (trailing || !(ps.map (·.2)).isEmpty)) = true
      then [0xFF] else ([] : Bytes)) = sep at hd ⊢
    have hne : (ps.map (·.2)).isEmpty = ps.isEmpty := by cases ps <;> rfl
    have hd1 : s.r.data = A ++ b ++
        (sep ++ joinElems delimited trailing (ps.map (·.2)) ++ post) := by
      rw [hd]; simp only [List.append_assoc]
    have hch'' : ch = true → c'' = true := okScalar_ch okc ch elemLast [] false c false c'' elem hokE
    obtain ⟨r1, v1, hrd, hval, hadv1⟩ := scalarG_rt cw cr okc rtc hcall lens ch elemLast [] false c
      false c'' elem x b s A (sep ++ joinElems delimited trailing (ps.map (·.2)) ++ post) hokE hwx
      hfx (by intro h; cases h) (by intro m e; subst e; simpa [rtScalar] using hvx) hd1 hp hm
      (by intro h; apply hcl; cases hc : ch with
          | true => exact hcc hc
          | false => rw [hc] at h; simpa using h)
      (by
        intro e f q hty
        subst hty
        simp only [okScalar, Bool.false_and] at hokE
        cases hokE)
      (by
        intro hl
        have hdl := hel hl
        by_cases hs : (delimited && (trailing || !(ps.map (·.2)).isEmpty)) = true
        · rw [if_pos hs] at hsep
          subst hsep
          have := hdel hdl
          subst this
          exact End.brk _
        · rw [if_neg hs] at hsep
          subst hsep
          simp only [hdl, Bool.true_and, Bool.or_eq_true, Bool.not_eq_true', not_or,
            Bool.not_eq_true, Bool.not_eq_false] at hs
          have hemp : ps = [] := by
            have := hs.2; rw [hne] at this; exact List.isEmpty_iff.1 this
          subst hemp
          simp only [List.map_nil, joinElems, List.nil_append]
          exact hpost hl (by simp [hs.1]))
    have hvx' := hval hvx
    -- the reader's own delimiter test
    have hcond : (delimited && (trailing || decide ((i : Int) + 1 < n))) =
        (delimited && (trailing || !(ps.map (·.2)).isEmpty)) := by
      rw [hne]
      have : decide ((i : Int) + 1 < n) = !ps.isEmpty := by
        rw [hn]
        cases ps with
        | nil => simp
        | cons q qs => simp only [List.length_cons, List.isEmpty_cons, Bool.not_false,
            decide_eq_true_eq]; omega
      rw [this]
    have hr1d : r1.data = A ++ b ++
        (sep ++ joinElems delimited trailing (ps.map (·.2)) ++ post) := by
      rw [hadv1.data, hd1]
    by_cases hs : (delimited && (trailing || !(ps.map (·.2)).isEmpty)) = true
    · rw [if_pos hs] at hsep
      subst hsep
      have hdl : delimited = true := by
        simp only [Bool.and_eq_true] at hs; exact hs.1
      have hcht := hdel hdl
      have hr1c : r1.chunked = true := by rw [hadv1.mode, hm, hcht]
      have hadv2 := Adv.nextChunk r1 (A ++ b)
        (joinElems delimited trailing (ps.map (·.2)) ++ post)
        (by rw [hr1d]; simp only [List.append_assoc, List.singleton_append, List.cons_append,
          List.nil_append])
        (by rw [hadv1.pos, hp, List.length_append]) hr1c (hadv1.clean (hch'' hcht))
      obtain ⟨r', vs', hrc, hvs, hadv3⟩ := ih (i + 1) { s with r := nextChunkA r1 }
        (A ++ b ++ [0xFF]) post (acc ++ [v1]) (fun p hp => hall p (List.mem_cons_of_mem _ hp))
        (by
          show (nextChunkA r1).data = _
          rw [hadv2.data, hr1d]; simp only [List.append_assoc])
        (by
          show (nextChunkA r1).pos = _
          rw [hadv2.pos, hadv1.pos, hp]; simp only [List.length_append, List.length_cons,
            List.length_nil])
        (by show (nextChunkA r1).chunked = ch; rw [hadv2.mode, hr1c, hcht])
        (fun _ => hadv2.clean rfl)
        (by rw [hn]; simp only [List.length_cons]; omega) hpost
      refine ⟨r', v1 :: vs', ?_, ?_, ?_⟩
      · simp only [List.length_cons, readCounted, hrd, hcond, hs, if_true]
        rw [hrc]
        simp only [List.append_assoc, List.singleton_append]
      · simp only [stripList, hvs, List.map_cons]
        rw [hvx']
      · have := (hadv1.trans hadv2).trans hadv3
        simp only [List.length_append, List.length_cons, List.length_nil] at this ⊢
        have e : b.length + 1 + (joinElems delimited trailing (ps.map (·.2))).length =
            b.length + (0 + 1) + (joinElems delimited trailing (ps.map (·.2))).length := by omega
        rw [← e]; exact this
    · rw [if_neg hs] at hsep
      subst hsep
      obtain ⟨r', vs', hrc, hvs, hadv3⟩ := ih (i + 1) { s with r := r1 }
        (A ++ b) post (acc ++ [v1]) (fun p hp => hall p (List.mem_cons_of_mem _ hp))
        (by
          show r1.data = _
          rw [hr1d]; simp only [List.append_assoc, List.nil_append])
        (by
          show r1.pos = _
          rw [hadv1.pos, hp]; simp only [List.length_append])
        (by show r1.chunked = ch; rw [hadv1.mode, hm])
        (fun h => hadv1.clean (hstab h))
        (by rw [hn]; simp only [List.length_cons]; omega) hpost
      refine ⟨r', v1 :: vs', ?_, ?_, ?_⟩
      · simp only [List.length_cons, readCounted, hrd, hcond, hs, Bool.false_eq_true, if_false]
        rw [hrc]
        simp only [List.append_assoc, List.singleton_append]
      · simp only [stripList, hvs, List.map_cons]
        rw [hvx']
      · have := hadv1.trans hadv3
        simpa only [List.length_append, List.length_nil, Nat.add_zero] using this

/-! ### reading elements until nothing remains -/

theorem join_length_ge (delimited trailing : Bool) (ps : List (Value × Bytes))
    (h : ∀ p ∈ ps, p.2 ≠ []) : ps.length ≤ (joinElems delimited trailing (ps.map (·.2))).length := by
  induction ps with
  | nil => simp
  | cons p ps ih =>
    have h1 : 0 < p.2.length := List.length_pos_iff.2 (h p (by simp))
    have h2 := ih (fun q hq => h q (List.mem_cons_of_mem _ hq))
    simp only [List.map_cons, joinElems, List.length_append, List.length_cons]
    omega

theorem while_rt (cw : String → Value → Bool → W) (cr : RCall) (okc : OkC) (rtc : RtC)
    (hcall : CallOK cw cr okc rtc) (lens : String → Option LenInfo)
    (ch elemLast c c'' : Bool) (elem : Scalar) (delimited trailing : Bool)
    (hokE : okScalar okc ch elemLast [] false c false elem = some c'')
    (hstab : c = true → c'' = true) (hcc : ch = true → c = true)
    (hdel : delimited = true → ch = true) (hel : elemLast = true → delimited = true)
    (htr : delimited = true → trailing = true) :
    ∀ (ps : List (Value × Bytes)) (k : Nat) (s : RSt) (A post : Bytes) (acc : List Value),
      (∀ p ∈ ps, ElemOK cw rtc lens ch elem p ∧ nonEmptyOK ch p.2 = true) →
      ps.length ≤ k →
      s.r.data = A ++ joinElems delimited trailing (ps.map (·.2)) ++ post →
      s.r.pos = A.length → s.r.chunked = ch → (c = true → Clean s.r) → End ch post →
      ∃ r' vs', readWhile cr elem delimited k s acc = .ok ({ s with r := r' }, acc ++ vs') ∧
        stripList vs' = stripList (ps.map (·.1)) ∧
        Adv s.r r' (joinElems delimited trailing (ps.map (·.2))).length c := by
  intro ps
  induction ps with
  | nil =>
    intro k s A post acc _ _ hd hp hm hcl hend
    simp only [List.map_nil, joinElems, List.append_nil] at hd
    have hrem : s.r.remaining = 0 := by
      have := remaining_end s.r A [] post (by simpa using hd) hp
        (fun hc => ⟨hcl (hcc (hm ▸ hc)), by simp⟩) (hm ▸ hend)
      simpa using this
    refine ⟨s.r, [], ?_, rfl, by simpa [joinElems] using Adv.refl s.r c hcl⟩
    cases k with
    | zero => simp [readWhile, hrem]
    | succ k => simp [readWhile, hrem]
  | cons p ps ih =>
    intro k s A post acc hall hk hd hp hm hcl hend
    obtain ⟨x, b⟩ := p
    obtain ⟨⟨hwx, hfx, hvx⟩, hnx⟩ := hall (x, b) (by simp)
    cases k with
    | zero => simp at hk
    | succ k =>
    simp only [List.map_cons, joinElems] at hd ⊢
    have hsepv : (if (delimited && (trailing || !(ps.map (·.2)).isEmpty)) = true
        then [0xFF] else ([] : Bytes)) = if delimited = true then [0xFF] else [] := by
      cases hdl : delimited with
      | false => simp
      | true => simp [htr hdl]
    rw [hsepv] at hd ⊢
    generalize hsep : (if delimited = true then [0xFF] else ([] : Bytes)) = sep at hd ⊢
    have hd1 : s.r.data = A ++ b ++
        (sep ++ joinElems delimited trailing (ps.map (·.2)) ++ post) := by
      rw [hd]; simp only [List.append_assoc]
    have hch'' : ch = true → c'' = true := okScalar_ch okc ch elemLast [] false c false c'' elem hokE
    have hclean : s.r.chunked = true → Clean s.r := fun hc => hcl (hcc (hm ▸ hc))
    -- something remains
    have hrem : (s.r.remaining == 0) = false := by
      obtain ⟨y, b', rfl, hy⟩ := nonEmptyOK_spec ch _ hnx
      have := remaining_ge s.r A [y]
        (b' ++ (sep ++ joinElems delimited trailing (ps.map (·.2)) ++ post))
        (by rw [hd1]; simp only [List.append_assoc, List.cons_append, List.nil_append]) hp
        (fun hc => ⟨hclean hc, by
          have := hy (hm ▸ hc)
          simpa using fun e => this e.symm⟩)
      simp only [beq_eq_false_iff_ne, ne_eq]
      simp only [List.length_cons, List.length_nil] at this
      omega
    obtain ⟨r1, v1, hrd, hval, hadv1⟩ := scalarG_rt cw cr okc rtc hcall lens ch elemLast [] false c
      false c'' elem x b s A (sep ++ joinElems delimited trailing (ps.map (·.2)) ++ post) hokE hwx
      hfx (by intro h; cases h) (by intro m e; subst e; simpa [rtScalar] using hvx) hd1 hp hm
      (by intro h; apply hcl; cases hc : ch with
          | true => exact hcc hc
          | false => rw [hc] at h; simpa using h)
      (by
        intro e f q hty
        subst hty
        simp only [okScalar, Bool.false_and] at hokE
        cases hokE)
      (by
        intro hl
        have hdl := hel hl
        rw [if_pos hdl] at hsep
        subst hsep
        have := hdel hdl
        subst this
        exact End.brk _)
    have hvx' := hval hvx
    have hr1d : r1.data = A ++ b ++
        (sep ++ joinElems delimited trailing (ps.map (·.2)) ++ post) := by
      rw [hadv1.data, hd1]
    have hblen : 0 < b.length := by
      obtain ⟨y, b', rfl, _⟩ := nonEmptyOK_spec ch _ hnx
      simp
    by_cases hdl : delimited = true
    · rw [if_pos hdl] at hsep
      subst hsep
      have hcht := hdel hdl
      have hr1c : r1.chunked = true := by rw [hadv1.mode, hm, hcht]
      have hadv2 := Adv.nextChunk r1 (A ++ b)
        (joinElems delimited trailing (ps.map (·.2)) ++ post)
        (by rw [hr1d]; simp only [List.append_assoc, List.singleton_append, List.cons_append,
          List.nil_append])
        (by rw [hadv1.pos, hp, List.length_append]) hr1c (hadv1.clean (hch'' hcht))
      obtain ⟨r', vs', hrc, hvs, hadv3⟩ := ih k { s with r := nextChunkA r1 }
        (A ++ b ++ [0xFF]) post (acc ++ [v1]) (fun p hp => hall p (List.mem_cons_of_mem _ hp))
        (by simp only [List.length_cons] at hk; omega)
        (by
          show (nextChunkA r1).data = _
          rw [hadv2.data, hr1d]; simp only [List.append_assoc])
        (by
          show (nextChunkA r1).pos = _
          rw [hadv2.pos, hadv1.pos, hp]; simp only [List.length_append, List.length_cons,
            List.length_nil])
        (by show (nextChunkA r1).chunked = ch; rw [hadv2.mode, hr1c, hcht])
        (fun _ => hadv2.clean rfl) hend
      have hprog : ((nextChunkA r1).pos == s.r.pos) = false := by
        rw [hadv2.pos, hadv1.pos]
        simp only [beq_eq_false_iff_ne, ne_eq]; omega
      refine ⟨r', v1 :: vs', ?_, ?_, ?_⟩
      · simp only [readWhile, hrem, Bool.false_eq_true, if_false, hrd, hdl, if_true, hprog,
          Bool.false_and]
        rw [hdl] at hrc
        rw [hrc]
        simp only [List.append_assoc, List.singleton_append]
      · simp only [stripList, hvs, List.map_cons]
        rw [hvx']
      · have := (hadv1.trans hadv2).trans hadv3
        simp only [List.length_append, List.length_cons, List.length_nil] at this ⊢
        have e : b.length + 1 + (joinElems delimited trailing (ps.map (·.2))).length =
            b.length + (0 + 1) + (joinElems delimited trailing (ps.map (·.2))).length := by omega
        rw [← e]; exact this
    · rw [if_neg hdl] at hsep
      subst hsep
      obtain ⟨r', vs', hrc, hvs, hadv3⟩ := ih k { s with r := r1 }
        (A ++ b) post (acc ++ [v1]) (fun p hp => hall p (List.mem_cons_of_mem _ hp))
        (by simp only [List.length_cons] at hk; omega)
        (by
          show r1.data = _
          rw [hr1d]; simp only [List.append_assoc, List.nil_append])
        (by
          show r1.pos = _
          rw [hadv1.pos, hp]; simp only [List.length_append])
        (by show r1.chunked = ch; rw [hadv1.mode, hm])
        (fun h => hadv1.clean (hstab h)) hend
      have hprog : (r1.pos == s.r.pos) = false := by
        rw [hadv1.pos]
        simp only [beq_eq_false_iff_ne, ne_eq]; omega
      refine ⟨r', v1 :: vs', ?_, ?_, ?_⟩
      · have hdf : delimited = false := by simpa using hdl
        simp only [readWhile, hrem, Bool.false_eq_true, if_false, hrd, hdf, hprog, Bool.false_and]
        rw [hdf] at hrc
        rw [hrc]
        simp only [List.append_assoc, List.singleton_append]
      · simp only [stripList, hvs, List.map_cons]
        rw [hvx']
      · have := hadv1.trans hadv3
        simpa only [List.length_append, List.length_nil, Nat.add_zero] using this

/-! ### the array instruction -/

theorem okScalar_stable (okc : OkC) (ch last : Bool) (bound : List String) (byf cl c'' : Bool)
    (elem : Scalar)
    (h : okScalar okc ch last bound byf (ch || (cl && keepsClean okc ch last elem)) false elem
      = some c'')
    (hc : (ch || (cl && keepsClean okc ch last elem)) = true) : c'' = true := by
  cases hch : ch with
  | true => exact okScalar_ch okc ch last bound byf _ false c'' elem h hch
  | false =>
    rw [hch] at hc h
    simp only [Bool.false_or, Bool.and_eq_true] at hc
    obtain ⟨hcl, hff⟩ := hc
    cases elem with
    | struct n =>
      simp only [keepsClean, beq_iff_eq] at hff
      simp only [okScalar, keepsClean, hcl, hff, Bool.false_or, Bool.true_and, beq_self_eq_true,
        Option.map_some, Option.some.injEq] at h
      exact h.symm
    | int k =>
      simp only [keepsClean] at hff
      simp only [okScalar, keepsClean, hcl, hff, Bool.false_or, Bool.and_self, Bool.or_false,
        Option.some.injEq] at h
      exact h.symm
    | bool k =>
      simp only [keepsClean] at hff
      simp only [okScalar, keepsClean, hcl, hff, Bool.false_or, Bool.and_self, Bool.or_false,
        Option.some.injEq] at h
      exact h.symm
    | enum k =>
      simp only [keepsClean] at hff
      simp only [okScalar, keepsClean, hcl, hff, Bool.false_or, Bool.and_self, Bool.or_false,
        Option.some.injEq] at h
      exact h.symm
    | str e l p => simp [keepsClean, ffFreeScalar] at hff
    | blob => simp [keepsClean, ffFreeScalar] at hff

/-- the element count the reading rule computes (`none` = read until nothing remains) -/
def arrayCount (len : Option TLen) (delimited : Bool) (ef : Option Int) (s : RSt) : Option Int :=
  match len with
  | some (.lit n) => some n
  | some (.byField f) => (match s.get f with | .int n => some n | _ => some 0)
  | none => if !delimited then (match ef with
      | some sz => if sz == 0 then some 0 else some ((s.r.remaining : Int).tdiv sz)
      | none => none) else none

theorem readArray_eq (cr : RCall) (lex : Bool) (name : String) (elem : Scalar)
    (len : Option TLen) (optional delimited trailing : Bool) (ef : Option Int) (s : RSt)
    (hno : (optional && s.r.remaining == 0) = false) :
    readInstr cr lex (.array name elem len optional delimited trailing ef) s =
      match (match arrayCount len delimited ef s with
        | some n => readCounted cr elem delimited trailing n n.toNat 0 s []
        | none => readWhile cr elem delimited (2 * s.r.data.length + 2) s []) with
      | .error e => .error e
      | .ok (s', vs) => .ok (s'.bind name (.tuple vs)) := by
  simp only [readInstr, hno, Bool.false_eq_true, if_false, arrayCount]
  rfl

/-- readers of the array instruction, once the element loop is known -/
theorem readArray_counted (cr : RCall) (lex : Bool) (name : String) (elem : Scalar)
    (len : Option TLen) (optional delimited trailing : Bool) (ef : Option Int) (s : RSt)
    (n : Int) (r' : AReader) (vs' : List Value)
    (hno : (optional && s.r.remaining == 0) = false)
    (hcount : arrayCount len delimited ef s = some n)
    (hloop : readCounted cr elem delimited trailing n n.toNat 0 s [] =
      .ok ({ s with r := r' }, vs')) :
    readInstr cr lex (.array name elem len optional delimited trailing ef) s =
      .ok (({ s with r := r' }).bind name (.tuple vs')) := by
  rw [readArray_eq cr lex name elem len optional delimited trailing ef s hno, hcount]
  simp only [hloop]

theorem readArray_while (cr : RCall) (lex : Bool) (name : String) (elem : Scalar)
    (len : Option TLen) (optional delimited trailing : Bool) (ef : Option Int) (s : RSt)
    (r' : AReader) (vs' : List Value)
    (hno : (optional && s.r.remaining == 0) = false)
    (hcount : arrayCount len delimited ef s = none)
    (hloop : readWhile cr elem delimited (2 * s.r.data.length + 2) s [] =
      .ok ({ s with r := r' }, vs')) :
    readInstr cr lex (.array name elem len optional delimited trailing ef) s =
      .ok (({ s with r := r' }).bind name (.tuple vs')) := by
  rw [readArray_eq cr lex name elem len optional delimited trailing ef s hno, hcount]
  simp only [hloop]

/-! ### fixed-size elements -/

theorem scalarSize_length (cw : String → Value → Bool → W) (szc : SzC) (hsz : SizeOK cw szc)
    (lens : String → Option LenInfo)
    (san : Bool) (elem : Scalar) (m : Nat) (x : Value) (b : Bytes)
    (hf : scalarSize szc elem = some m) (hw : wireScalar cw lens san elem x = some b) :
    b.length = m := by
  cases elem with
  | struct n =>
    simp only [scalarSize] at hf
    simp only [wireScalar] at hw
    cases x <;> simp only at hw <;> try cases hw
    exact hsz n m _ san b hf hw
  | blob => simp [scalarSize] at hf
  | int k =>
    simp only [scalarSize, Option.some.injEq] at hf
    subst hf
    cases x <;> simp only [wireScalar] at hw <;> try cases hw
    all_goals exact encInt_length k _ b hw
  | bool k =>
    simp only [scalarSize, Option.some.injEq] at hf
    subst hf
    cases x <;> simp only [wireScalar] at hw <;> try cases hw
    all_goals exact encInt_length k _ b hw
  | enum k =>
    simp only [scalarSize, Option.some.injEq] at hf
    subst hf
    simp only [wireScalar] at hw
    cases hv : x.toInt? with
    | none => rw [hv] at hw; cases hw
    | some n => rw [hv] at hw; exact encInt_length k _ b hw
  | str enc len padded =>
    cases len with
    | none => simp [scalarSize] at hf
    | some l =>
      cases l with
      | byField f => simp [scalarSize] at hf
      | lit n =>
        simp only [scalarSize] at hf
        split at hf
        case isFalse => cases hf
        rename_i hn
        simp only [Option.some.injEq] at hf
        subst hf
        cases x <;> simp only [wireScalar] at hw <;> try cases hw
        rename_i y
        cases padded with
        | true =>
          simp only [if_true] at hw
          by_cases hle : (y.length : Int) ≤ n
          · rw [if_pos hle] at hw
            simp only [Option.map_some, Option.some.injEq] at hw
            rw [← hw, encIf_length, List.length_append, List.length_replicate, strBytes_length]
            omega
          · rw [if_neg hle] at hw; cases hw
        | false =>
          simp only [Bool.false_eq_true, if_false] at hw
          by_cases he : (y.length : Int) = n
          · rw [if_pos he] at hw
            simp only [Option.map_some, Option.some.injEq] at hw
            rw [← hw, encIf_length, strBytes_length]
            omega
          · rw [if_neg he] at hw; cases hw

theorem fixedSize_length (cw : String → Value → Bool → W) (szc : SzC) (hsz : SizeOK cw szc)
    (lens : String → Option LenInfo)
    (san : Bool) (elem : Scalar) (m : Nat) (x : Value) (b : Bytes)
    (hf : fixedSize szc elem = some m) (hw : wireScalar cw lens san elem x = some b) :
    b.length = m ∧ 0 < m := by
  unfold fixedSize at hf
  cases hs : scalarSize szc elem with
  | none => rw [hs] at hf; cases hf
  | some m' =>
    rw [hs] at hf
    simp only at hf
    split at hf
    case isFalse => cases hf
    rename_i hpos
    simp only [Option.some.injEq] at hf
    subst hf
    exact ⟨scalarSize_length cw szc hsz lens san elem m' x b hs hw, hpos⟩

theorem join_fixed_length (trailing : Bool) (m : Nat) (ps : List (Value × Bytes))
    (h : ∀ p ∈ ps, p.2.length = m) :
    (joinElems false trailing (ps.map (·.2))).length = ps.length * m := by
  induction ps with
  | nil => simp [joinElems]
  | cons p ps ih =>
    simp only [List.map_cons, joinElems, Bool.false_and, Bool.false_eq_true, if_false,
      List.append_nil, List.length_append, List.length_cons]
    rw [ih (fun q hq => h q (List.mem_cons_of_mem _ hq)), h p (by simp), Nat.succ_mul]
    omega

theorem join_noFF (trailing : Bool) (ps : List (Value × Bytes))
    (h : ∀ p ∈ ps, 0xFF ∉ p.2) : 0xFF ∉ joinElems false trailing (ps.map (·.2)) := by
  induction ps with
  | nil => simp [joinElems]
  | cons p ps ih =>
    simp only [List.map_cons, joinElems, Bool.false_and, Bool.false_eq_true, if_false,
      List.append_nil, List.mem_append, not_or]
    exact ⟨h p (by simp), ih (fun q hq => h q (List.mem_cons_of_mem _ hq))⟩

theorem array_rt (cw : String → Value → Bool → W) (cr : RCall) (okc : OkC) (szc : SzC) (rtc : RtC)
    (hcall : CallOK cw cr okc rtc) (hsz : SizeOK cw szc) (lens : String → Option LenInfo)
    (obj : Value) (lex ch tl cl cl' : Bool) (bound : List String) (rest : List TInstr)
    (name : String) (elem : Scalar) (len : Option TLen) (optional delimited trailing : Bool)
    (ef : Option Int)
    (st st1 : WSt) (s : RSt) (A₀ X post : Bytes)
    (hok : okInstr okc szc lex ch tl bound cl rest
      (.array name elem len optional delimited trailing ef) = some cl')
    (hw : wireInstr cw lens obj lex (.array name elem len optional delimited trailing ef) st
      = some st1)
    (hv : rtInstr cw rtc lens obj lex (.array name elem len optional delimited trailing ef) st
      = true)
    (hinv : Inv obj ch cl bound st s A₀ X) (hX : st.out ++ X = st1.out ++ post)
    (hlast : lastPos ch tl rest = true → End ch post)
    (hopt : optTail ch tl rest = true → st1.stopped = true → End ch post) :
    ∃ s1, readInstr cr lex (.array name elem len optional delimited trailing ef) s = .ok s1 ∧
      Inv obj ch (ch || (cl && cl')) (bound ++ [name]) st1 s1 A₀ post := by
  simp only [okInstr] at hok
  rw [Option.ite_none_right_eq_some] at hok
  obtain ⟨hcond, hok⟩ := hok
  simp only [Bool.and_eq_true, Bool.or_eq_true, Bool.not_eq_true'] at hcond
  obtain ⟨⟨⟨hfresh, hoptl⟩, hdelch⟩, hlenOk⟩ := hcond
  obtain ⟨c'', hokE, hcl'⟩ := map_some_inv _ _ _ hok
  subst hcl'
  simp only [wireInstr] at hw
  simp only [rtInstr] at hv
  by_cases hab : (optional && (st.stopped || (obj.attr name).isNone)) = true
  · -- absent
    rw [if_pos hab] at hv hw
    have hopt' : optional = true := by
      simp only [Bool.and_eq_true] at hab; exact hab.1
    subst hopt'
    simp only [Option.some.injEq] at hw
    subst hw
    have hXp : X = post := List.append_cancel_left hX
    subst hXp
    have hend : End ch X := hopt (by simpa using hoptl) rfl
    have hrem := hinv.remaining_zero hend
    refine ⟨s.bind name .none, ?_, ?_⟩
    · simp only [readInstr, hrem, Bool.true_and, beq_self_eq_true, if_true]
    · exact ((hinv.stop true).bind name .none hfresh
        (by rw [isNone_eq _ hv]; exact rfl)).after' _
  · -- present
    rw [if_neg hab] at hw hv
    cases hattr : obj.attr name <;> rw [hattr] at hw hv <;> simp only at hw <;> try cases hw
    rename_i vs
    rw [Option.ite_none_left_eq_some] at hw
    obtain ⟨hlenW, hw⟩ := hw
    obtain ⟨b, helems, rfl⟩ := map_some_inv _ _ _ hw
    obtain ⟨ps, hps, hpsw, hb⟩ := elems_join cw lens elem delimited trailing st vs true [] b helems
    simp only [Bool.not_true, Bool.false_and, Bool.and_false, Bool.false_eq_true, if_false,
      List.nil_append] at hb
    have hsan := hinv.san
    simp only [helems, Bool.and_eq_true, Bool.or_eq_true, Bool.not_eq_true', List.all_eq_true]
      at hv
    obtain ⟨⟨hall, hlenv⟩, hvis⟩ := hv
    have hXb := suffix_of_out st b X post hX
    obtain ⟨hd, hp⟩ := hinv.frame b post hXb
    -- facts about the elements
    have hmem : ∀ p ∈ ps, p.1 ∈ vs := fun p hp => hps ▸ List.mem_map_of_mem hp
    have helemOK : ∀ p ∈ ps, ElemOK cw rtc lens ch elem p := by
      intro p hp
      have h1 := (hall p.1 (hmem p hp)).1
      have h2 := hpsw p hp
      simp only [rtWritten, h2, Bool.and_eq_true] at h1
      rw [hsan] at h1 h2
      exact ⟨h2, h1.2.1, h1.1⟩
    have hvisible : (len.isNone && (delimited || ef.isNone)) = true →
        ∀ p ∈ ps, nonEmptyOK ch p.2 = true := by
      intro hvv p hp
      have h1 := (hall p.1 (hmem p hp)).1
      have h2 := hpsw p hp
      simp only [rtWritten, h2, hvv, Bool.and_eq_true, Bool.not_true, Bool.false_or] at h1
      rw [hsan] at h1
      exact h1.2.2
    -- static facts
    let c := ch || (cl && keepsClean okc ch (delimited && (trailing || lastPos ch tl rest)) elem)
    have hstab : c = true → c'' = true := okScalar_stable okc ch _ [] false cl c'' elem hokE
    have hcc : ch = true → c = true := by intro h; simp [c, h]
    have hdel : delimited = true → ch = true := by
      intro h; rcases hdelch with h' | h'
      · rw [h] at h'; cases h'
      · exact h'
    have hclean : c = true → Clean s.r := by
      intro h
      apply hinv.clean
      cases hch : ch with
      | true => rfl
      | false => simp only [c, hch, Bool.false_or, Bool.and_eq_true] at h; simp [h.1]
    have hnoL : (optional && s.r.remaining == 0) = false := by
      cases optional with
      | false => rfl
      | true =>
        simp only [Bool.true_and]
        refine hinv.remaining_pos b post hXb ?_
        rcases hvis with h | h
        · cases h
        · rw [← hsan]; exact h
    have hlen : ps.length = vs.length := by rw [← hps, List.length_map]
    have hdb : s.r.data = (A₀ ++ st.out) ++ joinElems delimited trailing (ps.map (·.2)) ++ post := by
      rw [hd, hb]
    -- the loop
    have hloop : ∃ r' vs', readInstr cr lex (.array name elem len optional delimited trailing ef) s
          = .ok (({ s with r := r' }).bind name (.tuple vs')) ∧
        stripList vs' = stripList vs ∧ Adv s.r r' b.length c := by
      have hcounted : ∀ n : Int, arrayCount len delimited ef s = some n → n = ps.length →
          ∃ r' vs', readInstr cr lex (.array name elem len optional delimited trailing ef) s
            = .ok (({ s with r := r' }).bind name (.tuple vs')) ∧
          stripList vs' = stripList vs ∧ Adv s.r r' b.length c := by
        intro n hcount hn
        obtain ⟨r', vs', h1, h2, h3⟩ := counted_rt cw cr okc rtc hcall lens ch
          (delimited && (trailing || lastPos ch tl rest)) c c'' elem delimited trailing n hokE
          hstab hcc hdel (by intro h; simp only [Bool.and_eq_true] at h; exact h.1)
          ps 0 s (A₀ ++ st.out) post [] helemOK hdb hp hinv.mode hclean (by rw [hn]; simp)
          (by
            intro h1 h2
            apply hlast
            simp only [Bool.and_eq_true, Bool.or_eq_true] at h1
            rcases h1.2 with h | h
            · rw [h1.1, h] at h2; cases h2
            · exact h)
        have hnn : n.toNat = ps.length := by rw [hn]; simp
        refine ⟨r', vs', ?_, ?_, ?_⟩
        · exact readArray_counted cr lex name elem len optional delimited trailing ef s n r' vs'
            hnoL hcount (by rw [hnn]; simpa using h1)
        · rw [h2, hps]
        · rw [hb]; exact h3
      cases len with
      | some l =>
        cases l with
        | lit n =>
          simp only [Bool.not_eq_true', beq_eq_false_iff_ne, ne_eq, Decidable.not_not,
            Bool.not_eq_eq_eq_not, Bool.not_true, beq_iff_eq] at hlenW
          exact hcounted n rfl (by rw [← hlenW, hlen])
        | byField f =>
          simp only [List.contains_eq_mem, decide_eq_true_eq] at hlenOk
          have hg := hinv.get f hlenOk
          rw [isIntVal_eq _ _ hlenv] at hg
          have hg' := sameFields_int _ _ hg
          exact hcounted vs.length (by simp only [arrayCount, hg']) (by rw [hlen])
      | none =>
        simp only [Bool.and_eq_true] at hlenOk
        obtain ⟨hlastp, hrest⟩ := hlenOk
        have hendp : End ch post := hlast hlastp
        by_cases hdl : delimited = true
        · -- delimited, read until nothing remains
          simp only [hdl, if_true] at hrest
          have hvv := hvisible (by simp [hdl])
          obtain ⟨r', vs', h1, h2, h3⟩ := while_rt cw cr okc rtc hcall lens ch
            (delimited && (trailing || lastPos ch tl rest)) c c'' elem delimited trailing hokE
            hstab hcc hdel (by intro h; simp only [Bool.and_eq_true] at h; exact h.1)
            (fun _ => hrest) ps (2 * s.r.data.length + 2) s (A₀ ++ st.out) post []
            (fun p hp => ⟨helemOK p hp, hvv p hp⟩)
            (by
              have := join_length_ge delimited trailing ps (fun p hp e => by
                have := hvv p hp; rw [e] at this; cases this)
              rw [hdb]; simp only [List.length_append]; omega)
            hdb hp hinv.mode hclean hendp
          refine ⟨r', vs', ?_, by rw [h2, hps], by rw [hb]; exact h3⟩
          exact readArray_while cr lex name elem none optional delimited trailing ef s r' vs' hnoL
            (by simp [arrayCount, hdl]) (by simpa using h1)
        · have hdf : delimited = false := by simpa using hdl
          simp only [hdf, Bool.false_eq_true, if_false] at hrest
          cases ef with
          | none =>
            have hvv := hvisible (by simp)
            obtain ⟨r', vs', h1, h2, h3⟩ := while_rt cw cr okc rtc hcall lens ch
              (delimited && (trailing || lastPos ch tl rest)) c c'' elem delimited trailing hokE
              hstab hcc hdel (by intro h; simp only [Bool.and_eq_true] at h; exact h.1)
              (fun h => absurd h hdl) ps (2 * s.r.data.length + 2) s (A₀ ++ st.out) post []
              (fun p hp => ⟨helemOK p hp, hvv p hp⟩)
              (by
                have := join_length_ge delimited trailing ps (fun p hp e => by
                  have := hvv p hp; rw [e] at this; cases this)
                rw [hdb]; simp only [List.length_append]; omega)
              hdb hp hinv.mode hclean hendp
            refine ⟨r', vs', ?_, by rw [h2, hps], by rw [hb]; exact h3⟩
            exact readArray_while cr lex name elem none optional delimited trailing none s r' vs'
              hnoL (by simp [arrayCount, hdf]) (by simpa using h1)
          | some sz =>
            simp only at hrest
            cases hfs : fixedSize szc elem with
            | none => rw [hfs] at hrest; cases hrest
            | some m =>
              rw [hfs] at hrest
              simp only [beq_iff_eq] at hrest
              have hfix : ∀ p ∈ ps, p.2.length = m ∧ 0 < m :=
                fun p hp => fixedSize_length cw szc hsz lens ch elem m p.1 p.2 hfs (helemOK p hp).1
              have hjl : (joinElems delimited trailing (ps.map (·.2))).length = ps.length * m := by
                rw [hdf]; exact join_fixed_length trailing m ps (fun p hp => (hfix p hp).1)
              have hrem : s.r.remaining = ps.length * m := by
                rw [← hjl]
                refine remaining_end s.r (A₀ ++ st.out) _ post hdb hp ?_ (hinv.mode ▸ hendp)
                intro hc
                have hcht : ch = true := hinv.mode ▸ hc
                refine ⟨hclean (hcc hcht), ?_⟩
                rw [hdf]
                refine join_noFF trailing ps (fun p hp => ?_)
                have h1 := (hall p.1 (hmem p hp)).2
                rw [hpsw p hp] at h1
                simp only [hdf, hsan, hcht, Option.isNone_none, Option.isSome_some, Bool.not_false,
                  Bool.and_self, Bool.true_eq_false, false_or, Bool.not_true, Bool.false_or,
                  Bool.not_eq_true', List.contains_eq_mem, decide_eq_false_iff_not] at h1
                exact h1
              by_cases hps0 : ps = []
              · subst hps0
                refine hcounted (if sz == 0 then 0 else ((s.r.remaining : Int).tdiv sz)) ?_ ?_
                · simp only [arrayCount, hdf, Bool.not_false, if_true]
                  split <;> rfl
                · simp only [hrem, List.length_nil, Nat.zero_mul]
                  split <;> simp
              · have hm0 : 0 < m := by
                  cases ps with
                  | nil => exact absurd rfl hps0
                  | cons p ps' => exact (hfix p (by simp)).2
                have hsz : sz ≠ 0 := by rw [← hrest]; omega
                refine hcounted ((s.r.remaining : Int).tdiv sz) ?_ ?_
                · simp only [arrayCount, hdf, Bool.not_false, if_true, beq_iff_eq, hsz, if_false]
                · rw [hrem, ← hrest]
                  simp only [Int.natCast_mul]
                  rw [Int.mul_tdiv_cancel _ (by omega)]
    obtain ⟨r', vs', hrd, hvs, hadv⟩ := hloop
    have hinv' := hinv.advance b post hXb r' c (hadv.weaken _ (by
      intro h
      cases hch : ch with
      | true => exact hcc hch
      | false => rw [hch] at h; simpa using h))
    refine ⟨_, hrd, (hinv'.bind name (.tuple vs') hfresh ?_).after cl⟩
    rw [hattr]
    show strip _ = strip _
    simp only [strip, hvs]

end EoVerif.Spec.RT
