import EoVerif.Lemmas.ConformExec
/-! The simulation between the emitted serializer statements and the declarative `wire` reading,
    instruction by instruction (C02). -/
namespace EoVerif.Gen.Conform
open EoVerif EoVerif.Gen EoVerif.Spec EoVerif.Gen.WF

/-! ### Static relations -/

/-- the generator's resolved type and the declarative scalar describe the same wire type -/
def TyRel (ty : Ty) (len : Option String) (padded : Bool) (sc : Scalar) : Prop :=
  match ty with
  | .int k => sc = .int k
  | .bool k => sc = .bool k
  | .str e _ => sc = .str e (tlenOf len) padded
  | .blob => sc = .blob
  | .enum _ _ k _ => sc = .enum k
  | .struct n _ _ _ => sc = .struct n

/-- what the simulation needs to know about type resolution (`okT` = the type names covered) -/
structure TfOK (okT : String → Bool) (tf : TypeEnv) (env : Env) : Prop where
  resolve : ∀ s len ty padded, okT s = true → tf s len = .ok ty →
    ∃ sc, scalarOf env s (tlenOf len) padded = some sc ∧ TyRel ty len padded sc
  withLen : ∀ s l ty, tf s (some l) = .ok ty → ∃ e, ty = .str e (some l)
  intName : ∀ s k t, IntKind.ofName? s = some k → tf s none = .ok t → t = .int k
  enumMem : ∀ s en path k vals, okT s = true → tf s none = .ok (.enum en path k vals) →
    enumMembers env (some s) = vals.map (fun ev => (ev.name, ev.ordinal))

/-- static invariant of the generator context against the length fields of the class body -/
def CtxOK (ctx : Ctx) (lens : String → Option LenInfo) : Prop :=
  (∀ n, (ctx.field? n).isSome = true → PyStr.pyInt? n = none) ∧
  (∀ l, (ctx.lenRef? l).isSome = true →
    ∃ k off, ctx.field? l = some ⟨l, .int k, off, false⟩ ∧ lens l = some ⟨k, off⟩)

theorem len_cases {ctx : Ctx} {lens : String → Option LenInfo} {l : String} (hok : CtxOK ctx lens)
    (hv : (!PyStr.isdigit l && (ctx.lenRef? l).isNone) = false) :
    (∃ N : Nat, PyStr.isdigit l = true ∧ PyStr.pyInt? l = some (N : Int) ∧ ctx.field? l = none) ∨
    (PyStr.isdigit l = false ∧ PyStr.pyInt? l = none ∧
      ∃ k off, ctx.field? l = some ⟨l, .int k, off, false⟩ ∧ lens l = some ⟨k, off⟩) := by
  cases hd : PyStr.isdigit l with
  | true =>
    obtain ⟨N, hN⟩ := isdigit_pyInt l hd
    refine Or.inl ⟨N, rfl, hN, ?_⟩
    cases hf : ctx.field? l with
    | none => rfl
    | some fd =>
      have := hok.1 l (by rw [hf]; rfl)
      rw [hN] at this; cases this
  | false =>
    rw [hd] at hv
    have hs : (ctx.lenRef? l).isSome = true := by
      cases h : ctx.lenRef? l with
      | none => rw [h] at hv; simp at hv
      | some b => rfl
    obtain ⟨k, off, hf, hl⟩ := hok.2 l hs
    exact Or.inr ⟨rfl, hok.1 l (by rw [hf]; rfl), k, off, hf, hl⟩

/-! ### One emitted write against `wireScalar` -/

theorem tlenOf_some (l : String) :
    tlenOf (some l) = some (match PyStr.pyInt? l with | some n => .lit n | none => .byField l) := rfl

/-- the value the emitted expression evaluates to, against the declared value (a hard-coded bool is
    pasted as `0`/`1`) -/
def EvRel (t : Ty) (val' val : Value) : Prop :=
  match t with
  | .bool _ => val'.truthy = val.truthy
  | _ => val' = val

/-- how a `length=` attribute resolves in the generator context -/
def LenCase (ctx : Ctx) (lens : String → Option LenInfo) (l : String) : Prop :=
  (∃ N : Nat, PyStr.isdigit l = true ∧ PyStr.pyInt? l = some (N : Int) ∧ ctx.field? l = none) ∨
  (PyStr.isdigit l = false ∧ PyStr.pyInt? l = none ∧
    ∃ k off, ctx.field? l = some ⟨l, .int k, off, false⟩ ∧ lens l = some ⟨k, off⟩)

/-- the length checks and the write of a present, typed value agree with `wireScalar` -/
theorem present_conf {call : SerCall} {wcall : String → Value → Bool → W} {TV : String → Value → Prop}
    {lens : String → Option LenInfo} {obj : Value} {ctx : Ctx} {p : FP} {t : Ty} {sc : Scalar} {vx : VExpr}
    {sl : Option LenE} {val : Value} (st : SerSt)
    (hcall : CallOK call wcall TV)
    (hrel : TyRel t p.lenStr p.padded sc)
    (hwl : ∀ l, p.lenStr = some l → ∃ e, t = .str e (some l))
    (hval : TypedVal TV obj sc val)
    (hev' : ∃ val', evalV obj st.idx vx = .ok val' ∧ EvRel t val' val)
    (hname : ∀ n, p.name = some n → obj.attr n = val)
    (hlc : ∀ l, p.lenStr = some l → LenCase ctx lens l)
    (hun : p.name = none → ∀ l, p.lenStr = some l → PyStr.isdigit l = true)
    (hsl : lenExpr ctx p = .ok sl) :
    Conf (execSerOps call obj (lenChkOf ctx p ++ [.write (ioKind t sl p.padded) vx (coerceOf t) 0]) st)
      (wireScalar wcall lens st.w.san sc val) (fun st' b => st' = appSt st b) := by
  have hnolen : p.lenStr = none → lenChkOf ctx p = [] ∧ sl = none := by
    intro h
    refine ⟨?_, ?_⟩
    · unfold lenChkOf; rw [h]; cases p.name <;> rfl
    · unfold lenExpr at hsl; rw [h] at hsl; cases hsl; rfl
  have hone : ∀ op, execSerOps call obj [op] = execSerOp call obj op := execSerOps_single call obj
  obtain ⟨val', hev, hevr⟩ := hev'
  cases t with
  | int k =>
    simp only [EvRel] at hevr; subst hevr
    have hl : p.lenStr = none := by
      cases h : p.lenStr with
      | none => rfl
      | some l => obtain ⟨e, he⟩ := hwl l h; cases he
    obtain ⟨h1, h2⟩ := hnolen hl
    simp only [TyRel] at hrel; subst hrel
    obtain ⟨m, rfl, hm⟩ := hval
    rw [h1, List.nil_append, hone, exec_write call obj st _ vx _ 0 _ _ hev rfl]
    simp only [ioKind, doWrite_int, Int.sub_zero]
    exact wstep_conf (int_write_conf st.w k m (by omega))
  | bool k =>
    have hl : p.lenStr = none := by
      cases h : p.lenStr with
      | none => rfl
      | some l => obtain ⟨e, he⟩ := hwl l h; cases he
    obtain ⟨h1, h2⟩ := hnolen hl
    simp only [TyRel] at hrel; subst hrel
    obtain ⟨b, rfl⟩ := hval
    simp only [EvRel] at hevr
    rw [h1, List.nil_append, hone, exec_write call obj st _ vx _ 0 _ (.int (if (Value.bool b).truthy then 1 else 0)) hev
      (by show Except.ok _ = _; rw [hevr])]
    simp only [ioKind, doWrite_int, Int.sub_zero]
    have : wireScalar wcall lens st.w.san (.bool k) (.bool b)
        = encInt k (if (Value.bool b).truthy then 1 else 0) := by
      unfold wireScalar; rfl
    rw [this]
    exact wstep_conf (int_write_conf st.w k _ (by split <;> omega))
  | enum en path k vals =>
    simp only [EvRel] at hevr; subst hevr
    have hl : p.lenStr = none := by
      cases h : p.lenStr with
      | none => rfl
      | some l => obtain ⟨e, he⟩ := hwl l h; cases he
    obtain ⟨h1, h2⟩ := hnolen hl
    simp only [TyRel] at hrel; subst hrel
    obtain ⟨m, rfl, hm⟩ := hval
    rw [h1, List.nil_append, hone, exec_write call obj st _ vx _ 0 _ (.int m) hev rfl]
    simp only [ioKind, doWrite_int, Int.sub_zero]
    have : wireScalar wcall lens st.w.san (.enum k) (.int m) = encInt k m := by
      unfold wireScalar; rfl
    rw [this]
    exact wstep_conf (int_write_conf st.w k m (by omega))
  | blob =>
    simp only [EvRel] at hevr; subst hevr
    have hl : p.lenStr = none := by
      cases h : p.lenStr with
      | none => rfl
      | some l => obtain ⟨e, he⟩ := hwl l h; cases he
    obtain ⟨h1, h2⟩ := hnolen hl
    simp only [TyRel] at hrel; subst hrel
    obtain ⟨bs, rfl⟩ := hval
    rw [h1, List.nil_append, hone, exec_write call obj st _ vx _ 0 _ _ hev rfl]
    have : wireScalar wcall lens st.w.san .blob (.bytes bs) = some bs := by
      unfold wireScalar; rfl
    rw [this]
    simp only [ioKind, doWrite, wstep, Writer.step, Conf_ok_some]
    rfl
  | struct n path fs bd =>
    simp only [EvRel] at hevr; subst hevr
    have hl : p.lenStr = none := by
      cases h : p.lenStr with
      | none => rfl
      | some l => obtain ⟨e, he⟩ := hwl l h; cases he
    obtain ⟨h1, h2⟩ := hnolen hl
    simp only [TyRel] at hrel; subst hrel
    obtain ⟨⟨c, fs', z, rfl⟩, htv⟩ := hval
    rw [h1, List.nil_append, hone, exec_write call obj st _ vx _ 0 _ _ hev rfl]
    have : wireScalar wcall lens st.w.san (.struct n) (.obj c fs' z) = wcall n (.obj c fs' z) st.w.san := by
      unfold wireScalar; rfl
    rw [this]
    simp only [ioKind, doWrite]
    have hc := hcall n (.obj c fs' z) st.w htv
    generalize call n (.obj c fs' z) st.w = r at hc
    obtain ⟨w', x⟩ := r
    cases x with
    | error e => cases h : wcall n (.obj c fs' z) st.w.san <;> rw [h] at hc <;> simp at hc ⊢ <;> exact hc
    | ok u =>
      cases u
      cases h : wcall n (.obj c fs' z) st.w.san with
      | none => rw [h] at hc; exact hc.elim
      | some b =>
        rw [h] at hc
        simp only [Conf_ok_some] at hc ⊢
        rw [hc]; rfl
  | str enc l0 =>
    simp only [EvRel] at hevr; subst hevr
    simp only [TyRel] at hrel; subst hrel
    obtain ⟨s, rfl, hbf⟩ := hval
    have hcw : coerceW (coerceOf (.str enc l0)) (.str s) = .ok (.str s) := rfl
    cases hl : p.lenStr with
    | none =>
      obtain ⟨h1, h2⟩ := hnolen hl
      subst h2
      rw [h1, List.nil_append, hone, exec_write call obj st _ vx _ 0 _ _ hev hcw]
      have : doWrite call obj st (ioKind (.str enc l0) none p.padded) (.str s) 0
          = wstep st (strOp enc s none false) := by
        cases enc <;> rfl
      rw [this]
      show Conf _ (wireScalar wcall lens st.w.san (.str enc none p.padded) (.str s)) _
      rw [str_none_wire]
      unfold wstep
      rw [str_none_step]
      simp only [Conf_ok_some]; rfl
    | some l =>
      rw [tlenOf_some]
      rcases hlc l hl with ⟨N, hd, hN, hf⟩ | ⟨hd, hN, k, off, hf, hli⟩
      · -- literal length
        have hsl' : sl = some (.lit N) := by
          unfold lenExpr at hsl; rw [hl] at hsl
          simp only [hd, if_true, hN, Option.getD_some] at hsl
          cases hsl; rfl
        subst hsl'
        have hw : execSerOp call obj (.write (ioKind (.str enc l0) (some (.lit N)) p.padded) vx
            (coerceOf (.str enc l0)) 0) st = wstep st (strOp enc s (some (N : Int)) p.padded) := by
          rw [exec_write call obj st _ vx _ 0 _ _ hev hcw]
          cases enc <;> rfl
        have hconf := wstep_conf (st := st) (str_lit_conf wcall lens st.w enc p.padded s N)
        simp only [hN]
        cases hn : p.name with
        | none =>
          have : lenChkOf ctx p = [] := by unfold lenChkOf; rw [hn]
          rw [this, List.nil_append, hone, hw]
          exact hconf
        | some n =>
          have : lenChkOf ctx p = [.lenCheck n p.padded N] := by
            unfold lenChkOf; rw [hn, hl]; simp only [hf, hN, Option.getD_some]
          rw [this, List.singleton_append, execSerOps_cons, hone,
            exec_lenCheck call obj n p.padded N st (.str s) s.length (hname n hn) (by simp) rfl]
          -- the emitted check agrees with the writer's own check
          by_cases hc : (if p.padded then (s.length : Int) > N else (s.length : Int) ≠ N)
          · rw [if_pos hc, bindRes_err]
            have : wireScalar wcall lens st.w.san (.str enc (some (.lit N)) p.padded) (.str s) = none := by
              unfold wireScalar
              cases hp : p.padded
              · rw [hp] at hc; simp at hc; simp [hc]
              · rw [hp] at hc; simp at hc
                have : ¬ ((s.length : Int) ≤ N) := by omega
                simp [this]
            rw [this]; simp
          · rw [if_neg hc, bindRes_ok, hw]; exact hconf
      · -- length field
        have hsl' : sl = some (.field l) := by
          unfold lenExpr at hsl; rw [hl] at hsl
          simp only [hd, Bool.false_eq_true, if_false, hf, Option.isSome_some, if_true] at hsl
          cases hsl; rfl
        subst hsl'
        simp only [hN]
        have hattr : obj.attr l = .int s.length := hbf l (by rw [hl, tlenOf_some, hN])
        have hw : execSerOp call obj (.write (ioKind (.str enc l0) (some (.field l)) p.padded) vx
            (coerceOf (.str enc l0)) 0) st = wstep st (strOp enc s (some (s.length : Int)) p.padded) := by
          rw [exec_write call obj st _ vx _ 0 _ _ hev hcw]
          simp only [ioKind, doWrite, lenArg, hattr]
          cases enc <;> rfl
        rw [str_field_wire wcall lens st.w.san enc p.padded s l ⟨k, off⟩ hli]
        cases hn : p.name with
        | none => have := hun hn l hl; rw [hd] at this; cases this
        | some n =>
          have : lenChkOf ctx p = [.lenCheck n true (k.maxValue + off)] := by
            unfold lenChkOf; rw [hn, hl]; simp only [hf]
          rw [this, List.singleton_append, execSerOps_cons, hone,
            exec_lenCheck call obj n true _ st (.str s) s.length (hname n hn) (by simp) rfl]
          have hlim : lengthLimit k off = k.maxValue + off := by
            cases k <;> simp [lengthLimit, limitOf, IntKind.maxValue]
          simp only [if_true, hlim]
          by_cases hc : (s.length : Int) > k.maxValue + off
          · rw [if_pos hc, if_neg (by omega)]; simp
          · rw [if_neg hc, if_pos (by omega), bindRes_ok, hw]
            unfold wstep
            rw [str_field_step]
            simp only [Conf_ok_some]; rfl

/-! ### The run-time state against the declarative state -/

/-- `ro` = the context's `reachedOptional`, `ra` = the data's `rmoAssigned`, `emp` = nothing emitted yet -/
structure Dyn (base : Bytes) (ro ra emp : Bool) (st : SerSt) (wst : WSt) : Prop where
  data : st.w.data = base ++ wst.out
  san : st.w.san = wst.san
  oldLen : st.oldLen = base.length
  rmo : ro = true → ra = true → st.rmo = some wst.stopped
  stopped : wst.stopped = true → ro = true ∧ ra = true
  emp : emp = true → wst.out = []
  /-- the local is only assigned while an optional item is pending (a `<break/>` clears both) -/
  raro : ra = true → ro = true

theorem isNone_iff (v : Value) : v.isNone = true ↔ v = .none := by
  cases v <;> simp [Value.isNone]

theorem isNone_false_iff (v : Value) : v.isNone = false ↔ v ≠ .none := by
  cases v <;> simp [Value.isNone]

/-- the common shape of the declarative reading of one item -/
def specItem (optional isNone : Bool) (W : Option Bytes) (wst : WSt) : Option WSt :=
  if optional then
    if wst.stopped || isNone then some { wst with stopped := true }
    else W.map (fun b => { wst with out := wst.out ++ b })
  else if isNone then none else W.map (fun b => { wst with out := wst.out ++ b })

theorem Dyn.app {base : Bytes} {ro ra emp ro' ra' : Bool} {st : SerSt} {wst : WSt} (h : Dyn base ro ra emp st wst)
    (b : Bytes) (r : Option Bool) (hr : ro' = true → ra' = true → r = some wst.stopped)
    (hs : wst.stopped = true → ro' = true ∧ ra' = true) (hrr : ra' = true → ro' = true) :
    Dyn base ro' ra' false (appSt { st with rmo := r } b) { wst with out := wst.out ++ b } := by
  refine ⟨?_, h.san, h.oldLen, hr, hs, (fun h' => by cases h'), hrr⟩
  show st.w.data ++ b = base ++ (wst.out ++ b)
  rw [h.data, List.append_assoc]

/-- what a successful tail leaves behind (the loop index is not looked at) -/
def AppRel (st : SerSt) (r : Option Bool) (s : SerSt) (b : Bytes) : Prop :=
  s.w.data = st.w.data ++ b ∧ s.w.san = st.w.san ∧ s.rmo = r ∧ s.oldLen = st.oldLen

theorem AppRel.of_eq {st : SerSt} {r : Option Bool} {s : SerSt} {b : Bytes}
    (h : s = appSt { st with rmo := r } b) : AppRel st r s b := by
  subst h; exact ⟨rfl, rfl, rfl, rfl⟩

theorem Dyn.app' {base : Bytes} {ro ra emp ro' ra' : Bool} {st s : SerSt} {wst : WSt} (h : Dyn base ro ra emp st wst)
    {b : Bytes} {r : Option Bool} (hs : AppRel st r s b) (hr : ro' = true → ra' = true → r = some wst.stopped)
    (hst : wst.stopped = true → ro' = true ∧ ra' = true) (hrr : ra' = true → ro' = true) :
    Dyn base ro' ra' false s { wst with out := wst.out ++ b } := by
  obtain ⟨h1, h2, h3, h4⟩ := hs
  refine ⟨?_, h2.trans h.san, h4.trans h.oldLen, (fun a b => h3.trans (hr a b)), hst, (fun h' => by cases h'), hrr⟩
  show s.w.data = base ++ (wst.out ++ b)
  rw [h1, h.data, List.append_assoc]

theorem item_conf' {call : SerCall} {obj : Value} {p : FP} {tail : List SerOp}
    {base : Bytes} {ro ra emp : Bool} {st : SerSt} {wst : WSt} {v : Value} {W : Option Bytes}
    (hdyn : Dyn base ro ra emp st wst)
    (hro : (ro && !p.optional) = false)
    (hnamed : ∀ n, p.name = some n → obj.attr n = v ∧ v ≠ .missing)
    (hun : p.name = none → p.optional = false ∧ v ≠ .none)
    (hhard : p.hardcoded.isSome = true → v ≠ .none)
    (hpres : v ≠ .none → ∀ r, Conf (execSerOps call obj tail { st with rmo := r }) W (AppRel st r)) :
    Conf (execSerOps call obj (itemOps (ro && ra) p tail) st) (specItem p.optional v.isNone W wst)
      (fun st' wst' => Dyn base (ro || p.optional) (ra || p.optional) false st' wst') := by
  unfold itemOps specItem
  cases hopt : p.optional with
  | true =>
    simp only [if_true]
    obtain ⟨n, hn⟩ : ∃ n, p.name = some n := by
      cases h : p.name with
      | none => have := (hun h).1; rw [hopt] at this; cases this
      | some n => exact ⟨n, rfl⟩
    obtain ⟨hv, hm⟩ := hnamed n hn
    have hnc : noneChkOf p = [] := by unfold noneChkOf; simp [hopt]
    -- the value of `reached_missing_optional`
    have hacc : (ro && ra) = true → st.rmo = some wst.stopped := by
      intro h
      simp only [Bool.and_eq_true] at h
      exact hdyn.rmo h.1 h.2
    have hr : ((ro && ra) && wst.stopped || v.isNone) = (wst.stopped || v.isNone) := by
      cases hacc' : (ro && ra) with
      | true => rfl
      | false =>
        have : wst.stopped = false := by
          cases hs : wst.stopped with
          | false => rfl
          | true => have := hdyn.stopped hs; rw [this.1, this.2] at hacc'; cases hacc'
        rw [this]; rfl
    rw [hn, Option.getD_some, execSerOps_single,
      exec_optGuard call obj _ n _ st v wst.stopped hv hm hacc, hr]
    · 
      cases hrr : (wst.stopped || v.isNone) with
      | true =>
        simp only [if_true, Conf_ok_some]
        exact ⟨hdyn.data, hdyn.san, hdyn.oldLen, (fun _ _ => rfl), (fun _ => ⟨by simp, by simp⟩), (fun h => by cases h),
          (fun _ => by simp)⟩
      | false =>
        simp only [Bool.false_eq_true, if_false]
        simp only [Bool.or_eq_false_iff] at hrr
        have hvn : v ≠ .none := (isNone_false_iff v).1 hrr.2
        rw [hnc, List.nil_append]
        refine (hpres hvn (some false)).map _ ?_
        intro s b hs
        exact hdyn.app' hs (fun _ _ => by rw [hrr.1]) (fun h' => by rw [hrr.1] at h'; cases h') (fun _ => by simp)
  | false =>
    simp only [Bool.false_eq_true, if_false]
    rw [hopt] at hro
    simp only [Bool.not_false, Bool.and_true] at hro
    subst hro
    have hst : wst.stopped = false := by
      cases hs : wst.stopped with
      | false => rfl
      | true => have := (hdyn.stopped hs).1; cases this
    have hself : ({ st with rmo := st.rmo } : SerSt) = st := rfl
    have tail : v ≠ .none → Conf (execSerOps call obj (tail) st)
        (Option.map (fun b => { wst with out := wst.out ++ b }) W)
        (fun st' wst' => Dyn base (false || false) (ra || false) false st' wst') := by
      intro hvn
      have h := hpres hvn st.rmo
      rw [hself] at h
      refine h.map _ ?_
      intro s b hs
      exact hdyn.app' (ro' := false) (ra' := ra || false) hs (fun h => by cases h)
        (fun h' => by rw [hst] at h'; cases h')
        (fun h' => by have := hdyn.raro (by simpa using h'); cases this)
    by_cases hc : (p.optional || p.name.isNone || p.hardcoded.isSome) = true
    · have hnc : noneChkOf p = [] := by unfold noneChkOf; rw [if_pos hc]
      have hvn : v ≠ .none := by
        rw [hopt] at hc
        simp only [Bool.false_or, Bool.or_eq_true] at hc
        rcases hc with hc | hc
        · cases hn : p.name with
          | none => exact (hun hn).2
          | some n => rw [hn] at hc; cases hc
        · exact hhard hc
      rw [hnc, List.nil_append, (isNone_false_iff v).2 hvn]
      simp only [Bool.false_eq_true, if_false]
      exact tail hvn
    · obtain ⟨n, hn⟩ : ∃ n, p.name = some n := by
        cases h : p.name with
        | none => rw [h] at hc; simp at hc
        | some n => exact ⟨n, rfl⟩
      obtain ⟨hv, hm⟩ := hnamed n hn
      have hnc : noneChkOf p = [.noneCheck n] := by unfold noneChkOf; rw [if_neg hc, hn]; rfl
      rw [hnc, List.singleton_append, execSerOps_cons]
      by_cases hvn : v = .none
      · rw [exec_noneCheck_none call obj n st (hv.trans hvn), hvn]
        simp [Value.isNone]
      · rw [exec_noneCheck call obj n st (by rw [hv]; exact hm) (by rw [hv]; exact hvn), bindRes_ok,
          (isNone_false_iff v).2 hvn]
        simp only [Bool.false_eq_true, if_false]
        exact tail hvn

theorem item_conf {call : SerCall} {obj : Value} {ctx : Ctx} {p : FP} {t : Ty} {vx : VExpr} {sl : Option LenE}
    {base : Bytes} {ro ra emp : Bool} {st : SerSt} {wst : WSt} {v : Value} {W : Option Bytes}
    (hdyn : Dyn base ro ra emp st wst)
    (hro : (ro && !p.optional) = false)
    (hnamed : ∀ n, p.name = some n → obj.attr n = v ∧ v ≠ .missing)
    (hun : p.name = none → p.optional = false ∧ v ≠ .none)
    (hhard : p.hardcoded.isSome = true → v ≠ .none)
    (hpres : v ≠ .none → ∀ r, Conf (execSerOps call obj (tailOps ctx p t vx sl) { st with rmo := r }) W
      (fun s b => s = appSt { st with rmo := r } b)) :
    Conf (execSerOps call obj (fieldOps ctx (ro && ra) p t vx sl) st) (specItem p.optional v.isNone W wst)
      (fun st' wst' => Dyn base (ro || p.optional) (ra || p.optional) false st' wst') := by
  rw [fieldOps_eq]
  exact item_conf' hdyn hro hnamed hun hhard (fun hvn r => (hpres hvn r).mono (fun _ _ h => AppRel.of_eq h))

/-! ### Context updates -/

theorem setLenRef_field? (c : Ctx) (n : String) (b : Bool) (m : String) :
    (c.setLenRef n b).field? m = c.field? m := by
  unfold Ctx.setLenRef
  split <;> rfl

theorem fieldCtx_field? {ctx : Ctx} {p : FP} {n : String} {t : Ty}
    (hfresh : (ctx.field? n).isSome = false) (m : String) :
    (fieldCtx ctx p n t).field? m
      = if n == m then some ⟨n, t, p.offset, p.arrayField⟩ else ctx.field? m := by
  have hsf := setField_fresh (ctx := ctx) (fd := ⟨n, t, p.offset, p.arrayField⟩) hfresh
  have base : (ctx.setField ⟨n, t, p.offset, p.arrayField⟩).field? m
      = if n == m then some ⟨n, t, p.offset, p.arrayField⟩ else ctx.field? m := by
    rw [hsf]
    unfold Ctx.field?
    simp only
    rw [find_fst_append_single]
    cases hnm : (n == m) with
    | false => simp
    | true =>
      have : n = m := by simpa using hnm
      subst this
      unfold Ctx.field? at hfresh
      cases h : Option.map (fun x => x.snd) (List.find? (fun x => x.fst == n) ctx.accessible) with
      | none => simp
      | some x => rw [h] at hfresh; cases hfresh
  unfold fieldCtx
  simp only
  split
  · rw [setLenRef_field?]; exact base
  · split
    · split
      · rw [setLenRef_field?]; exact base
      · exact base
    · exact base

/-- the flags of `fieldCtx` -/
theorem fieldCtx_flags {ctx : Ctx} {p : FP} {n : String} {t : Ty} :
    (fieldCtx ctx p n t).chunked = ctx.chunked ∧
    (fieldCtx ctx p n t).reachedOptional = ctx.reachedOptional ∧
    (fieldCtx ctx p n t).reachedDummy = ctx.reachedDummy := by
  have h1 : ∀ (c : Ctx) (x : String) (b : Bool), (c.setLenRef x b).chunked = c.chunked ∧
      (c.setLenRef x b).reachedOptional = c.reachedOptional ∧ (c.setLenRef x b).reachedDummy = c.reachedDummy := by
    intro c x b; unfold Ctx.setLenRef; split <;> exact ⟨rfl, rfl, rfl⟩
  have h2 : ∀ (c : Ctx) (fd : FieldData), (c.setField fd).chunked = c.chunked ∧
      (c.setField fd).reachedOptional = c.reachedOptional ∧ (c.setField fd).reachedDummy = c.reachedDummy := by
    intro c fd; unfold Ctx.setField; split <;> exact ⟨rfl, rfl, rfl⟩
  unfold fieldCtx
  simp only
  split
  · obtain ⟨a, b, c⟩ := h1 (ctx.setField ⟨n, t, p.offset, p.arrayField⟩) n false
    obtain ⟨a', b', c'⟩ := h2 ctx ⟨n, t, p.offset, p.arrayField⟩
    exact ⟨a.trans a', b.trans b', c.trans c'⟩
  · split
    · split
      · rename_i l _ _
        obtain ⟨a, b, c⟩ := h1 (ctx.setField ⟨n, t, p.offset, p.arrayField⟩) l true
        obtain ⟨a', b', c'⟩ := h2 ctx ⟨n, t, p.offset, p.arrayField⟩
        exact ⟨a.trans a', b.trans b', c.trans c'⟩
      · exact h2 ctx _
    · exact h2 ctx _


theorem ctxOK_fieldCtx {ctx : Ctx} {lens : String → Option LenInfo} {p : FP} {n : String} {t : Ty}
    (hok : CtxOK ctx lens) (hfresh : (ctx.field? n).isSome = false) (hpn : PyStr.pyInt? n = none)
    (hlen : p.lengthField = true → ∃ k, t = .int k ∧ p.arrayField = false ∧ lens n = some ⟨k, p.offset⟩) :
    CtxOK (fieldCtx ctx p n t) lens := by
  have hlf : p.lengthField = true → ctx.lenRef? n = none := by
    intro _
    cases h : ctx.lenRef? n with
    | none => rfl
    | some b =>
      obtain ⟨k, off, hf, _⟩ := hok.2 n (by rw [h]; rfl)
      rw [hf] at hfresh; cases hfresh
  obtain ⟨_, _, _, _, s5⟩ := fieldCtx_spec (ctx := ctx) (p := p) (n := n) (t := t) hfresh hlf
  have hold : ∀ l, (ctx.lenRef? l).isSome = true →
      ∃ k off, (fieldCtx ctx p n t).field? l = some ⟨l, .int k, off, false⟩ ∧ lens l = some ⟨k, off⟩ := by
    intro l hl
    obtain ⟨k, off, hf, hle⟩ := hok.2 l hl
    refine ⟨k, off, ?_, hle⟩
    rw [fieldCtx_field? hfresh]
    have : (n == l) = false := by
      cases hnl : (n == l) with
      | false => rfl
      | true =>
        have : n = l := by simpa using hnl
        subst this; rw [hf] at hfresh; cases hfresh
    rw [this]; exact hf
  refine ⟨?_, ?_⟩
  · intro m hm
    rw [fieldCtx_field? hfresh] at hm
    cases hnm : (n == m) with
    | true =>
      have : n = m := by simpa using hnm
      subst this; exact hpn
    | false => rw [hnm] at hm; exact hok.1 m hm
  · intro l hl
    rw [s5] at hl
    by_cases hpl : p.lengthField = true
    · rw [if_pos hpl] at hl
      cases hold' : (ctx.lenRef? l).isSome with
      | true => exact hold l hold'
      | false =>
        have hnone : ctx.lenRef? l = none := by
          cases h : ctx.lenRef? l with
          | none => rfl
          | some b => rw [h] at hold'; cases hold'
        rw [hnone] at hl
        cases hnl : (n == l) with
        | false => rw [hnl] at hl; cases hl
        | true =>
          have : n = l := by simpa using hnl
          subst this
          obtain ⟨k, ht, harr, hle⟩ := hlen hpl
          refine ⟨k, p.offset, ?_, hle⟩
          rw [fieldCtx_field? hfresh]
          simp [ht, harr]
    · rw [if_neg hpl] at hl
      split at hl
      · split at hl
        · rw [Option.isSome_map] at hl; exact hold l hl
        · exact hold l hl
      · exact hold l hl

/-- the members of the enum an accessible (non-array) field is declared with, as the declarative side
    finds them (`findFieldType` in the class body `scope`) -/
def CtxEnum (env : Env) (scope : List Xml) (ctx : Ctx) : Prop :=
  ∀ n fd, ctx.field? n = some fd → fd.array = false → ∀ en path k vals, fd.ty = .enum en path k vals →
    enumMembers env (findFieldType n scope) = vals.map (fun ev => (ev.name, ev.ordinal))

theorem CtxEnum.congr {env : Env} {scope : List Xml} {c c' : Ctx} (h : CtxEnum env scope c)
    (ha : c'.accessible = c.accessible) : CtxEnum env scope c' := by
  unfold CtxEnum Ctx.field? at *
  rw [ha]; exact h

theorem CtxEnum.empty {env : Env} {scope : List Xml} {c : Ctx} (ha : c.accessible = []) : CtxEnum env scope c := by
  intro n fd h
  unfold Ctx.field? at h; rw [ha] at h; cases h

theorem ctxEnum_fieldCtx {env : Env} {scope : List Xml} {ctx : Ctx} {p : FP} {n : String} {t : Ty}
    (h : CtxEnum env scope ctx) (hfresh : (ctx.field? n).isSome = false)
    (hnew : p.arrayField = false → ∀ en path k vals, t = .enum en path k vals →
      enumMembers env (findFieldType n scope) = vals.map (fun ev => (ev.name, ev.ordinal))) :
    CtxEnum env scope (fieldCtx ctx p n t) := by
  intro m fd hm harr en path k vals hty
  rw [fieldCtx_field? hfresh] at hm
  cases hnm : (n == m) with
  | true =>
    rw [hnm] at hm
    simp only [if_true, Option.some.injEq] at hm
    subst hm
    have : n = m := by simpa using hnm
    subst this
    exact hnew harr en path k vals hty
  | false =>
    rw [hnm] at hm
    exact h m fd hm harr en path k vals hty

/-! ### Typed objects -/

mutual
/-- the attributes an instruction talks about hold typed values (or `None`).  `TV` types the instances
    held by struct-typed fields; `TVs` is the tower of such predicates for the case-data objects nested
    below (one level per nesting of a case class; an exhausted tower admits no case data). -/
def TypedInstr (TV : String → Value → Prop) (TVs : List (String → Value → Prop)) (obj : Value) : TInstr → Prop
  | .field name ty _ => obj.attr name = .none ∨ TypedVal TV obj ty (obj.attr name)
  | .const _ _ => True
  | .namedConst name ty c _ => obj.attr name = constValue c ∧ TypedVal TV obj ty (constValue c)
  | .length name _ off _ ref =>
    (obj.attr name = .none ∧ obj.attr ref = .none) ∨
    ∃ n : Nat, obj.attr name = .int n ∧ (obj.attr ref).len? = some n ∧ (n : Int) - off ≠ -1
  | .array name elem len _ _ _ _ =>
    obj.attr name = .none ∨
    ∃ vs, obj.attr name = .tuple vs ∧ (∀ v ∈ vs, TypedVal TV obj elem v) ∧
      ∀ f, len = some (.byField f) → obj.attr f = .int vs.length
  | .dummy _ _ => True
  | .switch f cases =>
    obj.attr f ≠ .missing ∧
    (obj.attr (f ++ "_data") = .none ∨ ∃ c fs z, obj.attr (f ++ "_data") = .obj c fs z) ∧
    TypedCases TVs (obj.attr (f ++ "_data")) cases
  | .chunked body => TypedInstrs TV TVs obj body
  | .brk => True
def TypedInstrs (TV : String → Value → Prop) (TVs : List (String → Value → Prop)) (obj : Value) :
    List TInstr → Prop
  | [] => True
  | i :: rest => TypedInstr TV TVs obj i ∧ TypedInstrs TV TVs obj rest
def TypedCases (TVs : List (String → Value → Prop)) (data : Value) : List TCase → Prop
  | [] => True
  | .mk _ cls body :: rest =>
    (data.cls? = some cls → match TVs with
      | [] => False
      | TV' :: TVs' => TypedInstrs TV' TVs' data body) ∧ TypedCases TVs data rest
end

theorem TypedInstrs_append (TV : String → Value → Prop) (TVs : List (String → Value → Prop)) (obj : Value) :
    ∀ (a b : List TInstr), TypedInstrs TV TVs obj (a ++ b) ↔ TypedInstrs TV TVs obj a ∧ TypedInstrs TV TVs obj b
  | [], b => by simp [TypedInstrs]
  | i :: a, b => by
    rw [List.cons_append, TypedInstrs, TypedInstrs, TypedInstrs_append TV TVs obj a b, and_assoc]

end EoVerif.Gen.Conform
