import EoVerif.Lemmas.ConformSim
/-! The leaf instructions (`<field>`, `<length>`, `<dummy>`) of the C02 simulation. -/
namespace EoVerif.Gen.Conform
open EoVerif EoVerif.Gen EoVerif.Spec EoVerif.Gen.WF

/-- what one instruction (or body) delivers to the simulation -/
def StepOK (call : SerCall) (wcall : String → Value → Bool → W) (TV : String → Value → Prop)
    (TVs : List (String → Value → Prop))
    (lens : String → Option LenInfo) (obj : Value) (base : Bytes) (lex : Bool)
    (env : Env) (scope : List Xml)
    (ctx : Ctx) (d : Data) (ctx' : Ctx) (d' : Data) (is : List TInstr) : Prop :=
  ∃ ops, d'.ser = d.ser ++ ops ∧ d'.className = d.className ∧ d'.aux = d.aux ∧
    CtxOK ctx' lens ∧ CtxEnum env scope ctx' ∧ ctx'.chunked = ctx.chunked ∧
    ∀ st wst, TypedInstrs TV TVs obj is → Dyn base ctx.reachedOptional d.rmoAssigned d.ser.isEmpty st wst →
      Conf (execSerOps call obj ops st) (wireInstrs wcall lens obj lex is wst)
        (fun st' wst' => Dyn base ctx'.reachedOptional d'.rmoAssigned d'.ser.isEmpty st' wst')

theorem wireInstrs_single (call : String → Value → Bool → W) (lens : String → Option LenInfo) (obj : Value) (lex : Bool)
    (i : TInstr) (st : WSt) : wireInstrs call lens obj lex [i] st = wireInstr call lens obj lex i st := by
  rw [wireInstrs_cons]
  cases wireInstr call lens obj lex i st with
  | none => rfl
  | some s => simp [wireInstrs_nil]

/-- `length=` resolution after `generateAll` added the item's own name -/
theorem lenCase_after {ctx : Ctx} {lens : String → Option LenInfo} {p : FP} {t : Ty} {l : String}
    (hok : CtxOK ctx lens)
    (hv : (!PyStr.isdigit l && (ctx.lenRef? l).isNone) = false)
    (hfresh : ∀ n, p.name = some n → (ctx.field? n).isSome = false ∧ PyStr.pyInt? n = none) :
    LenCase (ctxAfter ctx p t) lens l := by
  unfold ctxAfter
  cases hn : p.name with
  | none => exact len_cases hok hv
  | some n =>
    obtain ⟨hf, hpn⟩ := hfresh n hn
    simp only
    rcases len_cases hok hv with ⟨N, hd, hN, hfl⟩ | ⟨hd, hN, k, off, hfl, hli⟩
    · refine Or.inl ⟨N, hd, hN, ?_⟩
      rw [fieldCtx_field? hf]
      have : (n == l) = false := by
        cases h : (n == l) with
        | false => rfl
        | true => have : n = l := by simpa using h
                  subst this; rw [hN] at hpn; cases hpn
      rw [this]; exact hfl
    · refine Or.inr ⟨hd, hN, k, off, ?_, hli⟩
      rw [fieldCtx_field? hf]
      have : (n == l) = false := by
        cases h : (n == l) with
        | false => rfl
        | true => have : n = l := by simpa using h
                  subst this; rw [hfl] at hf; cases hf
      rw [this]; exact hfl

/-- fragment condition on a `<field>` element -/
def fragField (okT : String → Bool) (e : Xml) : Bool :=
  (match e.get "type" with | some ty => okT ty | none => false) &&
  (match e.get "name" with
   | some n => (PyStr.pyInt? n).isNone
   | none => match e.get "length" with
     | none => true
     | some l => PyStr.isdigit l)


theorem writeValueExpr_unnamed {t : Ty} {p : FP} {h : String} {vx : VExpr} (hn : p.name = none)
    (hh : p.hardcoded = some h) (hv : writeValueExpr t p = .ok vx) :
    (∃ k, t = .int k ∧ PyStr.isdigit h = true ∧ vx = .litInt ((PyStr.pyInt? h).getD 0)) ∨
    (∃ k, t = .bool k ∧ ((h = "false" ∧ vx = .litInt 0) ∨ (h = "true" ∧ vx = .litInt 1))) ∨
    (∃ e l, t = .str e l ∧ vx = .litStr h) := by
  unfold writeValueExpr at hv
  rw [hn, hh] at hv
  simp only [Option.getD_some] at hv
  cases t with
  | int k =>
    simp only at hv
    split at hv
    · rename_i hd; cases hv; exact Or.inl ⟨k, rfl, hd, rfl⟩
    · cases hv
  | bool k =>
    simp only at hv
    split at hv
    · rename_i hf
      cases hv
      exact Or.inr (Or.inl ⟨k, rfl, Or.inl ⟨by simpa using hf, rfl⟩⟩)
    · split at hv
      · rename_i hf
        cases hv
        exact Or.inr (Or.inl ⟨k, rfl, Or.inr ⟨by simpa using hf, rfl⟩⟩)
      · cases hv
  | str e l => simp only at hv; cases hv; exact Or.inr (Or.inr ⟨e, l, rfl, rfl⟩)
  | blob => simp only at hv; cases hv
  | enum _ _ _ _ => simp only at hv; cases hv
  | struct _ _ _ _ => simp only at hv; cases hv

theorem writeValueExpr_named {t : Ty} {p : FP} {n : String} {vx : VExpr} (hn : p.name = some n)
    (hv : writeValueExpr t p = .ok vx) : vx = .field n p.arrayField := by
  unfold writeValueExpr at hv
  rw [hn] at hv
  cases hv; rfl

theorem constValue_str (sc : Scalar) (e : Bool) (tl : Option TLen) (pd : Bool) (h : String) (hs : sc = .str e tl pd) :
    constValue (constOf sc h) = .str (h.toList.map Char.toNat) := by subst hs; rfl

theorem wst_stopped_eta (wst : WSt) (h : wst.stopped = true) : ({ wst with stopped := true } : WSt) = wst := by
  cases wst; simp at h; simp [h]

set_option maxHeartbeats 800000 in
theorem field_step {call : SerCall} {wcall : String → Value → Bool → W} {TV : String → Value → Prop}
    {TVs : List (String → Value → Prop)}
    {lens : String → Option LenInfo} {obj : Value} {base : Bytes} {lex : Bool}
    {okT : String → Bool} {tf : TypeEnv} {env : Env} {ss : String → Option Int} {cls : String}
    {scope following : List Xml} {ctx ctx' : Ctx} {d d' : Data} {is : List TInstr}
    {tag : String} {attrs : List (String × String)} {text tail : Option String} {children : List Xml}
    (htf : TfOK okT tf env) (hcall : CallOK call wcall TV) (hok : CtxOK ctx lens) (hen : CtxEnum env scope ctx)
    (htag : (tag == "field") = true)
    (hfr : fragField okT (.mk tag attrs text tail children) = true)
    (hscope : ∀ n ty, (Xml.mk tag attrs text tail children).get "name" = some n →
      (Xml.mk tag attrs text tail children).get "type" = some ty → findFieldType n scope = some ty)
    (hg : genFieldInstr tf ctx d (.mk tag attrs text tail children) = .ok (ctx', d'))
    (he : elabInstr env ss cls scope following (.mk tag attrs text tail children) = some is) :
    StepOK call wcall TV TVs lens obj base lex env scope ctx d ctx' d' is := by
  generalize hE : Xml.mk tag attrs text tail children = e at hg hfr
  -- generator side
  unfold genFieldInstr at hg
  extract_lets optional padded jp at hg
  split at hg
  · cases hg
  rename_i hro
  simp only [jp] at hg
  obtain ⟨ty, hty, hg⟩ := except_bind_ok hg
  obtain ⟨txt, htext, hg⟩ := except_bind_ok hg
  obtain ⟨⟨c1, d1⟩, hall, hg⟩ := except_bind_ok hg
  simp only [pure, Except.pure, Except.ok.injEq, Prod.mk.injEq] at hg
  obtain ⟨rfl, rfl⟩ := hg
  generalize hp : ({ name := e.get "name", typeStr := ty, lenStr := e.get "length", padded := padded, optional := optional, hardcoded := txt } : FP) = p at hall
  have pn : p.name = e.get "name" := by rw [← hp]
  have pt : p.typeStr = ty := by rw [← hp]
  have pl : p.lenStr = e.get "length" := by rw [← hp]
  have ppad : p.padded = padded := by rw [← hp]
  have popt : p.optional = optional := by rw [← hp]
  have phard : p.hardcoded = txt := by rw [← hp]
  have parr : p.arrayField = false := by rw [← hp]
  have plf : p.lengthField = false := by rw [← hp]
  have poff : p.offset = 0 := by rw [← hp]
  have ptl : p.typeLen = e.get "length" := by unfold FP.typeLen; rw [parr, pl]; rfl
  obtain ⟨hval, t, vx, sl, ht, hvx, hsl, hc1, hser, hrmo, hcn, haux⟩ := generateAll_scalar parr hall
  obtain ⟨v1, v2, v3⟩ := validateField_ok hval
  rw [pt, ptl] at ht
  -- fragment facts
  have hgt := getReq_ok hty
  unfold fragField at hfr
  rw [hgt, Bool.and_eq_true] at hfr
  obtain ⟨hokT, hfrn⟩ := hfr
  obtain ⟨sc, hsc, hrel⟩ := htf.resolve ty (e.get "length") t padded hokT ht
  have hwl : ∀ l, p.lenStr = some l → ∃ en, t = .str en (some l) := by
    intro l hl; rw [pl] at hl; rw [hl] at ht; exact htf.withLen ty l t ht
  -- the names
  have hfresh : ∀ n, p.name = some n → (ctx.field? n).isSome = false ∧ PyStr.pyInt? n = none := by
    intro n hn
    refine ⟨v2 n hn, ?_⟩
    rw [pn] at hn; simp only [hn] at hfrn
    cases h : PyStr.pyInt? n with
    | none => rfl
    | some x => rw [h] at hfrn; cases hfrn
  have hlc : ∀ l, p.lenStr = some l → LenCase c1 lens l := by
    intro l hl; rw [hc1]; exact lenCase_after hok (v3 l hl).1 hfresh
  have hflags : c1.reachedOptional = ctx.reachedOptional ∧ c1.chunked = ctx.chunked := by
    rw [hc1]; unfold ctxAfter
    cases p.name with
    | none => exact ⟨rfl, rfl⟩
    | some n => exact ⟨fieldCtx_flags.2.1, fieldCtx_flags.1⟩
  have hok1 : CtxOK c1 lens := by
    rw [hc1]; unfold ctxAfter
    cases hn : p.name with
    | none => exact hok
    | some n =>
      obtain ⟨a, b⟩ := hfresh n hn
      exact ctxOK_fieldCtx hok a b (fun h => by rw [plf] at h; cases h)
  have hun : p.name = none → ∀ l, p.lenStr = some l → PyStr.isdigit l = true := by
    intro hn l hl
    rw [pn] at hn; rw [pl] at hl
    simp only [hn, hl] at hfrn; exact hfrn
  -- declarative side
  rw [← hE] at hgt htext
  rw [elabInstr, if_pos htag] at he
  simp only [hgt, Option.bind_some] at he
  have hpadE : xmlBool (Xml.mk tag attrs text tail children) "padded" = padded := by rw [hE]; rfl
  have hoptE : xmlBool (Xml.mk tag attrs text tail children) "optional" = optional := by rw [hE]; rfl
  rw [hpadE, hE, hsc] at he
  rw [← hE, htext, hE] at he
  simp only at he
  rw [← ppad, ← pl] at hrel
  -- the emitted statements
  refine ⟨_, hser, hcn, haux, ?_, ?_, ?_, ?_⟩
  · split
    · exact ⟨hok1.1, hok1.2⟩
    · exact hok1
  · have hen1 : CtxEnum env scope c1 := by
      rw [hc1]; unfold ctxAfter
      cases hn : p.name with
      | none => exact hen
      | some n =>
        obtain ⟨a, _⟩ := hfresh n hn
        refine ctxEnum_fieldCtx hen a ?_
        intro _ en path k vals htn
        have hnm : (Xml.mk tag attrs text tail children).get "name" = some n := by rw [hE, ← pn, hn]
        cases hlen : e.get "length" with
        | some l =>
          rw [hlen] at ht
          obtain ⟨en', he'⟩ := htf.withLen ty l t ht
          rw [he'] at htn; cases htn
        | none =>
          rw [hlen, htn] at ht
          rw [hscope n ty hnm hgt]
          exact htf.enumMem ty en path k vals hokT ht
    split
    · exact hen1.congr rfl
    · exact hen1
  · split
    · exact hflags.2
    · exact hflags.2
  intro st wst htyped hdyn
  have hro' : (ctx.reachedOptional && !p.optional) = false := by
    rw [popt]; exact Bool.eq_false_iff.mpr hro
  have hfin : ∀ st' wst', Dyn base (ctx.reachedOptional || optional) (d.rmoAssigned || optional) false st' wst' →
      Dyn base (if optional = true then { c1 with reachedOptional := true } else c1).reachedOptional
        d1.rmoAssigned d1.ser.isEmpty st' wst' := by
    intro st' wst' h
    have e1 : (if optional = true then { c1 with reachedOptional := true } else c1).reachedOptional
        = (ctx.reachedOptional || optional) := by
      cases optional with
      | true => simp
      | false => simp [hflags.1]
    have e2 : d1.ser.isEmpty = false := by
      rw [hser]
      unfold fieldOps innerOps tailOps
      cases p.optional <;> simp
    rw [e1, hrmo, e2, popt]; exact h
  rw [hflags.1] at hser
  rw [hflags.1]
  have hpres : ∀ (val : Value) (r : Option Bool), TypedVal TV obj sc val →
      (∃ val', evalV obj st.idx vx = .ok val' ∧ EvRel t val' val) →
      (∀ n, p.name = some n → obj.attr n = val) →
      Conf (execSerOps call obj (tailOps c1 p t vx sl) { st with rmo := r })
        (wireScalar wcall lens wst.san sc val) (fun s b => s = appSt { st with rmo := r } b) := by
    intro val r hv hev hname
    have := present_conf (wcall := wcall) (lens := lens) (ctx := c1) (p := p) (t := t) (sc := sc) (vx := vx)
      (sl := sl) (val := val) { st with rmo := r } hcall hrel hwl hv hev hname hlc hun hsl
    unfold tailOps
    rw [poff]
    rw [← hdyn.san]
    exact this
  cases hname : e.get "name" with
  | none =>
    rw [hname] at he
    have hpn : p.name = none := by rw [pn, hname]
    obtain ⟨hh, ho⟩ := v1 hpn
    cases txt with
    | none => rw [phard] at hh; cases hh
    | some h =>
      simp only [Option.some.injEq] at he
      subst he
      rw [wireInstrs_single, wireInstr]
      -- the value
      have hvx' : ∃ val', evalV obj st.idx vx = .ok val' ∧ EvRel t val' (constValue (constOf sc h)) ∧
          TypedVal TV obj sc (constValue (constOf sc h)) := by
        rcases writeValueExpr_unnamed hpn phard hvx with ⟨k, rfl, hd, rfl⟩ | ⟨k, rfl, hb⟩ | ⟨en, l0, rfl, rfl⟩
        · simp only [TyRel] at hrel; subst hrel
          obtain ⟨N, hN⟩ := isdigit_pyInt h hd
          refine ⟨_, rfl, ?_, ?_⟩
          · simp [EvRel, constOf, constValue]
          · exact ⟨N, by simp [constOf, constValue, hN], by omega⟩
        · simp only [TyRel] at hrel; subst hrel
          rcases hb with ⟨rfl, rfl⟩ | ⟨rfl, rfl⟩
          · exact ⟨_, rfl, by simp [EvRel, constOf, constValue, Value.truthy], ⟨_, rfl⟩⟩
          · exact ⟨_, rfl, by simp [EvRel, constOf, constValue, Value.truthy], ⟨_, rfl⟩⟩
        · simp only [TyRel] at hrel
          refine ⟨_, rfl, ?_, ?_⟩
          · simp only [EvRel]; rw [constValue_str sc _ _ _ h hrel]
          · rw [hrel, constValue_str _ _ _ _ h rfl]
            refine ⟨_, rfl, ?_⟩
            intro f hf
            cases hl : p.lenStr with
            | none => rw [hl] at hf; cases hf
            | some l =>
              have hd := hun hpn l hl
              obtain ⟨N, hN⟩ := isdigit_pyInt l hd
              rw [hl, tlenOf_some, hN] at hf
              cases hf
      obtain ⟨val', hev, hevr, htv⟩ := hvx'
      have := item_conf (call := call) (obj := obj) (ctx := c1) (p := p) (t := t) (vx := vx) (sl := sl)
        (v := constValue (constOf sc h)) (W := wireScalar wcall lens wst.san sc (constValue (constOf sc h)))
        hdyn hro' (fun n hn => by rw [hpn] at hn; cases hn) (fun _ => ⟨ho, htv.ne_none⟩) (fun _ => htv.ne_none)
        (fun _ r => hpres _ r htv ⟨val', hev, hevr⟩ (fun n hn => by rw [hpn] at hn; cases hn))
      unfold specItem at this
      rw [popt] at this ho
      rw [ho, (isNone_false_iff _).2 htv.ne_none] at this
      simp only [Bool.false_eq_true, if_false] at this
      refine this.mono (fun s a h => hfin s a ?_)
      rw [ho]; exact h
  | some n =>
    rw [hname] at he
    have hpn : p.name = some n := by rw [pn, hname]
    obtain ⟨hfr1, hfr2⟩ := hfresh n hpn
    have hev : ∀ v, obj.attr n = v → v ≠ .missing → ∃ val', evalV obj st.idx vx = .ok val' ∧ EvRel t val' v := by
      intro v hv hm
      have : vx = .field n false := by rw [writeValueExpr_named hpn hvx, parr]
      subst this
      refine ⟨v, evalV_field obj st.idx n v hv hm, ?_⟩
      unfold EvRel; cases t <;> rfl
    cases txt with
    | some h =>
      simp only [Option.some.injEq] at he
      subst he
      rw [TypedInstrs, TypedInstr] at htyped
      obtain ⟨⟨hattr, htv⟩, _⟩ := htyped
      rw [wireInstrs_single, wireInstr]
      have := item_conf (call := call) (obj := obj) (ctx := c1) (p := p) (t := t) (vx := vx) (sl := sl)
        (v := constValue (constOf sc h)) (W := wireScalar wcall lens wst.san sc (constValue (constOf sc h)))
        hdyn hro' (fun m hm => by rw [hpn] at hm; cases hm; exact ⟨hattr, htv.ne_missing⟩)
        (fun hn => by rw [hpn] at hn; cases hn) (fun _ => htv.ne_none)
        (fun _ r => hpres _ r htv (hev _ hattr htv.ne_missing) (fun m hm => by rw [hpn] at hm; cases hm; exact hattr))
      unfold specItem at this
      rw [(isNone_false_iff _).2 htv.ne_none, popt] at this
      have hoptE' : xmlBool e "optional" = optional := rfl
      rw [hoptE']
      refine Conf.mono ?_ hfin
      cases hopt : optional with
      | false => rw [hopt] at this; simpa using this
      | true =>
        rw [hopt] at this
        simp only [if_true, Bool.or_false, Bool.true_and] at this ⊢
        cases hs : wst.stopped with
        | false => rw [hs] at this; simpa using this
        | true => rw [hs] at this; simp only [if_true] at this ⊢; rw [wst_stopped_eta wst hs] at this; exact this
    | none =>
      simp only [Option.some.injEq] at he
      subst he
      rw [TypedInstrs, TypedInstr] at htyped
      obtain ⟨htv, _⟩ := htyped
      rw [wireInstrs_single, wireInstr]
      have hm : obj.attr n ≠ .missing := by
        rcases htv with h | h
        · rw [h]; simp
        · exact h.ne_missing
      have := item_conf (call := call) (obj := obj) (ctx := c1) (p := p) (t := t) (vx := vx) (sl := sl)
        (v := obj.attr n) (W := wireScalar wcall lens wst.san sc (obj.attr n))
        hdyn hro' (fun m hm' => by rw [hpn] at hm'; cases hm'; exact ⟨rfl, hm⟩) (fun hn => by rw [hpn] at hn; cases hn)
        (fun hh => by rw [phard] at hh; cases hh)
        (fun hvn r => by
          rcases htv with h | h
          · exact absurd h hvn
          · exact hpres _ r h (hev _ rfl hm) (fun m hm' => by rw [hpn] at hm'; cases hm'; rfl))
      unfold specItem at this
      rw [popt] at this
      have hoptE' : xmlBool e "optional" = optional := rfl
      rw [hoptE']
      refine Conf.mono ?_ hfin
      cases hopt : optional with
      | true => rw [hopt] at this; simpa using this
      | false =>
        rw [hopt] at this
        simp only [Bool.false_eq_true, if_false] at this ⊢
        cases hv : obj.attr n <;> rw [hv] at this <;> simpa [Value.isNone] using this

/-- the length fields an instruction list declares are the ones `lens` knows (case bodies have their own) -/
def LensOK (lens : String → Option LenInfo) : List TInstr → Prop
  | [] => True
  | .length n k off _ _ :: rest => lens n = some ⟨k, off⟩ ∧ LensOK lens rest
  | .chunked b :: rest => LensOK lens b ∧ LensOK lens rest
  | _ :: rest => LensOK lens rest

theorem getInt_ok {e : Xml} {a : String} {n : Int} (h : e.getInt a = .ok n) :
    ((e.get a).bind PyStr.pyInt?).getD 0 = n := by
  unfold Xml.getInt at h
  cases hg : e.get a with
  | none => rw [hg] at h; cases h; rfl
  | some t =>
    rw [hg] at h
    simp only at h
    cases hp : PyStr.pyInt? t with
    | none => rw [hp] at h; cases h
    | some m => rw [hp] at h; cases h; simp [hp]

def fragLength (e : Xml) : Bool :=
  match e.get "name" with
  | some n => (PyStr.pyInt? n).isNone
  | none => false

theorem len?_some_ne_none {v : Value} {n : Nat} (h : v.len? = some n) : v.isNone = false := by
  cases v <;> simp [Value.len?] at h <;> rfl

set_option maxHeartbeats 800000 in
theorem length_step {call : SerCall} {wcall : String → Value → Bool → W} {TV : String → Value → Prop}
    {TVs : List (String → Value → Prop)}
    {lens : String → Option LenInfo} {obj : Value} {base : Bytes} {lex : Bool}
    {okT : String → Bool} {tf : TypeEnv} {env : Env} {ss : String → Option Int} {cls : String}
    {scope following : List Xml} {ctx ctx' : Ctx} {d d' : Data} {is : List TInstr}
    {tag : String} {attrs : List (String × String)} {text tail : Option String} {children : List Xml}
    (htf : TfOK okT tf env) (hok : CtxOK ctx lens) (hen : CtxEnum env scope ctx)
    (htag : (tag == "length") = true) (htag' : (tag == "field") = false)
    (hfr : fragLength (.mk tag attrs text tail children) = true)
    (hg : genLengthInstr tf ctx d (.mk tag attrs text tail children) = .ok (ctx', d'))
    (he : elabInstr env ss cls scope following (.mk tag attrs text tail children) = some is)
    (hlens : LensOK lens is) :
    StepOK call wcall TV TVs lens obj base lex env scope ctx d ctx' d' is := by
  generalize hE : Xml.mk tag attrs text tail children = e at hg hfr
  unfold genLengthInstr at hg
  extract_lets optional jp at hg
  split at hg
  · cases hg
  rename_i hro
  simp only [jp] at hg
  obtain ⟨name, hname, hg⟩ := except_bind_ok hg
  obtain ⟨ty, hty, hg⟩ := except_bind_ok hg
  obtain ⟨off, hoff, hg⟩ := except_bind_ok hg
  obtain ⟨⟨c1, d1⟩, hall, hg⟩ := except_bind_ok hg
  simp only [pure, Except.pure, Except.ok.injEq, Prod.mk.injEq] at hg
  obtain ⟨rfl, rfl⟩ := hg
  generalize hp : ({ name := some name, typeStr := ty, optional := optional, lengthField := true, offset := off } : FP) = p at hall
  have pn : p.name = some name := by rw [← hp]
  have pt : p.typeStr = ty := by rw [← hp]
  have pl : p.lenStr = none := by rw [← hp]
  have ppad : p.padded = false := by rw [← hp]
  have popt : p.optional = optional := by rw [← hp]
  have phard : p.hardcoded = none := by rw [← hp]
  have parr : p.arrayField = false := by rw [← hp]
  have plf : p.lengthField = true := by rw [← hp]
  have poff : p.offset = off := by rw [← hp]
  have ptl : p.typeLen = none := by unfold FP.typeLen; rw [parr, pl]; rfl
  obtain ⟨hval, t, vx, sl, ht, hvx, hsl, hc1, hser, hrmo, hcn, haux⟩ := generateAll_scalar parr hall
  obtain ⟨v1, v2, v3⟩ := validateField_ok hval
  rw [pt, ptl] at ht
  have hgn := getReq_ok hname
  have hgt := getReq_ok hty
  have hgo := getInt_ok hoff
  unfold fragLength at hfr
  simp only [hgn] at hfr
  have hpn : PyStr.pyInt? name = none := by
    cases h : PyStr.pyInt? name with
    | none => rfl
    | some x => rw [h] at hfr; cases hfr
  have hfresh := v2 name pn
  -- declarative side
  rw [← hE] at hgn hgt hgo
  rw [elabInstr, if_neg (by rw [htag']; simp), if_pos htag] at he
  simp only [hgn, hgt, Option.bind_some] at he
  cases hk : IntKind.ofName? ty with
  | none => rw [hk] at he; cases he
  | some k =>
  rw [hk] at he
  simp only [Option.some.injEq] at he
  rw [hgo] at he
  subst he
  have htk : t = .int k := htf.intName ty k t hk ht
  subst htk
  obtain ⟨hlk, _⟩ : lens name = some ⟨k, off⟩ ∧ True := by
    simpa [LensOK] using hlens
  have hsl' : sl = none := by unfold lenExpr at hsl; rw [pl] at hsl; cases hsl; rfl
  subst hsl'
  have hvxe : vx = .field name false := by rw [writeValueExpr_named pn hvx, parr]
  subst hvxe
  have hc1' : c1 = fieldCtx ctx p name (.int k) := by rw [hc1]; unfold ctxAfter; rw [pn]
  have hflags : c1.reachedOptional = ctx.reachedOptional ∧ c1.chunked = ctx.chunked := by
    rw [hc1']; exact ⟨fieldCtx_flags.2.1, fieldCtx_flags.1⟩
  have hok1 : CtxOK c1 lens := by
    rw [hc1']
    exact ctxOK_fieldCtx hok hfresh hpn (fun _ => ⟨k, rfl, parr, by rw [poff]; exact hlk⟩)
  refine ⟨_, hser, hcn, haux, ?_, ?_, ?_, ?_⟩
  · split
    · exact ⟨hok1.1, hok1.2⟩
    · exact hok1
  · have hen1 : CtxEnum env scope c1 := by
      rw [hc1']
      exact ctxEnum_fieldCtx hen hfresh (fun _ _ _ _ _ h => by cases h)
    split
    · exact hen1.congr rfl
    · exact hen1
  · split
    · exact hflags.2
    · exact hflags.2
  intro st wst htyped hdyn
  have hro' : (ctx.reachedOptional && !p.optional) = false := by
    rw [popt]; exact Bool.eq_false_iff.mpr hro
  have hfin : ∀ st' wst', Dyn base (ctx.reachedOptional || optional) (d.rmoAssigned || optional) false st' wst' →
      Dyn base (if optional = true then { c1 with reachedOptional := true } else c1).reachedOptional
        d1.rmoAssigned d1.ser.isEmpty st' wst' := by
    intro st' wst' h
    have e1 : (if optional = true then { c1 with reachedOptional := true } else c1).reachedOptional
        = (ctx.reachedOptional || optional) := by
      cases optional with
      | true => simp
      | false => simp [hflags.1]
    have e2 : d1.ser.isEmpty = false := by
      rw [hser]
      unfold fieldOps innerOps tailOps
      cases p.optional <;> simp
    rw [e1, hrmo, e2, popt]; exact h
  rw [hflags.1] at hser
  rw [hflags.1]
  rw [TypedInstrs, TypedInstr] at htyped
  obtain ⟨htv, _⟩ := htyped
  rw [wireInstrs_single, wireInstr]
  have hoptE' : xmlBool (Xml.mk tag attrs text tail children) "optional" = optional := by rw [hE]; rfl
  rw [hoptE']
  have hm : obj.attr name ≠ .missing := by
    rcases htv with ⟨h, _⟩ | ⟨n, h, _⟩ <;> rw [h] <;> simp
  have htail : tailOps c1 p (.int k) (.field name false) none
      = [.write (.int k) (.field name false) .none off] := by
    unfold tailOps lenChkOf
    rw [pn, pl, poff]; rfl
  -- the present case
  have hpres : ∀ (n : Nat) (r : Option Bool), obj.attr name = .int n → (n : Int) - off ≠ -1 →
      Conf (execSerOps call obj (tailOps c1 p (.int k) (.field name false) none) { st with rmo := r })
        (encInt k ((n : Int) - off)) (fun s b => s = appSt { st with rmo := r } b) := by
    intro n r hn hne
    rw [htail, execSerOps_single,
      exec_write call obj { st with rmo := r } _ _ _ off _ _ (evalV_field obj st.idx name _ hn (by simp)) rfl,
      doWrite_int]
    exact wstep_conf (int_write_conf _ k _ hne)
  rcases htv with ⟨hv, hrv⟩ | ⟨n, hv, hrv, hne⟩
  · have := item_conf (call := call) (obj := obj) (ctx := c1) (p := p) (t := .int k) (vx := .field name false)
      (sl := none) (v := obj.attr name) (W := none) hdyn hro'
      (fun m hm' => by rw [pn] at hm'; cases hm'; exact ⟨rfl, hm⟩) (fun hn => by rw [pn] at hn; cases hn)
      (fun hh => by rw [phard] at hh; cases hh) (fun hvn r => absurd hv hvn)
    unfold specItem at this
    rw [popt, hv] at this
    rw [hrv]
    refine Conf.mono ?_ hfin
    cases hopt : optional with
    | true => rw [hopt] at this; simpa [Value.isNone] using this
    | false => rw [hopt] at this; simpa [Value.isNone, Value.len?] using this
  · have hvn : obj.attr name ≠ .none := by rw [hv]; simp
    have := item_conf (call := call) (obj := obj) (ctx := c1) (p := p) (t := .int k) (vx := .field name false)
      (sl := none) (v := obj.attr name) (W := encInt k ((n : Int) - off)) hdyn hro'
      (fun m hm' => by rw [pn] at hm'; cases hm'; exact ⟨rfl, hm⟩) (fun hn => by rw [pn] at hn; cases hn)
      (fun hh => by rw [phard] at hh; cases hh) (fun _ r => hpres n r hv hne)
    unfold specItem at this
    rw [popt, (isNone_false_iff _).2 hvn] at this
    rw [len?_some_ne_none hrv, hrv]
    refine Conf.mono ?_ hfin
    cases hopt : optional with
    | true => rw [hopt] at this; simpa using this
    | false => rw [hopt] at this; simpa using this


def fragDummy (okT : String → Bool) (e : Xml) : Bool :=
  match e.get "type" with | some ty => okT ty | none => false

theorem append_length_eq {base out : Bytes} : (base ++ out).length = base.length ↔ out = [] := by
  rw [List.length_append]
  constructor
  · intro h
    have : out.length = 0 := by omega
    exact List.eq_nil_of_length_eq_zero this
  · intro h; subst h; simp

set_option maxHeartbeats 800000 in
theorem dummy_step {call : SerCall} {wcall : String → Value → Bool → W} {TV : String → Value → Prop}
    {TVs : List (String → Value → Prop)}
    {lens : String → Option LenInfo} {obj : Value} {base : Bytes} {lex : Bool}
    {okT : String → Bool} {tf : TypeEnv} {env : Env} {ss : String → Option Int} {cls : String}
    {scope following : List Xml} {ctx ctx' : Ctx} {d d' : Data} {is : List TInstr}
    {tag : String} {attrs : List (String × String)} {text tail : Option String} {children : List Xml}
    (htf : TfOK okT tf env) (hcall : CallOK call wcall TV) (hok : CtxOK ctx lens) (hen : CtxEnum env scope ctx)
    (htag : (tag == "dummy") = true) (htag1 : (tag == "field") = false) (htag2 : (tag == "length") = false)
    (htag3 : (tag == "array") = false)
    (hfr : fragDummy okT (.mk tag attrs text tail children) = true)
    (hg : genDummyInstr tf ctx d (.mk tag attrs text tail children) = .ok (ctx', d'))
    (he : elabInstr env ss cls scope following (.mk tag attrs text tail children) = some is) :
    StepOK call wcall TV TVs lens obj base lex env scope ctx d ctx' d' is := by
  generalize hE : Xml.mk tag attrs text tail children = e at hg hfr
  unfold genDummyInstr at hg
  obtain ⟨ty, hty, hg⟩ := except_bind_ok hg
  obtain ⟨txt, htext, hg⟩ := except_bind_ok hg
  extract_lets p0 ng d0 at hg
  obtain ⟨u, hval, hg⟩ := except_bind_ok hg
  obtain ⟨d1, hs, hg⟩ := except_bind_ok hg
  obtain ⟨d2, hds, hg⟩ := except_bind_ok hg
  simp only [pure, Except.pure, Except.ok.injEq, Prod.mk.injEq] at hg
  obtain ⟨rfl, rfl⟩ := hg
  generalize hp : p0 = p at hval hs hds
  have pn : p.name = none := by rw [← hp]
  have pt : p.typeStr = ty := by rw [← hp]
  have pl : p.lenStr = none := by rw [← hp]
  have ppad : p.padded = false := by rw [← hp]
  have popt : p.optional = false := by rw [← hp]
  have phard : p.hardcoded = txt := by rw [← hp]
  have parr : p.arrayField = false := by rw [← hp]
  have poff : p.offset = 0 := by rw [← hp]
  have ptl : p.typeLen = none := by unfold FP.typeLen; rw [parr, pl]; rfl
  obtain ⟨t, vx, sl, ht, hvx, hsl, hser, hrmo, hcn, haux⟩ := generateSerialize_scalar parr hs
  obtain ⟨ds1, ds2, ds3, ds4⟩ := generateDeserialize_same hds
  obtain ⟨v1, v2, v3⟩ := validateField_ok hval
  rw [pt, ptl] at ht
  have hgt := getReq_ok hty
  unfold fragDummy at hfr
  simp only [hgt] at hfr
  obtain ⟨sc, hsc, hrel⟩ := htf.resolve ty none t false hfr ht
  have hh := (v1 pn).1
  cases txt with
  | none => rw [phard] at hh; cases hh
  | some h =>
  -- declarative side
  rw [← hE] at hgt htext
  rw [elabInstr, if_neg (by rw [htag1]; simp), if_neg (by rw [htag2]; simp), if_neg (by rw [htag3]; simp),
    if_pos htag] at he
  simp only [hgt, Option.bind_some] at he
  have hsc' : scalarOf env ty none false = some sc := hsc
  rw [hsc', htext] at he
  simp only [Option.some.injEq] at he
  subst he
  have hsl' : sl = none := by unfold lenExpr at hsl; rw [pl] at hsl; cases hsl; rfl
  subst hsl'
  -- the emitted statement
  have hops : fieldOps ctx (ctx.reachedOptional && d0.rmoAssigned) p t vx none
      = [.write (ioKind t none false) vx (coerceOf t) 0] := by
    unfold fieldOps innerOps noneChkOf tailOps lenChkOf
    rw [popt, pn, pl, ppad, poff]; rfl
  have hd0 : d0.ser = [] := rfl
  rw [hops, hd0, List.nil_append] at hser
  have hrmo' : d2.rmoAssigned = d.rmoAssigned := by rw [ds2, hrmo, popt]; exact Bool.or_false _
  refine ⟨if ng then [.dummyGuard d2.ser] else d2.ser, rfl, ds3.trans hcn, ds4.trans haux, hok, hen.congr rfl, rfl, ?_⟩
  intro st wst _ hdyn
  rw [wireInstrs_single, wireInstr]
  have hemp : (d.ser ++ if ng = true then [SerOp.dummyGuard d2.ser] else d2.ser).isEmpty = false := by
    rw [ds1, hser]; cases ng <;> simp
  show Conf _ _ (fun st' wst' => Dyn base ctx.reachedOptional d2.rmoAssigned
    (d.ser ++ if ng = true then [SerOp.dummyGuard d2.ser] else d2.ser).isEmpty st' wst')
  rw [hemp, hrmo', ds1, hser]
  -- the write of the constant
  have hvx' : ∃ val', evalV obj st.idx vx = .ok val' ∧ EvRel t val' (constValue (constOf sc h)) ∧
      TypedVal TV obj sc (constValue (constOf sc h)) := by
    rcases writeValueExpr_unnamed pn phard hvx with ⟨k, rfl, hd, rfl⟩ | ⟨k, rfl, hb⟩ | ⟨en, l0, rfl, rfl⟩
    · simp only [TyRel] at hrel; subst hrel
      obtain ⟨N, hN⟩ := isdigit_pyInt h hd
      refine ⟨_, rfl, ?_, ?_⟩
      · simp [EvRel, constOf, constValue]
      · exact ⟨N, by simp [constOf, constValue, hN], by omega⟩
    · simp only [TyRel] at hrel; subst hrel
      rcases hb with ⟨rfl, rfl⟩ | ⟨rfl, rfl⟩
      · exact ⟨_, rfl, by simp [EvRel, constOf, constValue, Value.truthy], ⟨_, rfl⟩⟩
      · exact ⟨_, rfl, by simp [EvRel, constOf, constValue, Value.truthy], ⟨_, rfl⟩⟩
    · simp only [TyRel] at hrel
      refine ⟨_, rfl, ?_, ?_⟩
      · simp only [EvRel]; rw [constValue_str sc _ _ _ h hrel]
      · rw [hrel, constValue_str _ _ _ _ h rfl]
        refine ⟨_, rfl, ?_⟩
        intro f hf
        simp [tlenOf] at hf
  obtain ⟨val', hev, hevr, htv⟩ := hvx'
  have hwrite : Conf (execSerOps call obj [.write (ioKind t none false) vx (coerceOf t) 0] st)
      (Option.map (fun b => { wst with out := wst.out ++ b })
        (wireScalar wcall lens wst.san sc (constValue (constOf sc h))))
      (fun st' wst' => Dyn base ctx.reachedOptional d.rmoAssigned false st' wst') := by
    have hrel' : TyRel t p.lenStr p.padded sc := by rw [pl, ppad]; exact hrel
    have := present_conf (wcall := wcall) (lens := lens) (ctx := ctx) (p := p) (t := t) (sc := sc) (vx := vx)
      (sl := none) (val := constValue (constOf sc h)) st hcall hrel'
      (fun l hl => by rw [pl] at hl; cases hl) htv ⟨val', hev, hevr⟩ (fun n hn => by rw [pn] at hn; cases hn)
      (fun l hl => by rw [pl] at hl; cases hl) (fun _ l hl => by rw [pl] at hl; cases hl)
      (by unfold lenExpr; rw [pl])
    have hlc : lenChkOf ctx p = [] := by unfold lenChkOf; rw [pn]
    rw [hlc, List.nil_append, ppad, hdyn.san] at this
    refine this.map _ ?_
    intro s b hs
    subst hs
    have := hdyn.app (ro' := ctx.reachedOptional) (ra' := d.rmoAssigned) b st.rmo hdyn.rmo hdyn.stopped hdyn.raro
    exact this
  cases hng : ng with
  | false =>
    simp only [Bool.false_eq_true, if_false]
    have hdser : d.ser.isEmpty = true := by
      have : (!d.ser.isEmpty || !d.de.isEmpty) = false := hng
      simp only [Bool.or_eq_false_iff, Bool.not_eq_false'] at this
      exact this.1
    have hout := hdyn.emp hdser
    rw [hout]
    simp only [List.isEmpty_nil, if_true]
    rw [hout] at hwrite
    exact hwrite
  | true =>
    simp only [if_true]
    rw [execSerOps_single, execSerOp]
    by_cases hemp' : wst.out = []
    · have : st.w.data.length = st.oldLen := by rw [hdyn.data, hdyn.oldLen, hemp']; simp
      rw [if_pos this, hemp']
      simp only [List.isEmpty_nil, if_true]
      rw [hemp'] at hwrite
      exact hwrite
    · have : ¬ st.w.data.length = st.oldLen := by
        rw [hdyn.data, hdyn.oldLen, append_length_eq]; exact hemp'
      rw [if_neg this]
      have : wst.out.isEmpty = false := by
        cases h : wst.out with
        | nil => exact absurd h hemp'
        | cons _ _ => rfl
      rw [this]
      simp only [Bool.false_eq_true, if_false, Conf_ok_some]
      exact ⟨hdyn.data, hdyn.san, hdyn.oldLen, hdyn.rmo, hdyn.stopped, (fun h => by cases h), hdyn.raro⟩

end EoVerif.Gen.Conform
