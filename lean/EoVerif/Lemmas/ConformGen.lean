import EoVerif.Lemmas.ConformBase
/-! Generator-side facts for C02: which serializer statements the leaf functions emit, and how they
    update the generation context. -/
namespace EoVerif.Gen.Conform
open EoVerif EoVerif.Gen EoVerif.Spec EoVerif.Gen.WF

/-- the parts of the generation data the serializer simulation looks at are unchanged -/
def SameSer (d d' : Data) : Prop :=
  d'.ser = d.ser ∧ d'.rmoAssigned = d.rmoAssigned ∧ d'.className = d.className ∧ d'.aux = d.aux

theorem SameSer.refl (d : Data) : SameSer d d := ⟨rfl, rfl, rfl, rfl⟩
theorem SameSer.trans {a b c : Data} (h1 : SameSer a b) (h2 : SameSer b c) : SameSer a c :=
  ⟨h2.1.trans h1.1, h2.2.1.trans h1.2.1, h2.2.2.1.trans h1.2.2.1, h2.2.2.2.trans h1.2.2.2⟩

def noneChkOf (p : FP) : List SerOp :=
  if p.optional || p.name.isNone || p.hardcoded.isSome then [] else [.noneCheck (p.name.getD "")]

def lenChkOf (ctx : Ctx) (p : FP) : List SerOp :=
  match p.name, p.lenStr with
  | some n, some l =>
    (match ctx.field? l with
     | some fd =>
       let mx := match fd.ty with | .int k => k.maxValue | _ => 0
       [.lenCheck n true (mx + fd.offset)]
     | none => [.lenCheck n p.padded ((PyStr.pyInt? l).getD 0)])
  | _, _ => []

def tailOps (ctx : Ctx) (p : FP) (t : Ty) (v : VExpr) (scalarLen : Option LenE) : List SerOp :=
  lenChkOf ctx p ++ [.write (ioKind t scalarLen p.padded) v (coerceOf t) p.offset]

def innerOps (ctx : Ctx) (p : FP) (t : Ty) (v : VExpr) (scalarLen : Option LenE) : List SerOp :=
  noneChkOf p ++ tailOps ctx p t v scalarLen

/-- the serializer statements `generateSerialize` emits for a non-array item -/
def fieldOps (ctx : Ctx) (acc : Bool) (p : FP) (t : Ty) (v : VExpr) (scalarLen : Option LenE) : List SerOp :=
  if p.optional then [.optGuard acc (p.name.getD "") (innerOps ctx p t v scalarLen)] else innerOps ctx p t v scalarLen

/-- the shape shared by scalar items and arrays: `tail` = length checks and the write / the loop -/
def itemOps (acc : Bool) (p : FP) (tail : List SerOp) : List SerOp :=
  if p.optional then [.optGuard acc (p.name.getD "") (noneChkOf p ++ tail)] else noneChkOf p ++ tail

theorem fieldOps_eq (ctx : Ctx) (acc : Bool) (p : FP) (t : Ty) (v : VExpr) (sl : Option LenE) :
    fieldOps ctx acc p t v sl = itemOps acc p (tailOps ctx p t v sl) := rfl

def countOf (name : String) : Option LenE → CountE
  | some (.lit n) => .lit n
  | some (.field f) => .lenField f
  | none => .lenOf name

/-- the body of the loop `generateSerialize` emits for an array -/
def loopBody (delimited trailing : Bool) (t : Ty) (name : String) : List SerOp :=
  (if delimited && !trailing then [.ifIdxPos [.addBreak]] else [])
    ++ [.write (ioKind t none false) (.field name true) (coerceOf t) 0]
    ++ (if delimited && trailing then [.addBreak] else [])

/-- the loop `generateSerialize` emits for an array -/
def arrayLoop (p : FP) (t : Ty) (arrLen : Option LenE) : SerOp :=
  .forRange (countOf (p.name.getD "") arrLen) (loopBody p.delimited p.trailing t (p.name.getD ""))

theorem generateSerialize_array {tf : TypeEnv} {ctx : Ctx} {d d' : Data} {p : FP} {n : String}
    (ha : p.arrayField = true) (hn : p.name = some n) (hpad : p.padded = false) (hoff : p.offset = 0)
    (h : generateSerialize tf ctx d p = .ok d') :
    ∃ t al, tf p.typeStr p.typeLen = .ok t ∧ lenExpr ctx p = .ok al ∧
      d'.ser = d.ser ++ itemOps (ctx.reachedOptional && d.rmoAssigned) p (lenChkOf ctx p ++ [arrayLoop p t al]) ∧
      d'.rmoAssigned = (d.rmoAssigned || p.optional) ∧ d'.className = d.className ∧ d'.aux = d.aux := by
  unfold generateSerialize at h
  simp only [ha, if_true, bind_ok_iff, pure_ok_iff] at h
  obtain ⟨al, hal, t, ht, v, hv, sl, hsl, rfl⟩ := h
  cases hsl
  refine ⟨t, al, ht, hal, ?_, rfl, rfl, rfl⟩
  have hv' : v = .field n true := by
    unfold writeValueExpr at hv; rw [hn] at hv; cases hv; rw [ha]
  subst hv'
  show _ = d.ser ++ itemOps (ctx.reachedOptional && d.rmoAssigned) p (lenChkOf ctx p ++ [arrayLoop p t al])
  simp only [itemOps, noneChkOf, lenChkOf, arrayLoop, loopBody, hn, Option.getD_some, List.append_assoc, hpad, hoff]
  rfl

theorem generateSerialize_scalar {tf : TypeEnv} {ctx : Ctx} {d d' : Data} {p : FP}
    (ha : p.arrayField = false) (h : generateSerialize tf ctx d p = .ok d') :
    ∃ t v sl, tf p.typeStr p.typeLen = .ok t ∧ writeValueExpr t p = .ok v ∧ lenExpr ctx p = .ok sl ∧
      d'.ser = d.ser ++ fieldOps ctx (ctx.reachedOptional && d.rmoAssigned) p t v sl ∧
      d'.rmoAssigned = (d.rmoAssigned || p.optional) ∧ d'.className = d.className ∧ d'.aux = d.aux := by
  unfold generateSerialize at h
  simp only [ha, Bool.false_eq_true, if_false, bind_ok_iff, pure_ok_iff] at h
  obtain ⟨_, _, t, ht, v, hv, sl, hsl, rfl⟩ := h
  refine ⟨t, v, sl, ht, hv, hsl, ?_, rfl, rfl, rfl⟩
  show _ = d.ser ++ fieldOps ctx (ctx.reachedOptional && d.rmoAssigned) p t v sl
  simp only [fieldOps, innerOps, tailOps, noneChkOf, lenChkOf, List.append_assoc]
  rfl

theorem generateDeserialize_same {tf : TypeEnv} {ctx : Ctx} {d d' : Data} {p : FP}
    (h : generateDeserialize tf ctx d p = .ok d') : SameSer d d' := by
  unfold generateDeserialize at h
  cases hA : p.arrayField <;>
    simp only [hA, Bool.false_eq_true, if_false, if_true, bind_ok_iff, pure_ok_iff] at h
  all_goals
    obtain ⟨_, _, _, _, _, _, rfl⟩ := h
    exact ⟨rfl, rfl, rfl, rfl⟩

theorem generateField_same {tf : TypeEnv} {ctx ctx' : Ctx} {d d' : Data} {p : FP}
    (h : generateField tf ctx d p = .ok (ctx', d')) :
    SameSer d d' ∧ (p.name = none → ctx' = ctx) ∧
      (∀ n, p.name = some n → ∃ t, tf p.typeStr p.typeLen = .ok t ∧ ctx' = fieldCtx ctx p n t) := by
  unfold generateField at h
  split at h
  · rename_i hn
    simp only [pure_ok_iff, Prod.mk.injEq] at h
    obtain ⟨rfl, rfl⟩ := h
    exact ⟨SameSer.refl _, fun _ => rfl, fun n h' => by rw [hn] at h'; cases h'⟩
  · rename_i name hn
    simp only [bind_ok_iff] at h
    obtain ⟨t, ht, h⟩ := h
    have key : SameSer d d' ∧ ctx' = fieldCtx ctx p name t := by
      simp only [fieldCtx]
      split at h
      next hlf =>
        simp only [pure_ok_iff, Prod.mk.injEq] at h
        obtain ⟨rfl, rfl⟩ := h
        refine ⟨⟨rfl, rfl, rfl, rfl⟩, ?_⟩
        rw [if_pos hlf]
      next hlf =>
        split at h
        next l hl =>
          split at h
          next hs =>
            split at h
            · simp only [pure_ok_iff, Prod.mk.injEq] at h
              obtain ⟨rfl, rfl⟩ := h
              refine ⟨⟨rfl, rfl, rfl, rfl⟩, ?_⟩
              rw [if_neg hlf]; simp only [hl]; rw [if_pos hs]
            · simp only [throw_ne_ok] at h
          next hs =>
            simp only [pure_ok_iff, Prod.mk.injEq] at h
            obtain ⟨rfl, rfl⟩ := h
            refine ⟨⟨rfl, rfl, rfl, rfl⟩, ?_⟩
            rw [if_neg hlf]; simp only [hl]; rw [if_neg hs]
        next hl =>
          simp only [pure_ok_iff, Prod.mk.injEq] at h
          obtain ⟨rfl, rfl⟩ := h
          refine ⟨⟨rfl, rfl, rfl, rfl⟩, ?_⟩
          rw [if_neg hlf]; simp only [hl]
    refine ⟨key.1, fun (h' : p.name = none) => (by rw [hn] at h'; cases h'), fun n h' => ?_⟩
    rw [hn] at h'; cases h'
    exact ⟨t, ht, key.2⟩

/-- the context `generateAll` leaves behind -/
def ctxAfter (ctx : Ctx) (p : FP) (t : Ty) : Ctx :=
  match p.name with
  | none => ctx
  | some n => fieldCtx ctx p n t

theorem generateAll_scalar {tf : TypeEnv} {ctx ctx' : Ctx} {d d' : Data} {p : FP}
    (ha : p.arrayField = false) (h : generateAll tf ctx d p = .ok (ctx', d')) :
    validateField tf ctx p = .ok () ∧
    ∃ t v sl, tf p.typeStr p.typeLen = .ok t ∧ writeValueExpr t p = .ok v ∧ lenExpr ctx' p = .ok sl ∧
      ctx' = ctxAfter ctx p t ∧
      d'.ser = d.ser ++ fieldOps ctx' (ctx'.reachedOptional && d.rmoAssigned) p t v sl ∧
      d'.rmoAssigned = (d.rmoAssigned || p.optional) ∧ d'.className = d.className ∧ d'.aux = d.aux := by
  unfold generateAll at h
  simp only [bind_ok_iff, pure_ok_iff] at h
  obtain ⟨_, hv, ⟨c1, d1⟩, h1, d2, h2, d3, h3, h4⟩ := h
  simp only [Prod.mk.injEq] at h4
  obtain ⟨rfl, rfl⟩ := h4
  obtain ⟨s1, g1, g2⟩ := generateField_same h1
  obtain ⟨t, v, sl, ht, hv', hsl, hser, hrmo, hcn, haux⟩ := generateSerialize_scalar ha h2
  obtain ⟨s3a, s3b, s3c, s3d⟩ := generateDeserialize_same h3
  refine ⟨hv, t, v, sl, ht, hv', hsl, ?_, ?_, ?_, ?_, ?_⟩
  · unfold ctxAfter
    cases hn : p.name with
    | none => exact g1 hn
    | some n =>
      obtain ⟨t', ht', hc⟩ := g2 n hn
      rw [ht] at ht'; cases ht'; exact hc
  · rw [s3a, hser, s1.1, s1.2.1]
  · rw [s3b, hrmo, s1.2.1]
  · rw [s3c, hcn, s1.2.2.1]
  · rw [s3d, haux, s1.2.2.2]

theorem generateAll_array {tf : TypeEnv} {ctx ctx' : Ctx} {d d' : Data} {p : FP} {n : String}
    (ha : p.arrayField = true) (hn : p.name = some n) (hpad : p.padded = false) (hoff : p.offset = 0)
    (h : generateAll tf ctx d p = .ok (ctx', d')) :
    validateField tf ctx p = .ok () ∧
    ∃ t al, tf p.typeStr p.typeLen = .ok t ∧ lenExpr ctx' p = .ok al ∧
      ctx' = ctxAfter ctx p t ∧
      d'.ser = d.ser ++ itemOps (ctx'.reachedOptional && d.rmoAssigned) p (lenChkOf ctx' p ++ [arrayLoop p t al]) ∧
      d'.rmoAssigned = (d.rmoAssigned || p.optional) ∧ d'.className = d.className ∧ d'.aux = d.aux := by
  unfold generateAll at h
  simp only [bind_ok_iff, pure_ok_iff] at h
  obtain ⟨_, hv, ⟨c1, d1⟩, h1, d2, h2, d3, h3, h4⟩ := h
  simp only [Prod.mk.injEq] at h4
  obtain ⟨rfl, rfl⟩ := h4
  obtain ⟨s1, g1, g2⟩ := generateField_same h1
  obtain ⟨t, al, ht, hal, hser, hrmo, hcn, haux⟩ := generateSerialize_array ha hn hpad hoff h2
  obtain ⟨s3a, s3b, s3c, s3d⟩ := generateDeserialize_same h3
  refine ⟨hv, t, al, ht, hal, ?_, ?_, ?_, ?_, ?_⟩
  · unfold ctxAfter
    rw [hn]
    obtain ⟨t', ht', hc⟩ := g2 n hn
    rw [ht] at ht'; cases ht'; exact hc
  · rw [s3a, hser, s1.1, s1.2.1]
  · rw [s3b, hrmo, s1.2.1]
  · rw [s3c, hcn, s1.2.2.1]
  · rw [s3d, haux, s1.2.2.2]

end EoVerif.Gen.Conform
