import EoVerif.Spec.RW
import EoVerif.Props.C07
import EoVerif.Props.C08
/-! Helper lemmas for C04 and C06. -/
namespace EoVerif.RW

/-! ### windows-1252 image -/

theorem lookupCp_mem (c : Nat) (tbl : List (Nat × Nat)) (x : Nat) (h : Ansi.lookupCp c tbl = some x) :
    x ∈ tbl.map Prod.fst := by
  induction tbl with
  | nil => simp [Ansi.lookupCp] at h
  | cons p rest ih =>
    obtain ⟨k, d⟩ := p
    simp only [Ansi.lookupCp] at h
    split at h
    · simp_all
    · simp [ih h]

theorem lookupByte_lookupCp (c : Nat) (tbl : List (Nat × Nat)) (hnd : (tbl.map Prod.fst).Nodup)
    (x : Nat) (h : Ansi.lookupCp c tbl = some x) : Ansi.lookupByte x tbl = c := by
  induction tbl with
  | nil => simp [Ansi.lookupCp] at h
  | cons p rest ih =>
    obtain ⟨k, d⟩ := p
    simp only [List.map_cons, List.nodup_cons] at hnd
    simp only [Ansi.lookupCp] at h
    split at h
    · next hc =>
      simp only [Option.some.injEq] at h
      simp [Ansi.lookupByte, h, hc.1]
    · have hx := lookupCp_mem c rest x h
      have hk : k ≠ x := fun e => hnd.1 (e ▸ hx)
      simp [Ansi.lookupByte, hk, ih hnd.2 h]

theorem high_nodup : (Ansi.high.map Prod.fst).Nodup := by decide

theorem high_range : ∀ x ∈ Ansi.high.map Prod.fst, 0x80 ≤ x ∧ x < 0xA0 := by decide

theorem decodeByte_encodeCp (c : Nat) :
    Ansi.decodeByte (Ansi.encodeCp c) = if (Ansi.encodeCp? c).isSome then c else 0x3F := by
  unfold Ansi.encodeCp Ansi.encodeCp?
  by_cases h1 : c < 0x80
  · simp [h1, Ansi.decodeByte]
  · by_cases h2 : 0xA0 ≤ c ∧ c < 0x100
    · simp only [h1, h2, if_true, if_false, and_self, Option.getD_some, Option.isSome_some,
        Ansi.decodeByte]
    · simp only [h1, h2, if_false]
      cases hl : Ansi.lookupCp c Ansi.high with
      | none => simp [Ansi.decodeByte]
      | some x =>
        have hr := high_range x (lookupCp_mem c _ x hl)
        have hb := lookupByte_lookupCp c _ high_nodup x hl
        have h3 : ¬ x < 0x80 := by omega
        have h4 : ¬ (0xA0 ≤ x ∧ x < 0x100) := by omega
        simp only [Option.getD_some, Option.isSome_some, if_true, Ansi.decodeByte, h3, h4,
          if_false, hb]

theorem image_eq (s : Ansi.Str) :
    image s = s.map (fun c => if (Ansi.encodeCp? c).isSome then c else 0x3F) := by
  unfold image Ansi.decode Ansi.encode
  rw [List.map_map]
  apply List.map_congr_left
  intro c _
  exact decodeByte_encodeCp c

theorem encode_length (s : Ansi.Str) : (Ansi.encode s).length = s.length := by
  simp [Ansi.encode]

/-! ### frame lemmas for the non-chunked reader -/

theorem remaining_frame (r : Reader) (pre rest : Bytes) (hc : r.chunked = false)
    (hd : r.data = pre ++ rest) (hp : r.pos = pre.length) : r.remaining = (rest.length : Int) := by
  unfold Reader.remaining
  simp only [hc, hd, hp, List.length_append]
  simp
  omega

theorem readBytes_frame (r : Reader) (pre bs post : Bytes) (hc : r.chunked = false)
    (hd : r.data = pre ++ bs ++ post) (hp : r.pos = pre.length) :
    r.readBytes bs.length = ({ r with pos := pre.length + bs.length }, bs) := by
  have hrem : r.remaining = ((bs ++ post).length : Int) :=
    remaining_frame r pre (bs ++ post) hc (by simp [hd]) hp
  unfold Reader.readBytes
  have hn : (min (bs.length : Int) r.remaining).toNat = bs.length := by
    rw [hrem, List.length_append]; omega
  simp only [hn, hd, hp, List.append_assoc, List.drop_left, List.take_left]

theorem readBytes_frame' (r : Reader) (pre bs post : Bytes) (n : Nat) (hn : n = bs.length)
    (hc : r.chunked = false) (hd : r.data = pre ++ bs ++ post) (hp : r.pos = pre.length) :
    r.readBytes n = ({ r with pos := pre.length + bs.length }, bs) := by
  subst hn; exact readBytes_frame r pre bs post hc hd hp

theorem readByte_frame (r : Reader) (pre post : Bytes) (v : Nat) (hc : r.chunked = false)
    (hd : r.data = pre ++ [v] ++ post) (hp : r.pos = pre.length) :
    r.readByte = ({ r with pos := pre.length + 1 }, v) := by
  have hrem : r.remaining = (([v] ++ post).length : Int) :=
    remaining_frame r pre ([v] ++ post) hc (by simp [hd]) hp
  unfold Reader.readByte
  have : r.remaining > 0 := by rw [hrem]; simp
  simp only [this, if_true, hd, hp]
  simp

/-! ### padding -/

theorem removePadding_append (bs : Bytes) (m : Nat) (h : ∀ b ∈ bs, b ≠ 0xFF) :
    Reader.removePadding (bs ++ List.replicate m 0xFF) = bs := by
  unfold Reader.removePadding
  induction bs with
  | nil => cases m <;> simp [List.replicate_succ]
  | cons b bs ih =>
    have hb : b ≠ 0xFF := h b (by simp)
    simp only [List.cons_append]
    rw [List.takeWhile_cons_of_pos (by simpa using hb)]
    rw [ih (fun x hx => h x (by simp [hx]))]

theorem addPadding_eq (bs : Bytes) (l : Nat) :
    Writer.addPadding bs (l : Int) = bs ++ List.replicate (l - bs.length) 0xFF := by
  unfold Writer.addPadding
  split
  · next he =>
    have : l - bs.length = 0 := by omega
    simp [this]
  · simp

theorem addPadding_length (bs : Bytes) (l : Nat) (h : bs.length ≤ l) :
    (Writer.addPadding bs (l : Int)).length = l := by
  rw [addPadding_eq bs l]; simp; omega

/-! ### bytes written per item -/

def numBytes (n : Int) (k : Nat) : Bytes :=
  match Num.encode n with
  | .ok bs => bs.take k
  | .error _ => []

def itemBytes : Item → Bytes
  | .byte v => [v]
  | .bytes bs => bs
  | .char n => numBytes n 1
  | .short n => numBytes n 2
  | .three n => numBytes n 3
  | .int n => numBytes n 4
  | .fixedString s p l => if p then Writer.addPadding (Ansi.encode s) l else Ansi.encode s
  | .fixedEncodedString s p l =>
    Str.encode (if p then Writer.addPadding (Ansi.encode s) l else Ansi.encode s)
  | .string s => Ansi.encode s
  | .encodedString s => Str.encode (Ansi.encode s)

def allBytes : List Item → Bytes
  | [] => []
  | x :: rest => itemBytes x ++ allBytes rest

/-- number writes: accepted, and `k` bytes that decode to `n` -/
theorem addNumber_ok (w : Writer) (n : Int) (k : Nat) (hk : 1 ≤ k ∧ k ≤ 4) (h0 : 0 ≤ n)
    (h1 : n < 253 ^ k) (mx : Int) (hmx : mx = 253 ^ k - 1) :
    w.addNumber n mx k = ({ w with data := w.data ++ numBytes n k }, .ok ()) ∧
      (numBytes n k).length = k ∧ Num.decode (numBytes n k) = n := by
  have hlt : n < Num.INT_MAX := by
    have hk' : k = 1 ∨ k = 2 ∨ k = 3 ∨ k = 4 := by omega
    unfold Num.INT_MAX
    rcases hk' with rfl | rfl | rfl | rfl <;> simp only [Int.reducePow] at h1 <;> omega
  obtain ⟨bs, hbs, hlen, _⟩ := Num.decode_encode n h0 hlt
  have hp := (Num.encode_prefix k hk n h0 h1 bs hbs).1
  have hc : Writer.checkNumberSize n mx = .ok () := by
    unfold Writer.checkNumberSize
    rw [if_neg (by omega)]
  unfold Writer.addNumber numBytes
  simp only [hc, hbs]
  refine ⟨trivial, ?_, hp⟩
  simp [hlen]; omega

theorem number_item (w : Writer) (n : Int) (k : Nat) (hk : 1 ≤ k ∧ k ≤ 4) (h0 : 0 ≤ n)
    (h1 : n < 253 ^ k) (mx : Int) (hmx : mx = 253 ^ k - 1) :
    w.addNumber n mx k = ({ w with data := w.data ++ numBytes n k }, .ok ()) ∧
      ∀ (r : Reader) (pre post : Bytes), r.chunked = false →
        r.data = pre ++ numBytes n k ++ post → r.pos = pre.length →
        (r.readBytes k).1 = { r with pos := pre.length + (numBytes n k).length } ∧
        Num.decode (r.readBytes k).2 = n := by
  obtain ⟨ha, hl, hd⟩ := addNumber_ok w n k hk h0 h1 mx hmx
  refine ⟨ha, ?_⟩
  intro r pre post hc hdat hp
  rw [readBytes_frame' r pre (numBytes n k) post k hl.symm hc hdat hp]
  exact ⟨rfl, hd⟩

/-- the per-item round trip with an arbitrary continuation `post` -/
theorem item_roundtrip (x : Item) (hok : x.ok = true) (w : Writer) (hs : w.san = false) :
    w.step x.writeOp = ({ w with data := w.data ++ itemBytes x }, .ok ()) ∧
      ∀ (r : Reader) (pre post : Bytes), r.chunked = false →
        r.data = pre ++ itemBytes x ++ post → r.pos = pre.length →
        (x.trailing = true → post = []) →
        r.step x.readOp = ({ r with pos := pre.length + (itemBytes x).length }, .ok x.expect) := by
  cases x with
  | byte v =>
    simp only [Item.ok, decide_eq_true_eq] at hok
    refine ⟨?_, ?_⟩
    · simp only [Item.writeOp, Writer.step, Writer.checkNumberSize, itemBytes]
      rw [if_neg (by omega)]
      simp only []
      rw [if_neg (by omega)]
      simp
    · intro r pre post hc hd hp _
      simp only [Item.readOp, Reader.step, itemBytes] at *
      rw [readByte_frame r pre post v hc hd hp]
      simp [Item.expect]
  | bytes bs =>
    refine ⟨rfl, ?_⟩
    intro r pre post hc hd hp _
    simp only [Item.readOp, Reader.step, itemBytes] at *
    rw [readBytes_frame r pre bs post hc hd hp]
    simp [Item.expect]
  | char n =>
    simp only [Item.ok, decide_eq_true_eq] at hok
    obtain ⟨ha, hr⟩ := number_item w n 1 (by omega) hok.1 (by simpa using hok.2)
      (Num.CHAR_MAX - 1) (by decide)
    refine ⟨ha, ?_⟩
    intro r pre post hc hd hp _
    obtain ⟨h1, h2⟩ := hr r pre post hc hd hp
    simp only [Item.readOp, Reader.step, Item.expect, itemBytes]
    rw [← h1, h2]
  | short n =>
    simp only [Item.ok, decide_eq_true_eq] at hok
    obtain ⟨ha, hr⟩ := number_item w n 2 (by omega) hok.1 (by simpa using hok.2)
      (Num.SHORT_MAX - 1) (by decide)
    refine ⟨ha, ?_⟩
    intro r pre post hc hd hp _
    obtain ⟨h1, h2⟩ := hr r pre post hc hd hp
    simp only [Item.readOp, Reader.step, Item.expect, itemBytes]
    rw [← h1, h2]
  | three n =>
    simp only [Item.ok, decide_eq_true_eq] at hok
    obtain ⟨ha, hr⟩ := number_item w n 3 (by omega) hok.1 (by simpa using hok.2)
      (Num.THREE_MAX - 1) (by decide)
    refine ⟨ha, ?_⟩
    intro r pre post hc hd hp _
    obtain ⟨h1, h2⟩ := hr r pre post hc hd hp
    simp only [Item.readOp, Reader.step, Item.expect, itemBytes]
    rw [← h1, h2]
  | int n =>
    simp only [Item.ok, decide_eq_true_eq] at hok
    obtain ⟨ha, hr⟩ := number_item w n 4 (by omega) hok.1 (by simpa using hok.2)
      (Num.INT_MAX - 1) (by decide)
    refine ⟨ha, ?_⟩
    intro r pre post hc hd hp _
    obtain ⟨h1, h2⟩ := hr r pre post hc hd hp
    simp only [Item.readOp, Reader.step, Item.expect, itemBytes]
    rw [← h1, h2]
  | fixedString s p l =>
    cases p with
    | false =>
      simp only [Item.ok, Bool.false_eq_true, if_false, decide_eq_true_eq] at hok
      refine ⟨?_, ?_⟩
      · simp [Item.writeOp, Writer.step, Writer.checkStringLength, hok, Writer.strBytes,
          Writer.sanitize, hs, itemBytes]
      · intro r pre post hc hd hp _
        simp only [itemBytes, Bool.false_eq_true, if_false] at hd ⊢
        have hl : (l : Int).toNat = (Ansi.encode s).length := by simp [encode_length, hok]
        simp only [Item.readOp, Reader.step, Item.expect]
        rw [if_neg (by omega)]
        rw [readBytes_frame' r pre (Ansi.encode s) post _ hl hc hd hp]
        simp [image]
    | true =>
      simp only [Item.ok, if_true, Bool.and_eq_true, decide_eq_true_eq, Bool.not_eq_true',
        List.contains_eq_mem, decide_eq_false_iff_not] at hok
      obtain ⟨hlen, hff⟩ := hok
      have hle : (Ansi.encode s).length ≤ l := by rw [encode_length]; exact hlen
      refine ⟨?_, ?_⟩
      · have : (l : Int) ≥ (s.length : Int) := by omega
        simp [Item.writeOp, Writer.step, Writer.checkStringLength, this, Writer.strBytes,
          Writer.sanitize, hs, itemBytes]
      · intro r pre post hc hd hp _
        simp only [itemBytes, if_true] at hd ⊢
        have hl : (l : Int).toNat = (Writer.addPadding (Ansi.encode s) l).length := by
          rw [addPadding_length _ _ hle]; simp
        simp only [Item.readOp, Reader.step, Item.expect]
        rw [if_neg (by omega)]
        rw [readBytes_frame' r pre _ post _ hl hc hd hp]
        simp only [if_true]
        rw [addPadding_eq _ _, removePadding_append _ _ (fun b hb e => hff (e ▸ hb))]
        simp [image]
  | fixedEncodedString s p l =>
    cases p with
    | false =>
      simp only [Item.ok, Bool.false_eq_true, if_false, Bool.and_eq_true, decide_eq_true_eq,
        Bool.not_eq_true', List.contains_eq_mem, decide_eq_false_iff_not] at hok
      obtain ⟨h7e, hlen⟩ := hok
      refine ⟨?_, ?_⟩
      · simp [Item.writeOp, Writer.step, Writer.checkStringLength, hlen, Writer.strBytes,
          Writer.sanitize, hs, itemBytes]
      · intro r pre post hc hd hp _
        simp only [itemBytes, Bool.false_eq_true, if_false] at hd ⊢
        have hl : (l : Int).toNat = (Str.encode (Ansi.encode s)).length := by
          simp [Str.encode_length, encode_length, hlen]
        simp only [Item.readOp, Reader.step, Item.expect]
        rw [if_neg (by omega)]
        rw [readBytes_frame' r pre _ post _ hl hc hd hp]
        simp only [Bool.false_eq_true, if_false]
        rw [Str.decode_encode _ (fun b hb e => h7e (e ▸ hb))]
        simp [image]
    | true =>
      simp only [Item.ok, if_true, Bool.and_eq_true, decide_eq_true_eq, Bool.not_eq_true',
        List.contains_eq_mem, decide_eq_false_iff_not] at hok
      obtain ⟨h7e, hlen, hff⟩ := hok
      have hle : (Ansi.encode s).length ≤ l := by rw [encode_length]; exact hlen
      refine ⟨?_, ?_⟩
      · have : (l : Int) ≥ (s.length : Int) := by omega
        simp [Item.writeOp, Writer.step, Writer.checkStringLength, this, Writer.strBytes,
          Writer.sanitize, hs, itemBytes]
      · intro r pre post hc hd hp _
        simp only [itemBytes, if_true] at hd ⊢
        have hl : (l : Int).toNat = (Str.encode (Writer.addPadding (Ansi.encode s) l)).length := by
          rw [Str.encode_length, addPadding_length _ _ hle]; simp
        simp only [Item.readOp, Reader.step, Item.expect]
        rw [if_neg (by omega)]
        rw [readBytes_frame' r pre _ post _ hl hc hd hp]
        simp only [if_true]
        rw [Str.decode_encode]
        · rw [addPadding_eq _ _, removePadding_append _ _ (fun b hb e => hff (e ▸ hb))]
          simp [image]
        · rw [addPadding_eq _ _]
          intro b hb e
          subst e
          simp only [List.mem_append, List.mem_replicate] at hb
          rcases hb with hb | hb
          · exact h7e hb
          · omega
  | string s =>
    refine ⟨?_, ?_⟩
    · simp [Item.writeOp, Writer.step, Writer.strBytes, Writer.sanitize, hs, itemBytes]
    · intro r pre post hc hd hp ht
      have hpost : post = [] := ht rfl
      subst hpost
      simp only [itemBytes] at hd ⊢
      have hrem : r.remaining = ((Ansi.encode s).length : Int) :=
        remaining_frame r pre _ hc (by simpa using hd) hp
      simp only [Item.readOp, Reader.step, Item.expect]
      rw [readBytes_frame' r pre _ [] _ (by rw [hrem]; simp) hc hd hp]
      simp [image]
  | encodedString s =>
    simp only [Item.ok, Bool.not_eq_true', List.contains_eq_mem, decide_eq_false_iff_not] at hok
    refine ⟨?_, ?_⟩
    · simp [Item.writeOp, Writer.step, Writer.strBytes, Writer.sanitize, hs, itemBytes]
    · intro r pre post hc hd hp ht
      have hpost : post = [] := ht rfl
      subst hpost
      simp only [itemBytes] at hd ⊢
      have hrem : r.remaining = ((Str.encode (Ansi.encode s)).length : Int) :=
        remaining_frame r pre _ hc (by simpa using hd) hp
      simp only [Item.readOp, Reader.step, Item.expect]
      rw [readBytes_frame' r pre _ [] _ (by rw [hrem]; simp) hc hd hp]
      simp only []
      rw [Str.decode_encode _ (fun b hb e => hok (e ▸ hb))]
      simp [image]

/-! ### sequences -/

theorem wellFormed_cons (x : Item) (rest : List Item) (h : wellFormed (x :: rest) = true) :
    x.ok = true ∧ wellFormed rest = true ∧ (x.trailing = true → rest = []) := by
  cases rest with
  | nil => simp_all [wellFormed]
  | cons y ys =>
    simp only [wellFormed, Bool.and_eq_true, Bool.not_eq_true'] at h
    refine ⟨h.1.1, h.2, ?_⟩
    intro ht
    rw [h.1.2] at ht
    cases ht

theorem roundtrip_gen (items : List Item) :
    ∀ (w : Writer), wellFormed items = true → w.san = false →
      writeAll w (items.map Item.writeOp) = .ok { w with data := w.data ++ allBytes items } ∧
      ∀ (r : Reader) (pre : Bytes), r.chunked = false → r.data = pre ++ allBytes items →
        r.pos = pre.length →
        readAll r (items.map Item.readOp) =
          ({ r with pos := r.data.length }, items.map (fun i => .ok i.expect)) := by
  induction items with
  | nil =>
    intro w _ _
    refine ⟨by simp [writeAll, allBytes], ?_⟩
    intro r pre _ hd hp
    simp only [allBytes, List.append_nil] at hd
    cases r
    simp_all [readAll]
  | cons x rest ih =>
    intro w hwf hs
    obtain ⟨hok, hwf', htr⟩ := wellFormed_cons x rest hwf
    obtain ⟨hw, hr⟩ := item_roundtrip x hok w hs
    obtain ⟨hw', hr'⟩ := ih { w with data := w.data ++ itemBytes x } hwf' hs
    refine ⟨?_, ?_⟩
    · simp only [List.map_cons, writeAll, hw, hw', allBytes, List.append_assoc]
    · intro r pre hc hd hp
      have hd1 : r.data = pre ++ itemBytes x ++ allBytes rest := by
        rw [hd, allBytes, List.append_assoc]
      have hpost : x.trailing = true → allBytes rest = [] := by
        intro ht; rw [htr ht]; rfl
      have h1 := hr r pre (allBytes rest) hc hd1 hp hpost
      have h2 := hr' { r with pos := pre.length + (itemBytes x).length } (pre ++ itemBytes x) hc
        hd1 (by simp)
      simp only [List.map_cons, readAll, h1, h2]

end EoVerif.RW
