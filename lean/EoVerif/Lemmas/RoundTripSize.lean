import EoVerif.Lemmas.RoundTripArray
/-!
# Round trip at the level of the declarative semantics — static struct sizes

`classSize` really is the number of bytes `wireClass` writes.
-/
set_option linter.unusedSimpArgs false

namespace EoVerif.Spec.RT
open EoVerif
open EoVerif.Gen (IntKind Value)

theorem wire_instr_size (cw : String → Value → Bool → W) (szc : SzC) (hsz : SizeOK cw szc)
    (lens : String → Option LenInfo) (obj : Value) (lex : Bool) (i : TInstr) (m : Nat)
    (st st1 : WSt) (hs : instrSize szc i = some m)
    (hw : wireInstr cw lens obj lex i st = some st1) :
    st1.out.length = st.out.length + m := by
  cases i with
  | field name ty optional =>
    simp only [instrSize] at hs
    split at hs
    case isTrue => cases hs
    rename_i ho
    simp only [Bool.not_eq_true] at ho
    subst ho
    simp only [wireInstr, Bool.false_eq_true, if_false] at hw
    split at hw
    · cases hw
    · obtain ⟨b, hb, rfl⟩ := map_some_inv _ _ _ hw
      simp only [List.length_append]
      rw [scalarSize_length cw szc hsz lens _ ty m _ b hs hb]
  | const ty c =>
    simp only [instrSize] at hs
    simp only [wireInstr] at hw
    obtain ⟨b, hb, rfl⟩ := map_some_inv _ _ _ hw
    simp only [List.length_append]
    rw [scalarSize_length cw szc hsz lens _ ty m _ b hs hb]
  | namedConst name ty c optional =>
    simp only [instrSize] at hs
    split at hs
    case isTrue => cases hs
    rename_i ho
    simp only [Bool.not_eq_true] at ho
    subst ho
    simp only [wireInstr, Bool.false_and, Bool.false_eq_true, if_false] at hw
    obtain ⟨b, hb, rfl⟩ := map_some_inv _ _ _ hw
    simp only [List.length_append]
    rw [scalarSize_length cw szc hsz lens _ ty m _ b hs hb]
  | length name k offset optional ref =>
    simp only [instrSize] at hs
    split at hs
    case isTrue => cases hs
    rename_i ho
    simp only [Bool.not_eq_true] at ho
    subst ho
    simp only [Option.some.injEq] at hs
    subst hs
    simp only [wireInstr, Bool.false_and, Bool.false_eq_true, if_false] at hw
    split at hw
    · cases hw
    · obtain ⟨b, hb, rfl⟩ := map_some_inv _ _ _ hw
      simp only [List.length_append]
      rw [encInt_length k _ b hb]
  | array name elem len optional delimited trailing ef =>
    cases len with
    | none => simp [instrSize] at hs
    | some l =>
      cases l with
      | byField f => simp [instrSize] at hs
      | lit n =>
        simp only [instrSize] at hs
        split at hs
        case isTrue => cases hs
        rename_i ho
        simp only [Bool.or_eq_true, not_or, Bool.not_eq_true] at ho
        obtain ⟨ho, hdl⟩ := ho
        subst ho hdl
        obtain ⟨m', hm', rfl⟩ := map_some_inv _ _ _ hs
        simp only [wireInstr, Bool.false_and, Bool.false_eq_true, if_false] at hw
        split at hw
        · rw [Option.ite_none_left_eq_some] at hw
          obtain ⟨hlen, hw⟩ := hw
          obtain ⟨b, helems, rfl⟩ := map_some_inv _ _ _ hw
          rename_i vs _
          obtain ⟨ps, hps, hpsw, hb⟩ := elems_join cw lens elem false trailing st vs true [] b helems
          simp only [Bool.false_and, Bool.false_eq_true, if_false, List.nil_append,
            List.append_nil] at hb
          have hl : ps.length = n.toNat := by
            simp only [Bool.not_eq_true', beq_eq_false_iff_ne, ne_eq, Decidable.not_not,
              Bool.not_eq_eq_eq_not, Bool.not_true, beq_iff_eq] at hlen
            rw [← hlen, ← hps, List.length_map]; simp
          simp only [List.length_append]
          rw [hb, join_fixed_length trailing m' ps (fun p hp =>
            scalarSize_length cw szc hsz lens _ elem m' p.1 p.2 hm' (hpsw p hp)), hl]
        · cases hw
  | dummy _ _ => simp [instrSize] at hs
  | switch _ _ => simp [instrSize] at hs
  | chunked _ => simp [instrSize] at hs
  | brk => simp [instrSize] at hs

theorem wire_body_size (cw : String → Value → Bool → W) (szc : SzC) (hsz : SizeOK cw szc)
    (lens : String → Option LenInfo) (obj : Value) (lex : Bool) (body : List TInstr) :
    ∀ (m : Nat) (st st' : WSt), bodySize szc body = some m →
      wireInstrs cw lens obj lex body st = some st' → st'.out.length = st.out.length + m := by
  induction body with
  | nil =>
    intro m st st' hs hw
    simp only [bodySize, Option.some.injEq] at hs
    simp only [wireInstrs, Option.some.injEq] at hw
    subst hs hw; rfl
  | cons i rest ih =>
    intro m st st' hs hw
    simp only [bodySize] at hs
    cases hi : instrSize szc i with
    | none => rw [hi] at hs; cases hs
    | some a =>
      cases hr : bodySize szc rest with
      | none => rw [hi, hr] at hs; cases hs
      | some b =>
        rw [hi, hr] at hs
        simp only [Option.some.injEq] at hs
        subst hs
        simp only [wireInstrs] at hw
        cases h1 : wireInstr cw lens obj lex i st with
        | none => rw [h1] at hw; cases hw
        | some st1 =>
          rw [h1] at hw
          rw [ih b st1 st' hr hw, wire_instr_size cw szc hsz lens obj lex i a st st1 hi h1]
          omega

theorem class_size (t : TSpec) : ∀ fuel, SizeOK (wireClass t fuel) (classSize t fuel) := by
  intro fuel
  induction fuel with
  | zero => intro n m v san b hs; simp [classSize] at hs
  | succ fuel ih =>
    intro n m v san b hs hw
    simp only [classSize] at hs
    simp only [wireClass] at hw
    cases hf : t.find? n with
    | none => rw [hf] at hs; cases hs
    | some c =>
      rw [hf] at hs hw
      simp only at hs hw
      obtain ⟨st', hws, rfl⟩ := map_some_inv _ _ _ hw
      have := wire_body_size (wireClass t fuel) (classSize t fuel) ih (lensOf c.body) v false c.body
        m { san := san } st' hs hws
      simpa using this

end EoVerif.Spec.RT
