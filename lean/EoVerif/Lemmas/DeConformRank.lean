import EoVerif.Lemmas.DeConformTop
set_option linter.unusedVariables false
/-! Call depth for C03b: how much call fuel the generated `deserialize` and the declarative reading need. -/
namespace EoVerif.Gen.DeConform
open EoVerif EoVerif.Gen EoVerif.Spec EoVerif.Gen.Conform EoVerif.Gen.WF

mutual
/-- struct names read anywhere below an instruction (case bodies included) -/
def refsDeepI : TInstr → List String
  | .field _ ty _ => scalarRefs ty
  | .const ty _ => scalarRefs ty
  | .namedConst _ ty _ _ => scalarRefs ty
  | .array _ elem _ _ _ _ _ => scalarRefs elem
  | .dummy ty _ => scalarRefs ty
  | .switch _ cases => refsDeepC cases
  | .chunked b => refsDeepL b
  | .length _ _ _ _ _ => []
  | .brk => []
def refsDeepL : List TInstr → List String
  | [] => []
  | i :: rest => refsDeepI i ++ refsDeepL rest
def refsDeepC : List TCase → List String
  | [] => []
  | .mk _ _ b :: rest => refsDeepL b ++ refsDeepC rest
end

def maxOf (σ : String → Nat) : List String → Nat
  | [] => 0
  | x :: xs => max (σ x) (maxOf σ xs)

theorem maxOf_mem (σ : String → Nat) : ∀ (L : List String) (x : String), x ∈ L → σ x ≤ maxOf σ L
  | [], x, h => by cases h
  | y :: ys, x, h => by
    rw [maxOf]
    rcases List.mem_cons.1 h with rfl | h
    · exact Nat.le_max_left _ _
    · exact Nat.le_trans (maxOf_mem σ ys x h) (Nat.le_max_right _ _)

theorem maxOf_sub (σ : String → Nat) : ∀ (L1 L2 : List String), (∀ x ∈ L1, x ∈ L2) → maxOf σ L1 ≤ maxOf σ L2
  | [], L2, _ => Nat.zero_le _
  | y :: ys, L2, h => by
    rw [maxOf]
    exact Nat.max_le.2 ⟨maxOf_mem σ L2 y (h y (List.mem_cons_self ..)),
      maxOf_sub σ ys L2 (fun x hx => h x (List.mem_cons_of_mem _ hx))⟩

mutual
theorem refsI_sub_deep : ∀ (i : TInstr) (x : String), x ∈ refsI i → x ∈ refsDeepI i
  | .field _ _ _, x, h => by rw [refsI] at h; rw [refsDeepI]; exact h
  | .const _ _, x, h => by rw [refsI] at h; rw [refsDeepI]; exact h
  | .namedConst _ _ _ _, x, h => by rw [refsI] at h; rw [refsDeepI]; exact h
  | .array _ _ _ _ _ _ _, x, h => by rw [refsI] at h; rw [refsDeepI]; exact h
  | .dummy _ _, x, h => by rw [refsI] at h; rw [refsDeepI]; exact h
  | .chunked b, x, h => by rw [refsI] at h; rw [refsDeepI]; exact refsL_sub_deep b x h
  | .length _ _ _ _ _, x, h => by simp [refsI] at h
  | .switch _ _, x, h => by simp [refsI] at h
  | .brk, x, h => by simp [refsI] at h
theorem refsL_sub_deep : ∀ (is : List TInstr) (x : String), x ∈ refsL is → x ∈ refsDeepL is
  | [], x, h => by simp [refsL] at h
  | i :: rest, x, h => by
    rw [refsL, List.mem_append] at h
    rw [refsDeepL, List.mem_append]
    rcases h with h | h
    · exact Or.inl (refsI_sub_deep i x h)
    · exact Or.inr (refsL_sub_deep rest x h)
end

theorem refsDeepC_mem : ∀ (cs : List TCase) (cond : Option Int) (cl : String) (b : List TInstr),
    TCase.mk cond cl b ∈ cs → ∀ x ∈ refsDeepL b, x ∈ refsDeepC cs
  | [], _, _, _, h, _, _ => by cases h
  | .mk c0 cl0 b0 :: rest, cond, cl, b, h, x, hx => by
    rw [refsDeepC, List.mem_append]
    rcases List.mem_cons.1 h with h | h
    · cases h; exact Or.inl hx
    · exact Or.inr (refsDeepC_mem rest cond cl b h x hx)

mutual
theorem casesI_sub_deep : ∀ (i : TInstr) (lex : Bool) (y : String × List TInstr × Bool), y ∈ directCasesI lex i →
    ∀ x ∈ refsDeepL y.2.1, x ∈ refsDeepI i
  | .switch f cases, lex, y, hy, x, hx => by
    rw [directCasesI, List.mem_map] at hy
    obtain ⟨tc, htc, rfl⟩ := hy
    obtain ⟨cond, cl, b⟩ := tc
    rw [refsDeepI]
    exact refsDeepC_mem cases cond cl b htc x hx
  | .chunked b, lex, y, hy, x, hx => by
    rw [directCasesI] at hy; rw [refsDeepI]; exact casesL_sub_deep b true y hy x hx
  | .field _ _ _, lex, y, hy, _, _ => by simp [directCasesI] at hy
  | .const _ _, lex, y, hy, _, _ => by simp [directCasesI] at hy
  | .namedConst _ _ _ _, lex, y, hy, _, _ => by simp [directCasesI] at hy
  | .array _ _ _ _ _ _ _, lex, y, hy, _, _ => by simp [directCasesI] at hy
  | .dummy _ _, lex, y, hy, _, _ => by simp [directCasesI] at hy
  | .length _ _ _ _ _, lex, y, hy, _, _ => by simp [directCasesI] at hy
  | .brk, lex, y, hy, _, _ => by simp [directCasesI] at hy
theorem casesL_sub_deep : ∀ (is : List TInstr) (lex : Bool) (y : String × List TInstr × Bool), y ∈ directCases lex is →
    ∀ x ∈ refsDeepL y.2.1, x ∈ refsDeepL is
  | [], lex, y, hy, _, _ => by simp [directCases] at hy
  | i :: rest, lex, y, hy, x, hx => by
    rw [directCases, List.mem_append] at hy
    rw [refsDeepL, List.mem_append]
    rcases hy with hy | hy
    · exact Or.inl (casesI_sub_deep i lex y hy x hx)
    · exact Or.inr (casesL_sub_deep rest lex y hy x hx)
end

/-! ### The fuel the generated code needs (case classes are calls of their own) -/

mutual
def needMI (σ : String → Nat) : TInstr → Nat
  | .switch _ cases => needMC σ cases
  | .chunked b => needML σ b
  | .field _ ty _ => maxOf σ (scalarRefs ty)
  | .const ty _ => maxOf σ (scalarRefs ty)
  | .namedConst _ ty _ _ => maxOf σ (scalarRefs ty)
  | .array _ elem _ _ _ _ _ => maxOf σ (scalarRefs elem)
  | .dummy ty _ => maxOf σ (scalarRefs ty)
  | .length _ _ _ _ _ => 0
  | .brk => 0
def needML (σ : String → Nat) : List TInstr → Nat
  | [] => 0
  | i :: rest => max (needMI σ i) (needML σ rest)
def needMC (σ : String → Nat) : List TCase → Nat
  | [] => 0
  | .mk _ _ b :: rest => max (if b.isEmpty then 0 else needML σ b + 1) (needMC σ rest)
end

mutual
theorem needMI_ref (σ : String → Nat) : ∀ (i : TInstr) (x : String), x ∈ refsI i → σ x ≤ needMI σ i
  | .field _ ty _, x, h => by rw [refsI] at h; rw [needMI]; exact maxOf_mem σ _ x h
  | .const ty _, x, h => by rw [refsI] at h; rw [needMI]; exact maxOf_mem σ _ x h
  | .namedConst _ ty _ _, x, h => by rw [refsI] at h; rw [needMI]; exact maxOf_mem σ _ x h
  | .array _ e _ _ _ _ _, x, h => by rw [refsI] at h; rw [needMI]; exact maxOf_mem σ _ x h
  | .dummy ty _, x, h => by rw [refsI] at h; rw [needMI]; exact maxOf_mem σ _ x h
  | .chunked b, x, h => by rw [refsI] at h; rw [needMI]; exact needML_ref σ b x h
  | .length _ _ _ _ _, x, h => by simp [refsI] at h
  | .switch _ _, x, h => by simp [refsI] at h
  | .brk, x, h => by simp [refsI] at h
theorem needML_ref (σ : String → Nat) : ∀ (is : List TInstr) (x : String), x ∈ refsL is → σ x ≤ needML σ is
  | [], x, h => by simp [refsL] at h
  | i :: rest, x, h => by
    rw [refsL, List.mem_append] at h
    rw [needML]
    rcases h with h | h
    · exact Nat.le_trans (needMI_ref σ i x h) (Nat.le_max_left _ _)
    · exact Nat.le_trans (needML_ref σ rest x h) (Nat.le_max_right _ _)
end

theorem needMC_case (σ : String → Nat) : ∀ (cs : List TCase) (cond : Option Int) (cl : String) (b : List TInstr),
    TCase.mk cond cl b ∈ cs → b ≠ [] → needML σ b + 1 ≤ needMC σ cs
  | [], _, _, _, h, _ => by cases h
  | .mk c0 cl0 b0 :: rest, cond, cl, b, h, hb => by
    rw [needMC]
    rcases List.mem_cons.1 h with h | h
    · simp only [TCase.mk.injEq] at h
      obtain ⟨_, _, rfl⟩ := h
      have : b.isEmpty = false := by cases b with | nil => exact absurd rfl hb | cons _ _ => rfl
      rw [this]
      exact Nat.le_max_left _ _
    · exact Nat.le_trans (needMC_case σ rest cond cl b h hb) (Nat.le_max_right _ _)

mutual
theorem needMI_case (σ : String → Nat) : ∀ (i : TInstr) (lex : Bool) (y : String × List TInstr × Bool),
    y ∈ directCasesI lex i → y.2.1 ≠ [] → needML σ y.2.1 + 1 ≤ needMI σ i
  | .switch f cases, lex, y, hy, hne => by
    rw [directCasesI, List.mem_map] at hy
    obtain ⟨tc, htc, rfl⟩ := hy
    obtain ⟨cond, cl, b⟩ := tc
    rw [needMI]
    exact needMC_case σ cases cond cl b htc hne
  | .chunked b, lex, y, hy, hne => by
    rw [directCasesI] at hy; rw [needMI]; exact needML_case σ b true y hy hne
  | .field _ _ _, lex, y, hy, _ => by simp [directCasesI] at hy
  | .const _ _, lex, y, hy, _ => by simp [directCasesI] at hy
  | .namedConst _ _ _ _, lex, y, hy, _ => by simp [directCasesI] at hy
  | .array _ _ _ _ _ _ _, lex, y, hy, _ => by simp [directCasesI] at hy
  | .dummy _ _, lex, y, hy, _ => by simp [directCasesI] at hy
  | .length _ _ _ _ _, lex, y, hy, _ => by simp [directCasesI] at hy
  | .brk, lex, y, hy, _ => by simp [directCasesI] at hy
theorem needML_case (σ : String → Nat) : ∀ (is : List TInstr) (lex : Bool) (y : String × List TInstr × Bool),
    y ∈ directCases lex is → y.2.1 ≠ [] → needML σ y.2.1 + 1 ≤ needML σ is
  | [], lex, y, hy, _ => by simp [directCases] at hy
  | i :: rest, lex, y, hy, hne => by
    rw [directCases, List.mem_append] at hy
    rw [needML]
    rcases hy with hy | hy
    · exact Nat.le_trans (needMI_case σ i lex y hy hne) (Nat.le_max_left _ _)
    · exact Nat.le_trans (needML_case σ rest lex y hy hne) (Nat.le_max_right _ _)
end

/-! ### Rank functions, computed with fuel -/

def rankS (t : TSpec) : Nat → String → Nat
  | 0, _ => 0
  | k + 1, n => match t.find? n with
    | some c => maxOf (rankS t k) (refsDeepL c.body) + 1
    | none => 0

def rankM (t : TSpec) : Nat → String → Nat
  | 0, _ => 0
  | k + 1, n => match t.find? n with
    | some c => needML (rankM t k) c.body + 1
    | none => 0

/-- the call-depth check: both rank functions decrease along struct references / case nesting, stay
    within the fuel the two sides are given, and every struct referenced is a class of the specification -/
def ranksOK (t : TSpec) (depth : Nat) : Bool :=
  t.classes.all (fun c => match t.find? c.name with
    | some c0 =>
      decide (maxOf (rankS t (t.classes.length + 1)) (refsDeepL c0.body) < rankS t (t.classes.length + 1) c.name) &&
      decide (rankS t (t.classes.length + 1) c.name ≤ t.classes.length + 1) &&
      decide (needML (rankM t depth) c0.body < rankM t depth c.name) &&
      decide (rankM t depth c.name ≤ depth) &&
      (refsDeepL c0.body).all (fun n => (t.find? n).isSome)
    | none => false)

theorem ranksOK_spec {t : TSpec} {depth : Nat} (h : ranksOK t depth = true) {cls : String} {c : TClass}
    (hf : t.find? cls = some c) :
    maxOf (rankS t (t.classes.length + 1)) (refsDeepL c.body) < rankS t (t.classes.length + 1) cls ∧
    rankS t (t.classes.length + 1) cls ≤ t.classes.length + 1 ∧
    needML (rankM t depth) c.body < rankM t depth cls ∧ rankM t depth cls ≤ depth ∧
    ∀ n ∈ refsDeepL c.body, (t.find? n).isSome = true := by
  unfold ranksOK at h
  rw [List.all_eq_true] at h
  have hcm : c ∈ t.classes := List.mem_of_find?_eq_some hf
  have hcn : c.name = cls := by simpa using List.find?_some hf
  have := h c hcm
  rw [hcn, hf] at this
  simp only [Bool.and_eq_true, decide_eq_true_eq, List.all_eq_true] at this
  obtain ⟨⟨⟨⟨h1, h2⟩, h3⟩, h4⟩, h5⟩ := this
  exact ⟨h1, h2, h3, h4, h5⟩

/-! ### The side conditions of nested case bodies -/

theorem okCases_mem : ∀ (cs : List TCase) (cond : Option Int) (cl : String) (b : List TInstr),
    okCases cs = true → TCase.mk cond cl b ∈ cs → bodyOK b = true
  | [], _, _, _, _, h => by cases h
  | .mk c0 cl0 b0 :: rest, cond, cl, b, hok, h => by
    rw [okCases, Bool.and_eq_true] at hok
    rcases List.mem_cons.1 h with h | h
    · cases h; exact hok.1
    · exact okCases_mem rest cond cl b hok.2 h

mutual
theorem okI_case : ∀ (i : TInstr) (Ds : List Decl) (lex : Bool), okI Ds i = true →
    ∀ y ∈ directCasesI lex i, bodyOK y.2.1 = true
  | .switch f cases, Ds, lex, hok, y, hy => by
    rw [okI, Bool.and_eq_true] at hok
    rw [directCasesI, List.mem_map] at hy
    obtain ⟨tc, htc, rfl⟩ := hy
    obtain ⟨cond, cl, b⟩ := tc
    exact okCases_mem cases cond cl b hok.2 htc
  | .chunked b, Ds, lex, hok, y, hy => by
    rw [okI] at hok; rw [directCasesI] at hy; exact okL_case b Ds true hok y hy
  | .field _ _ _, _, lex, _, y, hy => by simp [directCasesI] at hy
  | .const _ _, _, lex, _, y, hy => by simp [directCasesI] at hy
  | .namedConst _ _ _ _, _, lex, _, y, hy => by simp [directCasesI] at hy
  | .array _ _ _ _ _ _ _, _, lex, _, y, hy => by simp [directCasesI] at hy
  | .dummy _ _, _, lex, _, y, hy => by simp [directCasesI] at hy
  | .length _ _ _ _ _, _, lex, _, y, hy => by simp [directCasesI] at hy
  | .brk, _, lex, _, y, hy => by simp [directCasesI] at hy
theorem okL_case : ∀ (is : List TInstr) (Ds : List Decl) (lex : Bool), okL Ds is = true →
    ∀ y ∈ directCases lex is, bodyOK y.2.1 = true
  | [], _, lex, _, y, hy => by simp [directCases] at hy
  | i :: rest, Ds, lex, hok, y, hy => by
    rw [okL, Bool.and_eq_true] at hok
    rw [directCases, List.mem_append] at hy
    rcases hy with hy | hy
    · exact okI_case i Ds lex hok.1 y hy
    · exact okL_case rest _ lex hok.2 y hy
end

theorem bodyOK_case {b : List TInstr} (h : bodyOK b = true) (lex : Bool) :
    ∀ y ∈ directCases lex b, bodyOK y.2.1 = true :=
  okL_case b [] lex (okL_of_bodyOK h).1

end EoVerif.Gen.DeConform
