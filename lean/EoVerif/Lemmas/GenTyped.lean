import EoVerif.Model.GenCompile
import EoVerif.Spec.WellFormedTyped
import EoVerif.Lemmas.GenWF
import EoVerif.Lemmas.GenDecls
/-! Helper lemmas for C17c (namespace EoVerif.Gen.Typed): the generator's type resolution and field
    validation against the declarative `Spec.typedSpec`. -/
namespace EoVerif.Gen.Typed
open EoVerif.Spec EoVerif.Gen.WF EoVerif.Gen.Decls

/-! ### kinds of resolved types -/

/-- the declarative kind of a resolved type -/
def kindOf : Ty → Kind
  | .int _ => .int
  | .bool _ => .bool
  | .str _ _ => .str
  | .blob => .blob
  | .enum _ _ _ vals => .enum (vals.map (·.name)) (vals.map (·.ordinal))
  | .struct _ _ _ _ => .struct

/-- the declaration table the indexed definitions stand for -/
def entryKind (u : Unresolved) : Kind := if u.xml.tag == "enum" then enumKind u.xml else .struct
def tblOf (defs : Defs) : List (String × Kind) := defs.map (fun p => (p.1, entryKind p.2))

theorem lookup_tblOf (defs : Defs) (n : String) : lookup (tblOf defs) n = (defs.find? n).map entryKind := by
  unfold lookup tblOf Defs.find?
  induction defs with
  | nil => rfl
  | cons p ps ih =>
    simp only [List.map_cons, List.find?_cons]
    cases hp : (p.1 == n)
    · simpa using ih
    · simp

theorem enumValues_ords (en : String) : ∀ (vs : List Xml) (ords : List Int) (names : List String) (r : List EnumVal),
    enumValues en vs ords names = .ok r →
      r.map (·.ordinal) = vs.filterMap (fun v => PyStr.tryParseInt (textOf v))
  | [], ords, names, r, h => by
    simp only [enumValues] at h; cases h; rfl
  | v :: vs, ords, names, r, h => by
    unfold enumValues at h
    split at h
    · cases h
    · rename_i text htext
      split at h
      · cases h
      · rename_i vn hvn
        have htx := getText_textOf htext
        dsimp only at h
        generalize (if vn == "None" then vn ++ "_" else vn) = py at h
        split at h
        · cases h
        · rename_i ordinal hord
          split at h
          · cases h
          · split at h
            · cases h
            · cases hr : enumValues en vs (ordinal :: ords) (py :: names) with
              | error m => rw [hr] at h; cases h
              | ok r' =>
                rw [hr] at h
                simp only [Except.map] at h
                cases h
                have ih := enumValues_ords en vs _ _ r' hr
                simp [htx, hord, ih]

theorem createEnum_kind {defs : Defs} {fuel : Nat} {u : Unresolved} {ov : Option IntKind} {t : Ty}
    (h : createEnum defs fuel u ov = .ok t) : kindOf t = enumKind u.xml := by
  obtain ⟨en, k, vals, rfl, _, hvals, _⟩ := createEnum_shape h
  have h1 := (enumValues_spec _ _ _ _ _ hvals).2.2.2.2.2
  have h2 := enumValues_ords _ _ _ _ _ hvals
  simp only [kindOf, enumKind, h1, h2]

theorem createStruct_kind {defs : Defs} {fuel : Nat} {u : Unresolved} {t : Ty}
    (h : createStruct defs fuel u = .ok t) : kindOf t = .struct := by
  obtain ⟨_, _, _, _, rfl⟩ := createStruct_shape h
  rfl

/-! ### type resolution against the declarative table -/

theorem ofName_some {n : String} {k : IntKind} (h : IntKind.ofName? n = some k) :
    intTypeNames.contains n = true := by
  simpa using ofName_mem h

theorem ofName_none {n : String} (h : IntKind.ofName? n = none) : intTypeNames.contains n = false := by
  unfold IntKind.ofName? at h
  split at h <;> first | cases h | skip
  simp only [intTypeNames, List.contains_cons, List.contains_nil, Bool.or_false, Bool.or_eq_false_iff,
    beq_eq_false_iff_ne]
  refine ⟨?_, ?_, ?_, ?_, ?_⟩ <;> assumption

/-- the `_create_type` dispatch on the base name (the `resultE` of `createType`) -/
def baseResult (defs : Defs) (fuel : Nat) (name : String) (underK : Option IntKind) : Except GenErr Ty :=
  match IntKind.ofName? name with
  | some k => .ok (.int k)
  | none =>
    if name == "bool" then .ok (.bool (underK.getD .char))
    else if name == "string" then .ok (.str false none)
    else if name == "encoded_string" then .ok (.str true none)
    else if name == "blob" then .ok .blob
    else
      match defs.find? name with
      | none => .error s!"{name} type is not defined"
      | some u =>
        if u.xml.tag == "enum" then createEnum defs fuel u underK
        else if u.xml.tag == "struct" then createStruct defs fuel u
        else .error "unhandled custom type element"

theorem baseResult_kind {defs : Defs} {fuel : Nat} {name : String} {underK : Option IntKind} {t : Ty}
    (h : baseResult defs fuel name underK = .ok t) : baseKind (tblOf defs) name = some (kindOf t) := by
  unfold baseResult at h
  unfold baseKind
  split at h
  · rename_i k hk
    cases h
    rw [if_pos (ofName_some hk)]; rfl
  · rename_i hk
    rw [if_neg (by rw [ofName_none hk]; decide)]
    split at h
    · rename_i h1; cases h; rw [if_pos h1]; rfl
    rename_i h1; rw [if_neg h1]
    split at h
    · rename_i h2; cases h; rw [if_pos (by rw [h2]; rfl)]; rfl
    rename_i h2
    split at h
    · rename_i h3; cases h; rw [if_pos (by rw [h3]; simp)]; rfl
    rename_i h3
    rw [if_neg (by simp only [Bool.or_eq_true]; rintro (h | h) <;> contradiction)]
    split at h
    · rename_i h4; cases h; rw [if_pos h4]; rfl
    rename_i h4; rw [if_neg h4, lookup_tblOf]
    split at h
    · cases h
    rename_i u hu
    rw [hu]
    simp only [Option.map_some, Option.some.injEq, entryKind]
    split at h
    · rename_i htag; rw [if_pos htag]; exact (createEnum_kind h).symm
    · rename_i htag; rw [if_neg htag]
      split at h
      · exact (createStruct_kind h).symm
      · cases h

theorem createType_kind {defs : Defs} {fuel : Nat} {full : String} {t : Ty}
    (h : createType defs fuel full = .ok t) : resolveKind (tblOf defs) full = some (kindOf t) := by
  cases fuel with
  | zero => simp [createType] at h
  | succ fuel =>
    unfold createType at h
    unfold resolveKind
    generalize PyStr.splitColon full = parts at h
    match parts with
    | [] => simp at h
    | [x] =>
      dsimp only at h
      change (match baseResult defs fuel x (none.bind Ty.asInt?) with
        | .error m => .error m | .ok result => .ok result) = Except.ok t at h
      cases hb : baseResult defs fuel x (none.bind Ty.asInt?) with
      | error m => rw [hb] at h; cases h
      | ok r =>
        rw [hb] at h
        cases h
        exact baseResult_kind hb
    | [x, y] =>
      dsimp only at h
      split at h
      · cases h
      rename_i under hunder
      -- the underlying type is a builtin integer, hence `under = some (.int _)`
      have hu : intTypeNames.contains y = true ∧ ∃ k, under = some (.int k) := by
        split at hunder
        · cases hunder
        · split at hunder
          · cases hunder
          · rename_i u hu
            split at hunder
            · rename_i k
              cases hunder
              exact ⟨by simpa using getType_int hu, k, rfl⟩
            · cases hunder
      obtain ⟨hy, k, rfl⟩ := hu
      change (match baseResult defs fuel x ((some (Ty.int k)).bind Ty.asInt?) with
        | .error m => .error m
        | .ok result => (match (some (Ty.int k)), result with
          | some _, .bool _ => Except.ok result
          | some _, .enum _ _ _ _ => .ok result
          | some _, _ => .error "type has no underlying type; override not allowed"
          | none, _ => .ok result)) = Except.ok t at h
      cases hb : baseResult defs fuel x ((some (Ty.int k)).bind Ty.asInt?) with
      | error m => rw [hb] at h; cases h
      | ok r =>
        rw [hb] at h
        have hk := baseResult_kind hb
        simp only [hy, if_true, hk]
        cases r <;> first | (cases h; rfl) | cases h
    | x :: y :: z :: r => simp at h

/-- soundness of the generator's `get_type` w.r.t. the declarative resolution -/
theorem getType_kind {defs : Defs} {fuel : Nat} {n : String} {len : Option String} {t : Ty}
    (h : getType defs fuel n len = .ok t) :
    fieldKind (tblOf defs) n len = some (kindOf t) ∧ (∀ l, len = some l → ∃ e, t = .str e (some l)) := by
  cases fuel with
  | zero => simp [getType] at h
  | succ fuel =>
    unfold getType at h
    unfold fieldKind
    cases len with
    | none => exact ⟨createType_kind h, fun l hl => by cases hl⟩
    | some l =>
      dsimp only at h ⊢
      split at h
      · rename_i h1; cases h; exact ⟨by rw [if_pos (by rw [h1]; rfl)]; rfl, fun l hl => by cases hl; exact ⟨_, rfl⟩⟩
      · split at h
        · rename_i h1 h2; cases h
          exact ⟨by rw [if_pos (by rw [h2]; simp)]; rfl, fun l hl => by cases hl; exact ⟨_, rfl⟩⟩
        · cases h

/-- what the body-level simulation needs from a type environment -/
def TfSound (tf : TypeEnv) (tbl : List (String × Kind)) : Prop :=
  ∀ n len t, tf n len = .ok t → fieldKind tbl n len = some (kindOf t)

theorem tfSound_getType (defs : Defs) (fuel : Nat) : TfSound (getType defs fuel) (tblOf defs) :=
  fun _ _ _ h => (getType_kind h).1

/-! ### the declaration table of a forest is the table of its indexed definitions -/

theorem filterMap_enum_entries (dir : String) : ∀ (es : List Xml), (∀ e ∈ es, (e.tag == "enum") = true) →
    tblOf (entries dir es) = es.filterMap (fun e => (e.get "name").map (fun n => (n, enumKind e)))
  | [], _ => rfl
  | e :: es, h => by
    have ih := filterMap_enum_entries dir es (fun x hx => h x (List.mem_cons_of_mem _ hx))
    unfold tblOf entries at ih ⊢
    cases hn : e.get "name" with
    | none => simpa [hn] using ih
    | some n =>
      simp only [List.filterMap_cons, hn, Option.map_some, List.map_cons, ih]
      simp [entryKind, h e (List.mem_cons_self ..)]

theorem filterMap_struct_entries (dir : String) : ∀ (es : List Xml), (∀ e ∈ es, (e.tag == "struct") = true) →
    tblOf (entries dir es) = es.filterMap (fun e => (e.get "name").map (fun n => (n, Kind.struct)))
  | [], _ => rfl
  | e :: es, h => by
    have ih := filterMap_struct_entries dir es (fun x hx => h x (List.mem_cons_of_mem _ hx))
    unfold tblOf entries at ih ⊢
    cases hn : e.get "name" with
    | none => simpa [hn] using ih
    | some n =>
      simp only [List.filterMap_cons, hn, Option.map_some, List.map_cons, ih]
      have : e.tag = "struct" := by simpa using h e (List.mem_cons_self ..)
      simp [entryKind, this]

theorem declTable_eq (files : List ProtoFile) : declTable (files.map (·.root)) = tblOf (allEntries files) := by
  unfold declTable allEntries
  induction files with
  | nil => rfl
  | cons f fs ih =>
    simp only [List.map_cons, List.flatten_cons]
    rw [ih]
    unfold tblOf at *
    rw [List.map_append]
    congr 1
    unfold fileEntries declsOf
    have h1 := filterMap_enum_entries f.dir (f.root.findall "enum") (fun e he => mem_findall he)
    have h2 := filterMap_struct_entries f.dir (f.root.findall "struct") (fun e he => mem_findall he)
    unfold tblOf at h1 h2
    unfold entries at *
    rw [List.filterMap_append, List.map_append, h1, h2]

/-! ### field validation -/

/-- peel one guard stage of a `do` block: every successful path ends in the hypothesis itself -/
local syntax "ty_stage " ident : tactic
local macro_rules
  | `(tactic| ty_stage $h) =>
    `(tactic| first
      | exact $h:ident
      | cases $h:ident
      | (split at $h:ident <;> ty_stage $h)
      | (replace $h:ident := except_bind_ok' $h:ident; ty_stage $h))

/-- what a successful `validateField` guarantees about types (T2, T3) -/
theorem validateField_typed {tf : TypeEnv} {ctx : Ctx} {p : FP} (h : validateField tf ctx p = .ok ()) :
    (p.lengthField = true → ∃ k, tf p.typeStr p.typeLen = .ok (.int k)) ∧
    (∀ v, p.hardcoded = some v →
      ∃ t, tf p.typeStr p.typeLen = .ok t ∧ valueOK (kindOf t) p.lenStr v = true) := by
  unfold validateField at h
  extract_lets j11 j10 j9 j8 j7 j6 j5 j4 j3 j2 j1 j0 at h
  have h0 : j0 () = .ok () := by ty_stage h
  have h1 : j1 () = .ok () := by simp only [j0] at h0; ty_stage h0
  have h4 : j4 () = .ok () := by simp only [j1, j2, j3] at h1; ty_stage h1
  have h7 : j7 () = .ok () := by simp only [j4, j5, j6] at h4; ty_stage h4
  have h9 : j9 () = .ok () := by simp only [j7, j8] at h7; ty_stage h7
  refine ⟨?_, ?_⟩
  · intro hl
    simp only [j4, hl, if_true] at h4
    have h5 : j5 () = .ok () := by ty_stage h4
    have h6 : j6 () = .ok () := by simp only [j5] at h5; ty_stage h5
    simp only [j6] at h6
    obtain ⟨t, ht, h6⟩ := except_bind_ok h6
    split at h6
    · exact ⟨_, ht⟩
    · replace h6 := except_bind_ok' h6; cases h6
  · intro v hv
    simp only [j9, hv] at h9
    obtain ⟨t, ht, h9⟩ := except_bind_ok h9
    refine ⟨t, ht, ?_⟩
    clear h h0 h1 h4 h7
    cases t with
    | int k =>
      simp only [kindOf, valueOK]
      simp only [Ty.isBasic, Bool.not_true, Bool.false_eq_true, if_false] at h9
      split at h9
      · replace h9 := except_bind_ok' h9; cases h9
      · rename_i hd; simpa using hd
    | bool u =>
      simp only [kindOf, valueOK]
      simp only [Ty.isBasic, Bool.not_true, Bool.false_eq_true, if_false] at h9
      split at h9
      · replace h9 := except_bind_ok' h9; cases h9
      · rename_i hd
        simp only [Bool.and_eq_true, bne_iff_ne, ne_eq, not_and, Decidable.not_not] at hd
        simp only [Bool.or_eq_true, beq_iff_eq]
        by_cases hv : v = "true"
        · exact .inl hv
        · exact .inr (hd hv)
    | str e l =>
      simp only [kindOf, valueOK]
      dsimp only at h9
      split at h9
      · rename_i n hn
        rw [hn]
        split at h9
        · replace h9 := except_bind_ok' h9; cases h9
        · rename_i hd; simpa using hd
      · rename_i hn; rw [hn]
    | blob => simp only [Ty.isBasic] at h9; replace h9 := except_bind_ok' h9; cases h9
    | enum a b c d => simp only [Ty.isBasic] at h9; replace h9 := except_bind_ok' h9; cases h9
    | struct a b c d => simp only [Ty.isBasic] at h9; replace h9 := except_bind_ok' h9; cases h9

/-! ### the visible fields -/

/-- the generator's accessible fields and the declarative visible fields of the same position agree -/
def AgreeV (ctx : Ctx) (vis : Visible) : Prop :=
  ∀ n, (ctx.field? n).map (fun fd => (kindOf fd.ty, fd.array)) = lookup vis n

theorem agreeV_append {ctx ctx' : Ctx} {vis : Visible} {n : String} {fd : FieldData} (ha : AgreeV ctx vis)
    (hacc : ctx'.accessible = ctx.accessible ++ [(n, fd)]) :
    AgreeV ctx' (vis ++ [(n, kindOf fd.ty, fd.array)]) := by
  intro m
  have h1 := find_fst_append_single ctx.accessible n m fd
  have h2 := find_fst_append_single vis n m (kindOf fd.ty, fd.array)
  unfold lookup
  unfold Ctx.field?
  rw [hacc, h1, h2]
  have := ha m
  unfold lookup Ctx.field? at this
  rw [← this]
  cases (List.find? (fun x => x.fst == m) ctx.accessible) <;> cases (n == m) <;> rfl

theorem agreeV_of_accessible {ctx ctx' : Ctx} {vis : Visible} (ha : AgreeV ctx vis)
    (hacc : ctx'.accessible = ctx.accessible) : AgreeV ctx' vis := by
  intro m
  have := ha m
  unfold Ctx.field? at this ⊢
  rw [hacc]; exact this

theorem setLenRef_accessible (c : Ctx) (n : String) (b : Bool) : (c.setLenRef n b).accessible = c.accessible := by
  unfold Ctx.setLenRef
  split <;> rfl

theorem fieldCtx_accessible {ctx : Ctx} {p : FP} {n : String} {t : Ty} (hfresh : (ctx.field? n).isSome = false) :
    (fieldCtx ctx p n t).accessible = ctx.accessible ++ [(n, ⟨n, t, p.offset, p.arrayField⟩)] := by
  unfold fieldCtx
  rw [setField_fresh (fd := ⟨n, t, p.offset, p.arrayField⟩) hfresh]
  dsimp only
  split
  · rw [setLenRef_accessible]
  · split
    · split
      · rw [setLenRef_accessible]
      · rfl
    · rfl

theorem generateField_some' {tf : TypeEnv} {ctx ctx' : Ctx} {d d' : Data} {p : FP} {n : String}
    (hn : p.name = some n) (h : generateField tf ctx d p = .ok (ctx', d')) :
    ∃ t, tf p.typeStr p.typeLen = .ok t ∧ ctx' = fieldCtx ctx p n t := by
  unfold generateField at h
  simp only [hn] at h
  obtain ⟨t, ht, h⟩ := except_bind_ok h
  refine ⟨t, ht, ?_⟩
  simp only [fieldCtx]
  split at h
  · simp only [pure, Except.pure, Except.ok.injEq, Prod.mk.injEq] at h
    rw [if_pos ‹_›]; exact h.1.symm
  · rw [if_neg ‹_›]
    split at h
    next l hl =>
      simp only [hl]
      split at h
      · split at h
        · simp only [pure, Except.pure, Except.ok.injEq, Prod.mk.injEq] at h
          rw [if_pos ‹_›]; exact h.1.symm
        · cases h
      · simp only [pure, Except.pure, Except.ok.injEq, Prod.mk.injEq] at h
        rw [if_neg ‹_›]; exact h.1.symm
    next hl =>
      simp only [hl]
      simp only [pure, Except.pure, Except.ok.injEq, Prod.mk.injEq] at h
      exact h.1.symm

theorem generateSerialize_type {tf : TypeEnv} {ctx : Ctx} {d d' : Data} {p : FP}
    (h : generateSerialize tf ctx d p = .ok d') : ∃ t, tf p.typeStr p.typeLen = .ok t := by
  unfold generateSerialize at h
  extract_lets _ _ _ _ jp at h
  have : ∃ a, jp a = .ok d' := by
    split at h
    · obtain ⟨a, _, h⟩ := except_bind_ok h; exact ⟨a, h⟩
    · obtain ⟨a, _, h⟩ := except_bind_ok h; exact ⟨a, h⟩
  obtain ⟨a, h⟩ := this
  simp only [jp] at h
  obtain ⟨t, ht, h⟩ := except_bind_ok h
  exact ⟨t, ht⟩

/-- what a successful `generateAll` guarantees: validation, a resolved type, and the context left behind -/
theorem generateAll_typed {tf : TypeEnv} {ctx ctx' : Ctx} {d d' : Data} {p : FP}
    (h : generateAll tf ctx d p = .ok (ctx', d')) :
    validateField tf ctx p = .ok () ∧ ∃ t, tf p.typeStr p.typeLen = .ok t ∧
      (p.name = none → ctx' = ctx) ∧
      (∀ n, p.name = some n → ctx'.accessible = ctx.accessible ++ [(n, ⟨n, t, p.offset, p.arrayField⟩)]) := by
  unfold generateAll at h
  obtain ⟨u, hv, h⟩ := except_bind_ok h
  obtain ⟨⟨c1, d1⟩, hg, h⟩ := except_bind_ok h
  obtain ⟨d2, hs, h⟩ := except_bind_ok h
  obtain ⟨d3, _, h⟩ := except_bind_ok h
  simp only [pure, Except.pure, Except.ok.injEq, Prod.mk.injEq] at h
  obtain ⟨rfl, _⟩ := h
  obtain ⟨t, ht⟩ := generateSerialize_type hs
  refine ⟨hv, t, ht, fun hn => generateField_none hn hg, fun n hn => ?_⟩
  obtain ⟨t', ht', rfl⟩ := generateField_some' hn hg
  rw [ht] at ht'; cases ht'
  exact fieldCtx_accessible ((validateField_ok hv).2.1 n hn)


/-! ### the leaf instructions -/

theorem typedValue_of {tf : TypeEnv} {ctx : Ctx} {p : FP} {e : Xml} {t : Ty}
    (hv : validateField tf ctx p = .ok ()) (ht : tf p.typeStr p.typeLen = .ok t)
    (htext : e.getText = .ok p.hardcoded) : typedValue (kindOf t) p.lenStr e = true := by
  unfold typedValue
  rw [getText_textOf htext]
  cases hh : p.hardcoded with
  | none => rfl
  | some v =>
    obtain ⟨t', ht', hok⟩ := (validateField_typed hv).2 v hh
    rw [ht] at ht'; cases ht'
    exact hok

theorem genFieldInstr_typed {tf : TypeEnv} {tbl : List (String × Kind)} {ctx ctx' : Ctx} {d d' : Data} {e : Xml}
    {vis : Visible} (hs : TfSound tf tbl) (h : genFieldInstr tf ctx d e = .ok (ctx', d')) (ha : AgreeV ctx vis) :
    ∃ vis', typedField tbl vis e = some vis' ∧ AgreeV ctx' vis' := by
  unfold genFieldInstr at h
  extract_lets optional padded jp at h
  split at h
  · cases h
  · simp only [jp] at h
    obtain ⟨ty, hty, h⟩ := except_bind_ok h
    obtain ⟨text, htext, h⟩ := except_bind_ok h
    obtain ⟨⟨c1, d1⟩, hall, h⟩ := except_bind_ok h
    simp only [pure, Except.pure, Except.ok.injEq, Prod.mk.injEq] at h
    obtain ⟨rfl, rfl⟩ := h
    obtain ⟨hv, t, ht, hnone, hsome⟩ := generateAll_typed hall
    have hk := hs _ _ _ ht
    have hval := typedValue_of (e := e) hv ht htext
    change fieldKind tbl ty (e.get "length") = some (kindOf t) at hk
    change typedValue (kindOf t) (e.get "length") e = true at hval
    unfold typedField
    rw [getReq_ok hty]
    simp only [hk, hval, if_true]
    refine ⟨_, rfl, ?_⟩
    have hacc : (if optional = true then { c1 with reachedOptional := true } else c1).accessible = c1.accessible := by
      split <;> rfl
    cases hn : e.get "name" with
    | none =>
      have := hnone hn; subst this
      exact agreeV_of_accessible ha hacc
    | some n =>
      exact agreeV_append (fd := ⟨n, t, 0, false⟩) ha (hacc.trans (hsome n hn))

theorem genArrayInstr_typed {tf : TypeEnv} {tbl : List (String × Kind)} {ctx ctx' : Ctx} {d d' : Data} {e : Xml}
    {vis : Visible} (hs : TfSound tf tbl) (h : genArrayInstr tf ctx d e = .ok (ctx', d')) (ha : AgreeV ctx vis) :
    ∃ vis', typedArray tbl vis e = some vis' ∧ AgreeV ctx' vis' := by
  unfold genArrayInstr at h
  extract_lets optional delimited jp2 jp at h
  split at h
  · cases h
  · simp only [jp] at h
    split at h
    · cases h
    · simp only [jp2] at h
      obtain ⟨name, hname, h⟩ := except_bind_ok h
      obtain ⟨ty, hty, h⟩ := except_bind_ok h
      obtain ⟨⟨c1, d1⟩, hall, h⟩ := except_bind_ok h
      simp only [pure, Except.pure, Except.ok.injEq, Prod.mk.injEq] at h
      obtain ⟨rfl, rfl⟩ := h
      obtain ⟨hv, t, ht, hnone, hsome⟩ := generateAll_typed hall
      have hk := hs _ _ _ ht
      change resolveKind tbl ty = some (kindOf t) at hk
      unfold typedArray
      rw [getReq_ok hty, getReq_ok hname]
      simp only [hk, Option.map_some]
      refine ⟨_, rfl, ?_⟩
      have hacc : (if optional = true then { c1 with reachedOptional := true } else c1).accessible = c1.accessible := by
        split <;> rfl
      exact agreeV_append (fd := ⟨name, t, 0, true⟩) ha (hacc.trans (hsome name rfl))

theorem genLengthInstr_typed {tf : TypeEnv} {tbl : List (String × Kind)} {ctx ctx' : Ctx} {d d' : Data} {e : Xml}
    {vis : Visible} (hs : TfSound tf tbl) (h : genLengthInstr tf ctx d e = .ok (ctx', d')) (ha : AgreeV ctx vis) :
    ∃ vis', typedLength tbl vis e = some vis' ∧ AgreeV ctx' vis' := by
  unfold genLengthInstr at h
  extract_lets optional jp at h
  split at h
  · cases h
  · simp only [jp] at h
    obtain ⟨name, hname, h⟩ := except_bind_ok h
    obtain ⟨ty, hty, h⟩ := except_bind_ok h
    obtain ⟨off, _, h⟩ := except_bind_ok h
    obtain ⟨⟨c1, d1⟩, hall, h⟩ := except_bind_ok h
    simp only [pure, Except.pure, Except.ok.injEq, Prod.mk.injEq] at h
    obtain ⟨rfl, rfl⟩ := h
    obtain ⟨hv, t, ht, hnone, hsome⟩ := generateAll_typed hall
    obtain ⟨k, hint⟩ := (validateField_typed hv).1 rfl
    rw [ht] at hint; cases hint
    have hk := hs _ _ _ ht
    change resolveKind tbl ty = some .int at hk
    unfold typedLength
    rw [getReq_ok hty, getReq_ok hname]
    simp only [hk, if_true]
    refine ⟨_, rfl, ?_⟩
    have hacc : (if optional = true then { c1 with reachedOptional := true } else c1).accessible = c1.accessible := by
      split <;> rfl
    exact agreeV_append (fd := ⟨name, .int k, off, false⟩) ha (hacc.trans (hsome name rfl))

theorem genDummyInstr_typed {tf : TypeEnv} {tbl : List (String × Kind)} {ctx ctx' : Ctx} {d d' : Data} {e : Xml}
    {vis : Visible} (hs : TfSound tf tbl) (h : genDummyInstr tf ctx d e = .ok (ctx', d')) (ha : AgreeV ctx vis) :
    ∃ vis', typedDummy tbl vis e = some vis' ∧ AgreeV ctx' vis' := by
  unfold genDummyInstr at h
  obtain ⟨ty, hty, h⟩ := except_bind_ok h
  obtain ⟨text, htext, h⟩ := except_bind_ok h
  extract_lets p ng d0 at h
  obtain ⟨u, hv, h⟩ := except_bind_ok h
  obtain ⟨d1, hser, h⟩ := except_bind_ok h
  obtain ⟨d2, _, h⟩ := except_bind_ok h
  simp only [pure, Except.pure, Except.ok.injEq, Prod.mk.injEq] at h
  obtain ⟨rfl, _⟩ := h
  obtain ⟨t, ht⟩ := generateSerialize_type hser
  have hk := hs _ _ _ ht
  have hval := typedValue_of (e := e) hv ht htext
  change resolveKind tbl ty = some (kindOf t) at hk
  change typedValue (kindOf t) none e = true at hval
  unfold typedDummy
  rw [getReq_ok hty]
  simp only [hk, hval, if_true]
  exact ⟨_, rfl, agreeV_of_accessible ha rfl⟩


/-! ### switches -/

theorem any_ordinal (vals : List EnumVal) (o : Int) :
    vals.any (·.ordinal == o) = (vals.map (·.ordinal)).contains o := by
  induction vals with
  | nil => rfl
  | cons v vs ih => simp only [List.any_cons, List.map_cons, List.contains_cons, ih]; rw [BEq.comm]

/-- T5: what a successful `caseValue` guarantees -/
theorem caseValue_typed {ctx : Ctx} {f : String} {c : Xml} {r : Int} (h : caseValue ctx f c = .ok r) :
    ∃ fd, ctx.field? f = some fd ∧ fd.array = false ∧ (kindOf fd.ty).switchable = true ∧
      caseValueOK (kindOf fd.ty) c = true := by
  unfold caseValue at h
  split at h
  · cases h
  rename_i fd hfd
  refine ⟨fd, hfd, ?_⟩
  extract_lets jp at h
  by_cases harr : fd.array = true
  · rw [if_pos harr] at h; replace h := except_bind_ok' h; cases h
  rw [if_neg harr] at h
  refine ⟨by simpa using harr, ?_⟩
  simp only [jp] at h
  obtain ⟨v, hv, h⟩ := except_bind_ok h
  unfold caseValueOK
  rw [getReq_ok hv]
  split at h
  · rename_i k hk
    rw [hk]
    refine ⟨rfl, ?_⟩
    simp only [kindOf]
    split at h
    · assumption
    · cases h
  · rename_i _ _ _ vals hk
    rw [hk]
    refine ⟨rfl, ?_⟩
    simp only [kindOf]
    split at h
    · rename_i ord hord
      rw [hord]
      split at h
      · cases h
      · rename_i hany
        rw [any_ordinal] at hany
        simpa using hany
    · rename_i hnone
      rw [hnone]
      split at h
      · rename_i ev hev
        exact find_name_contains (by rw [hev]; rfl)
      · cases h
  · cases h


theorem except_map_some_ok {x : Except GenErr Int} {c : Option Int}
    (h : x.map some = .ok c) : ∃ r, x = .ok r := by
  cases x with
  | error m => cases h
  | ok r => exact ⟨r, rfl⟩

/-- a switch with at least one `<case>`: the first one is not the default, so `caseValue` ran -/
theorem genCases_first (tf : TypeEnv) (ctx : Ctx) (f : String) : ∀ (cs : List Xml) (d : Data) (ro rd : Bool)
    (sc : List SerCase) (dc : List DeCase) (r : Data × Bool × Bool × List SerCase × List DeCase),
    genCases tf ctx d f cs true ro rd sc dc = .ok r → cs.any (·.tag == "case") = true →
    ∃ fd, ctx.field? f = some fd ∧ fd.array = false ∧ (kindOf fd.ty).switchable = true
  | [], _, _, _, _, _, _, _, hany => by cases hany
  | (.mk ctag cattrs ctext ctail cchildren) :: cs, d, ro, rd, sc, dc, r, h, hany => by
    unfold genCases at h
    dsimp only at h
    by_cases hct : (ctag != "case") = true
    · rw [if_pos hct] at h
      rw [List.any_cons] at hany
      have : ((Xml.mk ctag cattrs ctext ctail cchildren).tag == "case") = false := by
        simpa [Xml.tag] using hct
      rw [this, Bool.false_or] at hany
      exact genCases_first tf ctx f cs d ro rd sc dc r h hany
    rw [if_neg hct] at h
    split at h
    · cases h
    split at h
    · cases h
    rename_i cond hcond
    split at hcond
    · cases hcond
    · obtain ⟨v, hv⟩ := except_map_some_ok hcond
      obtain ⟨fd, h1, h2, h3, _⟩ := caseValue_typed hv
      exact ⟨fd, h1, h2, h3⟩

theorem typedBody_skip (tbl : List (String × Kind)) (vis : Visible) : ∀ (cs : List Xml),
    cs.any (fun x => Xml.instructionTags.contains x.tag) = false → typedBody tbl vis cs true = some vis
  | [], _ => by unfold typedBody; rfl
  | x :: xs, h => by
    rw [List.any_cons, Bool.or_eq_false_iff] at h
    unfold typedBody
    rw [if_pos (by rw [h.1]; rfl)]
    exact typedBody_skip tbl vis xs h.2


/-! ### the simulation -/

mutual

theorem instr_typed (tf : TypeEnv) (tbl : List (String × Kind)) (hs : TfSound tf tbl) :
    ∀ (x : Xml) (ctx : Ctx) (d : Data) (ctx' : Ctx) (d' : Data) (vis : Visible),
    AgreeV ctx vis → genInstruction tf ctx d x = .ok (ctx', d') →
    ∃ vis', typedInstr tbl vis x = some vis' ∧ AgreeV ctx' vis'
  | .mk tag attrs text tail children, ctx, d, ctx', d', vis, ha, h => by
    unfold genInstruction at h
    unfold typedInstr
    dsimp only at h ⊢
    by_cases hd : ctx.reachedDummy = true
    · rw [if_pos hd] at h; cases h
    rw [if_neg hd] at h
    by_cases h1 : (tag == "field") = true
    · rw [if_pos h1] at h ⊢; exact genFieldInstr_typed hs h ha
    rw [if_neg h1] at h ⊢
    by_cases h2 : (tag == "array") = true
    · rw [if_pos h2] at h ⊢; exact genArrayInstr_typed hs h ha
    rw [if_neg h2] at h ⊢
    by_cases h3 : (tag == "length") = true
    · rw [if_pos h3] at h ⊢; exact genLengthInstr_typed hs h ha
    rw [if_neg h3] at h ⊢
    by_cases h4 : (tag == "dummy") = true
    · rw [if_pos h4] at h ⊢; exact genDummyInstr_typed hs h ha
    rw [if_neg h4] at h ⊢
    by_cases h5 : (tag == "switch") = true
    · rw [if_pos h5] at h
      have ht : tag = "switch" := by simpa using h5
      subst ht
      rw [if_neg (by decide), if_pos (by decide)]
      split at h
      · cases h
      rename_i f hf
      rw [getReq_ok hf]
      dsimp only
      split at h
      · cases h
      split at h
      · cases h
      rename_i d2 ro rd sc dc hcases
      simp only [Except.ok.injEq, Prod.mk.injEq] at h
      obtain ⟨rfl, _⟩ := h
      have hag : AgreeV { ctx with reachedOptional := ro, reachedDummy := rd } vis :=
        agreeV_of_accessible ha rfl
      by_cases hany : children.any (·.tag == "case") = true
      · obtain ⟨fd, hfd, harr, hsw⟩ := genCases_first tf ctx f children _ _ _ _ _ _ hcases hany
        have hl := ha f
        rw [hfd] at hl
        simp only [Option.map_some, harr] at hl
        have hc := cases_typed tf tbl hs children ctx _ f true _ _ _ _ _ fd hfd hcases
        rw [if_neg (by simpa using hany), ← hl]
        simp only [hsw, hc, Bool.and_self, if_true]
        exact ⟨vis, rfl, hag⟩
      · rw [if_pos (by simpa using hany)]
        exact ⟨vis, rfl, hag⟩
    rw [if_neg h5] at h
    by_cases h6 : (tag == "chunked") = true
    · rw [if_pos h6] at h ⊢
      cases hch : ctx.chunked with
      | false =>
        simp only [hch, Bool.not_false, if_true] at h
        split at h
        · cases h
        rename_i c2 d2 hb
        have hag : AgreeV { ctx with chunked := true } vis := agreeV_of_accessible ha rfl
        obtain ⟨v2, hv2, ha2⟩ := body_typed tf tbl hs children false _ _ c2 d2 vis hag hb
        simp only [Except.ok.injEq, Prod.mk.injEq] at h
        obtain ⟨rfl, _⟩ := h
        exact ⟨v2, hv2, agreeV_of_accessible ha2 rfl⟩
      | true =>
        simp only [hch, Bool.not_true, Bool.false_eq_true, if_false] at h
        split at h
        · cases h
        rename_i c2 d2 hb
        obtain ⟨v2, hv2, ha2⟩ := body_typed tf tbl hs children false _ _ c2 d2 vis ha hb
        simp only [Except.ok.injEq, Prod.mk.injEq] at h
        obtain ⟨rfl, _⟩ := h
        exact ⟨v2, hv2, ha2⟩
    rw [if_neg h6] at h ⊢
    rw [if_neg h5]
    by_cases h7 : (tag == "break") = true
    · rw [if_pos h7] at h
      split at h
      · cases h
      · simp only [Except.ok.injEq, Prod.mk.injEq] at h
        obtain ⟨rfl, _⟩ := h
        exact ⟨vis, rfl, agreeV_of_accessible ha rfl⟩
    rw [if_neg h7] at h
    simp only [Except.ok.injEq, Prod.mk.injEq] at h
    obtain ⟨rfl, _⟩ := h
    exact ⟨vis, rfl, ha⟩

theorem body_typed (tf : TypeEnv) (tbl : List (String × Kind)) (hs : TfSound tf tbl) :
    ∀ (cs : List Xml) (only : Bool) (ctx : Ctx) (d : Data) (ctx' : Ctx) (d' : Data) (vis : Visible),
    AgreeV ctx vis → genBody tf ctx d cs only = .ok (ctx', d') →
    ∃ vis', typedBody tbl vis cs only = some vis' ∧ AgreeV ctx' vis'
  | [], only, ctx, d, ctx', d', vis, ha, h => by
    unfold genBody at h
    simp only [Except.ok.injEq, Prod.mk.injEq] at h
    obtain ⟨rfl, _⟩ := h
    unfold typedBody
    exact ⟨vis, rfl, ha⟩
  | c :: cs, only, ctx, d, ctx', d', vis, ha, h => by
    unfold genBody at h
    unfold typedBody
    by_cases hc : (only && !(Xml.instructionTags.contains c.tag)) = true
    · rw [if_pos hc] at h ⊢
      exact body_typed tf tbl hs cs only ctx d ctx' d' vis ha h
    · rw [if_neg hc] at h ⊢
      split at h
      · cases h
      · rename_i c1 d1 hi
        obtain ⟨v1, hv1, ha1⟩ := instr_typed tf tbl hs c ctx d c1 d1 vis ha hi
        rw [hv1]
        exact body_typed tf tbl hs cs only c1 d1 ctx' d' v1 ha1 h

theorem cases_typed (tf : TypeEnv) (tbl : List (String × Kind)) (hs : TfSound tf tbl) :
    ∀ (cs : List Xml) (ctx : Ctx) (d : Data) (f : String) (start ro rd : Bool)
    (sc : List SerCase) (dc : List DeCase) (r : Data × Bool × Bool × List SerCase × List DeCase)
    (fd : FieldData), ctx.field? f = some fd →
    genCases tf ctx d f cs start ro rd sc dc = .ok r → typedCases tbl (kindOf fd.ty) cs = true
  | [], _, _, _, _, _, _, _, _, _, _, _, _ => by unfold typedCases; rfl
  | (.mk ctag cattrs ctext ctail cchildren) :: cs, ctx, d, f, start, ro, rd, sc, dc, r, fd, hfd, h => by
    unfold genCases at h
    unfold typedCases
    dsimp only at h ⊢
    by_cases hct : (ctag != "case") = true
    · rw [if_pos hct] at h ⊢
      exact cases_typed tf tbl hs cs ctx d f start ro rd sc dc r fd hfd h
    rw [if_neg hct] at h ⊢
    split at h
    · cases h
    split at h
    · cases h
    rename_i cond hcond
    rw [if_neg (by rw [hfd]; simp)] at h
    have hval : (battr (Xml.mk ctag cattrs ctext ctail cchildren) "default" ||
        caseValueOK (kindOf fd.ty) (Xml.mk ctag cattrs ctext ctail cchildren)) = true := by
      rw [← getBool_eq_battr]
      cases hdf : (Xml.mk ctag cattrs ctext ctail cchildren).getBool "default" with
      | true => rfl
      | false =>
        rw [hdf] at hcond
        simp only [Bool.false_eq_true, if_false] at hcond
        obtain ⟨v, hv⟩ := except_map_some_ok hcond
        obtain ⟨fd', h1, _, _, h4⟩ := caseValue_typed hv
        rw [hfd] at h1; cases h1
        simpa using h4
    rw [hval, Bool.true_and, Bool.and_eq_true]
    by_cases hem : (!(cchildren.any (fun x => Xml.instructionTags.contains x.tag))) = true
    · rw [if_pos hem] at h
      rw [typedBody_skip _ _ cchildren (by simpa using hem)]
      exact ⟨rfl, cases_typed tf tbl hs cs ctx _ f false _ _ _ _ r fd hfd h⟩
    · rw [if_neg hem] at h
      split at h
      · cases h
      rename_i c2 cd hb
      have hag : AgreeV { ctx with accessible := [], lenRef := [] } [] := fun _ => rfl
      obtain ⟨v2, hv2, _⟩ := body_typed tf tbl hs cchildren true _ _ c2 cd [] hag hb
      rw [hv2]
      exact ⟨rfl, cases_typed tf tbl hs cs ctx _ f false _ _ _ _ r fd hfd h⟩

end


/-! ### from `compile` down to the class bodies -/

theorem genObject_typedClass {tf : TypeEnv} {tbl : List (String × Kind)} (hs : TfSound tf tbl) {name : String}
    {e : Xml} {cs : List ClassIR} (h : genObject tf name e = .ok cs) : typedClass tbl e = true := by
  obtain ⟨ctx, d, hb⟩ := genObject_ok h
  obtain ⟨v, hv, _⟩ := body_typed tf tbl hs e.children true _ _ ctx d [] (fun _ => rfl) hb
  unfold typedClass
  rw [hv]; rfl

theorem genStruct_typedClass {tf : TypeEnv} {tbl : List (String × Kind)} (hs : TfSound tf tbl) {e : Xml}
    {r : List ClassIR × GenFile} (h : genStruct tf e = .ok r) : typedClass tbl e = true := by
  unfold genStruct at h
  obtain ⟨n, _, h⟩ := except_bind_ok h
  obtain ⟨t, _, h⟩ := except_bind_ok h
  split at h
  · obtain ⟨cs, hcs, _⟩ := except_bind_ok h
    exact genObject_typedClass hs hcs
  · cases h

theorem genPacket_typedClass {tf : TypeEnv} {tbl : List (String × Kind)} (hs : TfSound tf tbl) {dir : String}
    {e : Xml} {r : List ClassIR × GenFile} (h : genPacket tf dir e = .ok r) : typedClass tbl e = true := by
  unfold genPacket at h
  extract_lets jp at h
  obtain ⟨suffix, h⟩ : ∃ s, jp s = .ok r := by
    repeat' split at h
    all_goals first | cases h | (obtain ⟨s, _, h⟩ := except_bind_ok h; exact ⟨s, h⟩)
  simp only [jp] at h
  obtain ⟨fam, _, h⟩ := except_bind_ok h
  obtain ⟨act, _, h⟩ := except_bind_ok h
  obtain ⟨ft, _, h⟩ := except_bind_ok h
  split at h
  · obtain ⟨fvals, _, h⟩ := except_bind_ok h
    obtain ⟨at_, _, h⟩ := except_bind_ok h
    split at h
    · obtain ⟨avals, _, h⟩ := except_bind_ok h
      split at h
      · obtain ⟨fv, _, h⟩ := except_bind_ok h
        split at h
        · obtain ⟨av, _, h⟩ := except_bind_ok h
          obtain ⟨cs, hcs, _⟩ := except_bind_ok h
          exact genObject_typedClass hs hcs
        · cases h
      · cases h
    · cases h
  · cases h

theorem genFile_typedClass {tf : TypeEnv} {tbl : List (String × Kind)} (hs : TfSound tf tbl) {f : ProtoFile}
    {out : GenOutput} (h : genFile tf f = .ok out) {e : Xml}
    (he : e ∈ f.root.findall "struct" ++ f.root.findall "packet") : typedClass tbl e = true := by
  unfold genFile at h
  obtain ⟨enums, _, h⟩ := except_bind_ok h
  obtain ⟨structs, hst, h⟩ := except_bind_ok h
  obtain ⟨packets, hp, h⟩ := except_bind_ok h
  rcases List.mem_append.1 he with he | he
  · obtain ⟨y, hy⟩ := mapM'_ok hst e he
    exact genStruct_typedClass hs hy
  · obtain ⟨y, hy⟩ := mapM'_ok hp e he
    exact genPacket_typedClass hs hy

/-- C17c -/
theorem typedSpec_of_compile {files : List ProtoFile} {out : GenOutput} (h : compile files = .ok out) :
    typedSpec (files.map (·.root)) = true := by
  obtain ⟨defs, fuel, rfl, _, _, hgen⟩ := compile_spec h
  unfold typedSpec
  rw [declTable_eq, List.all_eq_true]
  intro r hr
  obtain ⟨f, hf, rfl⟩ := List.mem_map.1 hr
  rw [List.all_eq_true]
  intro e he
  obtain ⟨o, ho⟩ := hgen f hf
  exact genFile_typedClass (tfSound_getType _ _) ho he

end EoVerif.Gen.Typed
