import EoVerif.Lemmas.DeConformSim
set_option linter.unusedVariables false
/-! `<array>` for C03b: the emitted loops against `readCounted` / `readWhile`. -/
namespace EoVerif.Gen.DeConform
open EoVerif EoVerif.Gen EoVerif.Spec EoVerif.Gen.Conform

theorem repeatM_succ' {σ} (f : Nat → σ → Res σ Unit) (k i : Nat) (s : σ) :
    repeatM f (k + 1) i s = bindD (f i s) (fun s' _ => repeatM f k (i + 1) s') := by
  rw [repeatM]
  obtain ⟨s', x⟩ := f i s
  cases x with
  | error e => rfl
  | ok u => cases u; rfl

/-- the state inside the loop filling the array local `n`: `acc` read so far -/
structure LoopRel (n : String) (st0 : DeSt) (s0 : RSt) (acc : List Value) (st : DeSt) (s : RSt) : Prop where
  r : RRel st.r s.r
  start : st.startPos = st0.startPos
  chunked : st.r.chunked = st0.r.chunked
  acc : st.get n = some (.tuple acc)
  others : ∀ m, m ≠ n → st.get m = st0.get m
  env : s.env = s0.env
  attrs : s.attrs = s0.attrs
  sstart : s.start = s0.start

theorem LoopRel.idx {n st0 s0 acc st s} (h : LoopRel n st0 s0 acc st s) (i : Nat) :
    LoopRel n st0 s0 acc { st with idx := i } s :=
  ⟨h.r, h.start, h.chunked, h.acc, h.others, h.env, h.attrs, h.sstart⟩

/-- one element: read and append -/
theorem elem_sim {call : DeCall} {rcall : RCall} {n : String} {elem : Scalar} {st0 : DeSt} {s0 : RSt}
    {acc : List Value} {st : DeSt} {s : RSt} (hL : LoopRel n st0 s0 acc st s)
    (hcall : ∀ x ∈ scalarRefs elem, CallAt call rcall x)
    (hlen : ∀ e f p, elem = .str e (some (.byField f)) p →
      ∃ k, st0.get f = some (.int k) ∧ s0.get f = .int k ∧ f ≠ n)
    (hpad : ∀ e, elem ≠ .str e none true) :
    ConfD (execDeOps call [rdOp (.append n) elem] st) (readScalar rcall s elem)
      (fun st' _ p => LoopRel n st0 s0 (acc ++ [p.2]) st' { s with r := p.1 }) := by
  rw [execDeOps_single]
  unfold rdOp
  rw [exec_read]
  have hc := readVal_conf (call := call) (rcall := rcall) (st := st) (s := s) (sc := elem) hL.r
    (fun x hx => hcall x (by rw [hx]; simp [scalarRefs]))
    (fun e f p hs => by
      obtain ⟨k, h1, h2, h3⟩ := hlen e f p hs
      exact ⟨k, by rw [hL.others f h3]; exact h1, by rw [get_of_env_eq hL.env]; exact h2⟩) hpad
  generalize readVal call st (ioKindS elem) (coerceS elem) 0 = x at hc
  obtain ⟨st2, o⟩ := x
  cases hy : readScalar rcall s elem with
  | error e' =>
    rw [hy] at hc
    cases o with
    | error e => simpa using hc
    | ok v => exact hc.elim
  | ok p =>
    rw [hy] at hc
    cases o with
    | error e => exact hc.elim
    | ok v =>
      obtain ⟨a', v'⟩ := p
      simp only [ConfD_ok_ok] at hc
      obtain ⟨hv, hrr, hk, hsv⟩ := hc
      have hv' : v = v' := hv
      subst hv'
      have hg : st2.get n = some (.tuple acc) := by rw [kept_get hk]; exact hL.acc
      simp only [bindD_ok, store, hg, ConfD_ok_ok]
      refine ⟨?_, ?_, ?_, get_set_self _ _ _, ?_, hL.env, hL.attrs, hL.sstart⟩
      · rw [DeSt.set_r]; exact hrr
      · rw [set_startPos, hk.2.2]; exact hL.start
      · rw [DeSt.set_r, hk.1]; exact hL.chunked
      · intro m hm
        rw [get_set_ne _ _ _ _ (Ne.symm hm), kept_get hk]
        exact hL.others m hm

theorem rstep_nextChunk {st : DeSt} {a : AReader} (hr : RRel st.r a) (hc : st.r.chunked = true) :
    ∃ st', (((rstep st .nextChunk).1, (rstep st .nextChunk).2.map (fun _ => ())) : Res DeSt Unit) = (st', .ok ()) ∧
      RRel st'.r (nextChunkA a) ∧ Kept st st' := by
  have hac : a.chunked = true := by rw [← hr.chunked]; exact hc
  have hs : a.step .nextChunk = (nextChunkA a, .ok .none) := by
    unfold nextChunkA
    simp only [AReader.step, hac, Bool.not_true, Bool.false_eq_true, if_false]
  obtain ⟨h1, h2⟩ := hr.step .nextChunk
  rw [hs] at h1 h2
  have hch := step_chunked st.r .nextChunk (by simp)
  unfold rstep
  generalize st.r.step .nextChunk = x at h1 h2 hch
  obtain ⟨r', o⟩ := x
  simp only at h1 h2 hch
  subst h1
  exact ⟨_, rfl, h2, hch, rfl, rfl⟩

def delimOf (del trail : Bool) : Delim := if !del then .none else if !trail then .guarded else .always

/-- the body of the emitted `for` loop -/
def iterF (call : DeCall) (body : List DeOp) (delim : Delim) (N : Int) (i : Nat) (s : DeSt) : Res DeSt Unit :=
  match execDeOps call body { s with idx := i } with
  | (s', .error e) => (s', .error e)
  | (s', .ok ()) =>
    match delim with
    | .none => (s', .ok ())
    | .always => let (s'', r) := rstep s' .nextChunk; (s'', r.map (fun _ => ()))
    | .guarded =>
      if (i : Int) + 1 < N then let (s'', r) := rstep s' .nextChunk; (s'', r.map (fun _ => ()))
      else (s', .ok ())

theorem exec_forRange_lit (call : DeCall) (N : Int) (body : List DeOp) (delim : Delim) (st : DeSt) :
    execDeOp call (.forRange (.lit N) body delim) st = repeatM (iterF call body delim N) N.toNat 0 st := by
  rw [execDeOp]; rfl

theorem exec_forRange_var (call : DeCall) (v : String) (N : Int) (body : List DeOp) (delim : Delim) (st : DeSt)
    (h : st.get v = some (.int N)) :
    execDeOp call (.forRange (.var v) body delim) st = repeatM (iterF call body delim N) N.toNat 0 st := by
  rw [execDeOp]; simp only [h]; rfl

/-- one iteration of the counted loop -/
theorem iter_sim {call : DeCall} {rcall : RCall} {n : String} {elem : Scalar} {st0 : DeSt} {s0 : RSt}
    {acc : List Value} {st : DeSt} {s : RSt} (del trail : Bool) (N : Int) (i : Nat)
    (hL : LoopRel n st0 s0 acc st s)
    (hcall : ∀ x ∈ scalarRefs elem, CallAt call rcall x)
    (hlen : ∀ e f p, elem = .str e (some (.byField f)) p →
      ∃ k, st0.get f = some (.int k) ∧ s0.get f = .int k ∧ f ≠ n)
    (hpad : ∀ e, elem ≠ .str e none true) (hmode : del = true → st0.r.chunked = true) :
    ConfD (iterF call [rdOp (.append n) elem] (delimOf del trail) N i st)
      (match readScalar rcall s elem with
       | .error e => .error e
       | .ok (r, v) => .ok (({ s with r := if del && (trail || (i : Int) + 1 < N) then nextChunkA r else r } : RSt), acc ++ [v]))
      (fun st' _ p => LoopRel n st0 s0 p.2 st' p.1) := by
  have hc := elem_sim (call := call) (rcall := rcall) (hL.idx i) hcall hlen hpad
  unfold iterF
  generalize execDeOps call [rdOp (.append n) elem] { st with idx := i } = x at hc
  obtain ⟨st2, o⟩ := x
  cases hy : readScalar rcall s elem with
  | error e' =>
    rw [hy] at hc
    cases o with
    | error e => simpa using hc
    | ok v => exact hc.elim
  | ok p =>
    rw [hy] at hc
    cases o with
    | error e => exact hc.elim
    | ok u =>
      cases u
      obtain ⟨a', v'⟩ := p
      simp only [ConfD_ok_ok] at hc
      simp only
      -- the delimiter
      have hnext : del = true → ∃ st', (((rstep st2 .nextChunk).1, (rstep st2 .nextChunk).2.map (fun _ => ())) :
            Res DeSt Unit) = (st', .ok ()) ∧
          LoopRel n st0 s0 (acc ++ [v']) st' { s with r := nextChunkA a' } := by
        intro hd
        have hch : st2.r.chunked = true := by rw [hc.chunked]; exact hmode hd
        obtain ⟨st', h1, h2, h3⟩ := rstep_nextChunk hc.r hch
        refine ⟨st', h1, h2, h3.2.2.trans hc.start, h3.1.trans hc.chunked, ?_, ?_, hc.env, hc.attrs, hc.sstart⟩
        · rw [kept_get h3]; exact hc.acc
        · intro m hm; rw [kept_get h3]; exact hc.others m hm
      cases del with
      | false =>
        simp only [delimOf, Bool.not_false, if_true, Bool.false_and, Bool.false_eq_true, if_false, ConfD_ok_ok]
        exact hc
      | true =>
        obtain ⟨st', h1, h2⟩ := hnext rfl
        cases trail with
        | true =>
          simp only [delimOf, Bool.not_true, Bool.false_eq_true, if_false, Bool.true_and, Bool.true_or, if_true]
          rw [h1]
          exact h2
        | false =>
          simp only [delimOf, Bool.not_true, Bool.false_eq_true, if_false, Bool.not_false, if_true, Bool.true_and,
            Bool.false_or]
          by_cases hlt : (i : Int) + 1 < N
          · rw [if_pos hlt]
            have : decide ((i : Int) + 1 < N) = true := by simpa using hlt
            rw [this, h1]
            exact h2
          · rw [if_neg hlt]
            have : decide ((i : Int) + 1 < N) = false := by simpa using hlt
            rw [this]
            exact hc

/-- the counted loop -/
theorem counted_sim {call : DeCall} {rcall : RCall} {n : String} {elem : Scalar} {st0 : DeSt} {s0 : RSt}
    (del trail : Bool) (N : Int)
    (hcall : ∀ x ∈ scalarRefs elem, CallAt call rcall x)
    (hlen : ∀ e f p, elem = .str e (some (.byField f)) p →
      ∃ k, st0.get f = some (.int k) ∧ s0.get f = .int k ∧ f ≠ n)
    (hpad : ∀ e, elem ≠ .str e none true) (hmode : del = true → st0.r.chunked = true) :
    ∀ (k i : Nat) (acc : List Value) (st : DeSt) (s : RSt), LoopRel n st0 s0 acc st s →
    ConfD (repeatM (iterF call [rdOp (.append n) elem] (delimOf del trail) N) k i st)
      (readCounted rcall elem del trail N k i s acc)
      (fun st' _ p => LoopRel n st0 s0 p.2 st' p.1)
  | 0, i, acc, st, s, hL => by
    rw [repeatM_zero, readCounted]
    exact hL
  | k + 1, i, acc, st, s, hL => by
    rw [repeatM_succ', readCounted]
    have h1 := iter_sim (call := call) (rcall := rcall) del trail N i hL hcall hlen hpad hmode
    generalize iterF call [rdOp (.append n) elem] (delimOf del trail) N i st = x at h1
    obtain ⟨st2, o⟩ := x
    cases hy : readScalar rcall s elem with
    | error e' =>
      rw [hy] at h1
      cases o with
      | error e => simpa using h1
      | ok v => exact h1.elim
    | ok p =>
      rw [hy] at h1
      obtain ⟨a', v'⟩ := p
      cases o with
      | error e => exact h1.elim
      | ok u =>
        cases u
        simp only [ConfD_ok_ok] at h1
        simp only [bindD_ok]
        exact counted_sim del trail N hcall hlen hpad hmode k (i + 1) _ _ _ h1

/-! ### The `while` loop -/

theorem whileM_zero (cond : DeSt → Bool) (body : DeSt → Res DeSt Unit) (st : DeSt) :
    whileM cond body 0 st = if cond st then (st, .error .Diverges) else (st, .ok ()) := by
  rw [whileM]

theorem whileM_succ (cond : DeSt → Bool) (body : DeSt → Res DeSt Unit) (k : Nat) (st : DeSt) :
    whileM cond body (k + 1) st =
      if !cond st then (st, .ok ()) else bindD (body st) (fun s' _ => whileM cond body k s') := by
  rw [whileM]
  split
  · rfl
  · obtain ⟨s', x⟩ := body st
    cases x with
    | error e => rfl
    | ok u => cases u; rfl

/-- the body of the emitted `while` loop -/
def whileF (call : DeCall) (body : List DeOp) (delimited : Bool) (s : DeSt) : Res DeSt Unit :=
  match execDeOps call body s with
  | (s', .error e) => (s', .error e)
  | (s', .ok ()) =>
    let (s'', r) : Res DeSt Unit :=
      if delimited then (let (s'', r) := rstep s' .nextChunk; (s'', r.map (fun _ => ()))) else (s', .ok ())
    match r with
    | .error e => (s'', .error e)
    | .ok () =>
      if s''.r.pos == s.r.pos && s''.r.chunkStart == s.r.chunkStart && s''.r.remaining > 0 then (s'', .error .Diverges)
      else (s'', .ok ())

theorem exec_while (call : DeCall) (body : List DeOp) (delimited : Bool) (st : DeSt) :
    execDeOp call (.whileRemaining body delimited) st
      = whileM (fun s => s.r.remaining > 0) (whileF call body delimited) (2 * st.r.data.length + 2) st := by
  rw [execDeOp]; rfl

theorem while_sim {call : DeCall} {rcall : RCall} {n : String} {elem : Scalar} {st0 : DeSt} {s0 : RSt}
    (del : Bool)
    (hcall : ∀ x ∈ scalarRefs elem, CallAt call rcall x)
    (hlen : ∀ e f p, elem = .str e (some (.byField f)) p →
      ∃ k, st0.get f = some (.int k) ∧ s0.get f = .int k ∧ f ≠ n)
    (hpad : ∀ e, elem ≠ .str e none true) (hmode : del = true → st0.r.chunked = true) :
    ∀ (k : Nat) (acc : List Value) (st : DeSt) (s : RSt), LoopRel n st0 s0 acc st s →
    ConfD (whileM (fun s => s.r.remaining > 0) (whileF call [rdOp (.append n) elem] del) k st)
      (readWhile rcall elem del k s acc)
      (fun st' _ p => LoopRel n st0 s0 p.2 st' p.1)
  | 0, acc, st, s, hL => by
    rw [whileM_zero, readWhile]
    have hrem := hL.r.remaining
    by_cases hp : st.r.remaining > 0
    · have : s.r.remaining > 0 := by rw [hrem] at hp; omega
      simp only [hp, decide_true, if_true, this]
      exact Or.inr ⟨rfl, rfl⟩
    · have : ¬ s.r.remaining > 0 := by rw [hrem] at hp; omega
      simp only [hp, decide_false, Bool.false_eq_true, if_false, this]
      exact hL
  | k + 1, acc, st, s, hL => by
    rw [whileM_succ, readWhile]
    have hrem := hL.r.remaining
    by_cases hp : st.r.remaining > 0
    · have h0 : (s.r.remaining == 0) = false := by
        rw [hrem] at hp
        cases hq : (s.r.remaining == 0) with
        | false => rfl
        | true => have : s.r.remaining = 0 := by simpa using hq
                  omega
      simp only [hp, decide_true, Bool.not_true, Bool.false_eq_true, if_false, h0]
      have hc := elem_sim (call := call) (rcall := rcall) hL hcall hlen hpad
      unfold whileF
      generalize execDeOps call [rdOp (.append n) elem] st = x at hc
      obtain ⟨st2, o⟩ := x
      cases hy : readScalar rcall s elem with
      | error e' =>
        rw [hy] at hc
        cases o with
        | error e => simpa using hc
        | ok v => exact hc.elim
      | ok p =>
        rw [hy] at hc
        cases o with
        | error e => exact hc.elim
        | ok u =>
          cases u
          obtain ⟨a', v'⟩ := p
          simp only [ConfD_ok_ok] at hc
          simp only
          -- after the delimiter
          have hstep : ∃ st3, (if del = true then (((rstep st2 .nextChunk).1,
                (rstep st2 .nextChunk).2.map (fun _ => ())) : Res DeSt Unit) else (st2, .ok ())) = (st3, .ok ()) ∧
              LoopRel n st0 s0 (acc ++ [v']) st3 { s with r := if del = true then nextChunkA a' else a' } := by
            cases del with
            | false => exact ⟨st2, rfl, hc⟩
            | true =>
              have hch : st2.r.chunked = true := by rw [hc.chunked]; exact hmode rfl
              obtain ⟨st', h1, h2, h3⟩ := rstep_nextChunk hc.r hch
              refine ⟨st', by simpa using h1, h2, h3.2.2.trans hc.start, h3.1.trans hc.chunked, ?_, ?_, hc.env, hc.attrs,
                hc.sstart⟩
              · rw [kept_get h3]; exact hc.acc
              · intro m hm; rw [kept_get h3]; exact hc.others m hm
          obtain ⟨st3, h1, h2⟩ := hstep
          rw [h1]
          simp only
          have e1 : st3.r.pos = (if del = true then nextChunkA a' else a').pos := h2.r.pos
          have e2 : st3.r.chunkStart = (if del = true then nextChunkA a' else a').chunkStart := h2.r.chunkStart
          have e3 := h2.r.remaining
          simp only at e3
          have f1 : st.r.pos = s.r.pos := hL.r.pos
          have f2 : st.r.chunkStart = s.r.chunkStart := hL.r.chunkStart
          rw [e1, e2, e3, f1, f2]
          generalize (if del = true then nextChunkA a' else a') = a'' at h2 e1 e2 e3
          by_cases hdiv : (a''.pos == s.r.pos && a''.chunkStart == s.r.chunkStart && decide (a''.remaining > 0)) = true
          · have : (a''.pos == s.r.pos && a''.chunkStart == s.r.chunkStart && decide ((a''.remaining : Int) > 0)) = true := by
              simp only [Bool.and_eq_true, decide_eq_true_eq] at hdiv ⊢
              exact ⟨hdiv.1, by omega⟩
            rw [if_pos this, if_pos hdiv]
            simp only [bindD_err, ConfD_err_err]
            exact Or.inr ⟨rfl, rfl⟩
          · have : ¬ (a''.pos == s.r.pos && a''.chunkStart == s.r.chunkStart && decide ((a''.remaining : Int) > 0)) = true := by
              intro hh
              apply hdiv
              simp only [Bool.and_eq_true, decide_eq_true_eq] at hh ⊢
              exact ⟨hh.1, by omega⟩
            rw [if_neg this, if_neg hdiv]
            simp only [bindD_ok]
            exact while_sim del hcall hlen hpad hmode k _ _ _ h2
    · have h0 : (s.r.remaining == 0) = true := by
        rw [hrem] at hp
        have : s.r.remaining = 0 := by omega
        simp [this]
      simp only [hp, decide_false, Bool.not_false, if_true, h0]
      exact hL

end EoVerif.Gen.DeConform
