import EoVerif.Lemmas.DeConformClass
set_option linter.unusedVariables false
/-! `deserializeBody` of a generated class against `classRead` of the body it was generated from (C03b). -/
namespace EoVerif.Gen.DeConform
open EoVerif EoVerif.Gen EoVerif.Spec EoVerif.Gen.Conform

/-- the generated class `ir` against the body `b` it was generated from -/
structure ClassRel (lex : Bool) (b : List TInstr) (ir : ClassIR) : Prop where
  ops : OpsL lex true b ir.de
  fields : ir.fields = (declsL b).map fieldOfDecl
  params : ir.params = (declsL b).filterMap paramOfDecl
  args : ir.deArgs = (declsL b).filterMap argOfDecl
  init : InitOK (declsL b) ir.initBody

theorem okL_of_bodyOK {b : List TInstr} (h : bodyOK b = true) : okL [] b = true ∧ (namesL b).Nodup := by
  unfold bodyOK at h
  rw [Bool.and_eq_true, Bool.and_eq_true, decide_eq_true_eq] at h
  exact ⟨h.1.1, h.1.2⟩

set_option maxHeartbeats 800000 in
theorem class_sim {call : DeCall} {rcall : RCall} {lex : Bool} {b : List TInstr} {ir : ClassIR}
    (hrel : ClassRel lex b ir) (hok : bodyOK b = true)
    (hcall : ∀ x ∈ refsL b, CallAt call rcall x)
    (hcases : ∀ x ∈ directCases lex b, x.2.1 ≠ [] → CaseAt call rcall x.2.2 x.1 x.2.1)
    (r : Reader) (a : AReader) (hr : RRel r a) (hmode : lex = true → r.chunked = true) :
    ConfD (deserializeBody call ir r) (classRead rcall lex ir.name b a) (CallPost r) := by
  obtain ⟨hokL, hnd⟩ := okL_of_bodyOK hok
  have hD := declsOK_of_bodyOK hok
  have h0 : DynD [] [] true lex { r := r, startPos := r.pos } { r := a, start := a.pos } := by
    refine ⟨hr, hr.pos, hmode, fun _ => rfl, trivial, (fun d hd => by cases hd), (fun d hd => by cases hd),
      (fun p hp => by cases hp), fun n _ => rfl⟩
  have hsim := sim_instrs (call := call) (rcall := rcall) b lex true ir.de [] [] _ _ hrel.ops hokL hcall hcases
    (by simpa using hnd) h0
  unfold deserializeBody classRead
  simp only
  generalize execDeOps call ir.de { r := r, startPos := r.pos } = x at hsim
  obtain ⟨st, res⟩ := x
  cases hy : readInstrs rcall lex b { r := a, start := a.pos } with
  | error e' =>
    rw [hy] at hsim
    cases res with
    | error e => simpa using hsim
    | ok u => exact hsim.elim
  | ok cs =>
    rw [hy] at hsim
    cases res with
    | error e => exact hsim.elim
    | ok u =>
      simp only [ConfD_ok_ok, List.nil_append] at hsim
      simp only
      -- the arguments of the constructor call
      rw [if_neg]
      rotate_left
      · rw [List.any_eq_true]
        rintro ⟨p, hp, hpm⟩
        rw [List.mem_map] at hp
        obtain ⟨n, hn, rfl⟩ := hp
        rw [hrel.args, List.mem_filterMap] at hn
        obtain ⟨d, hd, hdn⟩ := hn
        obtain ⟨_, rfl⟩ := argOfDecl_eq_some hdn
        obtain ⟨vm, h1, h2, _⟩ := hsim.env d hd
        simp only [h1, Option.getD_some] at hpm
        cases vm <;> simp_all
      have hnames := AttrsOK_names hsim.attrs
      have hand : (cs.attrs.map (·.1)).Nodup := by rw [hnames]; exact hD.nodup
      have hce := construct_eq (ir := ir) (val := fun n => (st.get n).getD .missing) hD hrel.fields hrel.params
        hrel.init hsim.attrs (by
          intro d hd hv
          obtain ⟨vm, h1, _, h3⟩ := hsim.env d hd
          obtain ⟨v, hv', _⟩ := AttrsOK_mem hsim.attrs d hd
          have hae : cs.get d.name = v := hsim.attrEnv _ hv'
          rw [look_of_mem hand hv', ← hae]
          simp only [h1, Option.getD_some]
          exact (h3 hv).symm)
      rw [← hrel.args] at hce
      rw [hce]
      simp only [ConfD_ok_ok, CallPost, setByteSize]
      obtain ⟨_, hrr⟩ := hsim.r.step (.setChunked r.chunked)
      refine ⟨?_, ?_, step_setChunked_chunked _ _, ⟨_, _, _, rfl⟩⟩
      · rw [finishObj_eq, hsim.r.pos, hr.pos]
      · rw [← hr.chunked]; exact hrr

end EoVerif.Gen.DeConform
