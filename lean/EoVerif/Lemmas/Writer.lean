import EoVerif.Model.Writer
import EoVerif.Props.C07
import EoVerif.Props.C08
/-! Helper lemmas for C09 (and reused by C04/C06). -/
namespace EoVerif.Writer

/-! ### Number encoding -/

/-- `encode_number` only ever raises `ValueError`. -/
theorem num_encode_error (n : Int) (e : PyErr) (h : Num.encode n = .error e) : e = .ValueError := by
  unfold Num.encode at h
  split at h
  split at h
  · cases h
  · cases h; rfl

/-- A successful `encode_number` always yields four bytes (for *any* integer). -/
theorem num_encode_length (n : Int) (bs : Bytes) (h : Num.encode n = .ok bs) : bs.length = 4 := by
  unfold Num.encode at h
  split at h
  split at h
  · cases h; rfl
  · cases h

/-- In range, `encode_number` succeeds. -/
theorem num_encode_ok (n : Int) (h0 : 0 ≤ n) (h1 : n < Num.INT_MAX) :
    ∃ bs, Num.encode n = .ok bs ∧ bs.length = 4 := by
  obtain ⟨bs, h, hl, _⟩ := Num.decode_encode n h0 h1
  exact ⟨bs, h, hl⟩

/-! ### `addNumber` -/

theorem addNumber_error_state (w : Writer) (n m : Int) (k : Nat) (e : PyErr)
    (h : (addNumber w n m k).2 = .error e) : (addNumber w n m k).1 = w := by
  unfold addNumber at *
  split at h
  · rfl
  · split at h
    · rfl
    · cases h

theorem addNumber_error_value (w : Writer) (n m : Int) (k : Nat) (e : PyErr)
    (h : (addNumber w n m k).2 = .error e) : e = .ValueError := by
  unfold addNumber at h
  split at h
  · rename_i e' h1
    unfold checkNumberSize at h1
    split at h1
    · cases h1; cases h; rfl
    · cases h1
  · split at h
    · rename_i e' h2
      cases h
      exact num_encode_error n _ h2
    · cases h

/-- For `n ≥ 0` and a limit `m < INT_MAX`, `addNumber` rejects exactly when `n > m`. -/
theorem addNumber_rejects_iff (w : Writer) (n m : Int) (k : Nat) (h0 : 0 ≤ n)
    (hm : m < Num.INT_MAX) :
    (addNumber w n m k).2 = .error .ValueError ↔ n > m := by
  unfold addNumber checkNumberSize
  by_cases hn : n > m
  · simp [hn]
  · have hlt : n < Num.INT_MAX := by omega
    obtain ⟨bs, hbs, _⟩ := num_encode_ok n h0 hlt
    simp [hn, hbs]

theorem addNumber_ok (w : Writer) (n m : Int) (k : Nat) (hk : k ≤ 4)
    (h : (addNumber w n m k).2 = .ok ()) :
    ∃ bs, (addNumber w n m k).1.data = w.data ++ bs ∧ bs.length = k := by
  unfold addNumber at *
  split at h
  · cases h
  · split at h
    · cases h
    · rename_i bs h2
      refine ⟨bs.take k, rfl, ?_⟩
      have := num_encode_length n bs h2
      simp only [List.length_take]
      omega

theorem addNumber_san (w : Writer) (n m : Int) (k : Nat) : (addNumber w n m k).1.san = w.san := by
  unfold addNumber
  split
  · rfl
  · split <;> rfl

theorem addNumber_prefix (w : Writer) (n m : Int) (k : Nat) :
    ∃ bs, (addNumber w n m k).1.data = w.data ++ bs := by
  unfold addNumber
  split
  · exact ⟨[], by simp⟩
  · split
    · exact ⟨[], by simp⟩
    · exact ⟨_, rfl⟩

/-! ### Strings -/

theorem sanitize_length (san : Bool) (bs : Bytes) : (sanitize san bs).length = bs.length := by
  unfold sanitize; split <;> simp

theorem ansi_encode_length (s : Ansi.Str) : (Ansi.encode s).length = s.length := by
  simp [Ansi.encode]

theorem strBytes_length (w : Writer) (s : Ansi.Str) : (w.strBytes s).length = s.length := by
  simp [strBytes, sanitize_length, ansi_encode_length]

theorem addPadding_length (bs : Bytes) (length : Int) (h : (bs.length : Int) ≤ length) :
    (addPadding bs length).length = length.toNat := by
  unfold addPadding
  split
  · omega
  · simp only [List.length_append, List.length_replicate]; omega

theorem addPadding_eq (bs : Bytes) (length : Int) :
    addPadding bs length = bs ++ List.replicate (length.toNat - bs.length) 0xFF := by
  unfold addPadding
  split
  · rename_i h
    have : length.toNat - bs.length = 0 := by omega
    simp [this]
  · rfl

theorem checkStringLength_error (s : Ansi.Str) (length : Int) (padded : Bool) (e : PyErr)
    (h : checkStringLength s length padded = .error e) : e = .ValueError := by
  unfold checkStringLength at h
  split at h
  · split at h
    · cases h
    · cases h; rfl
  · split at h
    · cases h; rfl
    · cases h

theorem checkStringLength_error_iff (s : Ansi.Str) (length : Int) (padded : Bool) :
    checkStringLength s length padded = .error .ValueError ↔
      (if padded then (s.length : Int) > length else (s.length : Int) ≠ length) := by
  unfold checkStringLength
  cases padded
  · by_cases h : (s.length : Int) = length <;> simp [h]
  · by_cases h : length ≥ (s.length : Int)
    · simp [h] <;> omega
    · simp [h] <;> omega

theorem checkStringLength_ok (s : Ansi.Str) (length : Int) (padded : Bool)
    (h : checkStringLength s length padded = .ok ()) :
    if padded then (s.length : Int) ≤ length else (s.length : Int) = length := by
  unfold checkStringLength at h
  cases padded
  · by_cases h' : (s.length : Int) = length
    · simpa using h'
    · simp [h'] at h
  · by_cases h' : length ≥ (s.length : Int)
    · simpa using h'
    · simp [h'] at h

/-! ### `step` -/

theorem step_prefix (w : Writer) (op : Op) : ∃ bs, (w.step op).1.data = w.data ++ bs := by
  cases op <;> simp only [step]
  case addByte v =>
    split
    · exact ⟨[], by simp⟩
    · split
      · exact ⟨[], by simp⟩
      · exact ⟨_, rfl⟩
  case addBytes bs => exact ⟨_, rfl⟩
  case addChar n => exact addNumber_prefix ..
  case addShort n => exact addNumber_prefix ..
  case addThree n => exact addNumber_prefix ..
  case addInt n => exact addNumber_prefix ..
  case addString s => exact ⟨_, rfl⟩
  case addFixedString s l p =>
    split
    · exact ⟨[], by simp⟩
    · exact ⟨_, rfl⟩
  case addEncodedString s => exact ⟨_, rfl⟩
  case addFixedEncodedString s l p =>
    split
    · exact ⟨[], by simp⟩
    · exact ⟨_, rfl⟩
  case setSan b => exact ⟨[], by simp⟩

end EoVerif.Writer
