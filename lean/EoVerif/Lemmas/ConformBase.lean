import EoVerif.Spec.Protocol
import EoVerif.Lemmas.Writer
import EoVerif.Lemmas.GenWF
import EoVerif.Lemmas.GenCompile
/-! Base lemmas for C02 (serializer conformance): outcome agreement `Conf`, the writer calls against the
    declarative encodings (`encInt`, string shapes), and a few facts about `PyStr`. -/
namespace EoVerif.Gen.Conform
open EoVerif EoVerif.Gen EoVerif.Spec

/-- outcome agreement: both succeed and `P` relates the results, or both refuse (C16 errors only) -/
def Conf {σ α : Type} (r : σ × Except PyErr Unit) (o : Option α) (P : σ → α → Prop) : Prop :=
  match r, o with
  | (s, .ok ()), some a => P s a
  | (_, .error e), none => e = .SerializationError ∨ e = .ValueError
  | _, _ => False

@[simp] theorem Conf_ok_some {σ α : Type} (s : σ) (a : α) (P : σ → α → Prop) :
    Conf (s, .ok ()) (some a) P ↔ P s a := Iff.rfl
@[simp] theorem Conf_err_none {σ α : Type} (s : σ) (e : PyErr) (P : σ → α → Prop) :
    Conf (s, .error e) (none : Option α) P ↔ (e = .SerializationError ∨ e = .ValueError) := Iff.rfl
@[simp] theorem Conf_ok_none {σ α : Type} (s : σ) (P : σ → α → Prop) :
    Conf (s, .ok ()) (none : Option α) P ↔ False := Iff.rfl
@[simp] theorem Conf_err_some {σ α : Type} (s : σ) (e : PyErr) (a : α) (P : σ → α → Prop) :
    Conf (s, .error e) (some a) P ↔ False := Iff.rfl

theorem Conf.mono {σ α : Type} {r : σ × Except PyErr Unit} {o : Option α} {P Q : σ → α → Prop}
    (h : Conf r o P) (hpq : ∀ s a, P s a → Q s a) : Conf r o Q := by
  obtain ⟨s, x⟩ := r
  cases x with
  | error e => cases o <;> simp at h ⊢ <;> exact h
  | ok u => cases o with
    | none => exact h.elim
    | some a => exact hpq _ _ h

theorem Conf.map {σ α β : Type} {r : σ × Except PyErr Unit} {o : Option α} {P : σ → α → Prop}
    {Q : σ → β → Prop} (f : α → β) (h : Conf r o P) (hpq : ∀ s a, P s a → Q s (f a)) : Conf r (o.map f) Q := by
  obtain ⟨s, x⟩ := r
  cases x with
  | error e => cases o <;> simp at h ⊢ <;> exact h
  | ok u => cases o with
    | none => exact h.elim
    | some a => exact hpq _ _ h

def intOp : IntKind → Int → Writer.Op
  | .byte, n => .addByte n
  | .char, n => .addChar n
  | .short, n => .addShort n
  | .three, n => .addThree n
  | .int, n => .addInt n

theorem encode_neg (n : Int) (h : n < -1) : Num.encode n = .error .ValueError := by
  unfold Num.encode Num.encodeRaw
  have h1 : ¬ n ≥ Num.THREE_MAX := by unfold Num.THREE_MAX; omega
  have h2 : ¬ n ≥ Num.SHORT_MAX := by unfold Num.SHORT_MAX; omega
  have h3 : ¬ n ≥ Num.CHAR_MAX := by unfold Num.CHAR_MAX; omega
  simp only [h1, h2, h3, if_false]
  have : Num.isByte (n + 1) = false := by unfold Num.isByte; simp; omega
  simp [this]

theorem addNumber_conf (w : Writer) (n mx lim : Int) (k : Nat) (hn : n ≠ -1) (hl : lim = mx + 1) :
    Conf (Writer.addNumber w n mx k) ((if n < 0 ∨ n ≥ lim then none else
        match Num.encode n with | .ok bs => some (bs.take k) | .error _ => none) : Option Bytes)
      (fun w' b => w' = { w with data := w.data ++ b }) := by
  subst hl
  unfold Writer.addNumber Writer.checkNumberSize
  by_cases h1 : n > mx
  · simp only [h1, if_true]
    rw [if_pos (Or.inr (by omega))]; simp
  · simp only [h1, if_false]
    by_cases h0 : n < 0
    · rw [if_pos (Or.inl h0), encode_neg n (by omega)]; simp
    · rw [if_neg (by omega)]
      cases h : Num.encode n with
      | error e => simp [Writer.num_encode_error n e h]
      | ok bs => simp

theorem int_write_conf (w : Writer) (k : IntKind) (n : Int) (hn : n ≠ -1) :
    Conf (w.step (intOp k n)) (encInt k n) (fun w' b => w' = { w with data := w.data ++ b }) := by
  cases k with
  | byte =>
    unfold intOp Writer.step Writer.checkNumberSize encInt limitOf
    by_cases h1 : n > 0xFF
    · have : n < 0 ∨ n ≥ 256 := Or.inr (by omega)
      simp only [h1, if_true, this]; simp
    · simp only [h1, if_false]
      by_cases h0 : n < 0
      · simp [h0]
      · have : ¬ (256 ≤ n) := by omega
        simp [h0, this]
  | char => exact addNumber_conf w n (Num.CHAR_MAX - 1) 253 1 hn (by decide)
  | short => exact addNumber_conf w n (Num.SHORT_MAX - 1) 64009 2 hn (by decide)
  | three => exact addNumber_conf w n (Num.THREE_MAX - 1) 16194277 3 hn (by decide)
  | int => exact addNumber_conf w n (Num.INT_MAX - 1) 4097152081 4 hn (by decide)

/-! ### strings -/

def strPayload (san enc : Bool) (s : List Nat) : Bytes :=
  if enc then Str.encode (strBytes san s) else strBytes san s

theorem writer_strBytes (w : Writer) (s : List Nat) : w.strBytes s = strBytes w.san s := rfl

def strOp (enc : Bool) (s : List Nat) (len : Option Int) (padded : Bool) : Writer.Op :=
  match len with
  | none => if enc then .addEncodedString s else .addString s
  | some n => if enc then .addFixedEncodedString s n padded else .addFixedString s n padded

theorem str_none_step (w : Writer) (enc : Bool) (s : List Nat) :
    w.step (strOp enc s none false) = ({ w with data := w.data ++ strPayload w.san enc s }, .ok ()) := by
  cases enc <;> rfl

theorem str_none_wire (call : String → Value → Bool → W) (lens : String → Option LenInfo) (san enc padded : Bool)
    (s : List Nat) : wireScalar call lens san (.str enc none padded) (.str s) = some (strPayload san enc s) := by
  unfold wireScalar strPayload
  cases enc <;> simp

theorem str_lit_conf (call : String → Value → Bool → W) (lens : String → Option LenInfo) (w : Writer)
    (enc padded : Bool) (s : List Nat) (n : Int) :
    Conf (w.step (strOp enc s (some n) padded))
      (wireScalar call lens w.san (.str enc (some (.lit n)) padded) (.str s))
      (fun w' b => w' = { w with data := w.data ++ b }) := by
  unfold wireScalar strOp
  have hlen : (strBytes w.san s).length = s.length := Writer.strBytes_length w s
  cases padded with
  | true =>
    by_cases h : (s.length : Int) ≤ n
    · have hc : Writer.checkStringLength s n true = .ok () := by
        unfold Writer.checkStringLength; simp [h]
      cases enc <;>
        simp [Writer.step, hc, h, Writer.addPadding_eq, hlen, writer_strBytes]
    · have hc : Writer.checkStringLength s n true = .error .ValueError := by
        unfold Writer.checkStringLength; simp [h]
      cases enc <;> simp [Writer.step, hc, h]
  | false =>
    by_cases h : (s.length : Int) = n
    · have hc : Writer.checkStringLength s n false = .ok () := by
        unfold Writer.checkStringLength; simp [h]
      cases enc <;> simp [Writer.step, hc, h, writer_strBytes]
    · have hc : Writer.checkStringLength s n false = .error .ValueError := by
        unfold Writer.checkStringLength; simp [h]
      cases enc <;> simp [Writer.step, hc, h]

theorem str_field_step (w : Writer) (enc padded : Bool) (s : List Nat) :
    w.step (strOp enc s (some (s.length : Int)) padded)
      = ({ w with data := w.data ++ strPayload w.san enc s }, .ok ()) := by
  have hlen : (strBytes w.san s).length = s.length := Writer.strBytes_length w s
  have hc : Writer.checkStringLength s (s.length : Int) padded = .ok () := by
    unfold Writer.checkStringLength; cases padded <;> simp
  have hp : Writer.addPadding (strBytes w.san s) (s.length : Int) = strBytes w.san s := by
    unfold Writer.addPadding; simp [hlen]
  unfold strOp strPayload
  cases enc <;> cases padded <;> simp [Writer.step, hc, hp, writer_strBytes]

theorem str_field_wire (call : String → Value → Bool → W) (lens : String → Option LenInfo) (san enc padded : Bool)
    (s : List Nat) (f : String) (li : LenInfo) (hl : lens f = some li) :
    wireScalar call lens san (.str enc (some (.byField f)) padded) (.str s)
      = if (s.length : Int) ≤ lengthLimit li.k li.offset then some (strPayload san enc s) else none := by
  unfold wireScalar strPayload
  simp only [hl]
  split <;> cases enc <;> simp

/-! ### `PyStr` -/

theorem digit_not_space (c : Char) (h : PyStr.isDigitC c = true) : PyStr.isSpace c = false := by
  unfold PyStr.isDigitC at h
  simp only [Bool.and_eq_true, decide_eq_true_eq] at h
  obtain ⟨h1, h2⟩ := h
  have h1' : (48 : Nat) ≤ c.toNat := h1
  have h2' : c.toNat ≤ 57 := h2
  unfold PyStr.isSpace
  simp only [Bool.or_eq_false_iff, beq_eq_false_iff_ne, ne_eq]
  refine ⟨⟨⟨⟨⟨⟨⟨⟨⟨⟨⟨?_, ?_⟩, ?_⟩, ?_⟩, ?_⟩, ?_⟩, ?_⟩, ?_⟩, ?_⟩, ?_⟩, ?_⟩, ?_⟩ <;>
  · intro he; subst he; revert h1' h2'; decide

theorem stripL_digit (c : Char) (cs : List Char) (h : PyStr.isDigitC c = true) :
    PyStr.stripL (c :: cs) = c :: cs := by
  simp [PyStr.stripL, digit_not_space c h]

theorem digitsVal_all : ∀ (cs : List Char) (acc : Nat), cs.all PyStr.isDigitC = true →
    ∃ n, PyStr.digitsVal cs true acc = some n
  | [], acc, _ => ⟨acc, by simp [PyStr.digitsVal]⟩
  | c :: cs, acc, h => by
    simp only [List.all_cons, Bool.and_eq_true] at h
    unfold PyStr.digitsVal
    rw [if_pos h.1]
    exact digitsVal_all cs _ h.2

theorem isdigit_pyInt (s : String) (h : PyStr.isdigit s = true) : ∃ n : Nat, PyStr.pyInt? s = some (n : Int) := by
  unfold PyStr.isdigit at h
  simp only [Bool.and_eq_true, Bool.not_eq_true'] at h
  obtain ⟨hne, hall⟩ := h
  have hstrip : PyStr.strip s = s := by
    unfold PyStr.strip
    cases hl : s.toList with
    | nil =>
      have : s = "" := by rw [← String.ofList_toList (s := s), hl]
      subst this; simp at hne
    | cons c cs =>
      rw [hl] at hall
      have hc : PyStr.isDigitC c = true := by simp only [List.all_cons, Bool.and_eq_true] at hall; exact hall.1
      rw [stripL_digit c cs hc]
      have hall' : (c :: cs).reverse.all PyStr.isDigitC = true := by
        rw [List.all_reverse]; exact hall
      cases hr : (c :: cs).reverse with
      | nil => simp at hr
      | cons x xs =>
        rw [hr] at hall'
        have hx : PyStr.isDigitC x = true := by simp only [List.all_cons, Bool.and_eq_true] at hall'; exact hall'.1
        rw [stripL_digit x xs hx, ← hr, List.reverse_reverse, ← hl, String.ofList_toList]
  unfold PyStr.pyInt?
  rw [hstrip]
  cases hl : s.toList with
  | nil =>
    have : s = "" := by rw [← String.ofList_toList (s := s), hl]
    subst this; simp at hne
  | cons c cs =>
    rw [hl] at hall
    have hc : PyStr.isDigitC c = true := by simp only [List.all_cons, Bool.and_eq_true] at hall; exact hall.1
    have hcs : cs.all PyStr.isDigitC = true := by simp only [List.all_cons, Bool.and_eq_true] at hall; exact hall.2
    have hm : c ≠ '-' := by intro he; subst he; revert hc; decide
    have hp : c ≠ '+' := by intro he; subst he; revert hc; decide
    obtain ⟨n, hn⟩ := digitsVal_all cs (0 * 10 + (c.toNat - '0'.toNat)) hcs
    refine ⟨n, ?_⟩
    split
    · rename_i heq; cases heq
    · rename_i heq; cases heq; exact absurd rfl hm
    · rename_i heq; cases heq; exact absurd rfl hp
    · rename_i heq
      unfold PyStr.digitsVal
      rw [if_pos hc, hn]; rfl

end EoVerif.Gen.Conform
