import EoVerif.Model.GenCompile
import EoVerif.Spec.WellFormedTypes
import EoVerif.Lemmas.GenWF
/-! Helper lemmas for C17b (namespace EoVerif.Gen.Decls). -/
namespace EoVerif.Gen.Decls
open EoVerif.Spec EoVerif.Gen.WF

/-! ### `str.split(":")` -/

theorem splitOnChar_ne_nil (sep : Char) : ∀ (cs cur : List Char), PyStr.splitOnChar sep cs cur ≠ []
  | [], cur => by simp [PyStr.splitOnChar]
  | c :: cs, cur => by
    unfold PyStr.splitOnChar
    split
    · simp
    · exact splitOnChar_ne_nil sep cs _

theorem splitOnChar_single (sep : Char) : ∀ (cs cur ys : List Char),
    PyStr.splitOnChar sep cs cur = [ys] → ys = cur.reverse ++ cs
  | [], cur, ys, h => by simp [PyStr.splitOnChar] at h; simp [h]
  | c :: cs, cur, ys, h => by
    unfold PyStr.splitOnChar at h
    split at h
    · simp only [List.cons.injEq] at h
      exact absurd h.2 (splitOnChar_ne_nil sep cs [])
    · have := splitOnChar_single sep cs (c :: cur) ys h
      simp [this]

/-- a one-piece split is the string itself -/
theorem splitColon_single {s x : String} (h : PyStr.splitColon s = [x]) : x = s := by
  unfold PyStr.splitColon at h
  cases hs : PyStr.splitOnChar ':' s.toList [] with
  | nil => rw [hs] at h; cases h
  | cons a as =>
    rw [hs] at h
    cases as with
    | cons b bs => simp at h
    | nil =>
      have := splitOnChar_single ':' s.toList [] a hs
      simp only [List.map_cons, List.map_nil, List.cons.injEq, and_true] at h
      rw [← h, this]; simp [String.ofList_toList]

/-! ### `get_text` -/

theorem getText_textOf {v : Xml} {t : Option String} (h : v.getText = .ok t) : textOf v = t := by
  unfold Xml.getText at h
  unfold textOf
  dsimp only at h ⊢
  cases htl : Xml.nonBlankTails v.children with
  | nil =>
    rw [htl] at h
    simp only [Xml.getText.go] at h
    cases h; rfl
  | cons x xs =>
    have hx : x.isEmpty = false := by
      have : x ∈ Xml.nonBlankTails v.children := by rw [htl]; exact List.mem_cons_self ..
      unfold Xml.nonBlankTails at this
      have := (List.mem_filter.1 this).2
      simpa using this
    rw [htl] at h
    cases xs with
    | nil =>
      simp only [Xml.getText.go] at h
      by_cases ht : (PyStr.strip (v.text.getD "")).isEmpty = true
      · simp only [ht, Bool.not_true, Bool.false_eq_true, ↓reduceIte] at h
        cases h
        simp [hx, ht]
      · simp only [ht, Bool.not_false, ↓reduceIte] at h
        cases h
    | cons y ys =>
      simp only [Xml.getText.go] at h
      by_cases ht : (PyStr.strip (v.text.getD "")).isEmpty = true
      · simp [ht, hx] at h
      · simp [ht] at h

/-! ### enum members -/

def valName (v : Xml) : Option String := (v.get "name").map (fun x => if x == "None" then x ++ "_" else x)
def valOrd (v : Xml) : Option Int := PyStr.tryParseInt (textOf v)

theorem enumValues_spec (en : String) : ∀ (vs : List Xml) (ords : List Int) (names : List String) (r : List EnumVal),
    enumValues en vs ords names = .ok r →
      (∀ v ∈ vs, (valName v).isSome = true ∧ (valOrd v).isSome = true) ∧
      (vs.map valName).Nodup ∧ (vs.map valOrd).Nodup ∧
      (∀ x ∈ names, some x ∉ vs.map valName) ∧ (∀ o ∈ ords, some o ∉ vs.map valOrd) ∧
      r.map (·.name) = vs.filterMap (fun v => v.get "name")
  | [], ords, names, r, h => by
    simp only [enumValues] at h; cases h
    simp
  | v :: vs, ords, names, r, h => by
    unfold enumValues at h
    split at h
    · cases h
    · rename_i text htext
      split at h
      · cases h
      · rename_i vn hvn
        have hvn' := getReq_ok hvn
        have htx := getText_textOf htext
        dsimp only at h
        generalize hpy : (if vn == "None" then vn ++ "_" else vn) = py at h
        split at h
        · cases h
        · rename_i ordinal hord
          split at h
          · cases h
          · rename_i hno
            split at h
            · cases h
            · rename_i hnn
              cases hr : enumValues en vs (ordinal :: ords) (py :: names) with
              | error m => rw [hr] at h; cases h
              | ok r' =>
                rw [hr] at h
                simp only [Except.map] at h
                cases h
                obtain ⟨h1, h2, h3, h4, h5, h6⟩ := enumValues_spec en vs _ _ r' hr
                have hN : valName v = some py := by
                  rw [← hpy]; simp [valName, hvn']
                have hO : valOrd v = some ordinal := by
                  simp [valOrd, htx, hord]
                refine ⟨?_, ?_, ?_, ?_, ?_, ?_⟩
                · intro w hw
                  rcases List.mem_cons.1 hw with rfl | hw
                  · simp [hN, hO]
                  · exact h1 w hw
                · rw [List.map_cons, List.nodup_cons]
                  refine ⟨?_, h2⟩
                  rw [hN]
                  exact h4 _ (List.mem_cons_self ..)
                · rw [List.map_cons, List.nodup_cons]
                  refine ⟨?_, h3⟩
                  rw [hO]
                  exact h5 _ (List.mem_cons_self ..)
                · intro x hx
                  rw [List.map_cons, List.mem_cons, hN]
                  rintro (heq | hmem)
                  · have : x = py := by simpa using heq
                    subst this
                    simp [hx] at hnn
                  · exact h4 x (List.mem_cons_of_mem _ hx) hmem
                · intro o ho
                  rw [List.map_cons, List.mem_cons, hO]
                  rintro (heq | hmem)
                  · have : o = ordinal := by simpa using heq
                    subst this
                    simp [ho] at hno
                  · exact h5 o (List.mem_cons_of_mem _ ho) hmem
                · simp [hvn', h6]

/-! ### type resolution -/

theorem createStruct_shape {defs : Defs} {fuel : Nat} {u : Unresolved} {t : Ty}
    (h : createStruct defs fuel u = .ok t) : ∃ n p f b, t = .struct n p f b := by
  cases fuel with
  | zero => simp [createStruct] at h
  | succ fuel =>
    unfold createStruct at h
    split at h
    · cases h
    · dsimp only at h
      split at h
      · cases h
      · split at h
        · cases h
        · cases h
          exact ⟨_, _, _, _, rfl⟩

theorem createEnum_shape {defs : Defs} {fuel : Nat} {u : Unresolved} {ov : Option IntKind} {t : Ty}
    (h : createEnum defs fuel u ov = .ok t) :
    ∃ en k vals, t = .enum en u.path k vals ∧ u.xml.get "name" = some en ∧
      enumValues en (u.xml.findall "value") [] [] = .ok vals ∧
      (ov = none → ∃ tn fuel', u.xml.get "type" = some tn ∧ en ≠ tn ∧
        getType defs fuel' tn none = .ok (.int k)) := by
  cases fuel with
  | zero => simp [createEnum] at h
  | succ fuel =>
    unfold createEnum at h
    split at h
    · cases h
    · rename_i en hen
      dsimp only at h
      split at h
      · cases h
      · rename_i k hk
        split at h
        · cases h
        · rename_i vals hvals
          cases h
          refine ⟨en, k, vals, rfl, getReq_ok hen, hvals, ?_⟩
          intro hov
          subst hov
          dsimp only at hk
          split at hk
          · cases hk
          · rename_i tn htn
            split at hk
            · cases hk
            · rename_i hne
              split at hk
              · cases hk
              · rename_i k' hk'
                cases hk
                exact ⟨tn, fuel, getReq_ok htn, by simpa using hne, hk'⟩
              · cases hk


theorem ofName_mem {n : String} {k : IntKind} (h : IntKind.ofName? n = some k) : n ∈ intTypeNames := by
  unfold IntKind.ofName? at h
  split at h <;> simp [intTypeNames] at h ⊢

theorem createType_cases {defs : Defs} {fuel : Nat} {n : String} {t : Ty}
    (h : createType defs fuel n = .ok t) (hs : PyStr.splitColon n = [n]) :
    (∃ k, IntKind.ofName? n = some k ∧ t = .int k) ∨ t = .bool .char ∨ (∃ e, t = .str e none) ∨ t = .blob ∨
    (∃ u fuel', defs.find? n = some u ∧ (u.xml.tag == "enum") = true ∧ createEnum defs fuel' u none = .ok t) ∨
    (∃ u fuel', createStruct defs fuel' u = .ok t) := by
  cases fuel with
  | zero => simp [createType] at h
  | succ fuel =>
    unfold createType at h
    simp only [hs] at h
    split at h
    · cases h
    · rename_i result hres
      cases h
      split at hres
      · rename_i k hk
        cases hres
        exact .inl ⟨k, hk, rfl⟩
      · split at hres
        · cases hres; exact .inr (.inl rfl)
        · split at hres
          · cases hres; exact .inr (.inr (.inl ⟨_, rfl⟩))
          · split at hres
            · cases hres; exact .inr (.inr (.inl ⟨_, rfl⟩))
            · split at hres
              · cases hres; exact .inr (.inr (.inr (.inl rfl)))
              · split at hres
                · cases hres
                · rename_i u hu
                  split at hres
                  · rename_i htag
                    exact .inr (.inr (.inr (.inr (.inl ⟨u, fuel, hu, htag, hres⟩))))
                  · split at hres
                    · exact .inr (.inr (.inr (.inr (.inr ⟨u, fuel, hres⟩))))
                    · cases hres

/-- an `.int` result only comes from a builtin integer name -/
theorem createType_int {defs : Defs} {fuel : Nat} {n : String} {k : IntKind}
    (h : createType defs fuel n = .ok (.int k)) : n ∈ intTypeNames := by
  cases hp : PyStr.splitColon n with
  | nil => exact absurd hp (by unfold PyStr.splitColon; simp [splitOnChar_ne_nil])
  | cons a as =>
    cases as with
    | nil =>
      have := splitColon_single hp
      subst this
      rcases createType_cases h hp with ⟨k', hk', _⟩ | h' | ⟨e, h'⟩ | h' | ⟨u, f', _, _, h'⟩ | ⟨u, f', h'⟩
      · exact ofName_mem hk'
      · cases h'
      · cases h'
      · cases h'
      · obtain ⟨_, _, _, h'', _⟩ := createEnum_shape h'; cases h''
      · obtain ⟨_, _, _, _, h''⟩ := createStruct_shape h'; cases h''
    | cons b bs =>
      cases fuel with
      | zero => simp [createType] at h
      | succ fuel =>
        unfold createType at h
        simp only [hp] at h
        split at h
        · cases h
        · rename_i under hunder
          split at h
          · cases h
          · rename_i result hres
            split at h
            · cases h
            · cases h
            · cases h
            · exfalso
              split at hunder
              · rename_i heq; cases heq
              · split at hunder
                · cases hunder
                · split at hunder
                  · cases hunder
                  · split at hunder
                    · cases hunder
                    · cases hunder
              · cases hunder

theorem getType_none {defs : Defs} {fuel : Nat} {n : String} {t : Ty}
    (h : getType defs fuel n none = .ok t) : ∃ fuel', createType defs fuel' n = .ok t := by
  cases fuel with
  | zero => simp [getType] at h
  | succ fuel =>
    unfold getType at h
    exact ⟨fuel, h⟩

theorem getType_int {defs : Defs} {fuel : Nat} {n : String} {k : IntKind}
    (h : getType defs fuel n none = .ok (.int k)) : n ∈ intTypeNames := by
  obtain ⟨f, hf⟩ := getType_none h
  exact createType_int hf

/-- an enum resolved without override is a well-formed declaration -/
theorem createEnum_enumWF {defs : Defs} {fuel : Nat} {u : Unresolved} {t : Ty}
    (h : createEnum defs fuel u none = .ok t) : enumWF u.xml = true := by
  obtain ⟨en, k, vals, _, hname, hvals, hty⟩ := createEnum_shape h
  obtain ⟨tn, f', htn, hne, hint⟩ := hty rfl
  have hmem := getType_int hint
  obtain ⟨h1, h2, h3, _, _, _⟩ := enumValues_spec en _ _ _ _ hvals
  unfold enumWF
  simp only [hname, htn]
  have e1 : (intTypeNames.contains tn) = true := by simpa using hmem
  have e2 : (en != tn) = true := by simpa using hne
  have e3 : (List.map valName (u.xml.findall "value")).all Option.isSome = true := by
    rw [List.all_eq_true]
    intro x hx
    obtain ⟨v, hv, rfl⟩ := List.mem_map.1 hx
    exact (h1 v hv).1
  have e4 : (List.map valOrd (u.xml.findall "value")).all Option.isSome = true := by
    rw [List.all_eq_true]
    intro x hx
    obtain ⟨v, hv, rfl⟩ := List.mem_map.1 hx
    exact (h1 v hv).2
  show (intTypeNames.contains tn && en != tn &&
    ((List.map valName (u.xml.findall "value")).all Option.isSome &&
      (List.map valOrd (u.xml.findall "value")).all Option.isSome &&
      decide (List.map valName (u.xml.findall "value")).Nodup &&
      decide (List.map valOrd (u.xml.findall "value")).Nodup)) = true
  rw [e1, e2, e3, e4]
  simp [h2, h3]

/-! ### indexing -/

def entries (dir : String) (es : List Xml) : Defs :=
  es.filterMap (fun e => (e.get "name").map (fun n => (n, (⟨e, dir⟩ : Unresolved))))
def fileEntries (f : ProtoFile) : Defs := entries f.dir (f.root.findall "enum" ++ f.root.findall "struct")
def allEntries (files : List ProtoFile) : Defs := (files.map fileEntries).flatten

theorem find_isSome_false {d : Defs} {n : String} (h : (d.find? n).isSome = false) : n ∉ d.map (·.1) := by
  unfold Defs.find? at h
  intro hm
  obtain ⟨p, hp, rfl⟩ := List.mem_map.1 hm
  have : (List.find? (fun x => x.1 == p.1) d) = none := by simpa using h
  have := List.find?_eq_none.1 this p hp
  simp at this

theorem defineAll_spec (f : ProtoFile) : ∀ (es : List Xml) (acc defs : Defs),
    indexFiles.defineAll f es acc = .ok defs →
      (∀ e ∈ es, (e.get "name").isSome = true) ∧ defs = acc ++ entries f.dir es ∧
      ((acc.map (·.1)).Nodup → (defs.map (·.1)).Nodup)
  | [], acc, defs, h => by
    unfold indexFiles.defineAll at h
    cases h
    simp [entries]
  | e :: es, acc, defs, h => by
    unfold indexFiles.defineAll at h
    split at h
    · cases h
    · rename_i n hn
      have hn' := getReq_ok hn
      split at h
      · cases h
      · rename_i hfind
        have hnot := find_isSome_false (by simpa using hfind)
        obtain ⟨h1, h2, h3⟩ := defineAll_spec f es _ _ h
        refine ⟨?_, ?_, ?_⟩
        · intro x hx
          rcases List.mem_cons.1 hx with rfl | hx
          · simp [hn']
          · exact h1 x hx
        · rw [h2]; simp [entries, hn']
        · intro hnd
          apply h3
          rw [List.map_append, List.nodup_append]
          refine ⟨hnd, by simp, ?_⟩
          intro a ha b hb
          simp only [List.map_cons, List.map_nil, List.mem_singleton] at hb
          subst hb
          intro hab; subst hab; exact hnot ha

theorem indexFiles_spec : ∀ (fs : List ProtoFile) (acc defs : Defs),
    indexFiles fs acc = .ok defs →
      (∀ f ∈ fs, (f.root.tag == "protocol") = true ∧
        (∀ e ∈ f.root.findall "enum" ++ f.root.findall "struct", (e.get "name").isSome = true) ∧
        indexFiles.packets (f.root.findall "packet") [] = .ok ()) ∧
      defs = acc ++ allEntries fs ∧ ((acc.map (·.1)).Nodup → (defs.map (·.1)).Nodup)
  | [], acc, defs, h => by
    unfold indexFiles at h
    cases h
    simp [allEntries]
  | f :: fs, acc, defs, h => by
    unfold indexFiles at h
    extract_lets jp at h
    split at h
    · cases h
    · rename_i htag
      simp only [jp] at h
      obtain ⟨d1, hd1, h⟩ := except_bind_ok h
      obtain ⟨d2, hd2, h⟩ := except_bind_ok h
      obtain ⟨u, hpk, h⟩ := except_bind_ok h
      obtain ⟨a1, a2, a3⟩ := defineAll_spec f _ _ _ hd1
      obtain ⟨b1, b2, b3⟩ := defineAll_spec f _ _ _ hd2
      obtain ⟨c1, c2, c3⟩ := indexFiles_spec fs _ _ h
      refine ⟨?_, ?_, ?_⟩
      · intro g hg
        rcases List.mem_cons.1 hg with rfl | hg
        · refine ⟨by simpa using htag, ?_, hpk⟩
          intro e he
          rcases List.mem_append.1 he with he | he
          · exact a1 e he
          · exact b1 e he
        · exact c1 g hg
      · rw [c2, b2, a2]
        simp [allEntries, fileEntries, entries, List.filterMap_append]
      · intro hnd
        exact c3 (b3 (a3 hnd))

theorem mem_entries {dir : String} {es : List Xml} {n : String} {u : Unresolved} :
    (n, u) ∈ entries dir es ↔ ∃ e ∈ es, e.get "name" = some n ∧ u = ⟨e, dir⟩ := by
  unfold entries
  rw [List.mem_filterMap]
  constructor
  · rintro ⟨e, he, h⟩
    cases hn : e.get "name" with
    | none => rw [hn] at h; cases h
    | some m =>
      rw [hn] at h
      simp only [Option.map_some, Option.some.injEq, Prod.mk.injEq] at h
      obtain ⟨rfl, rfl⟩ := h
      exact ⟨e, he, hn, rfl⟩
  · rintro ⟨e, he, hn, rfl⟩
    exact ⟨e, he, by simp [hn]⟩

theorem mem_allEntries {files : List ProtoFile} {n : String} {u : Unresolved} :
    (n, u) ∈ allEntries files ↔
      ∃ f ∈ files, ∃ e ∈ f.root.findall "enum" ++ f.root.findall "struct", e.get "name" = some n ∧ u = ⟨e, f.dir⟩ := by
  unfold allEntries
  rw [List.mem_flatten]
  constructor
  · rintro ⟨l, hl, hm⟩
    obtain ⟨f, hf, rfl⟩ := List.mem_map.1 hl
    exact ⟨f, hf, mem_entries.1 hm⟩
  · rintro ⟨f, hf, h⟩
    exact ⟨fileEntries f, List.mem_map.2 ⟨f, hf, rfl⟩, mem_entries.2 h⟩

theorem entries_fst (dir : String) (es : List Xml) :
    (entries dir es).map (·.1) = es.filterMap (fun e => e.get "name") := by
  induction es with
  | nil => rfl
  | cons e es ih =>
    unfold entries at ih ⊢
    cases hn : e.get "name" <;> simp [hn, ih]

theorem allEntries_fst (files : List ProtoFile) :
    (allEntries files).map (·.1) = declaredTypeNames (files.map (·.root)) := by
  unfold allEntries declaredTypeNames
  induction files with
  | nil => rfl
  | cons f fs ih =>
    simp only [List.map_cons, List.flatten_cons, List.map_append]
    rw [ih]
    simp [fileEntries, entries_fst]

theorem find_of_nodup : ∀ {d : Defs} {n : String} {u : Unresolved},
    (d.map (·.1)).Nodup → (n, u) ∈ d → d.find? n = some u
  | [], _, _, _, h => by cases h
  | p :: d, n, u, hnd, h => by
    rw [List.map_cons, List.nodup_cons] at hnd
    unfold Defs.find?
    rcases List.mem_cons.1 h with rfl | h
    · simp [List.find?]
    · have hne : (p.1 == n) = false := by
        cases hp : p.1 == n with
        | false => rfl
        | true =>
          have : p.1 = n := by simpa using hp
          exact absurd (List.mem_map.2 ⟨(n, u), h, this.symm⟩) hnd.1
      simp only [List.find?, hne]
      exact find_of_nodup hnd.2 h

theorem find_mem {d : Defs} {n : String} {u : Unresolved} (h : d.find? n = some u) : (n, u) ∈ d := by
  unfold Defs.find? at h
  cases hf : List.find? (fun x => x.1 == n) d with
  | none => rw [hf] at h; cases h
  | some p =>
    rw [hf] at h
    have h1 := List.find?_some hf
    have h2 := List.mem_of_find?_eq_some hf
    simp only [Option.map_some, Option.some.injEq] at h
    have : p.1 = n := by simpa using h1
    subst this; subst h
    exact h2

/-- what `compile` accepting means, stage by stage -/
theorem compile_spec {files : List ProtoFile} {out : GenOutput} (h : compile files = .ok out) :
    ∃ defs : Defs, ∃ fuel : Nat,
      defs = allEntries files ∧ (defs.map (·.1)).Nodup ∧
      (∀ f ∈ files, (f.root.tag == "protocol") = true ∧
        (∀ e ∈ f.root.findall "enum" ++ f.root.findall "struct", (e.get "name").isSome = true) ∧
        indexFiles.packets (f.root.findall "packet") [] = .ok ()) ∧
      (∀ f ∈ files, ∃ o, genFile (getType defs fuel) f = .ok o) := by
  unfold compile at h
  obtain ⟨defs, hd, h⟩ := except_bind_ok h
  extract_lets tf at h
  obtain ⟨outs, ho, _⟩ := except_bind_ok h
  obtain ⟨h1, h2, h3⟩ := indexFiles_spec files [] defs hd
  refine ⟨defs, 4 * defs.length + 16, by simpa using h2, h3 (by simp), h1, ?_⟩
  intro f hf
  exact mapM'_ok ho f hf

/-! ### from `compile` down to enums and packets -/

theorem genFile_parts {tf : TypeEnv} {f : ProtoFile} {o : GenOutput} (h : genFile tf f = .ok o) :
    (∀ e ∈ f.root.findall "enum", ∃ y, genEnum tf e = .ok y) ∧
    (∀ p ∈ f.root.findall "packet", ∃ y, genPacket tf f.dir p = .ok y) := by
  unfold genFile at h
  obtain ⟨enums, he, h⟩ := except_bind_ok h
  obtain ⟨structs, hs, h⟩ := except_bind_ok h
  obtain ⟨packets, hp, h⟩ := except_bind_ok h
  exact ⟨mapM'_ok he, mapM'_ok hp⟩

theorem genEnum_spec {tf : TypeEnv} {e : Xml} {y : EnumIR × GenFile} (h : genEnum tf e = .ok y) :
    ∃ n a b c vals, e.get "name" = some n ∧ tf n none = .ok (.enum a b c vals) := by
  unfold genEnum at h
  obtain ⟨n, hn, h⟩ := except_bind_ok h
  obtain ⟨t, ht, h⟩ := except_bind_ok h
  split at h
  · exact ⟨n, _, _, _, _, getReq_ok hn, ht⟩
  · cases h

theorem genPacket_spec {tf : TypeEnv} {dir : String} {p : Xml} {r : List ClassIR × GenFile}
    (h : genPacket tf dir p = .ok r) :
    (dir == "net/client" || dir == "net/server") = true ∧
    ∃ fam act a b c fvals a' b' c' avals, p.get "family" = some fam ∧ p.get "action" = some act ∧
      tf "PacketFamily" none = .ok (.enum a b c fvals) ∧ tf "PacketAction" none = .ok (.enum a' b' c' avals) ∧
      (fvals.find? (·.name == fam)).isSome = true ∧ (avals.find? (·.name == act)).isSome = true := by
  unfold genPacket at h
  extract_lets jp at h
  have hdir : (dir == "net/client" || dir == "net/server") = true ∧ ∃ s, jp s = .ok r := by
    split at h
    · rename_i h1
      obtain ⟨s, _, h⟩ := except_bind_ok h
      exact ⟨by simp [h1], s, h⟩
    · split at h
      · rename_i h1
        obtain ⟨s, _, h⟩ := except_bind_ok h
        exact ⟨by simp [h1], s, h⟩
      · obtain ⟨s, hs, h⟩ := except_bind_ok h
        cases hs
  obtain ⟨hd, suffix, h⟩ := hdir
  refine ⟨hd, ?_⟩
  simp only [jp] at h
  obtain ⟨fam, hfam, h⟩ := except_bind_ok h
  obtain ⟨act, hact, h⟩ := except_bind_ok h
  obtain ⟨ft, hft, h⟩ := except_bind_ok h
  split at h
  · obtain ⟨fvals, hfv, h⟩ := except_bind_ok h
    cases hfv
    obtain ⟨at_, hat, h⟩ := except_bind_ok h
    split at h
    · obtain ⟨avals, hav, h⟩ := except_bind_ok h
      cases hav
      split at h
      · rename_i fv hfv
        obtain ⟨_, _, h⟩ := except_bind_ok h
        split at h
        · rename_i av hav
          exact ⟨fam, act, _, _, _, _, _, _, _, _, getReq_ok hfam, getReq_ok hact, hft, hat, by simp [hfv], by simp [hav]⟩
        · obtain ⟨_, hx, _⟩ := except_bind_ok h; cases hx
      · obtain ⟨_, hx, _⟩ := except_bind_ok h; cases hx
    · obtain ⟨_, hx, _⟩ := except_bind_ok h; cases hx
  · obtain ⟨_, hx, _⟩ := except_bind_ok h; cases hx

/-- an `.enum` result for a colon-free name is the (only) definition of that name, an `<enum>` element that
    is well-formed, and the members are its `<value>`s in order -/
theorem resolve_enum {defs : Defs} {fuel : Nat} {n a b : String} {c : IntKind} {vals : List EnumVal}
    (h : getType defs fuel n none = .ok (.enum a b c vals)) (hs : PyStr.splitColon n = [n]) :
    ∃ u, defs.find? n = some u ∧ (u.xml.tag == "enum") = true ∧ enumWF u.xml = true ∧
      vals.map (·.name) = (u.xml.findall "value").filterMap (fun v => v.get "name") := by
  obtain ⟨f, hf⟩ := getType_none h
  rcases createType_cases hf hs with ⟨k', _, h'⟩ | h' | ⟨e, h'⟩ | h' | ⟨u, f', hu, htag, h'⟩ | ⟨u, f', h'⟩
  · cases h'
  · cases h'
  · cases h'
  · cases h'
  · refine ⟨u, hu, htag, createEnum_enumWF h', ?_⟩
    obtain ⟨en, k, vals', heq, _, hvals, _⟩ := createEnum_shape h'
    cases heq
    exact (enumValues_spec _ _ _ _ _ hvals).2.2.2.2.2
  · obtain ⟨_, _, _, _, h''⟩ := createStruct_shape h'; cases h''

theorem mem_findall {r e : Xml} {t : String} (h : e ∈ r.findall t) : (e.tag == t) = true := by
  unfold Xml.findall at h
  exact (List.mem_filter.1 h).2

theorem memberNames_eq {files : List ProtoFile} {nm : String} {u : Unresolved}
    (hnd : ((allEntries files).map (·.1)).Nodup) (hu : (allEntries files).find? nm = some u)
    (htag : (u.xml.tag == "enum") = true) :
    memberNames (files.map (·.root)) nm = (u.xml.findall "value").filterMap (fun v => v.get "name") := by
  unfold memberNames
  split
  · rename_i e he
    have hp := List.find?_some he
    have hm := List.mem_of_find?_eq_some he
    rw [List.mem_flatten] at hm
    obtain ⟨l, hl, hel⟩ := hm
    rw [List.map_map] at hl
    obtain ⟨f, hf, rfl⟩ := List.mem_map.1 hl
    have hname : e.get "name" = some nm := by simpa using hp
    have hmem : (nm, (⟨e, f.dir⟩ : Unresolved)) ∈ allEntries files :=
      mem_allEntries.2 ⟨f, hf, e, List.mem_append_left _ hel, hname, rfl⟩
    have := find_of_nodup hnd hmem
    rw [hu] at this
    cases this
    rfl
  · rename_i hnone
    exfalso
    obtain ⟨f, hf, e, he, hname, rfl⟩ := mem_allEntries.1 (find_mem hu)
    rcases List.mem_append.1 he with he | he
    · have := List.find?_eq_none.1 hnone e (by
        rw [List.mem_flatten]
        exact ⟨f.root.findall "enum", by rw [List.map_map]; exact List.mem_map.2 ⟨f, hf, rfl⟩, he⟩)
      simp [hname] at this
    · have h1 := mem_findall he
      have h1' : e.tag = "struct" := by simpa using h1
      have h2' : e.tag = "enum" := by simpa using htag
      rw [h1'] at h2'
      exact absurd h2' (by decide)

theorem packetsWFAux_of (fams acts : List String) (dir : String) :
    ∀ (ps earlier : List Xml) (seen : List String),
      indexFiles.packets ps seen = .ok () →
      (∀ q ∈ earlier, ∀ fam act, q.get "family" = some fam → q.get "action" = some act →
        (fam ++ "_" ++ act) ∈ seen) →
      (∀ p ∈ ps, (dir == "net/client" || dir == "net/server") = true ∧
        ∀ fam act, p.get "family" = some fam → p.get "action" = some act →
          fams.contains fam = true ∧ acts.contains act = true) →
      packetsWFAux fams acts dir earlier ps = true
  | [], _, _, _, _, _ => rfl
  | p :: ps, earlier, seen, h, hinv, hok => by
    unfold indexFiles.packets at h
    split at h
    · rename_i fam act hfam hact
      have hfam' := getReq_ok hfam
      have hact' := getReq_ok hact
      dsimp only at h
      split at h
      · cases h
      · rename_i hseen
        obtain ⟨hd, hc⟩ := hok p (List.mem_cons_self ..)
        obtain ⟨hcf, hca⟩ := hc fam act hfam' hact'
        unfold packetsWFAux
        rw [Bool.and_eq_true]
        constructor
        · unfold packetWF
          simp only [hfam', hact', hd, hcf, hca, Bool.true_and]
          rw [Bool.not_eq_true', ← Bool.not_eq_true, List.any_eq_true]
          rintro ⟨q, hq, hqq⟩
          rw [Bool.and_eq_true] at hqq
          have q1 : q.get "family" = some fam := by simpa using hqq.1
          have q2 : q.get "action" = some act := by simpa using hqq.2
          exact hseen (by simpa using hinv q hq fam act q1 q2)
        · apply packetsWFAux_of fams acts dir ps (earlier ++ [p]) _ h
          · intro q hq fam' act' hf' ha'
            rcases List.mem_append.1 hq with hq | hq
            · exact List.mem_cons_of_mem _ (hinv q hq fam' act' hf' ha')
            · simp only [List.mem_singleton] at hq
              subst hq
              rw [hfam'] at hf'; rw [hact'] at ha'
              cases hf'; cases ha'
              exact List.mem_cons_self ..
          · intro p' hp'
            exact hok p' (List.mem_cons_of_mem _ hp')
    · cases h
    · cases h

theorem find_name_contains {vals : List EnumVal} {x : String}
    (h : (vals.find? (·.name == x)).isSome = true) : (vals.map (·.name)).contains x = true := by
  cases hfind : vals.find? (·.name == x) with
  | none => rw [hfind] at h; cases h
  | some v =>
    have h1 := List.find?_some hfind
    have h2 := List.mem_of_find?_eq_some hfind
    have : v.name = x := by simpa using h1
    rw [List.contains_iff_mem]
    exact List.mem_map.2 ⟨v, h2, this⟩

/-- C17b, declarations -/
theorem declsWF_of_compile {files : List ProtoFile} {out : GenOutput} (h : compile files = .ok out) :
    declsWF (files.map (·.root)) = true := by
  obtain ⟨defs, fuel, rfl, hnd, hidx, hgen⟩ := compile_spec h
  unfold declsWF
  simp only [Bool.and_eq_true, List.all_eq_true, decide_eq_true_eq]
  refine ⟨⟨⟨?_, ?_⟩, ?_⟩, ?_⟩
  · intro r hr
    obtain ⟨f, hf, rfl⟩ := List.mem_map.1 hr
    exact (hidx f hf).1
  · intro r hr
    obtain ⟨f, hf, rfl⟩ := List.mem_map.1 hr
    intro e he
    exact (hidx f hf).2.1 e he
  · rw [← allEntries_fst]; exact hnd
  · intro r hr
    obtain ⟨f, hf, rfl⟩ := List.mem_map.1 hr
    intro e he
    obtain ⟨o, ho⟩ := hgen f hf
    obtain ⟨y, hy⟩ := (genFile_parts ho).1 e he
    obtain ⟨n, a, b, c, vals, hn, ht⟩ := genEnum_spec hy
    by_cases hs : PyStr.splitColon n = [n]
    · obtain ⟨u, hu, _, hwf, _⟩ := resolve_enum ht hs
      have := find_of_nodup hnd (mem_allEntries.2 ⟨f, hf, e, List.mem_append_left _ he, hn, rfl⟩)
      rw [hu] at this
      cases this
      rw [Bool.or_eq_true]
      exact Or.inr hwf
    · rw [Bool.or_eq_true]
      refine Or.inl ?_
      unfold nameHasColon
      rw [hn]
      simpa using hs

/-- C17b, packets -/
theorem packetsWF_of_compile {files : List ProtoFile} {out : GenOutput} (h : compile files = .ok out) :
    packetsWF (files.map (fun f => (f.dir, f.root))) = true := by
  obtain ⟨defs, fuel, rfl, hnd, hidx, hgen⟩ := compile_spec h
  have hroots : (files.map (fun f => (f.dir, f.root))).map (·.2) = files.map (·.root) := by
    rw [List.map_map]; rfl
  unfold packetsWF
  dsimp only
  rw [hroots, List.all_eq_true]
  intro x hx
  obtain ⟨f, hf, rfl⟩ := List.mem_map.1 hx
  dsimp only
  obtain ⟨o, ho⟩ := hgen f hf
  apply packetsWFAux_of _ _ _ _ [] [] (hidx f hf).2.2 (by intro q hq; cases hq)
  intro p hp
  obtain ⟨y, hy⟩ := (genFile_parts ho).2 p hp
  obtain ⟨hd, fam, act, a, b, c, fvals, a', b', c', avals, hfam, hact, hft, hat, hff, haf⟩ := genPacket_spec hy
  refine ⟨hd, ?_⟩
  intro fam' act' hf' ha'
  rw [hfam] at hf'; rw [hact] at ha'
  cases hf'; cases ha'
  obtain ⟨u, hu, htag, _, hnames⟩ := resolve_enum hft (by decide)
  obtain ⟨u', hu', htag', _, hnames'⟩ := resolve_enum hat (by decide)
  rw [memberNames_eq hnd hu htag, ← hnames, memberNames_eq hnd hu' htag', ← hnames']
  exact ⟨find_name_contains hff, find_name_contains haf⟩

end EoVerif.Gen.Decls
