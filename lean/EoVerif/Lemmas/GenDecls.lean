import EoVerif.Model.GenCompile
import EoVerif.Spec.WellFormedTypes
/-! Helper lemmas for C17b (namespace EoVerif.Gen.Decls). -/
namespace EoVerif.Gen.Decls

end EoVerif.Gen.Decls
