import EoVerif.Model.GenCompile
/-! Helper lemmas for C18 (import rendering, file lists). -/
namespace EoVerif.Gen

/-- strictly descending w.r.t. `<` on `String` -/
def Desc (l : List String) : Prop := l.Pairwise (fun a b => b < a)

theorem Desc.nodup {l : List String} (h : Desc l) : l.Nodup := by
  unfold Desc at h
  unfold List.Nodup
  refine h.imp ?_
  intro a b hlt hab
  subst hab
  exact String.lt_irrefl _ hlt

theorem mem_insertDesc (s x : String) (l : List String) :
    x ∈ insertDesc s l ↔ x = s ∨ x ∈ l := by
  induction l with
  | nil => simp [insertDesc]
  | cons y ys ih =>
    unfold insertDesc
    by_cases h1 : s = y
    · subst h1
      simp
    · have h1' : (s == y) = false := by simpa using h1
      rw [h1']
      by_cases h2 : y < s
      · simp [h2]
      · simp only [Bool.false_eq_true, if_false, h2, List.mem_cons, ih]
        constructor
        · rintro (h | h | h) <;> simp [h]
        · rintro (h | h | h) <;> simp [h]

theorem Desc.insertDesc (s : String) {l : List String} (h : Desc l) : Desc (insertDesc s l) := by
  induction l with
  | nil => simp [Desc, EoVerif.Gen.insertDesc]
  | cons y ys ih =>
    unfold EoVerif.Gen.insertDesc
    have hy : ∀ z ∈ ys, z < y := (List.pairwise_cons.mp h).1
    have hys : Desc ys := (List.pairwise_cons.mp h).2
    by_cases h1 : s = y
    · subst h1
      simpa using h
    · have h1' : (s == y) = false := by simpa using h1
      rw [h1']
      by_cases h2 : y < s
      · simp only [Bool.false_eq_true, if_false, h2, if_true]
        refine List.pairwise_cons.mpr ⟨?_, h⟩
        intro z hz
        rcases List.mem_cons.mp hz with rfl | hz
        · exact h2
        · exact String.lt_trans (hy z hz) h2
      · simp only [Bool.false_eq_true, if_false, h2]
        refine List.pairwise_cons.mpr ⟨?_, ih hys⟩
        intro z hz
        rcases (mem_insertDesc s z ys).mp hz with rfl | hz
        · rcases Std.lt_trichotomy z y with h | h | h
          · exact h
          · exact absurd h h1
          · exact absurd h h2
        · exact hy z hz

theorem Desc.ext : ∀ {l₁ l₂ : List String}, Desc l₁ → Desc l₂ → (∀ x, x ∈ l₁ ↔ x ∈ l₂) → l₁ = l₂
  | [], [], _, _, _ => rfl
  | [], b :: bs, _, _, h => by have := (h b).mpr (by simp); simp at this
  | a :: as, [], _, _, h => by have := (h a).mp (by simp); simp at this
  | a :: as, b :: bs, h₁, h₂, h => by
    have ha : ∀ z ∈ as, z < a := (List.pairwise_cons.mp h₁).1
    have hb : ∀ z ∈ bs, z < b := (List.pairwise_cons.mp h₂).1
    have hab : a = b := by
      rcases List.mem_cons.mp ((h a).mp (by simp)) with e | m
      · exact e
      · rcases List.mem_cons.mp ((h b).mpr (by simp)) with e | m'
        · exact e.symm
        · exact absurd (ha b m') (String.lt_asymm (hb a m))
    subst hab
    have : as = bs := by
      refine Desc.ext (List.pairwise_cons.mp h₁).2 (List.pairwise_cons.mp h₂).2 ?_
      intro x
      constructor
      · intro hx
        rcases List.mem_cons.mp ((h x).mp (List.mem_cons_of_mem _ hx)) with e | m
        · subst e; exact absurd (ha x hx) (String.lt_irrefl _)
        · exact m
      · intro hx
        rcases List.mem_cons.mp ((h x).mpr (List.mem_cons_of_mem _ hx)) with e | m
        · subst e; exact absurd (hb x hx) (String.lt_irrefl _)
        · exact m
    rw [this]

theorem mem_foldl_insertDesc (l : List String) : ∀ (acc : List String) (x : String),
    x ∈ l.foldl (fun acc s => insertDesc s acc) acc ↔ x ∈ acc ∨ x ∈ l := by
  induction l with
  | nil => simp
  | cons y ys ih =>
    intro acc x
    simp only [List.foldl_cons, ih, mem_insertDesc, List.mem_cons]
    constructor
    · rintro ((h | h) | h) <;> simp [h]
    · rintro (h | h | h) <;> simp [h]

theorem Desc.foldl_insertDesc (l : List String) : ∀ {acc : List String}, Desc acc →
    Desc (l.foldl (fun acc s => EoVerif.Gen.insertDesc s acc) acc) := by
  induction l with
  | nil => intro acc h; simpa using h
  | cons y ys ih => intro acc h; exact ih (h.insertDesc y)

/-- the sorted, deduplicated list of lines -/
def sortedLines (lines : List String) : List String :=
  lines.foldl (fun acc s => insertDesc s acc) []

theorem sortedLines_desc (lines : List String) : Desc (sortedLines lines) :=
  Desc.foldl_insertDesc lines (by simp [Desc])

theorem mem_sortedLines (lines : List String) (x : String) : x ∈ sortedLines lines ↔ x ∈ lines := by
  simp [sortedLines, mem_foldl_insertDesc]

theorem sortedLines_congr {l₁ l₂ : List String} (h : ∀ x, x ∈ l₁ ↔ x ∈ l₂) :
    sortedLines l₁ = sortedLines l₂ :=
  Desc.ext (sortedLines_desc _) (sortedLines_desc _) (by intro x; simp only [mem_sortedLines, h])

theorem renderImports_eq (imps : List (String × String)) (pkg : String) :
    renderImports imps pkg =
      ((sortedLines (imps.map (relativize · pkg))).filter (·.startsWith "from __future__")).reverse ++
        (sortedLines (imps.map (relativize · pkg))).filter (fun s => !(s.startsWith "from __future__")) := by
  simp only [renderImports, sortedLines, List.partition_eq_filter_filter]
  rfl

theorem mem_renderImports (imps : List (String × String)) (pkg : String) (x : String) :
    x ∈ renderImports imps pkg ↔ x ∈ imps.map (relativize · pkg) := by
  rw [renderImports_eq]
  simp only [List.mem_append, List.mem_reverse, List.mem_filter, mem_sortedLines]
  constructor
  · rintro (h | h) <;> exact h.1
  · intro h
    cases hp : x.startsWith "from __future__"
    · right; exact ⟨h, by simp⟩
    · left; exact ⟨h, by simp⟩

theorem nodup_renderImports (imps : List (String × String)) (pkg : String) :
    (renderImports imps pkg).Nodup := by
  rw [renderImports_eq]
  have hn := (sortedLines_desc (imps.map (relativize · pkg))).nodup
  rw [List.nodup_append]
  refine ⟨(List.reverse_perm _).nodup_iff.mpr (hn.filter _), hn.filter _, ?_⟩
  intro a ha b hb hab
  subst hab
  simp only [List.mem_reverse, List.mem_filter] at ha hb
  have h1 := ha.2
  have h2 := hb.2
  rw [h1] at h2
  simp at h2

/-! ### `mapM'` -/

theorem mapM'_length {α β} (f : α → Except GenErr β) : ∀ (l : List α) (r : List β),
    mapM' f l = .ok r → r.length = l.length
  | [], r, h => by simp [mapM'] at h; subst h; rfl
  | a :: as, r, h => by
    unfold mapM' at h
    split at h
    · cases h
    · cases hm : mapM' f as with
      | error m => rw [hm] at h; cases h
      | ok r' =>
        rw [hm] at h
        simp only [Except.map] at h
        cases h
        simp [mapM'_length f as r' hm]

theorem mapM'_forall {α β} (f : α → Except GenErr β) : ∀ (l : List α) (r : List β),
    mapM' f l = .ok r → ∀ y ∈ r, ∃ x ∈ l, f x = .ok y
  | [], r, h => by simp [mapM'] at h; subst h; simp
  | a :: as, r, h => by
    unfold mapM' at h
    split at h
    · cases h
    · rename_i b hb
      cases hm : mapM' f as with
      | error m => rw [hm] at h; cases h
      | ok r' =>
        rw [hm] at h
        simp only [Except.map] at h
        cases h
        intro y hy
        rcases List.mem_cons.mp hy with rfl | hy
        · exact ⟨a, by simp, hb⟩
        · obtain ⟨x, hx, hfx⟩ := mapM'_forall f as r' hm y hy
          exact ⟨x, List.mem_cons_of_mem _ hx, hfx⟩

/-! ### generated class files -/

theorem genEnum_file (tf : TypeEnv) (e : Xml) (y) (h : genEnum tf e = .ok y) :
    y.2.kind = .enum ∧ y.2.names.length = 1 := by
  unfold genEnum at h
  simp only [bind, Except.bind, pure, Except.pure] at h
  repeat' split at h
  all_goals first | cases h | skip
  all_goals simp [classFile]

theorem genStruct_file (tf : TypeEnv) (e : Xml) (y) (h : genStruct tf e = .ok y) :
    y.2.kind = .struct ∧ y.2.names.length = 1 := by
  unfold genStruct at h
  simp only [bind, Except.bind, pure, Except.pure] at h
  repeat' split at h
  all_goals first | cases h | skip
  all_goals simp [classFile]

theorem genPacket_file (tf : TypeEnv) (dir : String) (e : Xml) (y) (h : genPacket tf dir e = .ok y) :
    y.2.kind = .packet ∧ y.2.names.length = 1 := by
  unfold genPacket at h
  simp only [bind, Except.bind, pure, Except.pure] at h
  repeat' split at h
  all_goals first | cases h | skip
  all_goals simp [classFile]

end EoVerif.Gen
