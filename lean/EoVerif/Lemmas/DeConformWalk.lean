import EoVerif.Lemmas.DeConformLeaf
set_option linter.unusedVariables false
/-! The static part of C03b: mutual induction over `genInstruction` / `genBody` / `genCases` against
    `elabInstr` / `elabBody` / `elabCases`, for the deserializer statements and the class members. -/
namespace EoVerif.Gen.DeConform
open EoVerif EoVerif.Gen EoVerif.Spec EoVerif.Gen.Conform EoVerif.Gen.WF

theorem declsL_single (i : TInstr) : declsL [i] = declsI i := by rw [declsL, declsL, List.append_nil]

/-- a generated class from a body generated from scratch -/
theorem classRel_of_step {lex : Bool} {d0 d' : Data} {b : List TInstr} {ctx' : Ctx}
    (h : DStepAll lex d0 d' b) (h1 : d0.de = []) (h2 : d0.fields = []) (h3 : d0.params = [])
    (h4 : d0.deArgs = []) (h5 : d0.initBody = []) : ClassRel lex b (d'.toClass ctx') := by
  obtain ⟨ops, I, recs, e1, p1, f1, q1, a1, i1, k1, _⟩ := h
  rw [h1] at e1 p1
  refine ⟨?_, ?_, ?_, ?_, ?_⟩
  · show OpsL lex true b d'.de
    rw [e1, List.nil_append]; exact p1
  · show d'.fields = _
    rw [f1, h2, List.nil_append]
  · show d'.params = _
    rw [q1, h3, List.nil_append]
  · show d'.deArgs = _
    rw [a1, h4, List.nil_append]
  · show InitOK _ d'.initBody
    rw [i1, h5, List.nil_append]; exact k1

section
variable {okT : String → Bool} {tf : TypeEnv} {env : Env} {ss : String → Option Int}

set_option maxHeartbeats 800000 in
mutual

theorem dinstr_all (htf : TfOK okT tf env) (hfix : FixOK okT tf env ss) :
    ∀ (x : Xml) (ctx : Ctx) (d : Data) (ctx' : Ctx) (d' : Data) (is : List TInstr) (following scope : List Xml)
      (cls : String) (lex : Bool) (lens : String → Option LenInfo),
    fragInstr okT scope x = true → CtxOK ctx lens → CtxEnum env scope ctx → ctx.chunked = lex → d.className = cls →
    genInstruction tf ctx d x = .ok (ctx', d') →
    elabInstr env ss cls scope following x = some is → LensOK lens is → LensDeepL is →
    DStepAll lex d d' is
  | .mk tag attrs text tail children, ctx, d, ctx', d', is, following, scope, cls, lex, lens,
      hfr, hok, hen, hlex, hcls, hg, he, hl, hld => by
    unfold genInstruction at hg
    unfold fragInstr at hfr
    dsimp only at hg
    by_cases hd : ctx.reachedDummy = true
    · rw [if_pos hd] at hg; cases hg
    rw [if_neg hd] at hg
    by_cases h1 : (tag == "field") = true
    · rw [if_pos h1] at hg hfr
      have ht : tag = "field" := by simpa using h1
      rw [Bool.and_eq_true] at hfr
      obtain ⟨i, rfl, hleaf⟩ := de_field_step (lex := lex) htf hok h1 hfr.1 hg he
      exact DStepAll.of_leaf (elab_leaf_direct lex he (by subst ht; decide) (by subst ht; decide)) hleaf
    rw [if_neg h1] at hg hfr
    have h1' : (tag == "field") = false := by simpa using h1
    by_cases h2 : (tag == "array") = true
    · rw [if_pos h2] at hg
      have ht : tag = "array" := by simpa using h2
      have h3' : (tag == "length") = false := by subst ht; decide
      have h4' : (tag == "dummy") = false := by subst ht; decide
      rw [if_neg (by rw [h3']; simp), if_neg (by rw [h4']; simp), if_pos h2] at hfr
      obtain ⟨i, rfl, hleaf⟩ := de_array_step (lex := lex) htf hfix hok hlex h2 h1' h3' hfr hg he
      exact DStepAll.of_leaf (elab_leaf_direct lex he (by subst ht; decide) (by subst ht; decide)) hleaf
    rw [if_neg h2] at hg
    have h2' : (tag == "array") = false := by simpa using h2
    by_cases h3 : (tag == "length") = true
    · rw [if_pos h3] at hg hfr
      have ht : tag = "length" := by simpa using h3
      obtain ⟨i, rfl, hleaf⟩ := de_length_step (lens := lens) (lex := lex) htf h3 h1' hg he
      exact DStepAll.of_leaf (elab_leaf_direct lex he (by subst ht; decide) (by subst ht; decide)) hleaf
    rw [if_neg h3] at hg hfr
    have h3' : (tag == "length") = false := by simpa using h3
    by_cases h4 : (tag == "dummy") = true
    · rw [if_pos h4] at hg hfr
      have ht : tag = "dummy" := by simpa using h4
      obtain ⟨i, rfl, hleaf⟩ := de_dummy_step (lens := lens) (lex := lex) htf h4 h1' h3' h2' hfr hg he
      exact DStepAll.of_leaf (elab_leaf_direct lex he (by subst ht; decide) (by subst ht; decide)) hleaf
    rw [if_neg h4] at hg hfr
    rw [if_neg h2] at hfr
    rw [elabInstr, if_neg h1, if_neg h3, if_neg h2, if_neg h4] at he
    by_cases h5 : (tag == "switch") = true
    · -- `<switch>`
      rw [if_pos h5] at hg hfr he
      have ht : tag = "switch" := by simpa using h5
      have h6' : (tag == "chunked") = false := by subst ht; decide
      have h7' : (tag == "break") = false := by subst ht; decide
      rw [if_neg (by rw [h6']; simp), if_neg (by rw [h7']; simp)] at he
      rw [Bool.and_eq_true] at hfr
      obtain ⟨hhas, hfc⟩ := hfr
      split at hg
      · cases hg
      rename_i f hf
      have hgf := getReq_ok hf
      split at hg
      · cases hg
      split at hg
      · cases hg
      rename_i d3 ro rd sc dc hgc
      rw [hgf] at he
      simp only at he
      cases htc : elabCases env ss cls f (enumMembers env (findFieldType f scope)) children with
      | none => rw [htc] at he; cases he
      | some tcs =>
      rw [htc] at he
      simp only [Option.map_some, Option.some.injEq] at he
      subst he
      have hldc : LensDeepC tcs := by
        rw [LensDeepL, LensDeepI] at hld; exact hld.1
      obtain ⟨d2, hgc, hd2n, hd2de, hd2f, hd2p, hd2a, hd2i, hd2x⟩ : ∃ d2 : Data,
          genCases tf ctx d2 f children true ctx.reachedOptional ctx.reachedDummy [] [] = .ok (d3, ro, rd, sc, dc) ∧
          d2.className = d.className ∧ d2.de = d.de ++ [.declNone (f ++ "_data")] ∧
          d2.fields = d.fields ++ [⟨f ++ "_data", .caseData, false⟩] ∧
          d2.params = d.params ++ [⟨f ++ "_data", true⟩] ∧ d2.deArgs = d.deArgs ++ [f ++ "_data"] ∧
          d2.initBody = d.initBody ++ [.assign (f ++ "_data") (.param (f ++ "_data"))] ∧ d2.aux = d.aux :=
        ⟨_, hgc, rfl, rfl, rfl, rfl, rfl, rfl, rfl⟩
      obtain ⟨recs, c1, c2, c3, c4, c5, c6, c7, c8, c9, c10⟩ :=
        dcases_all htf hfix children ctx d2 f true ctx.reachedOptional ctx.reachedDummy [] [] d3 ro rd sc dc cls
          scope tcs lex hfc hen hlex (hd2n.trans hcls) hgc htc hldc
      rw [List.nil_append] at c1
      subst c1
      simp only [hhas, Bool.true_and, if_true] at hg
      simp only [Except.ok.injEq, Prod.mk.injEq] at hg
      obtain ⟨rfl, rfl⟩ := hg
      generalize hdflt : (children.any fun c => c.tag == "case" && c.getBool "default") = hasDefault
      refine ⟨[.declNone (f ++ "_data"), .switch f (tcs.map (caseDe (f ++ "_data")))],
        [.assign (f ++ "_data") (.param (f ++ "_data"))], recs, ?_, ?_, ?_, ?_, ?_, ?_, ?_, ?_, c9, ?_⟩
      · cases hasDefault <;> simp [c2, hd2de]
      · rw [OpsL]
        exact ⟨[.declNone (f ++ "_data"), .switch f (tcs.map (caseDe (f ++ "_data")))], [], by simp, by rw [OpsI],
          by rw [OpsL]⟩
      · cases hasDefault <;> simp [c3, hd2f, declsL_single, declsI, fieldOfDecl]
      · cases hasDefault <;> simp [c4, hd2p, declsL_single, declsI, paramOfDecl]
      · cases hasDefault <;> simp [c5, hd2a, declsL_single, declsI, argOfDecl]
      · cases hasDefault <;> simp [c6, hd2i]
      · rw [declsL_single, declsI, InitOK, if_neg (by simp [DKind.isLen])]
        exact ⟨_, [], by simp [lenStmt], rfl, by rw [InitOK]⟩
      · cases hasDefault <;> simp [c8, hd2x]
      · intro x hx hne
        simp only [directCases, directCasesI, List.append_nil, List.mem_map] at hx
        obtain ⟨tc, htcm, rfl⟩ := hx
        obtain ⟨cond, cl, b⟩ := tc
        exact c10 cond cl b htcm hne
    rw [if_neg h5] at hg hfr
    by_cases h6 : (tag == "chunked") = true
    · rw [if_pos h6] at hg hfr he
      cases hb : elabBody env ss cls scope children false with
      | none => rw [hb] at he; cases he
      | some b =>
      rw [hb] at he
      simp only [Option.map_some, Option.some.injEq] at he
      subst he
      have hlb : LensOK lens b := by simpa [LensOK] using hl
      have hldb : LensDeepL b := by
        rw [LensDeepL, LensDeepI] at hld; exact hld.1
      have hdc : ∀ lx, directCases lx [TInstr.chunked b] = directCases true b := by
        intro lx; simp [directCases, directCasesI]
      cases hch : ctx.chunked with
      | true =>
        simp only [hch, Bool.not_true, Bool.false_eq_true, if_false] at hg
        split at hg
        · cases hg
        rename_i c2 d2 hgb
        simp only [Except.ok.injEq, Prod.mk.injEq] at hg
        obtain ⟨rfl, rfl⟩ := hg
        have hlex' : lex = true := by rw [← hlex, hch]
        subst hlex'
        obtain ⟨ops, I, recs, e1, p1, f1, q1, a1, i1, k1, x1, ro1, cv1⟩ :=
          dbody_all htf hfix children false ctx d c2 d2 b scope cls true lens hfr hok hen hch hcls hgb hb hlb hldb
        refine ⟨ops, I, recs, e1, ?_, by rw [declsL_single, declsI]; exact f1, by rw [declsL_single, declsI]; exact q1,
          by rw [declsL_single, declsI]; exact a1, i1, by rw [declsL_single, declsI]; exact k1, x1, ro1, ?_⟩
        · rw [OpsL]
          refine ⟨ops, [], by simp, ?_, by rw [OpsL]⟩
          rw [OpsI, if_pos rfl]; exact p1
        · intro x hx; rw [hdc] at hx; exact cv1 x hx
      | false =>
        simp only [hch, Bool.not_false, if_true] at hg
        split at hg
        · cases hg
        rename_i c2 d2 hgb
        simp only [Except.ok.injEq, Prod.mk.injEq] at hg
        obtain ⟨rfl, rfl⟩ := hg
        have hlex' : lex = false := by rw [← hlex, hch]
        subst hlex'
        obtain ⟨ops, I, recs, e1, p1, f1, q1, a1, i1, k1, x1, ro1, cv1⟩ :=
          dbody_all htf hfix children false { ctx with chunked := true }
            { d with de := d.de ++ [.setChunked true], ser := d.ser ++ [.setSan true] } c2 d2 b scope cls true lens hfr
            (hok.congr rfl rfl) (hen.congr rfl) rfl hcls hgb hb hlb hldb
        refine ⟨[.setChunked true] ++ ops ++ [.setChunked false], I, recs, ?_, ?_,
          by rw [declsL_single, declsI]; exact f1, by rw [declsL_single, declsI]; exact q1,
          by rw [declsL_single, declsI]; exact a1, i1, by rw [declsL_single, declsI]; exact k1, x1, ro1, ?_⟩
        · show d2.de ++ [DeOp.setChunked false] = _
          rw [e1]; simp only [List.append_assoc]
        · rw [OpsL]
          refine ⟨[.setChunked true] ++ ops ++ [.setChunked false], [], by simp, ?_, by rw [OpsL]⟩
          rw [OpsI, if_neg (by simp)]
          refine ⟨ops, rfl, ?_⟩
          have : (d.de ++ [DeOp.setChunked true]).isEmpty = false := by simp
          have p1' : OpsL true (d.de ++ [DeOp.setChunked true]).isEmpty b ops := p1
          rw [this] at p1'
          exact p1'
        · intro x hx; rw [hdc] at hx; exact cv1 x hx
    rw [if_neg h6] at hg hfr he
    by_cases h7 : (tag == "break") = true
    · rw [if_pos h7] at hg he
      simp only [Option.some.injEq] at he
      subst he
      by_cases hch : (!ctx.chunked) = true
      · rw [if_pos hch] at hg; cases hg
      rw [if_neg hch] at hg
      simp only [Except.ok.injEq, Prod.mk.injEq] at hg
      obtain ⟨rfl, rfl⟩ := hg
      have hlt : lex = true := by rw [← hlex]; simpa using hch
      refine ⟨[.nextChunk], [], [], rfl, ?_, by simp [declsL, declsI], by simp [declsL, declsI],
        by simp [declsL, declsI], by simp, by rw [declsL_single, declsI, InitOK], by simp, DRecsOK.nil,
        (fun x hx => by simp [directCases, directCasesI] at hx)⟩
      rw [OpsL]
      exact ⟨[.nextChunk], [], by simp, by rw [OpsI]; exact ⟨hlt, rfl⟩, by rw [OpsL]⟩
    rw [if_neg h7] at hg he
    rw [if_neg h5] at he
    simp only [Except.ok.injEq, Prod.mk.injEq] at hg
    obtain ⟨rfl, rfl⟩ := hg
    simp only [Option.some.injEq] at he
    subst he
    exact DStepAll.refl lex d

theorem dbody_all (htf : TfOK okT tf env) (hfix : FixOK okT tf env ss) :
    ∀ (cs : List Xml) (only : Bool) (ctx : Ctx) (d : Data) (ctx' : Ctx) (d' : Data) (is : List TInstr)
      (scope : List Xml) (cls : String) (lex : Bool) (lens : String → Option LenInfo),
    fragBody okT scope cs = true → CtxOK ctx lens → CtxEnum env scope ctx → ctx.chunked = lex → d.className = cls →
    genBody tf ctx d cs only = .ok (ctx', d') →
    elabBody env ss cls scope cs only = some is → LensOK lens is → LensDeepL is →
    DStepAll lex d d' is
  | [], only, ctx, d, ctx', d', is, scope, cls, lex, lens, hfr, hok, hen, hlex, hcls, hg, he, hl, hld => by
    unfold genBody at hg
    simp only [Except.ok.injEq, Prod.mk.injEq] at hg
    obtain ⟨rfl, rfl⟩ := hg
    unfold elabBody at he
    simp only [Option.some.injEq] at he
    subst he
    exact DStepAll.refl lex d
  | c :: cs, only, ctx, d, ctx', d', is, scope, cls, lex, lens, hfr, hok, hen, hlex, hcls, hg, he, hl, hld => by
    unfold genBody at hg
    unfold fragBody at hfr
    rw [Bool.and_eq_true] at hfr
    rw [elabBody] at he
    cases hi : elabInstr env ss cls scope cs c with
    | none => rw [hi] at he; cases he
    | some a =>
    cases hr : elabBody env ss cls scope cs only with
    | none => rw [hi, hr] at he; cases he
    | some r =>
    rw [hi, hr] at he
    simp only [Option.some.injEq] at he
    subst he
    rw [LensOK_append] at hl
    rw [LensDeepL_append] at hld
    by_cases hc : (only && !(Xml.instructionTags.contains c.tag)) = true
    · rw [if_pos hc] at hg
      rw [Bool.and_eq_true] at hc
      have hnot : Xml.instructionTags.contains c.tag = false := by simpa using hc.2
      have ha := elab_noninstr (env := env) (ss := ss) (cls := cls) (scope := scope) (following := cs) c hnot
      rw [hi] at ha
      cases ha
      rw [List.nil_append]
      exact dbody_all htf hfix cs only ctx d ctx' d' r scope cls lex lens hfr.2 hok hen hlex hcls hg hr hl.2 hld.2
    · rw [if_neg hc] at hg
      split at hg
      · cases hg
      rename_i c1 d1 hgi
      have s0 := instr_all htf c ctx d c1 d1 a cs scope cls lex lens hfr.1 hok hen hlex hcls hgi hi hl.1 hld.1
      obtain ⟨_, _, _, n1, _, ok1, en1, ch1, _⟩ := id s0
      have s1 := dinstr_all htf hfix c ctx d c1 d1 a cs scope cls lex lens hfr.1 hok hen hlex hcls hgi hi hl.1 hld.1
      have s2 := dbody_all htf hfix cs only c1 d1 ctx' d' r scope cls lex lens hfr.2 ok1 en1 (ch1.trans hlex)
        (n1.trans hcls) hg hr hl.2 hld.2
      exact s1.trans s2

theorem dcases_all (htf : TfOK okT tf env) (hfix : FixOK okT tf env ss) :
    ∀ (cs : List Xml) (ctx : Ctx) (d : Data) (f : String) (start ro rd : Bool) (sc : List SerCase) (dc : List DeCase)
      (d' : Data) (ro' rd' : Bool) (sc' : List SerCase) (dc' : List DeCase) (cls : String)
      (scope : List Xml) (tcs : List TCase) (lex : Bool),
    fragCases okT cs = true → CtxEnum env scope ctx → ctx.chunked = lex → d.className = cls →
    genCases tf ctx d f cs start ro rd sc dc = .ok (d', ro', rd', sc', dc') →
    elabCases env ss cls f (enumMembers env (findFieldType f scope)) cs = some tcs → LensDeepC tcs →
    ∃ (recs : List CaseRec),
      dc' = dc ++ tcs.map (caseDe (f ++ "_data")) ∧ d'.de = d.de ∧ d'.fields = d.fields ∧ d'.params = d.params ∧
      d'.deArgs = d.deArgs ∧ d'.initBody = d.initBody ∧ d'.className = d.className ∧
      d'.aux = d.aux ++ recs.map (·.ir) ∧ DRecsOK recs ∧
      (∀ cond cl b, TCase.mk cond cl b ∈ tcs → b ≠ [] → ∃ r ∈ recs, r.ir.name = cl ∧ r.b = b ∧ r.lex = lex)
  | [], ctx, d, f, start, ro, rd, sc, dc, d', ro', rd', sc', dc', cls, scope, tcs, lex,
      hfr, hen, hlex, hcls, hg, he, hld => by
    unfold genCases at hg
    simp only [Except.ok.injEq, Prod.mk.injEq] at hg
    obtain ⟨rfl, rfl, rfl, rfl, rfl⟩ := hg
    unfold elabCases at he
    simp only [Option.some.injEq] at he
    subst he
    exact ⟨[], by simp, rfl, rfl, rfl, rfl, rfl, rfl, by simp, DRecsOK.nil, (fun _ _ _ h => by cases h)⟩
  | (.mk ctag cattrs ctext ctail cchildren) :: cs, ctx, d, f, start, ro, rd, sc, dc, d', ro', rd', sc', dc', cls,
      scope, tcs, lex, hfr, hen, hlex, hcls, hg, he, hld => by
    unfold genCases at hg
    unfold fragCases at hfr
    rw [elabCases] at he
    dsimp only at hg he
    rw [Bool.and_eq_true] at hfr
    by_cases hct : (ctag != "case") = true
    · rw [if_pos hct] at hg he
      exact dcases_all htf hfix cs ctx d f start ro rd sc dc d' ro' rd' sc' dc' cls scope tcs lex hfr.2 hen hlex hcls
        hg he hld
    rw [if_neg hct] at hg he
    have hcase : (ctag == "case") = true := by simpa using hct
    rw [if_pos hcase] at hfr
    obtain ⟨hfb, hfrest⟩ := hfr
    split at hg
    · cases hg
    rename_i clsName hcn
    have hname := caseDataTypeName_eq hcn
    rw [hcls] at hname
    split at hg
    · cases hg
    rename_i cond hcond
    by_cases hfn : (ctx.field? f).isNone = true
    · rw [if_pos hfn] at hg; cases hg
    rw [if_neg hfn] at hg
    generalize hce : Xml.mk ctag cattrs ctext ctail cchildren = ce at hg he hcn hcond hname
    cases hb : elabBody env ss (cls ++ "." ++ PyStr.snakeToPascal f ++ "Data" ++
        (if xmlBool ce "default" = true then "Default" else (ce.get "value").getD "")) cchildren cchildren false with
    | none => rw [hb] at he; cases he
    | some b =>
    cases hr : elabCases env ss cls f (enumMembers env (findFieldType f scope)) cs with
    | none => rw [hb, hr] at he; cases he
    | some r =>
    rw [hb, hr] at he
    simp only [Option.some.injEq] at he
    subst he
    rw [← hname] at hb
    rw [LensDeepC] at hld
    obtain ⟨⟨hlb, hldb⟩, hldr⟩ := hld
    -- the condition, on both sides
    have hcondEq : cond = (if xmlBool ce "default" = true then none
        else match PyStr.pyInt? ((ce.get "value").getD "") with
          | some n => some n
          | none => Option.map (fun x => x.2) (List.find? (fun x => x.1 == (ce.get "value").getD "")
              (enumMembers env (findFieldType f scope)))) := by
      have hb' : ce.getBool "default" = xmlBool ce "default" := rfl
      rw [hb'] at hcond
      cases hdf : xmlBool ce "default" with
      | true =>
        rw [hdf] at hcond
        simp only [if_true] at hcond ⊢
        split at hcond
        · cases hcond
        · cases hcond; rfl
      | false =>
        rw [hdf] at hcond
        simp only [Bool.false_eq_true, if_false] at hcond ⊢
        cases hcv : caseValue ctx f ce with
        | error e => rw [hcv] at hcond; cases hcond
        | ok n =>
          rw [hcv] at hcond
          cases hcond
          have hv : ∃ v, ce.get "value" = some v := by
            unfold caseDataTypeName at hcn
            have hb'' : ce.getBool "default" = false := hdf
            rw [hb''] at hcn
            simp only [Bool.false_eq_true, if_false] at hcn
            obtain ⟨v, hv, _⟩ := except_bind_ok hcn
            exact ⟨v, getReq_ok hv⟩
          obtain ⟨v, hv⟩ := hv
          simp only [hv, Option.getD_some]
          cases hm : PyStr.pyInt? v with
          | some m => rw [caseValue_numeric hcv hv hm]
          | none =>
            obtain ⟨fd, en, path, k, vals, ev, hfd, harr, hty, hev, hn⟩ := caseValue_symbolic hcv hv hm
            rw [hen f fd hfd harr en path k vals hty, find_map_pair, hev, hn]
            rfl
    by_cases hem : (!(cchildren.any (fun x => Xml.instructionTags.contains x.tag))) = true
    · -- a case without data
      rw [if_pos hem] at hg
      have hbnil : b = [] := (elabBody_empty cchildren false b hb).2 (by simpa using hem)
      subst hbnil
      obtain ⟨recs, c1, c2, c3, c4, c5, c6, c7, c8, c9, c10⟩ :=
        dcases_all htf hfix cs ctx { d with imports := d.imports ++ serErrImport } f false _ _ _ _ d' ro' rd' sc' dc' cls
          scope r lex hfrest hen hlex hcls hg hr hldr
      refine ⟨recs, ?_, c2, c3, c4, c5, c6, c7, c8, c9, ?_⟩
      · rw [c1, List.map_cons, hcondEq]
        simp [caseDe]
        first | done | rfl
      · intro cond' cl b' hm hne
        rcases List.mem_cons.1 hm with hm | hm
        · cases hm; exact absurd rfl hne
        · exact c10 cond' cl b' hm hne
    · -- a case with a data class
      rw [if_neg hem] at hg
      split at hg
      · cases hg
      rename_i cctx' cd hgb
      have hbne : b ≠ [] := by
        intro hbn
        have := (elabBody_empty cchildren false b hb).1 hbn
        rw [this] at hem; exact hem rfl
      have hok0 : CtxOK { ctx with accessible := [], lenRef := [] } (lensOf b) := CtxOK.empty _ rfl rfl
      rw [elabBody_flag env ss clsName cchildren cchildren false true] at hb
      have sall := dbody_all htf hfix cchildren true { ctx with accessible := [], lenRef := [] } { className := clsName }
        cctx' cd b cchildren clsName lex (lensOf b) hfb hok0 (CtxEnum.empty rfl) hlex rfl hgb hb hlb hldb
      have sold := body_all htf cchildren true { ctx with accessible := [], lenRef := [] } { className := clsName }
        cctx' cd b cchildren clsName lex (lensOf b) hfb hok0 (CtxEnum.empty rfl) hlex rfl hgb hb hlb hldb
      have hrel : ClassRel lex b (cd.toClass cctx') := classRel_of_step sall rfl rfl rfl rfl rfl
      obtain ⟨_, _, n1, _⟩ : ∃ (ops : List SerOp) (recs : List CaseRec), cd.className = clsName ∧ True := by
        obtain ⟨ops, recs, _, n1, _⟩ := sold
        exact ⟨ops, recs, n1, trivial⟩
      obtain ⟨ops, I, recsb, _, _, _, _, _, _, _, a1, rOK, cov⟩ := sall
      obtain ⟨recs, c1, c2, c3, c4, c5, c6, c7, c8, c9, c10⟩ :=
        dcases_all htf hfix cs ctx { d with aux := d.aux ++ [cd.toClass cctx'] ++ cd.aux, imports := d.imports ++ (cd.toClass cctx').imports ++ serErrImport } f false _ _ _ _ d' ro' rd' sc' dc' cls scope r lex hfrest hen hlex hcls hg hr hldr
      refine ⟨(⟨cd.toClass cctx', lex, b⟩ :: recsb) ++ recs, ?_, c2, c3, c4, c5, c6, c7, ?_, ?_, ?_⟩
      · rw [c1, List.map_cons, hcondEq]
        have : b.isEmpty = false := by cases b with | nil => exact absurd rfl hbne | cons _ _ => rfl
        simp [caseDe, this, hname]
        first | done | rfl
      · rw [c8]
        show (d.aux ++ [cd.toClass cctx'] ++ cd.aux) ++ _ = _
        have a1' : cd.aux = recsb.map (·.ir) := by simpa using a1
        rw [a1']
        simp [List.append_assoc]
      · refine DRecsOK.append ?_ c9
        intro r' hr'
        rcases List.mem_cons.1 hr' with rfl | hr'
        · exact ⟨hrel, cov.mono (fun _ h => List.mem_cons_of_mem _ h)⟩
        · exact ⟨(rOK r' hr').1, (rOK r' hr').2.mono (fun _ h => List.mem_cons_of_mem _ h)⟩
      · intro cond' cl b' hm hne
        rcases List.mem_cons.1 hm with hm | hm
        · cases hm
          exact ⟨_, List.mem_append_left _ (List.mem_cons_self ..), n1.trans hname, rfl, rfl⟩
        · obtain ⟨r', hr', h1⟩ := c10 cond' cl b' hm hne
          exact ⟨r', List.mem_append_right _ hr', h1⟩

end
end

end EoVerif.Gen.DeConform
