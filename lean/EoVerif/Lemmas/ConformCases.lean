import EoVerif.Lemmas.ConformSwitch
/-! The fragment predicates and helper lemmas about `<case>` elements (C02). -/
namespace EoVerif.Gen.Conform
open EoVerif EoVerif.Gen EoVerif.Spec EoVerif.Gen.WF

mutual
/-- `findFieldType`, in a form the kernel can evaluate: `some r` = a `<field>` named `n` was found, with
    `type` attribute `r` -/
def fftI (n : String) : Xml → Option (Option String)
  | .mk tag attrs text tail children =>
    if tag == "field" && (Xml.mk tag attrs text tail children).get "name" == some n then
      some ((Xml.mk tag attrs text tail children).get "type")
    else if tag == "chunked" then
      (match fftL n children with
       | some (some t) => some (some t)
       | _ => none)
    else none
def fftL (n : String) : List Xml → Option (Option String)
  | [] => none
  | x :: rest => match fftI n x with
    | some r => some r
    | none => fftL n rest
end

theorem fft_eq (n : String) : ∀ (l : List Xml), findFieldType n l = (fftL n l).getD none
  | [] => by rw [findFieldType, fftL]; rfl
  | .mk tag attrs text tail children :: rest => by
    rw [findFieldType, fftL, fftI]
    by_cases h1 : (tag == "field" && (Xml.mk tag attrs text tail children).get "name" == some n) = true
    · rw [if_pos h1, if_pos h1]
      rfl
    · rw [if_neg h1]
      rw [if_neg h1]
      by_cases h2 : (tag == "chunked") = true
      · rw [if_pos h2, if_pos h2]
        have ih := fft_eq n children
        have ih2 := fft_eq n rest
        cases hc : fftL n children with
        | none => rw [hc] at ih; simp only [Option.getD_none] at ih; rw [ih]; simpa using ih2
        | some r =>
          rw [hc] at ih
          simp only [Option.getD_some] at ih
          cases r with
          | none => rw [ih]; simpa using ih2
          | some t => rw [ih]; simp
      · rw [if_neg h2, if_neg h2]
        simpa using fft_eq n rest

/-- the declarative side finds this `<field>`'s own type under its name in the class body `scope`
    (implied by "no field is declared twice"; checked rather than derived) -/
def scopeField (scope : List Xml) (e : Xml) : Bool :=
  match e.get "name", e.get "type" with
  | some n, some ty => (fftL n scope).getD none == some ty
  | _, _ => true

mutual
/-- the specifications covered, instruction by instruction (`scope` = the enclosing class body) -/
def fragInstr (okT : String → Bool) (scope : List Xml) : Xml → Bool
  | .mk tag attrs text tail children =>
    if tag == "field" then
      fragField okT (.mk tag attrs text tail children) && scopeField scope (.mk tag attrs text tail children)
    else if tag == "length" then fragLength (.mk tag attrs text tail children)
    else if tag == "dummy" then fragDummy okT (.mk tag attrs text tail children)
    else if tag == "array" then fragArray okT (.mk tag attrs text tail children)
    else if tag == "switch" then
      children.any (fun c => c.tag == "case") && fragCases okT children
    else if tag == "chunked" then fragBody okT scope children
    else true
def fragBody (okT : String → Bool) (scope : List Xml) : List Xml → Bool
  | [] => true
  | c :: cs => fragInstr okT scope c && fragBody okT scope cs
/-- the `<case>` children of a switch: bodies in the fragment (each a class body of its own) -/
def fragCases (okT : String → Bool) : List Xml → Bool
  | [] => true
  | .mk ctag _ _ _ cchildren :: cs =>
    (if ctag == "case" then fragBody okT cchildren cchildren else true) && fragCases okT cs
end

theorem elab_leaf_direct {env : Env} {ss : String → Option Int} {cls : String} {scope following : List Xml}
    {tag : String} {attrs : List (String × String)} {text tail : Option String} {children : List Xml}
    {is : List TInstr} (lex : Bool)
    (he : elabInstr env ss cls scope following (.mk tag attrs text tail children) = some is)
    (h5 : (tag == "switch") = false) (h6 : (tag == "chunked") = false) : directCases lex is = [] := by
  rw [elabInstr] at he
  simp only [h5, h6, Bool.false_eq_true, if_false] at he
  repeat' split at he
  all_goals (cases he; try simp [directCases, directCasesI])

theorem elab_noninstr {env : Env} {ss : String → Option Int} {cls : String} {scope following : List Xml}
    (c : Xml) (hc : Xml.instructionTags.contains c.tag = false) :
    elabInstr env ss cls scope following c = some [] := by
  obtain ⟨tag, attrs, text, tail, children⟩ := c
  simp only [Xml.tag, Xml.instructionTags, List.contains_cons, List.contains_nil, Bool.or_false,
    Bool.or_eq_false_iff] at hc
  obtain ⟨t1, t2, t3, t4, t5, t6, t7⟩ := hc
  rw [elabInstr]
  simp only [t1, t2, t3, t4, t5, t6, t7, Bool.false_eq_true, if_false]

theorem elab_instr_nonempty {env : Env} {ss : String → Option Int} {cls : String} {scope following : List Xml}
    (c : Xml) (hc : Xml.instructionTags.contains c.tag = true) {a : List TInstr}
    (he : elabInstr env ss cls scope following c = some a) : a ≠ [] := by
  obtain ⟨tag, attrs, text, tail, children⟩ := c
  rw [elabInstr] at he
  by_cases h1 : (tag == "field") = true
  · rw [if_pos h1] at he
    dsimp only at he
    split at he
    · cases he
    · repeat' split at he
      all_goals (cases he; try simp)
  rw [if_neg h1] at he
  by_cases h2 : (tag == "length") = true
  · rw [if_pos h2] at he
    repeat' split at he
    all_goals (cases he; try simp)
  rw [if_neg h2] at he
  by_cases h3 : (tag == "array") = true
  · rw [if_pos h3] at he
    repeat' split at he
    all_goals (cases he; try simp)
  rw [if_neg h3] at he
  by_cases h4 : (tag == "dummy") = true
  · rw [if_pos h4] at he
    repeat' split at he
    all_goals (cases he; try simp)
  rw [if_neg h4] at he
  by_cases h5 : (tag == "chunked") = true
  · rw [if_pos h5] at he
    cases hb : elabBody env ss cls scope children false with
    | none => rw [hb] at he; cases he
    | some b => rw [hb] at he; cases he; simp
  rw [if_neg h5] at he
  by_cases h6 : (tag == "break") = true
  · rw [if_pos h6] at he; cases he; simp
  rw [if_neg h6] at he
  by_cases h7 : (tag == "switch") = true
  · rw [if_pos h7] at he
    split at he
    · cases he
    · rename_i f hf
      cases hb : elabCases env ss cls f (enumMembers env (findFieldType f scope)) children with
      | none => rw [hb] at he; cases he
      | some b => rw [hb] at he; cases he; simp
  · exfalso
    simp only [Xml.tag, Xml.instructionTags, List.contains_cons, List.contains_nil, Bool.or_false,
      Bool.or_eq_true] at hc
    rcases hc with hc | hc | hc | hc | hc | hc | hc
    · exact h1 hc
    · exact h3 hc
    · exact h2 hc
    · exact h4 hc
    · exact h7 hc
    · exact h5 hc
    · exact h6 hc

theorem elabBody_empty {env : Env} {ss : String → Option Int} {cls : String} {scope : List Xml} :
    ∀ (cs : List Xml) (fl : Bool) (b : List TInstr), elabBody env ss cls scope cs fl = some b →
    (b = [] ↔ cs.any (fun x => Xml.instructionTags.contains x.tag) = false)
  | [], fl, b, he => by rw [elabBody] at he; cases he; simp
  | c :: cs, fl, b, he => by
    rw [elabBody] at he
    cases hi : elabInstr env ss cls scope cs c with
    | none => rw [hi] at he; cases he
    | some a =>
      cases hr : elabBody env ss cls scope cs fl with
      | none => rw [hi, hr] at he; cases he
      | some r =>
        rw [hi, hr] at he
        simp only [Option.some.injEq] at he
        subst he
        have ih := elabBody_empty cs fl r hr
        rw [List.any_cons, Bool.or_eq_false_iff, List.append_eq_nil_iff, ih]
        constructor
        · intro ⟨ha, hr'⟩
          refine ⟨?_, hr'⟩
          cases hc : Xml.instructionTags.contains c.tag with
          | false => rfl
          | true => exact absurd ha (elab_instr_nonempty c hc hi)
        · intro ⟨hc, hr'⟩
          refine ⟨?_, hr'⟩
          have := elab_noninstr (env := env) (ss := ss) (cls := cls) (scope := scope) (following := cs) c hc
          rw [hi] at this
          cases this; rfl


theorem caseValue_numeric {ctx : Ctx} {f : String} {c : Xml} {n m : Int} {v : String}
    (h : caseValue ctx f c = .ok n) (hv : c.get "value" = some v) (hm : PyStr.pyInt? v = some m) : n = m := by
  unfold caseValue at h
  split at h
  · simp only [throw_ne_ok] at h
  · rename_i fd hfd
    by_cases ha : fd.array = true
    · simp only [ha, if_true, throw_bind_ok] at h
    · simp only [ha, Bool.false_eq_true, if_false] at h
      obtain ⟨v', hv', h⟩ := except_bind_ok h
      have : v' = v := by
        have := getReq_ok hv'; rw [hv] at this; cases this; rfl
      subst this
      split at h
      · split at h
        · simp only [pure_ok_iff] at h; rw [hm] at h; exact h.symm
        · simp only [throw_ne_ok] at h
      · rw [hm] at h
        simp only at h
        split at h
        · simp only [throw_ne_ok] at h
        · simp only [pure_ok_iff] at h; exact h.symm
      · simp only [throw_ne_ok] at h

theorem find_map_pair (vals : List EnumVal) (v : String) :
    (vals.map (fun ev => (ev.name, ev.ordinal))).find? (fun x => x.1 == v)
      = (vals.find? (fun ev => ev.name == v)).map (fun ev => (ev.name, ev.ordinal)) := by
  induction vals with
  | nil => rfl
  | cons x xs ih =>
    rw [List.map_cons, List.find?_cons, List.find?_cons]
    cases hx : (x.name == v) with
    | true => simp
    | false => simpa using ih

/-- a symbolic case value names a member of the switch field's enum -/
theorem caseValue_symbolic {ctx : Ctx} {f : String} {c : Xml} {n : Int} {v : String}
    (h : caseValue ctx f c = .ok n) (hv : c.get "value" = some v) (hm : PyStr.pyInt? v = none) :
    ∃ fd en path k vals ev, ctx.field? f = some fd ∧ fd.array = false ∧ fd.ty = .enum en path k vals ∧
      vals.find? (fun ev => ev.name == v) = some ev ∧ n = ev.ordinal := by
  unfold caseValue at h
  split at h
  · simp only [throw_ne_ok] at h
  · rename_i fd hfd
    by_cases ha : fd.array = true
    · simp only [ha, if_true, throw_bind_ok] at h
    · simp only [ha, Bool.false_eq_true, if_false] at h
      obtain ⟨v', hv', h⟩ := except_bind_ok h
      have : v' = v := by
        have := getReq_ok hv'; rw [hv] at this; cases this; rfl
      subst this
      split at h
      · split at h
        · rename_i hd
          obtain ⟨N, hN⟩ := isdigit_pyInt v' hd
          rw [hN] at hm; cases hm
        · simp only [throw_ne_ok] at h
      · rename_i en path k vals hty
        rw [hm] at h
        simp only at h
        split at h
        · rename_i ev hev
          simp only [pure_ok_iff] at h
          exact ⟨fd, en, path, k, vals, ev, hfd, by simpa using ha, hty, hev, h.symm⟩
        · simp only [throw_ne_ok] at h
      · simp only [throw_ne_ok] at h

theorem caseDataTypeName_eq {cls f n : String} {ce : Xml} (h : caseDataTypeName cls f ce = .ok n) :
    n = cls ++ "." ++ PyStr.snakeToPascal f ++ "Data" ++
      (if xmlBool ce "default" then "Default" else (ce.get "value").getD "") := by
  unfold caseDataTypeName at h
  have hb : ce.getBool "default" = xmlBool ce "default" := rfl
  rw [hb] at h
  cases hd : xmlBool ce "default" with
  | true =>
    rw [hd] at h
    simp only [if_true, pure_ok_iff] at h
    rw [← h]; simp [String.append_assoc]
  | false =>
    rw [hd] at h
    simp only [Bool.false_eq_true, if_false] at h
    obtain ⟨v, hv, h⟩ := except_bind_ok h
    simp only [pure_ok_iff] at h
    rw [← h, getReq_ok hv]; simp [String.append_assoc]


/-! ### Length fields of nested case bodies -/

mutual
def LensDeepI : TInstr → Prop
  | .switch _ cases => LensDeepC cases
  | .chunked b => LensDeepL b
  | _ => True
def LensDeepL : List TInstr → Prop
  | [] => True
  | i :: rest => LensDeepI i ∧ LensDeepL rest
def LensDeepC : List TCase → Prop
  | [] => True
  | .mk _ _ b :: rest => (LensOK (lensOf b) b ∧ LensDeepL b) ∧ LensDeepC rest
end

theorem LensDeepL_append : ∀ (a b : List TInstr), LensDeepL (a ++ b) ↔ LensDeepL a ∧ LensDeepL b
  | [], b => by simp [LensDeepL]
  | i :: a, b => by rw [List.cons_append, LensDeepL, LensDeepL, LensDeepL_append a b, and_assoc]

/-- a body generated from scratch gives a class whose `serialize` conforms -/
theorem classSim_of_stepAll {lex : Bool} {env : Env} {scope : List Xml} {ctx0 ctx' : Ctx} {d0 d' : Data}
    {b : List TInstr}
    (h : StepAll (lensOf b) lex env scope ctx0 d0 ctx' d' b) (hd0 : d0.ser = []) (hra : d0.rmoAssigned = false) :
    ClassSim d'.ser lex b := by
  obtain ⟨ops, recs, e1, _, _, _, _, _, _, _, sim⟩ := h
  intro call wcall TV TVs obj w ir' hir hcall hcases hty
  have hops : ir'.ser = ops := by rw [hir, e1, hd0]; rfl
  unfold serializeBody
  rw [hops]
  have hdyn0 : Dyn w.data ctx0.reachedOptional d0.rmoAssigned d0.ser.isEmpty { w := w, oldLen := w.data.length }
      { san := w.san } := by
    refine ⟨(List.append_nil _).symm, rfl, rfl, ?_, (fun h => by cases h), (fun _ => rfl), ?_⟩
    · intro _ h; rw [hra] at h; cases h
    · intro h; rw [hra] at h; cases h
  have := sim call wcall TV TVs obj w.data hcall hcases _ _ hty hdyn0
  generalize execSerOps call obj ops { w := w, oldLen := w.data.length } = r at this
  obtain ⟨st, x⟩ := r
  cases hw : wireInstrs wcall (lensOf b) obj lex b { san := w.san } with
  | none =>
    rw [hw] at this
    cases x with
    | error e => simpa using this
    | ok u => cases u; exact this.elim
  | some wst =>
    rw [hw] at this
    cases x with
    | error e => exact this.elim
    | ok u =>
      cases u
      simp only [Conf_ok_some] at this
      simp only [Option.map_some, Conf_ok_some]
      rw [← this.data]

end EoVerif.Gen.Conform
