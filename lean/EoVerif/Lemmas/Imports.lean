import EoVerif.Model.Imports
/-! Helper lemmas for C20 (invariants of the import machine). -/
namespace EoVerif.Imp

end EoVerif.Imp
