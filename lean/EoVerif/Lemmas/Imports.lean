import EoVerif.Model.Imports
namespace EoVerif.Imp

section Assoc
variable {α β : Type} [BEq α] [LawfulBEq α]

theorem find_map_upd (l : List (α × β)) (m x : α) (v : β) :
    ((l.map (fun p => if p.1 == m then (m, v) else p)).find? (·.1 == x)).map (·.2)
      = if x == m then (if l.any (·.1 == m) then some v else none)
        else (l.find? (·.1 == x)).map (·.2) := by
  induction l with
  | nil => simp
  | cons p l ih =>
    rw [List.map_cons, List.find?_cons, List.find?_cons, List.any_cons]
    rcases Bool.eq_false_or_eq_true (p.1 == m) with hpm | hpm <;>
    rcases Bool.eq_false_or_eq_true (x == m) with hxm | hxm
    · have := eq_of_beq hxm; subst this
      simp [hpm]
    · have hmx : (m == x) = false := by
        cases h : (m == x)
        · rfl
        · have := eq_of_beq h; subst this; simp at hxm
      have hpx' : (p.1 == x) = false := by
        have := eq_of_beq hpm; rw [this]; exact hmx
      simp [hpm, hmx, hxm, hpx'] at ih ⊢
      exact ih
    · have := eq_of_beq hxm; subst this
      simp only [hpm, Bool.false_or, Bool.false_eq_true, if_false]
      exact ih
    · rcases Bool.eq_false_or_eq_true (p.1 == x) with hpx | hpx
      · simp [hpm, hpx, hxm]
      · simp [hpm, hpx, hxm] at ih ⊢
        exact ih

theorem find_upsert (l : List (α × β)) (m x : α) (v : β) :
    ((if l.any (·.1 == m) then l.map (fun p => if p.1 == m then (m, v) else p)
        else l ++ [(m, v)]).find? (·.1 == x)).map (·.2)
      = if x == m then some v else (l.find? (·.1 == x)).map (·.2) := by
  split
  · rename_i h
    rw [find_map_upd, h]; simp
  · rename_i h
    rw [List.find?_append]
    by_cases hxm : x = m
    · subst hxm
      have : l.find? (·.1 == x) = none := by
        rw [List.find?_eq_none]; intro p hp hpx
        exact h (List.any_eq_true.2 ⟨p, hp, hpx⟩)
      simp [this]
    · have : ¬ m = x := fun h => hxm h.symm
      simp [hxm, this]

omit [LawfulBEq α] in
theorem any_eq_find (l : List (α × β)) (x : α) :
    l.any (·.1 == x) = ((l.find? (·.1 == x)).map (·.2)).isSome := by
  induction l with
  | nil => simp
  | cons p l ih => 
    rw [List.any_cons, List.find?_cons]
    cases hpx : (p.1 == x)
    · simpa using ih
    · simp
end Assoc

/-! ### `sys.modules` and namespaces as association lists -/

theorem nsGet_nsSet (ns : List (String × Obj)) (k k' : String) (v : Obj) :
    nsGet (nsSet ns k v) k' = if k' == k then some v else nsGet ns k' := by
  unfold nsGet nsSet
  exact find_upsert ns k k' v

theorem loaded_eq (s : St) (m : MName) : s.loaded m = (s.mod? m).isSome := by
  unfold St.loaded St.mod?
  exact any_eq_find s.mods m

theorem mod?_setMod (s : St) (m x : MName) (ms : ModState) :
    (s.setMod m ms).mod? x = if x == m then some ms else s.mod? x := by
  have h := find_upsert s.mods m x ms
  unfold St.setMod St.mod? St.loaded
  split <;> rename_i hl <;> simp only [hl, if_true, if_false, Bool.false_eq_true] at h <;> exact h

@[simp] theorem err_setMod (s : St) (m : MName) (ms : ModState) : (s.setMod m ms).err = s.err := by
  unfold St.setMod; split <;> rfl

@[simp] theorem err_bind (s : St) (m : MName) (k : String) (v : Obj) : (s.bind m k v).err = s.err := by
  unfold St.bind; split <;> simp

theorem mod?_bind (s : St) (m x : MName) (k : String) (v : Obj) :
    (s.bind m k v).mod? x =
      if x == m then (s.mod? m).map (fun ms => { ms with ns := nsSet ms.ns k v }) else s.mod? x := by
  unfold St.bind
  split
  · rename_i ms h
    rw [mod?_setMod, h]; rfl
  · rename_i h
    rw [h]
    by_cases hx : x = m
    · subst hx; simp [h]
    · simp [hx]

theorem loaded_setMod (s : St) (m x : MName) (ms : ModState) :
    (s.setMod m ms).loaded x = (x == m || s.loaded x) := by
  rw [loaded_eq, loaded_eq, mod?_setMod]
  by_cases hx : x = m <;> simp [hx]

@[simp] theorem loaded_bind (s : St) (m x : MName) (k : String) (v : Obj) :
    (s.bind m k v).loaded x = s.loaded x := by
  rw [loaded_eq, loaded_eq, mod?_bind]
  by_cases hx : x = m
  · subst hx; simp
  · simp [hx]

theorem lookup_setMod_ne (s : St) (m x : MName) (ms : ModState) (k : String) (h : x ≠ m) :
    (s.setMod m ms).lookup x k = s.lookup x k := by
  unfold St.lookup; rw [mod?_setMod]; simp [h]

theorem lookup_bind_ne (s : St) (m x : MName) (k k' : String) (v : Obj) (h : x ≠ m ∨ k' ≠ k) :
    (s.bind m k v).lookup x k' = s.lookup x k' := by
  unfold St.lookup; rw [mod?_bind]
  by_cases hx : x = m
  · subst hx
    have hk : k' ≠ k := by rcases h with h | h; exact absurd rfl h; exact h
    cases hm : s.mod? x <;> simp [nsGet_nsSet, hk]
  · simp [hx]

theorem lookup_bind_self (s : St) (m : MName) (k : String) (v : Obj) (h : s.loaded m = true) :
    (s.bind m k v).lookup m k = some v := by
  unfold St.lookup; rw [mod?_bind]
  rw [loaded_eq] at h
  cases hm : s.mod? m
  · simp [hm] at h
  · simp [nsGet_nsSet]

/-! ### Effect of one transition -/

/-- `s'` has the same loaded modules as `s`, errors persist, and (under `keep`) `P.c` is untouched -/
def Rel (P : MName) (c : String) (keep : Prop) (s s' : St) : Prop :=
  (∀ x, s'.loaded x = s.loaded x) ∧ (keep → s'.lookup P c = s.lookup P c) ∧
    (s.err ≠ none → s'.err ≠ none)

theorem Rel.refl (P : MName) (c : String) (keep : Prop) (s : St) : Rel P c keep s s :=
  ⟨fun _ => rfl, fun _ => rfl, id⟩

theorem Rel.trans {P : MName} {c : String} {keep : Prop} {a b d : St}
    (h1 : Rel P c keep a b) (h2 : Rel P c keep b d) : Rel P c keep a d :=
  ⟨fun x => (h2.1 x).trans (h1.1 x), fun hk => (h2.2.1 hk).trans (h1.2.1 hk),
   fun h => h2.2.2 (h1.2.2 h)⟩

theorem rel_bind (P : MName) (c : String) (keep : Prop) (s : St) (m : MName) (k : String) (v : Obj)
    (h : keep → m ≠ P ∨ k ≠ c) : Rel P c keep s (s.bind m k v) := by
  refine ⟨fun x => loaded_bind .., fun hk => ?_, by simp⟩
  apply lookup_bind_ne
  rcases h hk with h | h
  · exact Or.inl (fun e => h e.symm)
  · exact Or.inr (fun e => h e.symm)

theorem orElse_ne_none (e : Option String) (x : String) :
    e.orElse (fun _ => some x) ≠ none := by
  cases e <;> simp

theorem rel_err (P : MName) (c : String) (keep : Prop) (s : St) (x : String) :
    Rel P c keep s { s with err := s.err.orElse (fun _ => some x) } :=
  ⟨fun _ => rfl, fun _ => rfl, fun _ => orElse_ne_none _ _⟩

theorem rel_foldl {β : Type} (P : MName) (c : String) (keep : Prop) (f : St → β → St)
    (hf : ∀ a x, Rel P c keep a (f a x)) (l : List β) (s : St) : Rel P c keep s (l.foldl f s) := by
  induction l generalizing s with
  | nil => exact Rel.refl ..
  | cons x l ih => exact (hf s x).trans (ih (f s x))


/-- frames owned by `P` other than `finish P` -/
def isP (P : MName) : Frame → Bool
  | .exec m _ => m == P
  | .afterStar m _ => m == P
  | .afterFrom m _ _ => m == P
  | .afterImp m _ _ => m == P
  | _ => false

/-- the continuation frames of `P`'s import statements -/
def isAft (P : MName) : Frame → Bool
  | .afterStar m _ => m == P
  | .afterFrom m _ _ => m == P
  | .afterImp m _ _ => m == P
  | _ => false

theorem splitLast_eq (m P : MName) (c : String) (hp : m.dropLast ≠ []) (h1 : m.dropLast = P)
    (h2 : m.getLastD "" = c) : m = P ++ [c] := by
  have hm : m ≠ [] := by intro h; subst h; simp at hp
  rw [← h1, ← h2, List.getLastD_eq_getLast?, List.getLast?_eq_some_getLast hm]
  exact (List.dropLast_concat_getLast hm).symm

theorem ensures_nonP {α : Type} (P : MName) (q : Frame → Bool) (fn : α → MName) (names : List α) :
    ∀ f' ∈ (names.map (fun nm => Frame.ensure (fn nm))).filter q, isP P f' = false := by
  intro f' hf'
  rw [List.mem_filter, List.mem_map] at hf'
  obtain ⟨⟨nm, _, rfl⟩, _⟩ := hf'
  rfl

theorem step_after (g : Graph) (P : MName) (c : String) (s : St) (f : Frame) (fs : List Frame)
    (m : MName) (hf : (∃ t, f = .afterStar m t) ∨ (∃ t n, f = .afterFrom m t n) ∨ (∃ t a, f = .afterImp m t a))
    (s' : St) (st' : List Frame) (hstep : step g s (f :: fs) = (s', st')) :
    st' = fs ∧ Rel P c (m ≠ P) s s' := by
  rcases hf with ⟨t, rfl⟩ | ⟨t, names, rfl⟩ | ⟨t, a, rfl⟩
  · simp only [step] at hstep
    split at hstep
    · cases hstep
      refine ⟨rfl, rel_foldl P c _ _ (fun a x => ?_) _ _⟩
      exact rel_bind _ _ _ _ _ _ _ (fun h => Or.inl h)
    · cases hstep; exact ⟨rfl, Rel.refl ..⟩
  · simp only [step] at hstep
    cases hstep
    refine ⟨rfl, rel_foldl P c _ _ (fun a x => ?_) _ _⟩
    obtain ⟨k, a'⟩ := x
    simp only []
    split
    · exact rel_bind _ _ _ _ _ _ _ (fun h => Or.inl h)
    · split
      · exact rel_bind _ _ _ _ _ _ _ (fun h => Or.inl h)
      · split
        · exact rel_err ..
        · exact rel_bind _ _ _ _ _ _ _ (fun h => Or.inl h)
  · simp only [step] at hstep
    split at hstep <;> cases hstep <;> exact ⟨rfl, rel_bind _ _ _ _ _ _ _ (fun h => Or.inl h)⟩

theorem step_err (g : Graph) (s : St) (st : List Frame) (h : s.err ≠ none) :
    (step g s st).1.err ≠ none := by
  cases st with
  | nil => simpa [step] using h
  | cons f fs =>
    have haft : ∀ m, ((∃ t, f = .afterStar m t) ∨ (∃ t n, f = .afterFrom m t n) ∨
        (∃ t a, f = .afterImp m t a)) → (step g s (f :: fs)).1.err ≠ none := fun m hf =>
      (step_after g [] "" s f fs m hf _ _ rfl).2.2.2 h
    cases f with
    | ensure t =>
      simp only [step]
      repeat' split
      all_goals first | exact h | exact orElse_ne_none _ _ | (simpa using h)
    | exec m r =>
      cases r with
      | nil => simpa [step] using h
      | cons st rest =>
        cases st <;> simp only [step] <;> repeat' split
        all_goals first | exact h | exact orElse_ne_none _ _ | (simpa using h)
    | finish m =>
      simp only [step]
      repeat' split
      all_goals first | exact h | (simpa using h)
    | afterStar m t => exact haft m (Or.inl ⟨t, rfl⟩)
    | afterFrom m t names => exact haft m (Or.inr (Or.inl ⟨t, names, rfl⟩))
    | afterImp m t a => exact haft m (Or.inr (Or.inr ⟨t, a, rfl⟩))

theorem step_nonP (g : Graph) (P : MName) (c : String) (src : ModSrc) (hsrc : g.src? P = some src)
    (s : St) (f : Frame) (fs : List Frame) (hf : isP P f = false) (s' : St) (st' : List Frame)
    (hstep : step g s (f :: fs) = (s', st')) :
    ∃ new, st' = new ++ fs ∧
      (((∀ f' ∈ new, isP P f' = false) ∧ s'.loaded P = s.loaded P ∧
          (s.loaded P = true →
            s'.lookup P c = s.lookup P c ∨ s'.lookup P c = some (.module (P ++ [c]))))
        ∨ (s.loaded P = false ∧ new = [.exec P src.body, .finish P] ∧ s'.loaded P = true)) := by
  cases f with
  | ensure t =>
    simp only [step] at hstep
    split at hstep
    · cases hstep; exact ⟨[], rfl, Or.inl ⟨by simp, rfl, fun _ => Or.inl rfl⟩⟩
    · rename_i hlt
      split at hstep
      · cases hstep
        exact ⟨[.ensure (splitLast t).1, .ensure t], rfl, Or.inl ⟨by simp [isP], rfl, fun _ => Or.inl rfl⟩⟩
      · by_cases htP : t = P
        · subst htP
          rw [hsrc] at hstep
          cases hstep
          refine ⟨[.exec t src.body, .finish t], rfl, Or.inr ⟨by simpa using hlt, rfl, ?_⟩⟩
          simp [loaded_setMod]
        · have hPt : (P == t) = false := by simpa using fun e => htP e.symm
          split at hstep
          · rename_i src' _
            cases hstep
            refine ⟨[.exec t src'.body, .finish t], rfl, Or.inl ⟨?_, ?_, fun _ => Or.inl ?_⟩⟩
            · simp [isP, htP]
            · simp [loaded_setMod, hPt]
            · exact lookup_setMod_ne _ _ _ _ _ (fun e => htP e.symm)
          · split at hstep
            · cases hstep; exact ⟨[], rfl, Or.inl ⟨by simp, rfl, fun _ => Or.inl rfl⟩⟩
            · cases hstep
              refine ⟨[], rfl, Or.inl ⟨by simp, ?_, fun _ => Or.inl ?_⟩⟩
              · simp [loaded_setMod, hPt]
              · exact lookup_setMod_ne _ _ _ _ _ (fun e => htP e.symm)
  | exec m r =>
    have hm : m ≠ P := by simpa [isP] using hf
    have hPm : (P == m) = false := by simpa using fun e => hm e.symm
    cases r with
    | nil =>
      simp only [step] at hstep; cases hstep
      exact ⟨[], rfl, Or.inl ⟨by simp, rfl, fun _ => Or.inl rfl⟩⟩
    | cons st rest =>
      cases st with
      | star t =>
        simp only [step] at hstep; cases hstep
        exact ⟨[.ensure t, .afterStar m t, .exec m rest], rfl,
          Or.inl ⟨by simp [isP, hm], rfl, fun _ => Or.inl rfl⟩⟩
      | fromImp t names =>
        simp only [step] at hstep; cases hstep
        refine ⟨(.ensure t :: _) ++ [.afterFrom m t names, .exec m rest],
          (List.append_assoc _ [Frame.afterFrom m t names, Frame.exec m rest] fs).symm,
          Or.inl ⟨?_, rfl, fun _ => Or.inl rfl⟩⟩
        intro f' hf'
        simp only [List.mem_cons, List.mem_append, List.not_mem_nil, or_false] at hf'
        rcases hf' with (rfl | hf') | rfl | rfl
        · rfl
        · exact ensures_nonP P _ _ names f' hf'
        · simp [isP, hm]
        · simp [isP, hm]
      | imp t a =>
        simp only [step] at hstep; cases hstep
        exact ⟨[.ensure t, .afterImp m t a, .exec m rest], rfl,
          Or.inl ⟨by simp [isP, hm], rfl, fun _ => Or.inl rfl⟩⟩
      | define k =>
        simp only [step] at hstep; cases hstep
        exact ⟨[.exec m rest], rfl, Or.inl ⟨by simp [isP, hm], loaded_bind .., fun _ =>
          Or.inl (lookup_bind_ne _ _ _ _ _ _ (Or.inl fun e => hm e.symm))⟩⟩
      | setAll names =>
        simp only [step] at hstep
        split at hstep
        · cases hstep
          refine ⟨[.exec m rest], rfl, Or.inl ⟨by simp [isP, hm], ?_, fun _ => Or.inl ?_⟩⟩
          · simp [loaded_setMod, hPm]
          · exact lookup_setMod_ne _ _ _ _ _ (fun e => hm e.symm)
        · cases hstep
          exact ⟨[.exec m rest], rfl, Or.inl ⟨by simp [isP, hm], rfl, fun _ => Or.inl rfl⟩⟩
      | rebind k t =>
        simp only [step] at hstep
        split at hstep
        · cases hstep
          exact ⟨[.exec m rest], rfl, Or.inl ⟨by simp [isP, hm], loaded_bind .., fun _ =>
            Or.inl (lookup_bind_ne _ _ _ _ _ _ (Or.inl fun e => hm e.symm))⟩⟩
        · cases hstep
          exact ⟨[.exec m rest], rfl, Or.inl ⟨by simp [isP, hm], rfl, fun _ => Or.inl rfl⟩⟩
  | finish m =>
    simp only [step] at hstep
    split at hstep
    · rename_i hp
      cases hstep
      refine ⟨[], rfl, Or.inl ⟨by simp, loaded_bind .., fun hl => ?_⟩⟩
      by_cases h : (splitLast m).1 = P ∧ (splitLast m).2 = c
      · right
        have hp' : m.dropLast ≠ [] := by simpa [splitLast] using hp
        have := splitLast_eq m P c hp' h.1 h.2
        rw [h.1, h.2, this]
        exact lookup_bind_self _ _ _ _ hl
      · left
        apply lookup_bind_ne
        by_cases h1 : (splitLast m).1 = P
        · exact Or.inr fun e => h ⟨h1, e.symm⟩
        · exact Or.inl fun e => h1 e.symm
    · cases hstep; exact ⟨[], rfl, Or.inl ⟨by simp, rfl, fun _ => Or.inl rfl⟩⟩
  | afterStar m t =>
    have hm : m ≠ P := by simpa [isP] using hf
    obtain ⟨rfl, h1, h2, _⟩ := step_after g P c s _ fs m (Or.inl ⟨t, rfl⟩) s' st' hstep
    exact ⟨[], rfl, Or.inl ⟨by simp, h1 P, fun _ => Or.inl (h2 hm)⟩⟩
  | afterFrom m t names =>
    have hm : m ≠ P := by simpa [isP] using hf
    obtain ⟨rfl, h1, h2, _⟩ := step_after g P c s _ fs m (Or.inr (Or.inl ⟨t, names, rfl⟩)) s' st' hstep
    exact ⟨[], rfl, Or.inl ⟨by simp, h1 P, fun _ => Or.inl (h2 hm)⟩⟩
  | afterImp m t a =>
    have hm : m ≠ P := by simpa [isP] using hf
    obtain ⟨rfl, h1, h2, _⟩ := step_after g P c s _ fs m (Or.inr (Or.inr ⟨t, a, rfl⟩)) s' st' hstep
    exact ⟨[], rfl, Or.inl ⟨by simp, h1 P, fun _ => Or.inl (h2 hm)⟩⟩

theorem isAft_cases (P : MName) (a : Frame) (h : isAft P a = true) :
    (∃ t, a = .afterStar P t) ∨ (∃ t n, a = .afterFrom P t n) ∨ (∃ t x, a = .afterImp P t x) := by
  cases a <;> simp [isAft] at h <;> subst h
  · exact Or.inl ⟨_, rfl⟩
  · exact Or.inr (Or.inl ⟨_, _, rfl⟩)
  · exact Or.inr (Or.inr ⟨_, _, rfl⟩)

theorem isAft_isP (P : MName) (a : Frame) (h : isAft P a = true) : isP P a = true := by
  cases a <;> simp_all [isAft, isP]

theorem filter_nonP (P : MName) (l : List Frame) (h : ∀ f ∈ l, isP P f = false) :
    l.filter (isP P) = [] := by
  rw [List.filter_eq_nil_iff]; intro f hf; simp [h f hf]

theorem step_P_exec (g : Graph) (P : MName) (s : St) (st : Stmt) (rest : List Stmt) (fs : List Frame)
    (s' : St) (st' : List Frame) (hstep : step g s (.exec P (st :: rest) :: fs) = (s', st')) :
    ∃ new, st' = new ++ .exec P rest :: fs ∧
      (new.filter (isP P) = [] ∨ ∃ a, isAft P a = true ∧ new.filter (isP P) = [a]) ∧
      s'.loaded P = s.loaded P := by
  cases st with
  | star t =>
    simp only [step] at hstep; cases hstep
    exact ⟨[.ensure t, .afterStar P t], rfl, Or.inr ⟨.afterStar P t, by simp [isAft], by simp [isP]⟩, rfl⟩
  | fromImp t names =>
    simp only [step] at hstep; cases hstep
    refine ⟨(.ensure t :: _) ++ [.afterFrom P t names],
      (List.append_assoc _ [Frame.afterFrom P t names] (.exec P rest :: fs)).symm,
      Or.inr ⟨.afterFrom P t names, by simp [isAft], ?_⟩, rfl⟩
    rw [List.filter_append, filter_nonP]
    · simp [isP]
    · intro f' hf'
      rcases List.mem_cons.1 hf' with rfl | hf'
      · rfl
      · exact ensures_nonP P _ _ names f' hf'
  | imp t a =>
    simp only [step] at hstep; cases hstep
    exact ⟨[.ensure t, .afterImp P t a], rfl, Or.inr ⟨.afterImp P t a, by simp [isAft], by simp [isP]⟩, rfl⟩
  | define k =>
    simp only [step] at hstep; cases hstep
    exact ⟨[], rfl, Or.inl rfl, loaded_bind ..⟩
  | setAll names =>
    simp only [step] at hstep
    split at hstep
    · rename_i ms hms
      cases hstep
      refine ⟨[], rfl, Or.inl rfl, ?_⟩
      have : s.loaded P = true := by rw [loaded_eq, hms]; rfl
      simp [loaded_setMod, this]
    · cases hstep; exact ⟨[], rfl, Or.inl rfl, rfl⟩
  | rebind k t =>
    simp only [step] at hstep
    split at hstep
    · cases hstep; exact ⟨[], rfl, Or.inl rfl, loaded_bind ..⟩
    · cases hstep; exact ⟨[], rfl, Or.inl rfl, rfl⟩

theorem step_P_rebind (g : Graph) (P : MName) (s : St) (k : String) (rest : List Stmt) (fs : List Frame)
    (s' : St) (st' : List Frame)
    (hstep : step g s (.exec P (.rebind k (P ++ [k]) :: rest) :: fs) = (s', st'))
    (hl : s.loaded P = true) (herr : s'.err = none) :
    st' = .exec P rest :: fs ∧ s'.loaded P = true ∧ s'.lookup P k = some (.module (P ++ [k])) ∧
      ∀ c, c ≠ k → s'.lookup P c = s.lookup P c := by
  simp only [step] at hstep
  split at hstep
  · cases hstep
    refine ⟨rfl, by simpa using hl, lookup_bind_self _ _ _ _ hl, fun c hc => ?_⟩
    exact lookup_bind_ne _ _ _ _ _ _ (Or.inr hc)
  · cases hstep
    exact absurd herr (orElse_ne_none _ _)
/-! ### The invariant -/

/-- `l` consists only of statements `k = sys.modules["P.k"]` -/
def SafeT (P : MName) (l : List Stmt) : Prop := ∀ st ∈ l, ∃ k, st = .rebind k (P ++ [k])

/-- `r` still contains the re-binding of `c`, followed only by correct re-bindings -/
def HasTarget (P : MName) (c : String) (r : List Stmt) : Prop :=
  ∃ pre tl, r = pre ++ .rebind c (P ++ [c]) :: tl ∧ SafeT P tl

/-- a `P`-owned frame is an `exec` frame in the safe tail -/
def okFrame (P : MName) (f : Frame) : Prop := isP P f = true → ∃ r, f = .exec P r ∧ SafeT P r

def Inv (P : MName) (c : String) (s : St) (stack : List Frame) : Prop :=
  s.err = none →
    (s.loaded P = false ∧ stack.filter (isP P) = []) ∨
    (s.loaded P = true ∧ ∃ r, HasTarget P c r ∧
      (stack.filter (isP P) = [.exec P r] ∨
        ∃ a, isAft P a = true ∧ stack.filter (isP P) = [a, .exec P r])) ∨
    (s.loaded P = true ∧ s.lookup P c = some (.module (P ++ [c])) ∧ ∀ f ∈ stack, okFrame P f)

theorem okFrame_of_nonP (P : MName) (f : Frame) (h : isP P f = false) : okFrame P f := by
  intro h'; rw [h] at h'; cases h'

theorem Inv_step (g : Graph) (P : MName) (c : String) (src : ModSrc) (hsrc : g.src? P = some src)
    (hbody : HasTarget P c src.body) (s : St) (f : Frame) (fs : List Frame)
    (hinv : Inv P c s (f :: fs)) (s' : St) (st' : List Frame)
    (hstep : step g s (f :: fs) = (s', st')) : Inv P c s' st' := by
  intro herr'
  have herr : s.err = none := by
    cases h : s.err with
    | none => rfl
    | some e =>
      have := step_err g s (f :: fs) (by simp [h])
      rw [hstep] at this
      exact absurd herr' this
  have hinv := hinv herr
  cases hf : isP P f with
  | false =>
    obtain ⟨new, rfl, hnew⟩ := step_nonP g P c src hsrc s f fs hf s' st' hstep
    have hfilt : (f :: fs).filter (isP P) = fs.filter (isP P) := by simp [hf]
    rw [hfilt] at hinv
    rcases hinv with ⟨hl, hst⟩ | ⟨hl, r, hr, hst⟩ | ⟨hl, hlk, hok⟩
    · rcases hnew with ⟨h1, h2, _⟩ | ⟨_, rfl, h3⟩
      · left
        refine ⟨h2.trans hl, ?_⟩
        rw [List.filter_append, filter_nonP P new h1, hst]; rfl
      · right; left
        refine ⟨h3, src.body, hbody, Or.inl ?_⟩
        rw [List.filter_append, hst]; simp [isP]
    · rcases hnew with ⟨h1, h2, _⟩ | ⟨h0, _, _⟩
      · right; left
        refine ⟨h2.trans hl, r, hr, ?_⟩
        rw [List.filter_append, filter_nonP P new h1]; exact hst
      · rw [hl] at h0; cases h0
    · rcases hnew with ⟨h1, h2, h3⟩ | ⟨h0, _, _⟩
      · right; right
        refine ⟨h2.trans hl, ?_, ?_⟩
        · rcases h3 hl with h | h
          · rw [h, hlk]
          · exact h
        · intro f' hf'
          rcases List.mem_append.1 hf' with hf' | hf'
          · exact okFrame_of_nonP P f' (h1 f' hf')
          · exact hok f' (List.mem_cons_of_mem _ hf')
      · rw [hl] at h0; cases h0
  | true =>
    have hfilt : (f :: fs).filter (isP P) = f :: fs.filter (isP P) := by simp [hf]
    rw [hfilt] at hinv
    rcases hinv with ⟨hl, hst⟩ | ⟨hl, r, hr, hst⟩ | ⟨hl, hlk, hok⟩
    · cases hst
    · rcases hst with hst | ⟨a, ha, hst⟩
      · -- the top frame is `exec P r`
        injection hst with h1 h2
        subst h1
        obtain ⟨pre, tl, hr, htl⟩ := hr
        have hfs : ∀ f' ∈ fs, isP P f' = false := by
          intro f' hf'
          have := (List.filter_eq_nil_iff.1 h2) f' hf'
          simpa using this
        cases pre with
        | nil =>
          rw [List.nil_append] at hr; subst hr
          obtain ⟨rfl, h1, h3, _⟩ := step_P_rebind g P s c tl fs s' st' hstep hl herr'
          right; right
          refine ⟨h1, h3, ?_⟩
          intro f' hf'
          rcases List.mem_cons.1 hf' with rfl | hf'
          · intro _; exact ⟨tl, rfl, htl⟩
          · exact okFrame_of_nonP P f' (hfs f' hf')
        | cons st pre =>
          rw [List.cons_append] at hr; subst hr
          obtain ⟨new, rfl, hnew, h3⟩ := step_P_exec g P s st _ fs s' st' hstep
          right; left
          refine ⟨h3.trans hl, pre ++ .rebind c (P ++ [c]) :: tl, ⟨pre, tl, rfl, htl⟩, ?_⟩
          have : (new ++ Frame.exec P (pre ++ .rebind c (P ++ [c]) :: tl) :: fs).filter (isP P)
              = new.filter (isP P) ++ [.exec P (pre ++ .rebind c (P ++ [c]) :: tl)] := by
            rw [List.filter_append, List.filter_cons, h2]; simp [isP]
          rw [this]
          rcases hnew with h | ⟨a, ha, h⟩
          · left; rw [h]; rfl
          · right; exact ⟨a, ha, by rw [h]; rfl⟩
      · injection hst with h1 h2
        subst h1
        obtain ⟨rfl, hrel⟩ := step_after g P c s f fs P (isAft_cases P f ha) s' st' hstep
        right; left
        exact ⟨(hrel.1 P).trans hl, r, hr, Or.inl h2⟩
    · have hf0 := hok f (List.mem_cons_self ..) hf
      obtain ⟨r, rfl, hr⟩ := hf0
      have hfs : ∀ f' ∈ fs, okFrame P f' := fun f' hf' => hok f' (List.mem_cons_of_mem _ hf')
      cases r with
      | nil =>
        simp only [step] at hstep; cases hstep
        right; right; exact ⟨hl, hlk, hfs⟩
      | cons st rest =>
        obtain ⟨k, rfl⟩ := hr st (List.mem_cons_self ..)
        have hrest : SafeT P rest := fun x hx => hr x (List.mem_cons_of_mem _ hx)
        obtain ⟨rfl, h1, h3, h4⟩ := step_P_rebind g P s k rest fs s' st' hstep hl herr'
        right; right
        refine ⟨h1, ?_, ?_⟩
        · by_cases hck : c = k
          · subst hck; exact h3
          · rw [h4 c hck, hlk]
        · intro f' hf'
          rcases List.mem_cons.1 hf' with rfl | hf'
          · intro _; exact ⟨rest, rfl, hrest⟩
          · exact hfs f' hf'

/-! ### Lifting to `run` -/

theorem run_nil (g : Graph) (n : Nat) (s : St) : run g n (s, []) = (s, []) := by
  cases n <;> rfl

theorem run_err (g : Graph) (n : Nat) (s : St) (st : List Frame) (h : s.err ≠ none) :
    (run g n (s, st)).1.err ≠ none := by
  induction n generalizing s st with
  | zero => exact h
  | succ n ih =>
    cases st with
    | nil => rw [run_nil]; exact h
    | cons f fs => exact ih _ _ (step_err g s (f :: fs) h)

theorem Inv_run (g : Graph) (P : MName) (c : String) (src : ModSrc) (hsrc : g.src? P = some src)
    (hbody : HasTarget P c src.body) (n : Nat) (s : St) (st : List Frame) (hinv : Inv P c s st) :
    Inv P c (run g n (s, st)).1 (run g n (s, st)).2 := by
  induction n generalizing s st with
  | zero => exact hinv
  | succ n ih =>
    cases st with
    | nil => rw [run_nil]; exact hinv
    | cons f fs =>
      exact ih _ _ (Inv_step g P c src hsrc hbody s f fs hinv _ _ rfl)

theorem Inv_init (P : MName) (c : String) (first : MName) :
    Inv P c {} [.ensure first, .ensure ["eolib"]] := by
  intro _; left; exact ⟨rfl, rfl⟩

theorem Inv_final (P : MName) (c : String) (s : St) (hinv : Inv P c s []) (herr : s.err = none)
    (hl : s.loaded P = true) : s.lookup P c = some (.module (P ++ [c])) := by
  rcases hinv herr with ⟨h, _⟩ | ⟨_, r, _, h⟩ | ⟨_, h, _⟩
  · rw [hl] at h; cases h
  · rcases h with h | ⟨a, _, h⟩ <;> cases h
  · exact h

theorem rebinding_sound_core (g : Graph) (first : MName) (fuel : Nat) (P : MName) (c : String)
    (src : ModSrc) (hsrc : g.src? P = some src) (hbody : HasTarget P c src.body)
    (hfin : (eval g first fuel).2 = []) (hok : (eval g first fuel).1.err = none)
    (hloaded : (eval g first fuel).1.loaded P = true) :
    (eval g first fuel).1.lookup P c = some (.module (P ++ [c])) := by
  have h := Inv_run g P c src hsrc hbody fuel _ _ (Inv_init P c first)
  unfold eval at hfin hok hloaded ⊢
  rw [hfin] at h
  exact Inv_final P c _ h hok hloaded

/-! ### From the decidable check to `HasTarget` -/

theorem suffix_decomp {α : Type} (p : α → Bool) (body : List α) :
    body = (body.reverse.dropWhile p).reverse ++ (body.reverse.takeWhile p).reverse := by
  rw [← List.reverse_append, List.takeWhile_append_dropWhile, List.reverse_reverse]

theorem hasTarget_of_suffix (P : MName) (c : String) (body pre suffix : List Stmt)
    (hb : body = pre ++ suffix) (hs : SafeT P suffix) (hm : Stmt.rebind c (P ++ [c]) ∈ suffix) :
    HasTarget P c body := by
  obtain ⟨x, y, rfl⟩ := List.append_of_mem hm
  refine ⟨pre ++ x, y, by rw [hb, List.append_assoc], ?_⟩
  intro st hst
  exact hs st (List.mem_append_right _ (List.mem_cons_of_mem _ hst))

end EoVerif.Imp
