import EoVerif.Spec.Protocol
import EoVerif.Props.C05
import EoVerif.Lemmas.GenDe
import EoVerif.Lemmas.GenWF
/-! Base lemmas for C03b (deserializer conformance): outcome agreement `ConfD`, the reader calls against
    the abstract reader, and the local-variable stores of the two sides. -/
namespace EoVerif.Gen.DeConform
open EoVerif EoVerif.Gen EoVerif.Spec

/-- the two documented ways to fail -/
def ErrRel (e : PyErr) (e' : RErr) : Prop :=
  (e = .ValueError ∧ e' = .negativeLength) ∨ (e = .Diverges ∧ e' = .diverges)

/-- outcome agreement: both succeed and `P` relates the results, or both fail in the same documented way -/
def ConfD {σ α β : Type} (x : σ × Except PyErr α) (y : Except RErr β) (P : σ → α → β → Prop) : Prop :=
  match x, y with
  | (s, .ok a), .ok b => P s a b
  | (_, .error e), .error e' => ErrRel e e'
  | _, _ => False

@[simp] theorem ConfD_ok_ok {σ α β : Type} (s : σ) (a : α) (b : β) (P : σ → α → β → Prop) :
    ConfD (s, .ok a) (.ok b) P ↔ P s a b := Iff.rfl
@[simp] theorem ConfD_err_err {σ α β : Type} (s : σ) (e : PyErr) (e' : RErr) (P : σ → α → β → Prop) :
    ConfD (s, (.error e : Except PyErr α)) (.error e' : Except RErr β) P ↔ ErrRel e e' := Iff.rfl
@[simp] theorem ConfD_ok_err {σ α β : Type} (s : σ) (a : α) (e' : RErr) (P : σ → α → β → Prop) :
    ConfD (s, .ok a) (.error e' : Except RErr β) P ↔ False := Iff.rfl
@[simp] theorem ConfD_err_ok {σ α β : Type} (s : σ) (e : PyErr) (b : β) (P : σ → α → β → Prop) :
    ConfD (s, (.error e : Except PyErr α)) (.ok b) P ↔ False := Iff.rfl

theorem ConfD.mono {σ α β : Type} {x : σ × Except PyErr α} {y : Except RErr β} {P Q : σ → α → β → Prop}
    (h : ConfD x y P) (hpq : ∀ s a b, P s a b → Q s a b) : ConfD x y Q := by
  obtain ⟨s, o⟩ := x
  cases o with
  | error e => cases y <;> simp at h ⊢ <;> exact h
  | ok a => cases y with
    | error e' => exact h.elim
    | ok b => exact hpq _ _ _ h

/-- sequencing on the generated side -/
def bindD {σ α α' : Type} (x : σ × Except PyErr α) (f : σ → α → σ × Except PyErr α') : σ × Except PyErr α' :=
  match x with
  | (s, .error e) => (s, .error e)
  | (s, .ok a) => f s a

@[simp] theorem bindD_ok {σ α α' : Type} (s : σ) (a : α) (f : σ → α → σ × Except PyErr α') :
    bindD (s, .ok a) f = f s a := rfl
@[simp] theorem bindD_err {σ α α' : Type} (s : σ) (e : PyErr) (f : σ → α → σ × Except PyErr α') :
    bindD (s, (.error e : Except PyErr α)) f = (s, .error e) := rfl

/-- sequencing on the declarative side -/
def bindS {β β' : Type} (y : Except RErr β) (g : β → Except RErr β') : Except RErr β' :=
  match y with
  | .error e => .error e
  | .ok b => g b

@[simp] theorem bindS_ok {β β' : Type} (b : β) (g : β → Except RErr β') : bindS (.ok b) g = g b := rfl
@[simp] theorem bindS_err {β β' : Type} (e : RErr) (g : β → Except RErr β') :
    bindS (.error e : Except RErr β) g = .error e := rfl

theorem ConfD.bind {σ α α' β β' : Type} {x : σ × Except PyErr α} {y : Except RErr β}
    {P : σ → α → β → Prop} {f : σ → α → σ × Except PyErr α'} {g : β → Except RErr β'}
    {Q : σ → α' → β' → Prop} (h : ConfD x y P) (hf : ∀ s a b, P s a b → ConfD (f s a) (g b) Q) :
    ConfD (bindD x f) (bindS y g) Q := by
  obtain ⟨s, o⟩ := x
  cases o with
  | error e => cases y <;> simp at h ⊢ <;> exact h
  | ok a => cases y with
    | error e' => exact h.elim
    | ok b => exact hf _ _ _ h

/-! ### `execDeOps` / `readInstrs` as sequencing -/

theorem execDeOps_nil (call : DeCall) (st : DeSt) : execDeOps call [] st = (st, .ok ()) := by
  rw [execDeOps]

theorem execDeOps_cons (call : DeCall) (op : DeOp) (ops : List DeOp) (st : DeSt) :
    execDeOps call (op :: ops) st = bindD (execDeOp call op st) (fun s _ => execDeOps call ops s) := by
  rw [execDeOps]
  generalize execDeOp call op st = r
  obtain ⟨s, o⟩ := r
  cases o with
  | error e => rfl
  | ok u => cases u; rfl

theorem execDeOps_single (call : DeCall) (op : DeOp) (st : DeSt) :
    execDeOps call [op] st = execDeOp call op st := by
  rw [execDeOps_cons]
  generalize execDeOp call op st = r
  obtain ⟨s, o⟩ := r
  cases o with
  | error e => rfl
  | ok u => cases u; simp [execDeOps_nil]

theorem execDeOps_append (call : DeCall) : ∀ (a b : List DeOp) (st : DeSt),
    execDeOps call (a ++ b) st = bindD (execDeOps call a st) (fun s _ => execDeOps call b s)
  | [], b, st => by simp [execDeOps_nil]
  | op :: a, b, st => by
    rw [List.cons_append, execDeOps_cons, execDeOps_cons]
    generalize execDeOp call op st = r
    obtain ⟨s, o⟩ := r
    cases o with
    | error e => rfl
    | ok u => simp only [bindD_ok]; exact execDeOps_append call a b s

theorem readInstrs_nil (call : RCall) (lex : Bool) (s : RSt) : readInstrs call lex [] s = .ok s := by
  rw [readInstrs]

theorem readInstrs_cons (call : RCall) (lex : Bool) (i : TInstr) (rest : List TInstr) (s : RSt) :
    readInstrs call lex (i :: rest) s = bindS (readInstr call lex i s) (fun s' => readInstrs call lex rest s') := by
  rw [readInstrs]
  cases readInstr call lex i s <;> rfl

theorem readInstrs_single (call : RCall) (lex : Bool) (i : TInstr) (s : RSt) :
    readInstrs call lex [i] s = readInstr call lex i s := by
  rw [readInstrs_cons]
  cases readInstr call lex i s <;> simp [readInstrs_nil]

theorem readInstrs_append (call : RCall) (lex : Bool) : ∀ (a b : List TInstr) (s : RSt),
    readInstrs call lex (a ++ b) s = bindS (readInstrs call lex a s) (fun s' => readInstrs call lex b s')
  | [], b, s => by simp [readInstrs_nil]
  | i :: a, b, s => by
    rw [List.cons_append, readInstrs_cons, readInstrs_cons]
    cases readInstr call lex i s with
    | error e => rfl
    | ok s' => simp only [bindS_ok]; exact readInstrs_append call lex a b s'

/-! ### The reader against the abstract reader -/

/-- the concrete reader of `st` refines the abstract reader `a` -/
def RRel (r : Reader) (a : AReader) : Prop := Reader.abs r = a ∧ Reader.Inv r

theorem RRel.step {r : Reader} {a : AReader} (h : RRel r a) (op : Reader.Op) :
    (r.step op).2 = (a.step op).2 ∧ RRel (r.step op).1 (a.step op).1 := by
  obtain ⟨rfl, hi⟩ := h
  obtain ⟨h1, h2, h3⟩ := Reader.step_refines r hi op
  exact ⟨h1, h2, h3⟩

theorem RRel.remaining {r : Reader} {a : AReader} (h : RRel r a) : r.remaining = (a.remaining : Int) := by
  obtain ⟨rfl, hi⟩ := h
  exact Reader.remaining_refines r hi

theorem RRel.pos {r : Reader} {a : AReader} (h : RRel r a) : r.pos = a.pos := by
  obtain ⟨rfl, _⟩ := h; rfl
theorem RRel.chunked {r : Reader} {a : AReader} (h : RRel r a) : r.chunked = a.chunked := by
  obtain ⟨rfl, _⟩ := h; rfl
theorem RRel.chunkStart {r : Reader} {a : AReader} (h : RRel r a) : r.chunkStart = a.chunkStart := by
  obtain ⟨rfl, _⟩ := h; rfl
theorem RRel.data {r : Reader} {a : AReader} (h : RRel r a) : r.data = a.data := by
  obtain ⟨rfl, _⟩ := h; rfl

theorem RRel.remaining_pos {r : Reader} {a : AReader} (h : RRel r a) :
    (r.remaining > 0) ↔ ¬ (a.remaining == 0) = true := by
  rw [h.remaining]
  simp only [beq_iff_eq]
  omega

/-- every operation except `set_chunked` keeps the mode -/
theorem step_chunked (r : Reader) (op : Reader.Op) (h : ∀ b, op ≠ .setChunked b) :
    (r.step op).1.chunked = r.chunked := by
  cases op with
  | setChunked b => exact absurd rfl (h b)
  | getByte => simp only [Reader.step, Reader.readByte]; split <;> rfl
  | nextChunk => simp only [Reader.step]; split <;> rfl
  | getFixedString l p => simp only [Reader.step]; split <;> rfl
  | getFixedEncodedString l p => simp only [Reader.step]; split <;> rfl
  | _ => rfl

theorem step_setChunked_chunked (r : Reader) (b : Bool) : (r.step (.setChunked b)).1.chunked = b := by
  simp only [Reader.step]; split <;> rfl

theorem astep_setChunked (a : AReader) (b : Bool) : (a.step (.setChunked b)).1 = { a with chunked := b } := rfl

/-! ### The local variables of the generated code -/

theorem findv_map_upd (L : List (String × Value)) (n m : String) (v : Value) :
    ((L.map (fun p => if p.1 == n then (n, v) else p)).find? (·.1 == m)).map (·.2)
      = if n == m then ((L.find? (·.1 == n)).map (·.2)).map (fun _ => v)
        else (L.find? (·.1 == m)).map (·.2) := by
  induction L with
  | nil => simp
  | cons x xs ih =>
    obtain ⟨a, w⟩ := x
    rw [List.map_cons, List.find?_cons, List.find?_cons, List.find?_cons]
    by_cases ha : (a == n) = true
    · have han : a = n := by simpa using ha
      subst han
      by_cases hm : (a == m) = true
      · simp [hm]
      · simp only [beq_self_eq_true, if_true, hm]
        simpa [hm] using ih
    · by_cases hm : (a == m) = true
      · have hnm : (n == m) = false := by
          have : a = m := by simpa using hm
          subst this
          cases h' : (n == a) with
          | false => rfl
          | true => have : n = a := by simpa using h'
                    subst this; simp at ha
        simp [ha, hm, hnm]
      · have ha' : (a == n) = false := by simpa using ha
        have hm' : (a == m) = false := by simpa using hm
        simp only [ha', hm', Bool.false_eq_true, if_false]
        exact ih

theorem get_set (st : DeSt) (n m : String) (v : Value) :
    (st.set n v).get m = if n == m then some v else st.get m := by
  unfold DeSt.set DeSt.get
  have hs := WF.any_fst_eq_isSome st.env n
  by_cases hany : st.env.any (·.1 == n) = true
  · rw [if_pos hany]
    simp only
    rw [findv_map_upd]
    rw [hany] at hs
    cases hf : (st.env.find? (·.1 == n)).map (·.2) with
    | none => rw [hf] at hs; cases hs
    | some x => rfl
  · rw [if_neg hany]
    simp only
    rw [WF.find_fst_append_single]
    rw [Bool.not_eq_true] at hany
    rw [hany] at hs
    have hnone : (st.env.find? (·.1 == n)).map (·.2) = none := by
      cases h : (st.env.find? (·.1 == n)).map (·.2) with
      | none => rfl
      | some x => rw [h] at hs; cases hs
    by_cases hnm : (n == m) = true
    · have : n = m := by simpa using hnm
      subst this
      rw [hnone]; simp
    · simp only [hnm]
      cases (st.env.find? (·.1 == m)).map (·.2) <;> rfl

theorem get_set_self (st : DeSt) (n : String) (v : Value) : (st.set n v).get n = some v := by
  rw [get_set]; simp

theorem get_set_ne (st : DeSt) (n m : String) (v : Value) (h : n ≠ m) : (st.set n v).get m = st.get m := by
  rw [get_set]; simp [h]

theorem set_startPos (st : DeSt) (n : String) (v : Value) : (st.set n v).startPos = st.startPos := by
  simp only [DeSt.set]; split <;> rfl

theorem set_idx (st : DeSt) (n : String) (v : Value) : (st.set n v).idx = st.idx := by
  simp only [DeSt.set]; split <;> rfl

/-! ### The declarative store -/

/-- lookup in the declarative environment, as an option -/
def RSt.get? (s : RSt) (n : String) : Option Value := (s.env.find? (·.1 == n)).map (·.2)

theorem RSt.get_eq (s : RSt) (n : String) : s.get n = (RSt.get? s n).getD .missing := rfl

theorem find_filter_ne (L : List (String × Value)) (n m : String) (h : (n == m) = false) :
    (L.filter (·.1 != n)).find? (·.1 == m) = L.find? (·.1 == m) := by
  induction L with
  | nil => rfl
  | cons x xs ih =>
    by_cases hx : (x.1 == m) = true
    · have hxm : x.1 = m := by simpa using hx
      have : (x.1 != n) = true := by
        rw [hxm]
        cases h' : (m == n) with
        | false => simp [bne, h']
        | true => have : m = n := by simpa using h'
                  subst this; simp at h
      rw [List.filter_cons, if_pos this, List.find?_cons, List.find?_cons]
      simp [hx]
    · rw [List.filter_cons]
      split
      · rw [List.find?_cons, List.find?_cons]; simp only [hx]; exact ih
      · rw [List.find?_cons]; simp only [hx]; exact ih

theorem find_filter_self (L : List (String × Value)) (n : String) :
    (L.filter (·.1 != n)).find? (·.1 == n) = none := by
  rw [List.find?_eq_none]
  intro x hx
  have := (List.mem_filter.1 hx).2
  simpa [bne] using this

theorem get?_bind (s : RSt) (n m : String) (v : Value) :
    RSt.get? (s.bind n v) m = if n == m then some v else RSt.get? s m := by
  unfold RSt.get? RSt.bind
  simp only
  rw [WF.find_fst_append_single]
  by_cases hnm : (n == m) = true
  · have : n = m := by simpa using hnm
    subst this
    rw [find_filter_self]; simp
  · have hnm' : (n == m) = false := by simpa using hnm
    rw [find_filter_ne _ _ _ hnm']
    simp only [hnm]
    cases (s.env.find? (·.1 == m)).map (·.2) <;> rfl

theorem get_bind_self (s : RSt) (n : String) (v : Value) : (s.bind n v).get n = v := by
  rw [RSt.get_eq, get?_bind]; simp

theorem get_bind_ne (s : RSt) (n m : String) (v : Value) (h : n ≠ m) : (s.bind n v).get m = s.get m := by
  rw [RSt.get_eq, get?_bind, RSt.get_eq]; simp [h]

theorem bind_r (s : RSt) (n : String) (v : Value) : (s.bind n v).r = s.r := rfl
theorem bind_start (s : RSt) (n : String) (v : Value) : (s.bind n v).start = s.start := rfl

/-- binding a name that is not an attribute yet appends it -/
theorem bind_attrs_fresh (s : RSt) (n : String) (v : Value) (h : n ∉ s.attrs.map (·.1)) :
    (s.bind n v).attrs = s.attrs ++ [(n, v)] := by
  unfold RSt.bind
  simp only
  rw [if_neg]
  intro hany
  rw [List.any_eq_true] at hany
  obtain ⟨p, hp, hpn⟩ := hany
  exact h (List.mem_map.2 ⟨p, hp, by simpa using hpn⟩)

/-- re-binding the attribute bound last -/
theorem bind_attrs_last (s : RSt) (as : List (String × Value)) (n : String) (v w : Value)
    (hs : s.attrs = as ++ [(n, w)]) (h : n ∉ as.map (·.1)) :
    (s.bind n v).attrs = as ++ [(n, v)] := by
  unfold RSt.bind
  simp only
  rw [if_pos (by rw [hs]; simp), hs, List.map_append]
  have : as.map (fun p => if (p.1 == n) = true then (n, v) else p) = as := by
    have hgen : ∀ (L : List (String × Value)), n ∉ L.map (·.1) →
        L.map (fun p => if (p.1 == n) = true then (n, v) else p) = L := by
      intro L hL
      induction L with
      | nil => rfl
      | cons y ys ih =>
        simp only [List.map_cons, List.mem_cons, not_or] at hL
        rw [List.map_cons, ih hL.2]
        have : (y.1 == n) = false := by
          cases h' : (y.1 == n) with
          | false => rfl
          | true => exact absurd (by simpa using h') (Ne.symm hL.1)
        simp [this]
    exact hgen as h
  rw [this]
  simp

end EoVerif.Gen.DeConform
