import EoVerif.Model.Reader
import EoVerif.Spec.AReader
/-! Helper lemmas for C05 (and reused by C04/C06). -/
namespace EoVerif.Reader

/-! ### `findFrom` -/

theorem findFrom_ge (bs : Bytes) (i : Nat) : i ≤ findFrom bs i := by
  induction bs generalizing i with
  | nil => simp [findFrom]
  | cons b bs ih =>
    simp only [findFrom]
    split
    · omega
    · have := ih (i + 1); omega

theorem findFrom_le (bs : Bytes) (i : Nat) : findFrom bs i ≤ i + bs.length := by
  induction bs generalizing i with
  | nil => simp [findFrom]
  | cons b bs ih =>
    simp only [findFrom, List.length_cons]
    split
    · omega
    · have := ih (i + 1); omega

theorem findFrom_before (bs : Bytes) (i j : Nat) (h1 : i ≤ j) (h2 : j < findFrom bs i) :
    bs.getD (j - i) 0 ≠ 0xFF := by
  induction bs generalizing i with
  | nil => simp [findFrom] at h2; omega
  | cons b bs ih =>
    simp only [findFrom] at h2
    split at h2
    · omega
    · rename_i hb
      by_cases hij : j = i
      · subst hij; simpa using hb
      · have := ih (i + 1) (by omega) h2
        have e : j - i = (j - (i + 1)) + 1 := by omega
        rw [e]; simpa using this

theorem findFrom_at (bs : Bytes) (i : Nat) (h : findFrom bs i < i + bs.length) :
    bs.getD (findFrom bs i - i) 0 = 0xFF := by
  induction bs generalizing i with
  | nil => simp [findFrom] at h
  | cons b bs ih =>
    simp only [findFrom, List.length_cons] at h ⊢
    split
    · rename_i hb; simp [hb]
    · rename_i hb
      simp only [hb, if_false] at h
      have h' := ih (i + 1) (by omega)
      have := findFrom_ge bs (i + 1)
      have e : findFrom bs (i + 1) - i = (findFrom bs (i + 1) - (i + 1)) + 1 := by omega
      rw [e]; simpa using h'

/-! ### `brk` -/

theorem getD_drop (l : Bytes) (s k : Nat) : (l.drop s).getD k 0 = l.getD (s + k) 0 := by
  simp [List.getD, List.getElem?_drop]

theorem brk_le (a : AReader) : a.brk ≤ a.data.length := by
  unfold AReader.brk
  split
  · have := findFrom_le (a.data.drop a.chunkStart) a.chunkStart
    simp only [List.length_drop] at this; omega
  · omega

theorem brk_ge (a : AReader) (hc : a.chunkStart ≤ a.data.length) : a.chunkStart ≤ a.brk := by
  unfold AReader.brk
  rw [if_pos hc]; exact findFrom_ge _ _

theorem brk_before (a : AReader) (hc : a.chunkStart ≤ a.data.length) (i : Nat)
    (h1 : a.chunkStart ≤ i) (h2 : i < a.brk) : a.data.getD i 0 ≠ 0xFF := by
  unfold AReader.brk at h2
  rw [if_pos hc] at h2
  have := findFrom_before _ _ _ h1 h2
  rw [getD_drop] at this
  have e : a.chunkStart + (i - a.chunkStart) = i := by omega
  rwa [e] at this

theorem brk_at (a : AReader) (hc : a.chunkStart ≤ a.data.length) (h : a.brk < a.data.length) :
    a.data.getD a.brk 0 = 0xFF := by
  have hge := brk_ge a hc
  unfold AReader.brk at h hge ⊢
  rw [if_pos hc] at h hge ⊢
  have := findFrom_at (a.data.drop a.chunkStart) a.chunkStart (by simp only [List.length_drop]; omega)
  rw [getD_drop] at this
  have e : a.chunkStart + (findFrom (a.data.drop a.chunkStart) a.chunkStart - a.chunkStart)
      = findFrom (a.data.drop a.chunkStart) a.chunkStart := by omega
  rwa [e] at this

theorem remaining_le (a : AReader) : a.pos + a.remaining ≤ max a.pos a.data.length := by
  have := brk_le a
  unfold AReader.remaining
  split <;> omega

theorem remaining_chunked_le (a : AReader) (hc : a.chunked = true) (hp : a.pos ≤ a.brk) :
    a.pos + a.remaining = a.brk := by
  unfold AReader.remaining
  rw [if_pos hc]; omega

theorem remaining_chunked_gt (a : AReader) (hc : a.chunked = true) (hp : a.brk ≤ a.pos) :
    a.remaining = 0 := by
  unfold AReader.remaining
  rw [if_pos hc]; omega

/-! ### small list facts -/

theorem take_one_drop (l : Bytes) (p : Nat) (h : p < l.length) :
    (l.drop p).take 1 = [l.getD p 0] := by
  induction l generalizing p with
  | nil => simp at h
  | cons x xs ih =>
    cases p with
    | zero => simp
    | succ p => simpa using ih p (by simpa using h)

theorem take_min_length (xs : Bytes) (m : Nat) : xs.take (min xs.length m) = xs.take m := by
  by_cases h : xs.length ≤ m
  · rw [Nat.min_eq_left h, List.take_of_length_le h, List.take_of_length_le (Nat.le_refl _)]
  · rw [Nat.min_eq_right (by omega)]

theorem mem_take_drop (l : Bytes) (p k : Nat) (x : Nat) (h : x ∈ (l.drop p).take k) :
    ∃ j, p ≤ j ∧ j < p + k ∧ j < l.length ∧ l.getD j 0 = x := by
  rw [List.mem_iff_getElem] at h
  obtain ⟨i, hi, hx⟩ := h
  simp only [List.length_take, List.length_drop] at hi
  refine ⟨p + i, by omega, by omega, by omega, ?_⟩
  simp only [List.getElem_take, List.getElem_drop] at hx
  simp [List.getD, hx, show p + i < l.length by omega]

/-! ### refinement machinery (`toA` / `RInv` are the `abs` / `Inv` of `Props/C05.lean`) -/

/-- abstraction map: forget the cache (definitionally the `abs` of C05) -/
def toA (r : Reader) : AReader := ⟨r.data, r.pos, r.chunked, r.chunkStart⟩

/-- representation invariant (definitionally the `Inv` of C05) -/
def RInv (r : Reader) : Prop :=
  (r.nextBreak = -1 ∨ r.nextBreak = ((toA r).brk : Int)) ∧
  (r.chunked = true → r.nextBreak ≠ -1) ∧
  (r.nextBreak = -1 → r.chunkStart = 0) ∧
  r.pos ≤ r.data.length ∧ r.chunkStart ≤ r.data.length

@[simp] theorem toA_data (r : Reader) : (toA r).data = r.data := rfl
@[simp] theorem toA_pos (r : Reader) : (toA r).pos = r.pos := rfl
@[simp] theorem toA_chunked (r : Reader) : (toA r).chunked = r.chunked := rfl
@[simp] theorem toA_chunkStart (r : Reader) : (toA r).chunkStart = r.chunkStart := rfl

theorem findNextBreak_eq (r : Reader) : r.findNextBreak = (toA r).brk := rfl

theorem brk_congr (a b : AReader) (hd : a.data = b.data) (hc : a.chunkStart = b.chunkStart) :
    a.brk = b.brk := by
  unfold AReader.brk; rw [hd, hc]

theorem remaining_toA (r : Reader) (h : RInv r) : r.remaining = ((toA r).remaining : Int) := by
  obtain ⟨h1, h2, _, h4, _⟩ := h
  unfold remaining AReader.remaining
  simp only [toA_chunked, toA_pos, toA_data]
  by_cases hc : r.chunked = true
  · simp only [hc, ↓reduceIte]
    have := h2 hc
    rcases h1 with h1 | h1
    · exact absurd h1 this
    · rw [h1]; omega
  · have hc' : r.chunked = false := by simpa using hc
    simp only [hc', Bool.false_eq_true, ↓reduceIte]; omega

theorem readBytes_eq (r : Reader) (h : RInv r) (n : Nat) :
    r.readBytes n = ({ r with pos := r.pos + min n (toA r).remaining },
      (r.data.drop r.pos).take (min n (toA r).remaining)) := by
  have e : (min (n : Int) r.remaining).toNat = min n (toA r).remaining := by
    rw [remaining_toA r h]; omega
  simp only [readBytes, e]

theorem pos_add_remaining_le (r : Reader) (h : RInv r) :
    r.pos + (toA r).remaining ≤ r.data.length := by
  have := remaining_le (toA r)
  simp only [toA_pos, toA_data] at this
  have := h.2.2.2.1
  omega

theorem inv_advance (r : Reader) (h : RInv r) (k : Nat) (hk : k ≤ (toA r).remaining) :
    RInv { r with pos := r.pos + k } := by
  have hle := pos_add_remaining_le r h
  obtain ⟨h1, h2, h3, h4, h5⟩ := h
  refine ⟨?_, h2, h3, ?_, h5⟩
  · exact h1
  · show r.pos + k ≤ r.data.length
    omega

theorem readBytes_refines (r : Reader) (h : RInv r) (n : Nat) :
    (r.readBytes n).2 = ((toA r).read n).2 ∧ toA (r.readBytes n).1 = ((toA r).read n).1 ∧
      RInv (r.readBytes n).1 := by
  rw [readBytes_eq r h]
  exact ⟨rfl, rfl, inv_advance r h _ (Nat.min_le_right _ _)⟩

theorem readByte_refines (r : Reader) (h : RInv r) :
    (r.readByte).2 = (((toA r).read 1).2.headD 0) ∧ toA (r.readByte).1 = ((toA r).read 1).1 ∧
      RInv (r.readByte).1 := by
  have hrem := remaining_toA r h
  have hle := pos_add_remaining_le r h
  unfold readByte
  by_cases hpos : r.remaining > 0
  · rw [if_pos hpos]
    have e : min 1 (toA r).remaining = 1 := by omega
    refine ⟨?_, ?_, ?_⟩
    · simp only [AReader.read, e, toA_data, toA_pos]
      rw [take_one_drop _ _ (by omega)]; rfl
    · simp only [AReader.read, e]; rfl
    · exact inv_advance r h 1 (by omega)
  · rw [if_neg hpos]
    have e : min 1 (toA r).remaining = 0 := by omega
    refine ⟨?_, ?_, h⟩
    · simp [AReader.read, e]
    · simp only [AReader.read, e]; rfl

theorem remaining_toNat (r : Reader) (h : RInv r) : r.remaining.toNat = (toA r).remaining := by
  rw [remaining_toA r h]; omega

/-- one-step refinement, operation by operation -/
theorem step_getByte (r : Reader) (h : RInv r) :
    (r.step .getByte).2 = ((toA r).step .getByte).2 ∧
    toA (r.step .getByte).1 = ((toA r).step .getByte).1 ∧ RInv (r.step .getByte).1 := by
  obtain ⟨a, b, c⟩ := readByte_refines r h
  simp only [step, AReader.step]
  exact ⟨by rw [a], b, c⟩

theorem step_setChunked (r : Reader) (h : RInv r) (b : Bool) :
    (r.step (.setChunked b)).2 = ((toA r).step (.setChunked b)).2 ∧
    toA (r.step (.setChunked b)).1 = ((toA r).step (.setChunked b)).1 ∧
    RInv (r.step (.setChunked b)).1 := by
  obtain ⟨h1, h2, h3, h4, h5⟩ := h
  simp only [step, AReader.step]
  by_cases hn : r.nextBreak = -1
  · simp only [hn, if_true]
    refine ⟨trivial, rfl, ?_, ?_, ?_, h4, h5⟩
    · right; rfl
    · intro _; show ((findNextBreak _ : Nat) : Int) ≠ -1; omega
    · intro hh; exfalso; revert hh; show ((findNextBreak _ : Nat) : Int) ≠ -1; omega
  · simp only [hn, if_false]
    refine ⟨trivial, rfl, ?_, ?_, ?_, h4, h5⟩
    · rcases h1 with h1 | h1
      · exact absurd h1 hn
      · right; exact h1
    · intro _; exact hn
    · intro hh; exact absurd hh hn

theorem step_nextChunk (r : Reader) (h : RInv r) :
    (r.step .nextChunk).2 = ((toA r).step .nextChunk).2 ∧
    toA (r.step .nextChunk).1 = ((toA r).step .nextChunk).1 ∧
    RInv (r.step .nextChunk).1 := by
  have hb := brk_le (toA r)
  simp only [toA_data] at hb
  simp only [step, AReader.step, toA_chunked, toA_data]
  by_cases hc : r.chunked = true
  · obtain ⟨h1, h2, h3, h4, h5⟩ := h
    simp only [hc, Bool.not_true, Bool.false_eq_true, if_false]
    have hnb : r.nextBreak = ((toA r).brk : Int) := by
      rcases h1 with h1 | h1
      · exact absurd h1 (h2 hc)
      · exact h1
    have e : r.nextBreak.toNat = (toA r).brk := by rw [hnb]; omega
    rw [e]
    refine ⟨trivial, ?_, ?_⟩
    · simp only [toA, hc]
    · refine ⟨Or.inr rfl, ?_, ?_, ?_, ?_⟩
      · intro _; show ((findNextBreak _ : Nat) : Int) ≠ -1; omega
      · intro hh; exfalso; revert hh; show ((findNextBreak _ : Nat) : Int) ≠ -1; omega
      · show (if (toA r).brk < r.data.length then (toA r).brk + 1 else (toA r).brk) ≤ r.data.length
        split <;> omega
      · show (if (toA r).brk < r.data.length then (toA r).brk + 1 else (toA r).brk) ≤ r.data.length
        split <;> omega
  · have hc' : r.chunked = false := by simpa using hc
    simp only [hc', Bool.not_false, if_true]; exact ⟨trivial, trivial, h⟩

theorem step_refines' (r : Reader) (h : RInv r) (op : Op) :
    (r.step op).2 = ((toA r).step op).2 ∧ toA (r.step op).1 = ((toA r).step op).1 ∧
    RInv (r.step op).1 := by
  cases op with
  | getByte => exact step_getByte r h
  | setChunked b => exact step_setChunked r h b
  | nextChunk => exact step_nextChunk r h
  | getBytes n =>
    obtain ⟨a, b, c⟩ := readBytes_refines r h n
    simp only [step, AReader.step]; exact ⟨by rw [a], b, c⟩
  | getChar =>
    obtain ⟨a, b, c⟩ := readBytes_refines r h 1
    simp only [step, AReader.step]; exact ⟨by rw [a], b, c⟩
  | getShort =>
    obtain ⟨a, b, c⟩ := readBytes_refines r h 2
    simp only [step, AReader.step]; exact ⟨by rw [a], b, c⟩
  | getThree =>
    obtain ⟨a, b, c⟩ := readBytes_refines r h 3
    simp only [step, AReader.step]; exact ⟨by rw [a], b, c⟩
  | getInt =>
    obtain ⟨a, b, c⟩ := readBytes_refines r h 4
    simp only [step, AReader.step]; exact ⟨by rw [a], b, c⟩
  | getString =>
    obtain ⟨a, b, c⟩ := readBytes_refines r h (toA r).remaining
    simp only [step, AReader.step, remaining_toNat r h]; exact ⟨by rw [a], b, c⟩
  | getEncodedString =>
    obtain ⟨a, b, c⟩ := readBytes_refines r h (toA r).remaining
    simp only [step, AReader.step, remaining_toNat r h]; exact ⟨by rw [a], b, c⟩
  | getFixedString l p =>
    obtain ⟨a, b, c⟩ := readBytes_refines r h l.toNat
    simp only [step, AReader.step]
    split
    · exact ⟨rfl, rfl, h⟩
    · exact ⟨by simp only [a], b, c⟩
  | getFixedEncodedString l p =>
    obtain ⟨a, b, c⟩ := readBytes_refines r h l.toNat
    simp only [step, AReader.step]
    split
    · exact ⟨rfl, rfl, h⟩
    · exact ⟨by simp only [a], b, c⟩

theorem step_data (r : Reader) (op : Op) : (r.step op).1.data = r.data := by
  cases op <;> simp only [step, readByte, readBytes] <;> (repeat' split) <;> rfl

/-! ### exhausted reads -/

theorem with_pos_zero (r : Reader) : { r with pos := r.pos + 0 } = r := by cases r; rfl

theorem readBytes_zero (r : Reader) (h0 : r.remaining = 0) (n : Nat) : r.readBytes n = (r, []) := by
  have e : (min (n : Int) r.remaining).toNat = 0 := by omega
  simp only [readBytes, e, List.take_zero, with_pos_zero]

theorem readByte_zero (r : Reader) (h0 : r.remaining = 0) : r.readByte = (r, 0) := by
  simp [readByte, h0]

theorem exhausted_reads' (r : Reader) (h0 : r.remaining = 0) (n : Nat) (l : Int) (hl : 0 ≤ l)
    (p : Bool) :
    r.step .getByte = (r, .ok (.int 0)) ∧ r.step (.getBytes n) = (r, .ok (.bytes [])) ∧
    r.step .getChar = (r, .ok (.int 0)) ∧ r.step .getShort = (r, .ok (.int 0)) ∧
    r.step .getThree = (r, .ok (.int 0)) ∧ r.step .getInt = (r, .ok (.int 0)) ∧
    r.step .getString = (r, .ok (.str [])) ∧ r.step .getEncodedString = (r, .ok (.str [])) ∧
    r.step (.getFixedString l p) = (r, .ok (.str [])) ∧
    r.step (.getFixedEncodedString l p) = (r, .ok (.str [])) := by
  have hl' : ¬ l < 0 := by omega
  have d0 : Num.decode [] = 0 := rfl
  have s0 : Str.decode [] = [] := rfl
  have a0 : Ansi.decode [] = [] := rfl
  have p0 : removePadding [] = [] := rfl
  refine ⟨?_, ?_, ?_, ?_, ?_, ?_, ?_, ?_, ?_, ?_⟩ <;>
    simp only [step, readBytes_zero r h0, readByte_zero r h0, hl', if_false, d0, s0, a0, p0,
      ite_self, Int.cast_ofNat_Int] <;> rfl

/-! ### bounded reads of the abstract reader -/

theorem read_bounded' (a : AReader) (n : Nat) (hp : a.pos ≤ a.data.length) :
    (a.read n).2 = (a.data.drop a.pos).take (min n a.remaining) ∧
    (a.read n).1.pos = a.pos + min n a.remaining ∧
    (a.read n).1.pos ≤ a.data.length ∧
    (a.chunked = true → a.pos ≤ a.brk → (a.read n).1.pos ≤ a.brk) ∧
    (a.chunked = true → 0xFF ∉ (a.read n).2 ∨ a.pos < a.chunkStart) := by
  have hle := remaining_le a
  refine ⟨rfl, rfl, ?_, ?_, ?_⟩
  · show a.pos + min n a.remaining ≤ a.data.length
    omega
  · intro hc hb
    show a.pos + min n a.remaining ≤ a.brk
    have := remaining_chunked_le a hc hb
    omega
  · intro hc
    by_cases hcs : a.pos < a.chunkStart
    · exact Or.inr hcs
    · left
      intro hmem
      obtain ⟨j, hj1, hj2, hj3, hj4⟩ := mem_take_drop a.data a.pos (min n a.remaining) _ hmem
      by_cases hb : a.pos ≤ a.brk
      · have := remaining_chunked_le a hc hb
        exact brk_before a (by omega) j (by omega) (by omega) hj4
      · have := remaining_chunked_gt a hc (by omega)
        omega

/-! ### next_chunk -/

theorem nextChunk_spec' (r : Reader) (h : RInv r) (hc : r.chunked = true) :
    (r.step .nextChunk).2 = .ok .none ∧
    (r.step .nextChunk).1.pos =
      (if (toA r).brk < r.data.length then (toA r).brk + 1 else r.data.length) ∧
    (r.step .nextChunk).1.chunkStart = (r.step .nextChunk).1.pos := by
  have hb := brk_le (toA r)
  simp only [toA_data] at hb
  obtain ⟨h1, h2, _, _, _⟩ := h
  have hnb : r.nextBreak = ((toA r).brk : Int) := by
    rcases h1 with h1 | h1
    · exact absurd h1 (h2 hc)
    · exact h1
  have e : r.nextBreak.toNat = (toA r).brk := by rw [hnb]; omega
  simp only [step, hc, Bool.not_true, Bool.false_eq_true, if_false, e]
  refine ⟨trivial, ?_, trivial⟩
  split <;> omega

/-! ### slice -/

theorem slice_err (r : Reader) (index length : Option Int)
    (h : index.getD r.pos < 0 ∨
      length.getD (max 0 ((r.data.length : Int) - index.getD r.pos)) < 0) :
    r.slice index length = .error .ValueError := by
  simp only [slice]
  rcases h with h | h
  · rw [if_pos h]
  · rw [if_pos h]; simp

theorem slice_ok (r : Reader) (index length : Option Int)
    (hi : 0 ≤ index.getD r.pos)
    (hl : 0 ≤ length.getD (max 0 ((r.data.length : Int) - index.getD r.pos))) :
    r.slice index length = .ok (Reader.new ((r.data.drop
      (min (index.getD (r.pos : Int)).toNat r.data.length)).take
      (length.getD (max 0 ((r.data.length : Int) - index.getD r.pos))).toNat)) := by
  simp only [slice]
  generalize index.getD (r.pos : Int) = i at *
  generalize length.getD (max 0 ((r.data.length : Int) - i)) = l at *
  rw [if_neg (by omega), if_neg (by omega)]
  have eb : (max 0 (min (r.data.length : Int) i)).toNat = min i.toNat r.data.length := by omega
  rw [eb, Nat.add_sub_cancel_left]
  have ex : (min ((r.data.length : Int) - ((min i.toNat r.data.length : Nat) : Int)) l).toNat
      = min (r.data.drop (min i.toNat r.data.length)).length l.toNat := by
    rw [List.length_drop]; omega
  rw [ex, take_min_length]

end EoVerif.Reader
