import EoVerif.Lemmas.ConformInstr
/-! The `<array>` instruction of the C02 simulation: the emitted loop against `elems`. -/
namespace EoVerif.Gen.Conform
open EoVerif EoVerif.Gen EoVerif.Spec EoVerif.Gen.WF

theorem repeatM_zero {σ} (f : Nat → σ → Res σ Unit) (i : Nat) (s : σ) : repeatM f 0 i s = (s, .ok ()) := by
  rw [repeatM]

theorem repeatM_succ {σ} (f : Nat → σ → Res σ Unit) (k i : Nat) (s : σ) :
    repeatM f (k + 1) i s = bindRes (f i s) (repeatM f k (i + 1)) := by
  rw [repeatM]
  obtain ⟨s', x⟩ := f i s
  cases x with
  | error e => rfl
  | ok u => cases u; rfl

theorem evalV_indexed (obj : Value) (idx : Nat) (n : String) (vs : List Value) (x : Value)
    (hv : obj.attr n = .tuple vs) (hx : vs[idx]? = some x) :
    evalV obj idx (.field n true) = .ok x := by
  simp only [evalV]
  rw [hv]
  simp only [if_true, hx]

theorem exec_ifIdxPos (call : SerCall) (obj : Value) (body : List SerOp) (st : SerSt) :
    execSerOp call obj (.ifIdxPos body) st = if st.idx > 0 then execSerOps call obj body st else (st, .ok ()) := by
  rw [execSerOp]

/-- the bytes one array element contributes -/
def elemBytes (delimited trailing : Bool) (i : Nat) (b : Bytes) : Bytes :=
  (if delimited && !trailing && !(i == 0) then [0xFF] else []) ++ b ++ (if delimited && trailing then [0xFF] else [])

/-- one iteration of the emitted loop -/
theorem iter_conf {call : SerCall} {wcall : String → Value → Bool → W} {TV : String → Value → Prop}
    {lens : String → Option LenInfo} {obj : Value} {t : Ty} {sc : Scalar} {n : String} {vs : List Value}
    (hcall : CallOK call wcall TV) (hrel : TyRel t none false sc) (hv : obj.attr n = .tuple vs)
    (delimited trailing : Bool) (i : Nat) (x : Value) (hx : vs[i]? = some x) (htv : TypedVal TV obj sc x)
    (s : SerSt) :
    Conf (execSerOps call obj
        (loopBody delimited trailing t n) { s with idx := i })
      ((wireScalar wcall lens s.w.san sc x).map (elemBytes delimited trailing i))
      (fun s' o => s' = appSt { s with idx := i } o) := by
  unfold loopBody
  -- the write itself
  have hw : ∀ (s0 : SerSt), s0.idx = i → Conf (execSerOp call obj (.write (ioKind t none false) (.field n true) (coerceOf t) 0) s0)
      (wireScalar wcall lens s0.w.san sc x) (fun s' b => s' = appSt s0 b) := by
    intro s0 hi
    have := present_conf (wcall := wcall) (lens := lens) (ctx := {}) (p := { typeStr := "" }) (t := t) (sc := sc)
      (vx := .field n true) (sl := none) (val := x) s0 hcall hrel (fun l hl => by cases hl) htv
      ⟨x, by rw [hi]; exact evalV_indexed obj i n vs x hv hx, by unfold EvRel; cases t <;> rfl⟩
      (fun m hm => by cases hm) (fun l hl => by cases hl) (fun _ l hl => by cases hl) rfl
    have hl : lenChkOf {} ({ typeStr := "" } : FP) = [] := rfl
    rw [hl, List.nil_append, execSerOps_single] at this
    exact this
  rw [List.append_assoc, execSerOps_append]
  -- the leading delimiter
  have hpre : execSerOps call obj (if delimited && !trailing then [.ifIdxPos [.addBreak]] else []) { s with idx := i }
      = (appSt { s with idx := i } (if delimited && !trailing && !(i == 0) then [0xFF] else []), .ok ()) := by
    by_cases hc : (delimited && !trailing) = true
    · rw [if_pos hc, execSerOps_single, exec_ifIdxPos]
      by_cases hi : i = 0
      · subst hi
        simp [appSt, hc]
      · have : ({ s with idx := i } : SerSt).idx > 0 := by show i > 0; omega
        rw [if_pos this, execSerOps_single, exec_addBreak]
        simp [hc, hi]
    · rw [if_neg hc, execSerOps_nil]
      simp only [Bool.not_eq_true] at hc
      simp [hc, appSt]
  rw [hpre, bindRes_ok, List.singleton_append, execSerOps_cons]
  have h1 := hw (appSt { s with idx := i } (if delimited && !trailing && !(i == 0) then [0xFF] else [])) rfl
  have hsan : (appSt { s with idx := i } (if delimited && !trailing && !(i == 0) then [0xFF] else [])).w.san = s.w.san := rfl
  rw [hsan] at h1
  have hmap : ∀ (o : Option Bytes), o.map (elemBytes delimited trailing i)
      = o.bind (fun b => some (elemBytes delimited trailing i b)) := by intro o; cases o <;> rfl
  rw [hmap]
  refine Conf_bind (g := fun b => some (elemBytes delimited trailing i b)) h1 ?_
  intro s1 b hs1
  subst hs1
  by_cases hc : (delimited && trailing) = true
  · rw [if_pos hc, execSerOps_single, exec_addBreak]
    simp only [Conf_ok_some]
    unfold elemBytes appSt
    simp [hc, List.append_assoc]
  · rw [if_neg hc, execSerOps_nil]
    simp only [Conf_ok_some]
    simp only [Bool.not_eq_true] at hc
    unfold elemBytes appSt
    simp [hc, List.append_assoc]


theorem elems_elemBytes (wcall : String → Value → Bool → W) (lens : String → Option LenInfo) (sc : Scalar)
    (delimited trailing : Bool) (wst : WSt) (x : Value) (xs : List Value) (i : Nat) (acc : Bytes) :
    wireInstr.elems wcall lens sc delimited trailing wst (x :: xs) (i == 0) acc
      = ((wireScalar wcall lens wst.san sc x).map (elemBytes delimited trailing i)).bind
          (fun o => wireInstr.elems wcall lens sc delimited trailing wst xs false (acc ++ o)) := by
  rw [wireInstr.elems]
  cases wireScalar wcall lens wst.san sc x with
  | none => rfl
  | some b =>
    simp only [Option.map_some, Option.bind_some]
    unfold elemBytes
    simp only [List.append_assoc]

/-- the emitted loop against `elems` -/
theorem loop_conf {call : SerCall} {wcall : String → Value → Bool → W} {TV : String → Value → Prop}
    {lens : String → Option LenInfo} {obj : Value} {t : Ty} {sc : Scalar} {n : String} {vs : List Value}
    (hcall : CallOK call wcall TV) (hrel : TyRel t none false sc) (hv : obj.attr n = .tuple vs)
    (delimited trailing : Bool) (wst : WSt) (D : Bytes) :
    ∀ (rest : List Value) (i : Nat) (s : SerSt) (acc : Bytes), vs.drop i = rest →
      (∀ x ∈ rest, TypedVal TV obj sc x) → s.w.data = D ++ acc → s.w.san = wst.san →
      Conf (repeatM (fun j s' => execSerOps call obj
          (loopBody delimited trailing t n) { s' with idx := j }) rest.length i s)
        (wireInstr.elems wcall lens sc delimited trailing wst rest (i == 0) acc)
        (fun s' o => s'.w.data = D ++ o ∧ s'.w.san = s.w.san ∧ s'.rmo = s.rmo ∧ s'.oldLen = s.oldLen)
  | [], i, s, acc, _, _, hd, _ => by
    rw [List.length_nil, repeatM_zero, wireInstr.elems]
    exact ⟨hd, rfl, rfl, rfl⟩
  | x :: xs, i, s, acc, hdrop, hty, hd, hsan => by
    rw [List.length_cons, repeatM_succ, elems_elemBytes]
    have hx : vs[i]? = some x := by
      have := List.getElem?_drop (xs := vs) (i := i) (j := 0)
      rw [hdrop] at this
      simpa using this.symm
    have hdrop' : vs.drop (i + 1) = xs := by
      have : (vs.drop i).drop 1 = vs.drop (i + 1) := by rw [List.drop_drop]
      rw [← this, hdrop]; rfl
    have h1 := iter_conf (lens := lens) hcall hrel hv delimited trailing i x hx (hty x (List.mem_cons_self ..)) s
    rw [hsan] at h1
    refine Conf_bind h1 ?_
    intro s1 o hs1
    subst hs1
    have hnext : ((i + 1 == 0) : Bool) = false := by simp
    have := loop_conf (lens := lens) hcall hrel hv delimited trailing wst D xs (i + 1) (appSt { s with idx := i } o) (acc ++ o)
      hdrop' (fun y hy => hty y (List.mem_cons_of_mem _ hy))
      (by show s.w.data ++ o = D ++ (acc ++ o); rw [hd, List.append_assoc]) hsan
    rw [hnext] at this
    exact this.mono (fun s' o' h => h)


/-- the declared-length rule for a tuple of `n` elements -/
def arrLenOk (lens : String → Option LenInfo) (len : Option TLen) (n : Nat) : Bool :=
  match len with
  | none => true
  | some (.lit m) => (n : Int) == m
  | some (.byField f) => (match lens f with
    | some li => decide ((n : Int) ≤ lengthLimit li.k li.offset)
    | none => false)

theorem wireInstr_array_tuple (call : String → Value → Bool → W) (lens : String → Option LenInfo) (obj : Value)
    (lex : Bool) (x : WSt) (name : String) (elem : Scalar) (len : Option TLen) (optional delimited trailing : Bool)
    (ef : Option Int) (vs : List Value) (hv : obj.attr name = .tuple vs) :
    wireInstr call lens obj lex (.array name elem len optional delimited trailing ef) x =
      if (optional && x.stopped) = true then some { x with stopped := true }
      else if (!arrLenOk lens len vs.length) = true then none
      else Option.map (fun b => { x with out := x.out ++ b })
        (wireInstr.elems call lens elem delimited trailing x vs true []) := by
  rw [wireInstr, hv]
  simp only [Value.isNone, Bool.or_false]
  rfl

def fragArray (okT : String → Bool) (e : Xml) : Bool :=
  (match e.get "type" with | some ty => okT ty | none => false) &&
  (match e.get "name" with
   | some n => (PyStr.pyInt? n).isNone
   | none => false)

theorem exec_forRange_lit (call : SerCall) (obj : Value) (n : Int) (body : List SerOp) (st : SerSt) :
    execSerOp call obj (.forRange (.lit n) body) st
      = repeatM (fun i s => execSerOps call obj body { s with idx := i }) n.toNat 0 st := by
  simp only [execSerOp]

theorem exec_forRange_lenField (call : SerCall) (obj : Value) (f : String) (n : Int) (body : List SerOp) (st : SerSt)
    (h : obj.attr f = .int n) :
    execSerOp call obj (.forRange (.lenField f) body) st
      = repeatM (fun i s => execSerOps call obj body { s with idx := i }) n.toNat 0 st := by
  simp only [execSerOp, h]

theorem exec_forRange_lenOf (call : SerCall) (obj : Value) (f : String) (vs : List Value) (body : List SerOp)
    (st : SerSt) (h : obj.attr f = .tuple vs) :
    execSerOp call obj (.forRange (.lenOf f) body) st
      = repeatM (fun i s => execSerOps call obj body { s with idx := i }) vs.length 0 st := by
  simp only [execSerOp, h, Value.len?, Int.toNat_natCast]

set_option maxHeartbeats 800000 in
theorem array_step {call : SerCall} {wcall : String → Value → Bool → W} {TV : String → Value → Prop}
    {TVs : List (String → Value → Prop)}
    {lens : String → Option LenInfo} {obj : Value} {base : Bytes} {lex : Bool}
    {okT : String → Bool} {tf : TypeEnv} {env : Env} {ss : String → Option Int} {cls : String}
    {scope following : List Xml} {ctx ctx' : Ctx} {d d' : Data} {is : List TInstr}
    {tag : String} {attrs : List (String × String)} {text tail : Option String} {children : List Xml}
    (htf : TfOK okT tf env) (hcall : CallOK call wcall TV) (hok : CtxOK ctx lens) (hen : CtxEnum env scope ctx)
    (htag : (tag == "array") = true) (htag1 : (tag == "field") = false) (htag2 : (tag == "length") = false)
    (hfr : fragArray okT (.mk tag attrs text tail children) = true)
    (hg : genArrayInstr tf ctx d (.mk tag attrs text tail children) = .ok (ctx', d'))
    (he : elabInstr env ss cls scope following (.mk tag attrs text tail children) = some is) :
    StepOK call wcall TV TVs lens obj base lex env scope ctx d ctx' d' is := by
  generalize hE : Xml.mk tag attrs text tail children = e at hg hfr
  unfold genArrayInstr at hg
  extract_lets optional delimited jp2 jp at hg
  split at hg
  · cases hg
  rename_i hro
  simp only [jp] at hg
  split at hg
  · cases hg
  simp only [jp2] at hg
  obtain ⟨name, hname, hg⟩ := except_bind_ok hg
  obtain ⟨ty, hty, hg⟩ := except_bind_ok hg
  obtain ⟨⟨c1, d1⟩, hall, hg⟩ := except_bind_ok hg
  simp only [pure, Except.pure, Except.ok.injEq, Prod.mk.injEq] at hg
  obtain ⟨rfl, rfl⟩ := hg
  generalize hp : ({ name := some name, typeStr := ty, lenStr := e.get "length", optional := optional, arrayField := true, delimited := delimited, trailing := e.getBool "trailing-delimiter" true } : FP) = p at hall
  have pn : p.name = some name := by rw [← hp]
  have pt : p.typeStr = ty := by rw [← hp]
  have pl : p.lenStr = e.get "length" := by rw [← hp]
  have ppad : p.padded = false := by rw [← hp]
  have popt : p.optional = optional := by rw [← hp]
  have phard : p.hardcoded = none := by rw [← hp]
  have parr : p.arrayField = true := by rw [← hp]
  have plf : p.lengthField = false := by rw [← hp]
  have poff : p.offset = 0 := by rw [← hp]
  have pdel : p.delimited = delimited := by rw [← hp]
  have ptr : p.trailing = e.getBool "trailing-delimiter" true := by rw [← hp]
  have ptl : p.typeLen = none := by unfold FP.typeLen; rw [parr]; rfl
  obtain ⟨hval, t, al, ht, hal, hc1, hser, hrmo, hcn, haux⟩ := generateAll_array parr pn ppad poff hall
  obtain ⟨v1, v2, v3⟩ := validateField_ok hval
  rw [pt, ptl] at ht
  have hgn := getReq_ok hname
  have hgt := getReq_ok hty
  unfold fragArray at hfr
  simp only [hgt, hgn, Bool.and_eq_true] at hfr
  obtain ⟨hokT, hfrn⟩ := hfr
  obtain ⟨sc, hsc, hrel⟩ := htf.resolve ty none t false hokT ht
  have hpn : PyStr.pyInt? name = none := by
    cases h : PyStr.pyInt? name with
    | none => rfl
    | some x => rw [h] at hfrn; cases hfrn
  have hfresh : ∀ n, p.name = some n → (ctx.field? n).isSome = false ∧ PyStr.pyInt? n = none := by
    intro n hn
    rw [pn] at hn; cases hn
    exact ⟨v2 name pn, hpn⟩
  have hlc : ∀ l, p.lenStr = some l → LenCase c1 lens l := by
    intro l hl; rw [hc1]; exact lenCase_after hok (v3 l hl).1 hfresh
  have hc1' : c1 = fieldCtx ctx p name t := by rw [hc1]; unfold ctxAfter; rw [pn]
  have hflags : c1.reachedOptional = ctx.reachedOptional ∧ c1.chunked = ctx.chunked := by
    rw [hc1']; exact ⟨fieldCtx_flags.2.1, fieldCtx_flags.1⟩
  have hok1 : CtxOK c1 lens := by
    rw [hc1']
    exact ctxOK_fieldCtx hok (v2 name pn) hpn (fun h => by rw [plf] at h; cases h)
  -- declarative side
  rw [← hE] at hgn hgt
  rw [elabInstr, if_neg (by rw [htag1]; simp), if_neg (by rw [htag2]; simp), if_pos htag] at he
  simp only [hgn, hgt, Option.bind_some] at he
  have hsc' : scalarOf env ty none false = some sc := hsc
  rw [hsc'] at he
  simp only [Option.some.injEq] at he
  rw [hE] at he
  subst he
  have hoptE : xmlBool e "optional" = optional := rfl
  have hdelE : xmlBool e "delimited" = delimited := rfl
  have htrE : xmlBool e "trailing-delimiter" true = p.trailing := by rw [ptr]; rfl
  rw [hoptE, hdelE, htrE, ← pl]
  refine ⟨_, hser, hcn, haux, ?_, ?_, ?_, ?_⟩
  · split
    · exact ⟨hok1.1, hok1.2⟩
    · exact hok1
  · have hen1 : CtxEnum env scope c1 := by
      rw [hc1']
      exact ctxEnum_fieldCtx hen (v2 name pn) (fun h => by rw [parr] at h; cases h)
    split
    · exact hen1.congr rfl
    · exact hen1
  · split
    · exact hflags.2
    · exact hflags.2
  intro st wst htyped hdyn
  have hro' : (ctx.reachedOptional && !p.optional) = false := by
    rw [popt]; exact Bool.eq_false_iff.mpr hro
  have hfin : ∀ st' wst', Dyn base (ctx.reachedOptional || optional) (d.rmoAssigned || optional) false st' wst' →
      Dyn base (if optional = true then { c1 with reachedOptional := true } else c1).reachedOptional
        d1.rmoAssigned d1.ser.isEmpty st' wst' := by
    intro st' wst' h
    have e1 : (if optional = true then { c1 with reachedOptional := true } else c1).reachedOptional
        = (ctx.reachedOptional || optional) := by
      cases optional with
      | true => simp
      | false => simp [hflags.1]
    have e2 : d1.ser.isEmpty = false := by
      rw [hser]
      unfold itemOps
      cases p.optional <;> simp
    rw [e1, hrmo, e2, popt]; exact h
  rw [hflags.1] at hser
  rw [hflags.1]
  rw [TypedInstrs, TypedInstr] at htyped
  obtain ⟨htv, _⟩ := htyped
  rw [wireInstrs_single]
  have hm : obj.attr name ≠ .missing := by
    rcases htv with h | ⟨vs, h, _⟩ <;> rw [h] <;> simp
  rcases htv with hv | ⟨vs, hv, hel, hbf⟩
  · -- `None`
    have := item_conf' (call := call) (obj := obj) (p := p) (tail := lenChkOf c1 p ++ [arrayLoop p t al])
      (v := obj.attr name) (W := none) hdyn hro'
      (fun m hm' => by rw [pn] at hm'; cases hm'; exact ⟨rfl, hm⟩) (fun hn => by rw [pn] at hn; cases hn)
      (fun hh => by rw [phard] at hh; cases hh) (fun hvn r => absurd hv hvn)
    unfold specItem at this
    rw [popt, hv] at this
    rw [wireInstr, hv]
    refine Conf.mono ?_ hfin
    cases hopt : optional with
    | true => rw [hopt] at this; simpa [Value.isNone] using this
    | false => rw [hopt] at this; simpa [Value.isNone] using this
  · -- a tuple
    have hvn : obj.attr name ≠ .none := by rw [hv]; simp
    -- the declared-length check
    let lenOk : Bool := arrLenOk lens (tlenOf p.lenStr) vs.length
    have hpres : ∀ r, Conf (execSerOps call obj (lenChkOf c1 p ++ [arrayLoop p t al]) { st with rmo := r })
        (if !lenOk then none else wireInstr.elems wcall lens sc p.delimited p.trailing wst vs true [])
        (AppRel st r) := by
      intro r
      -- the loop, once the count is known to be the tuple's length
      have hloop : ∀ (count : CountE),
          execSerOp call obj (.forRange count (loopBody p.delimited p.trailing t name)) { st with rmo := r }
            = repeatM (fun i s => execSerOps call obj (loopBody p.delimited p.trailing t name) { s with idx := i })
                vs.length 0 { st with rmo := r } →
          Conf (execSerOp call obj (.forRange count (loopBody p.delimited p.trailing t name)) { st with rmo := r })
            (wireInstr.elems wcall lens sc p.delimited p.trailing wst vs true [])
            (AppRel st r) := by
        intro count hcount
        rw [hcount]
        have := loop_conf (lens := lens) (n := name) hcall hrel hv p.delimited p.trailing wst st.w.data vs 0
          { st with rmo := r } [] rfl hel (by simp) hdyn.san
        exact this.mono (fun s' o h => h)
      have hloopOp : arrayLoop p t al = .forRange (countOf name al) (loopBody p.delimited p.trailing t name) := by
        unfold arrayLoop; rw [pn]; rfl
      rw [hloopOp]
      cases hl : p.lenStr with
      | none =>
        have h1 : lenChkOf c1 p = [] := by unfold lenChkOf; rw [pn, hl]
        have h2 : al = none := by unfold lenExpr at hal; rw [hl] at hal; cases hal; rfl
        have h3 : lenOk = true := by simp only [lenOk, hl, tlenOf]; rfl
        rw [h1, h2, h3, List.nil_append, execSerOps_single]
        simp only [Bool.not_true, Bool.false_eq_true, if_false, countOf]
        exact hloop _ (exec_forRange_lenOf call obj name vs _ _ hv)
      | some l =>
        rcases hlc l hl with ⟨N, hd, hN, hf⟩ | ⟨hd, hN, k, off, hf, hli⟩
        · have h1 : lenChkOf c1 p = [.lenCheck name false N] := by
            unfold lenChkOf; rw [pn, hl]; simp only [hf, hN, Option.getD_some, ppad]
          have h2 : al = some (.lit N) := by
            unfold lenExpr at hal; rw [hl] at hal
            simp only [hd, if_true, hN, Option.getD_some] at hal
            cases hal; rfl
          have h3 : lenOk = ((vs.length : Int) == (N : Int)) := by
            simp only [lenOk, hl, tlenOf_some, hN, arrLenOk]
          rw [h1, h2, h3, List.singleton_append, execSerOps_cons, execSerOps_single,
            exec_lenCheck call obj name false N _ (.tuple vs) vs.length hv (by simp) rfl]
          simp only [Bool.false_eq_true, if_false]
          by_cases hc : (vs.length : Int) = N
          · have hbeq : ((vs.length : Int) == (N : Int)) = true := by simpa using hc
            rw [if_neg (by simpa using hc), bindRes_ok, hbeq]
            simp only [Bool.not_true, Bool.false_eq_true, if_false, countOf]
            refine hloop _ ?_
            rw [exec_forRange_lit]
            have : (N : Int).toNat = vs.length := by omega
            rw [this]
          · have hbeq : ((vs.length : Int) == (N : Int)) = false := by simpa using hc
            rw [if_pos (by simpa using hc), bindRes_err, hbeq]
            simp
        · have h1 : lenChkOf c1 p = [.lenCheck name true (k.maxValue + off)] := by
            unfold lenChkOf; rw [pn, hl]; simp only [hf]
          have h2 : al = some (.field l) := by
            unfold lenExpr at hal; rw [hl] at hal
            simp only [hd, Bool.false_eq_true, if_false, hf, Option.isSome_some, if_true] at hal
            cases hal; rfl
          have hlim : lengthLimit k off = k.maxValue + off := by
            cases k <;> simp [lengthLimit, limitOf, IntKind.maxValue]
          have h3 : lenOk = decide ((vs.length : Int) ≤ k.maxValue + off) := by
            simp only [lenOk, hl, tlenOf_some, hN, arrLenOk, hli, hlim]
          have hattr : obj.attr l = .int vs.length := hbf l (by rw [hl, tlenOf_some, hN])
          rw [h1, h2, h3, List.singleton_append, execSerOps_cons, execSerOps_single,
            exec_lenCheck call obj name true _ _ (.tuple vs) vs.length hv (by simp) rfl]
          simp only [if_true]
          by_cases hc : (vs.length : Int) > k.maxValue + off
          · rw [if_pos hc, bindRes_err]
            have : decide ((vs.length : Int) ≤ k.maxValue + off) = false := by simp; omega
            rw [this]; simp
          · rw [if_neg hc, bindRes_ok]
            have : decide ((vs.length : Int) ≤ k.maxValue + off) = true := by simp; omega
            rw [this]
            simp only [Bool.not_true, Bool.false_eq_true, if_false, countOf]
            refine hloop _ ?_
            rw [exec_forRange_lenField call obj l vs.length _ _ hattr, Int.toNat_natCast]
    have := item_conf' (call := call) (obj := obj) (p := p) (tail := lenChkOf c1 p ++ [arrayLoop p t al])
      (v := obj.attr name)
      (W := if !lenOk then none else wireInstr.elems wcall lens sc p.delimited p.trailing wst vs true [])
      hdyn hro'
      (fun m hm' => by rw [pn] at hm'; cases hm'; exact ⟨rfl, hm⟩) (fun hn => by rw [pn] at hn; cases hn)
      (fun hh => by rw [phard] at hh; cases hh) (fun _ r => hpres r)
    unfold specItem at this
    rw [popt, (isNone_false_iff _).2 hvn] at this
    rw [pdel] at this
    rw [wireInstr_array_tuple wcall lens obj lex wst name sc _ _ _ _ _ vs hv]
    refine Conf.mono ?_ hfin
    have hmapif : ∀ (c : Bool) (o : Option Bytes) (f : Bytes → WSt),
        Option.map f (if c then none else o) = if c then none else Option.map f o := by
      intro c o f; cases c <;> rfl
    rw [hmapif] at this
    cases hopt : optional with
    | true => rw [hopt] at this; simpa [Value.isNone] using this
    | false => rw [hopt] at this; simpa [Value.isNone] using this

end EoVerif.Gen.Conform
