import EoVerif.Lemmas.DeConformGen
set_option linter.unusedVariables false
/-! What one instruction (or body) delivers to the deserializer simulation, statically (C03b): the emitted
    statements and class members against the declarative instruction tree. -/
namespace EoVerif.Gen.DeConform
open EoVerif EoVerif.Gen EoVerif.Spec EoVerif.Gen.Conform EoVerif.Gen.WF

local syntax "wf_stage' " ident : tactic
local macro_rules
  | `(tactic| wf_stage' $h) =>
    `(tactic| first
      | exact $h:ident
      | cases $h:ident
      | (split at $h:ident <;> wf_stage' $h)
      | (replace $h:ident := except_bind_ok' $h:ident; wf_stage' $h))

/-- a hard-coded value is of a basic type, and an integer one is a decimal literal -/
theorem validateField_hard {tf : TypeEnv} {ctx : Ctx} {p : FP} {h : String} {t : Ty}
    (hv : validateField tf ctx p = .ok ()) (hh : p.hardcoded = some h) (ht : tf p.typeStr p.typeLen = .ok t) :
    t.isBasic = true ∧ (∀ k, t = .int k → PyStr.isdigit h = true) := by
  unfold validateField at hv
  extract_lets j11 j10 j9 j8 j7 j6 j5 j4 j3 j2 j1 j0 at hv
  have h0 : j0 () = .ok () := by wf_stage' hv
  have h1 : j1 () = .ok () := by simp only [j0] at h0; wf_stage' h0
  have h4 : j4 () = .ok () := by simp only [j1, j2, j3] at h1; wf_stage' h1
  have h7 : j7 () = .ok () := by simp only [j4, j5, j6] at h4; wf_stage' h4
  have h9 : j9 () = .ok () := by simp only [j7, j8] at h7; wf_stage' h7
  simp only [j9, hh] at h9
  obtain ⟨t', ht', h9⟩ := except_bind_ok h9
  rw [ht] at ht'
  cases ht'
  cases t with
  | int k =>
    refine ⟨rfl, fun k' _ => ?_⟩
    simp only [Ty.isBasic, Bool.not_true, Bool.false_eq_true, if_false] at h9
    by_cases hd : (!PyStr.isdigit h) = true
    · rw [if_pos hd] at h9
      simp only [throw_bind_ok] at h9
    · simpa using hd
  | bool u => exact ⟨rfl, fun k hk => by cases hk⟩
  | str e l => exact ⟨rfl, fun k hk => by cases hk⟩
  | blob =>
    simp only [Ty.isBasic, Bool.not_false, if_true, throw_bind_ok] at h9
  | enum a b c d =>
    simp only [Ty.isBasic, Bool.not_false, if_true, throw_bind_ok] at h9
  | struct a b c d =>
    simp only [Ty.isBasic, Bool.not_false, if_true, throw_bind_ok] at h9

/-! ### `DStepAll` -/

def DRecsOK (recs : List CaseRec) : Prop :=
  ∀ r ∈ recs, ClassRel r.lex r.b r.ir ∧ Covers recs r.lex r.b

theorem DRecsOK.nil : DRecsOK [] := fun _ h => by cases h

theorem DRecsOK.append {a b : List CaseRec} (ha : DRecsOK a) (hb : DRecsOK b) : DRecsOK (a ++ b) := by
  intro r hr
  rcases List.mem_append.1 hr with hr | hr
  · exact ⟨(ha r hr).1, (ha r hr).2.mono (fun _ h => List.mem_append_left _ h)⟩
  · exact ⟨(hb r hr).1, (hb r hr).2.mono (fun _ h => List.mem_append_right _ h)⟩

/-- what one instruction (or body) delivers, statically -/
def DStepAll (lex : Bool) (d d' : Data) (is : List TInstr) : Prop :=
  ∃ (ops : List DeOp) (I : List InitStmt) (recs : List CaseRec),
    d'.de = d.de ++ ops ∧ OpsL lex d.de.isEmpty is ops ∧
    d'.fields = d.fields ++ (declsL is).map fieldOfDecl ∧
    d'.params = d.params ++ (declsL is).filterMap paramOfDecl ∧
    d'.deArgs = d.deArgs ++ (declsL is).filterMap argOfDecl ∧
    d'.initBody = d.initBody ++ I ∧ InitOK (declsL is) I ∧
    d'.aux = d.aux ++ recs.map (·.ir) ∧ DRecsOK recs ∧ Covers recs lex is

theorem DStepAll.refl (lex : Bool) (d : Data) : DStepAll lex d d [] := by
  refine ⟨[], [], [], by simp, by rw [OpsL], by simp [declsL], by simp [declsL], by simp [declsL], by simp,
    by rw [declsL, InitOK], by simp, DRecsOK.nil, ?_⟩
  intro x hx; simp [directCases] at hx

theorem OpsL_append (lex : Bool) : ∀ (a b : List TInstr) (pre : Bool) (o1 o2 : List DeOp),
    OpsL lex pre a o1 → OpsL lex (pre && o1.isEmpty) b o2 → OpsL lex pre (a ++ b) (o1 ++ o2)
  | [], b, pre, o1, o2, h1, h2 => by
    rw [OpsL] at h1; subst h1
    simpa using h2
  | i :: a, b, pre, o1, o2, h1, h2 => by
    rw [OpsL] at h1
    obtain ⟨x1, x2, rfl, hi, hr⟩ := h1
    rw [List.cons_append, OpsL]
    refine ⟨x1, x2 ++ o2, by rw [List.append_assoc], hi, ?_⟩
    refine OpsL_append lex a b _ x2 o2 hr ?_
    rw [isEmpty_append, ← Bool.and_assoc] at h2
    exact h2

theorem DStepAll.trans {lex : Bool} {d0 d1 d2 : Data} {is1 is2 : List TInstr}
    (h1 : DStepAll lex d0 d1 is1) (h2 : DStepAll lex d1 d2 is2) : DStepAll lex d0 d2 (is1 ++ is2) := by
  obtain ⟨o1, I1, r1, e1, p1, f1, q1, a1, i1, k1, x1, ro1, cv1⟩ := h1
  obtain ⟨o2, I2, r2, e2, p2, f2, q2, a2, i2, k2, x2, ro2, cv2⟩ := h2
  refine ⟨o1 ++ o2, I1 ++ I2, r1 ++ r2, by rw [e2, e1, List.append_assoc], ?_, ?_, ?_, ?_, ?_, ?_, ?_,
    ro1.append ro2, ?_⟩
  · refine OpsL_append lex is1 is2 _ o1 o2 p1 ?_
    rw [e1, isEmpty_append] at p2
    exact p2
  · rw [f2, f1, declsL_append, List.map_append, List.append_assoc]
  · rw [q2, q1, declsL_append, List.filterMap_append, List.append_assoc]
  · rw [a2, a1, declsL_append, List.filterMap_append, List.append_assoc]
  · rw [i2, i1, List.append_assoc]
  · rw [declsL_append]; exact InitOK_append _ _ _ _ k1 k2
  · rw [x2, x1, List.map_append, List.append_assoc]
  · intro x hx hne
    rw [directCases_append, List.mem_append] at hx
    rcases hx with hx | hx
    · exact (cv1.mono (fun _ h => List.mem_append_left _ h)) x hx hne
    · exact (cv2.mono (fun _ h => List.mem_append_right _ h)) x hx hne

/-- a leaf instruction -/
def DLeaf (lex : Bool) (d d' : Data) (i : TInstr) : Prop :=
  ∃ (ops : List DeOp) (I : List InitStmt),
    d'.de = d.de ++ ops ∧ OpsI lex d.de.isEmpty i ops ∧
    d'.fields = d.fields ++ (declsI i).map fieldOfDecl ∧
    d'.params = d.params ++ (declsI i).filterMap paramOfDecl ∧
    d'.deArgs = d.deArgs ++ (declsI i).filterMap argOfDecl ∧
    d'.initBody = d.initBody ++ I ∧ InitOK (declsI i) I ∧ d'.aux = d.aux

theorem DStepAll.of_leaf {lex : Bool} {d d' : Data} {i : TInstr} (hnc : directCases lex [i] = [])
    (h : DLeaf lex d d' i) : DStepAll lex d d' [i] := by
  obtain ⟨ops, I, e1, p1, f1, q1, a1, i1, k1, x1⟩ := h
  have hd : declsL [i] = declsI i := by rw [declsL, declsL, List.append_nil]
  refine ⟨ops, I, [], e1, ?_, by rw [hd]; exact f1, by rw [hd]; exact q1, by rw [hd]; exact a1, i1,
    by rw [hd]; exact k1, by simpa using x1, DRecsOK.nil, ?_⟩
  · rw [OpsL]
    exact ⟨ops, [], by simp, p1, by rw [OpsL]⟩
  · intro x hx; rw [hnc] at hx; cases hx

/-! ### Types against scalars -/

theorem ioKind_rel {t : Ty} {lenStr : Option String} {padded : Bool} {sc : Scalar} {le : Option LenE}
    (hrel : TyRel t lenStr padded sc) (hle : le = (tlenOf lenStr).map lenES) :
    ioKind t le padded = ioKindS sc ∧ coerceOf t = coerceS sc := by
  cases t <;> simp only [TyRel] at hrel <;> subst hrel
  all_goals first
    | exact ⟨rfl, rfl⟩
    | (subst hle; exact ⟨rfl, rfl⟩)

theorem lenExpr_rel {ctx : Ctx} {lens : String → Option LenInfo} {p : FP} {le : Option LenE}
    (hsl : lenExpr ctx p = .ok le) (hlc : ∀ l, p.lenStr = some l → LenCase ctx lens l) :
    le = (tlenOf p.lenStr).map lenES := by
  unfold lenExpr at hsl
  cases hl : p.lenStr with
  | none => rw [hl] at hsl; cases hsl; rfl
  | some l =>
    rw [hl] at hsl
    rw [tlenOf_some]
    rcases hlc l hl with ⟨N, hd, hN, hf⟩ | ⟨hd, hN, k, off, hf, hli⟩
    · simp only [hd, if_true, hN, Option.getD_some] at hsl
      cases hsl
      simp [hN, lenES]
    · simp only [hd, Bool.false_eq_true, if_false, hf, Option.isSome_some, if_true] at hsl
      cases hsl
      simp [hN, lenES]

/-- the `self._len = len(...)` statement against the declaration -/
theorem lenInit_rel {ctx : Ctx} {lens : String → Option LenInfo} {p : FP} {n : String} {t : Ty}
    (hok : CtxOK ctx lens) (hfresh : (ctx.field? n).isSome = false)
    (hv : ∀ l, p.lenStr = some l → (!PyStr.isdigit l && (ctx.lenRef? l).isNone) = false) :
    lenInitG (ctx.setField ⟨n, t, p.offset, p.arrayField⟩) p n
      = (match tlenRef (tlenOf p.lenStr) with
         | some l => [.lenOf l n p.optional]
         | none => []) := by
  unfold lenInitG
  cases hl : p.lenStr with
  | none => rfl
  | some l =>
    simp only
    have hlr : (ctx.setField ⟨n, t, p.offset, p.arrayField⟩).lenRef? l = ctx.lenRef? l := by
      unfold Ctx.setField; split <;> rfl
    rw [hlr, tlenOf_some]
    rcases len_cases hok (hv l hl) with ⟨N, hd, hN, hf⟩ | ⟨hd, hN, k, off, hf, hli⟩
    · have hnone : ctx.lenRef? l = none := by
        cases hq : ctx.lenRef? l with
        | none => rfl
        | some b =>
          obtain ⟨k, off, hf', _⟩ := hok.2 l (by rw [hq]; rfl)
          rw [hf] at hf'; cases hf'
      simp [hnone, hN, tlenRef]
    · have hsome : (ctx.lenRef? l).isSome = true := by
        have := hv l hl
        rw [hd] at this
        cases hq : ctx.lenRef? l with
        | none => rw [hq] at this; simp at this
        | some b => rfl
      have hne : (n == l) = false := by
        cases hq : (n == l) with
        | false => rfl
        | true =>
          have : n = l := by simpa using hq
          subst this; rw [hf] at hfresh; cases hfresh
      have hfl : (ctx.setField ⟨n, t, p.offset, p.arrayField⟩).field? l = ctx.field? l := by
        rw [setField_fresh (fd := ⟨n, t, p.offset, p.arrayField⟩) hfresh]
        unfold Ctx.field?
        simp only
        rw [find_fst_append_single, hne]
        cases (List.find? (fun x => x.1 == l) ctx.accessible).map (·.2) <;> rfl
      rw [hfl, hf]
      simp [hsome, hN, tlenRef]

end EoVerif.Gen.DeConform
