import EoVerif.Lemmas.DeConformDefs
/-! Leaf reads of C03b: one emitted reader call (`doRead` + `coerceR`) against `readScalar`. -/
namespace EoVerif.Gen.DeConform
open EoVerif EoVerif.Gen EoVerif.Spec

def convV : Reader.Val → Value
  | .int n => .int n
  | .str t => .str t
  | .bytes b => .bytes b
  | .none => .none

/-- one reader operation of the generated code -/
def opRead (st : DeSt) (op : Reader.Op) : Res DeSt Value :=
  match st.r.step op with
  | (r', .error e) => ({ st with r := r' }, .error e)
  | (r', .ok v) => ({ st with r := r' }, .ok (convV v))

def intRd : IntKind → Reader.Op
  | .byte => .getByte
  | .char => .getChar
  | .short => .getShort
  | .three => .getThree
  | .int => .getInt

/-- close `conv (rstep st op) = opRead st op` -/
local syntax "conv_tac" : tactic
local macro_rules
  | `(tactic| conv_tac) =>
    `(tactic| (unfold rstep opRead
               generalize Reader.step _ _ = x
               obtain ⟨r', o⟩ := x
               cases o with
               | error e => rfl
               | ok v => cases v <;> rfl))

theorem doRead_int (call : DeCall) (st : DeSt) (k : IntKind) :
    doRead call st (.int k) = opRead st (intRd k) := by
  cases k <;> (unfold doRead intRd; dsimp only; conv_tac)

theorem doRead_str_none (call : DeCall) (st : DeSt) (enc p : Bool) :
    doRead call st (.str enc none p) = opRead st (if enc then .getEncodedString else .getString) := by
  unfold doRead; dsimp only; conv_tac

theorem doRead_str_some (call : DeCall) (st : DeSt) (enc p : Bool) (le : LenE) (n : Int)
    (h : lenArgD st le = .ok n) :
    doRead call st (.str enc (some le) p)
      = opRead st (if enc then .getFixedEncodedString n p else .getFixedString n p) := by
  unfold doRead
  dsimp only
  rw [h]
  dsimp only
  conv_tac

theorem doRead_blob (call : DeCall) (st : DeSt) :
    doRead call st .blob = opRead st (.getBytes st.r.remaining.toNat) := by
  unfold doRead; dsimp only; conv_tac

theorem doRead_struct (call : DeCall) (st : DeSt) (n : String) :
    doRead call st (.struct n) = ({ st with r := (call n st.r).1 }, (call n st.r).2) := by
  unfold doRead; rfl

/-- what a successful read leaves behind -/
def Kept (st st' : DeSt) : Prop :=
  st'.r.chunked = st.r.chunked ∧ st'.env = st.env ∧ st'.startPos = st.startPos

theorem opRead_ok {st : DeSt} {a a' : AReader} {op : Reader.Op} {v : Reader.Val} (hr : RRel st.r a)
    (hs : a.step op = (a', .ok v)) (hop : ∀ b, op ≠ .setChunked b) :
    ∃ st', opRead st op = (st', .ok (convV v)) ∧ RRel st'.r a' ∧ Kept st st' := by
  obtain ⟨h1, h2⟩ := hr.step op
  rw [hs] at h1 h2
  have hc := step_chunked st.r op hop
  unfold opRead
  generalize st.r.step op = x at h1 h2 hc
  obtain ⟨r', o⟩ := x
  simp only at h1 h2 hc
  subst h1
  exact ⟨_, rfl, h2, hc, rfl, rfl⟩

theorem opRead_err {st : DeSt} {a a' : AReader} {op : Reader.Op} {e : PyErr} (hr : RRel st.r a)
    (hs : a.step op = (a', .error e)) :
    ∃ st', opRead st op = (st', .error e) := by
  obtain ⟨h1, _⟩ := hr.step op
  rw [hs] at h1
  unfold opRead
  generalize st.r.step op = x at h1
  obtain ⟨r', o⟩ := x
  simp only at h1
  subst h1
  exact ⟨_, rfl⟩

theorem areadInt_step (a : AReader) (k : IntKind) :
    a.step (intRd k) = ((areadInt a k).1, .ok (.int (areadInt a k).2)) := by
  cases k <;> rfl

theorem intRd_ne (k : IntKind) (b : Bool) : intRd k ≠ .setChunked b := by
  cases k <;> simp [intRd]

/-- the value a scalar read yields -/
def ScalarVal : Scalar → Value → Prop
  | .int _, v => ∃ n, v = .int n
  | .bool _, v => ∃ b, v = .bool b
  | .enum _, v => ∃ n, v = .int n
  | .str _ _ _, v => ∃ x, v = .str x
  | .blob, v => ∃ b, v = .bytes b
  | .struct _, v => ∃ c fs z, v = .obj c fs z

theorem ScalarVal.ne_missing {sc : Scalar} {v : Value} (h : ScalarVal sc v) : v ≠ .missing := by
  cases sc <;> simp only [ScalarVal] at h
  all_goals first
    | (obtain ⟨c, fs, z, rfl⟩ := h; simp)
    | (obtain ⟨x, rfl⟩ := h; simp)

/-- the read of a value: the reader call, then the coercion -/
def readVal (call : DeCall) (st : DeSt) (kind : IOKind) (c : Coerce) (off : Int) : Res DeSt Value :=
  bindD (doRead call st kind) (fun s raw =>
    match coerceR c off raw with
    | .error e => (s, .error e)
    | .ok v => (s, .ok v))

/-- where the value goes -/
def store (tg : Target) (s : DeSt) (v : Value) : Res DeSt Unit :=
  match tg with
  | .discard => (s, .ok ())
  | .var n => (s.set n v, .ok ())
  | .append n =>
    (match s.get n with
     | some (.tuple vs) => (s.set n (.tuple (vs ++ [v])), .ok ())
     | some _ => (s, .error .AttributeError)
     | none => (s, .error .UnboundLocalError))

theorem exec_read (call : DeCall) (tg : Target) (kind : IOKind) (c : Coerce) (off : Int) (st : DeSt) :
    execDeOp call (.read tg kind c off) st = bindD (readVal call st kind c off) (store tg) := by
  rw [execDeOp]
  unfold readVal
  generalize doRead call st kind = x
  obtain ⟨s, o⟩ := x
  cases o with
  | error e => rfl
  | ok raw =>
    simp only [bindD_ok]
    cases coerceR c off raw with
    | error e => rfl
    | ok v => cases tg <;> rfl

/-- the callback deserializes struct `n` as the declarative reading prescribes -/
def CallPost (r : Reader) : Reader → Value → AReader × Value → Prop :=
  fun r' v p => v = p.2 ∧ RRel r' p.1 ∧ r'.chunked = r.chunked ∧ ∃ c fs z, v = .obj c fs z

def CallAt (call : DeCall) (rcall : RCall) (n : String) : Prop :=
  ∀ r a, RRel r a → ConfD (call n r) (rcall n a) (CallPost r)

def ReadPost (st : DeSt) (sc : Scalar) : DeSt → Value → AReader × Value → Prop :=
  fun st' v p => v = p.2 ∧ RRel st'.r p.1 ∧ Kept st st' ∧ ScalarVal sc v

theorem readVal_int {call : DeCall} {st : DeSt} {a : AReader} (hr : RRel st.r a) (k : IntKind) (c : Coerce)
    (off : Int) :
    ∃ st', readVal call st (.int k) c off = (st', .ok (match c with
        | .none => .int ((areadInt a k).2 + off)
        | .bool => .bool ((areadInt a k).2 + off != 0)
        | .enum => .int ((areadInt a k).2 + off))) ∧ RRel st'.r (areadInt a k).1 ∧ Kept st st' := by
  obtain ⟨st', h1, h2, h3⟩ := opRead_ok hr (areadInt_step a k) (intRd_ne k)
  refine ⟨st', ?_, h2, h3⟩
  unfold readVal
  rw [doRead_int, h1]
  cases c <;> rfl

set_option maxHeartbeats 400000 in
theorem readVal_conf {call : DeCall} {rcall : RCall} {st : DeSt} {s : RSt} {sc : Scalar}
    (hr : RRel st.r s.r)
    (hcall : ∀ n, sc = .struct n → CallAt call rcall n)
    (hlen : ∀ e f p, sc = .str e (some (.byField f)) p → ∃ k, st.get f = some (.int k) ∧ s.get f = .int k)
    (hpad : ∀ e, sc ≠ .str e none true) :
    ConfD (readVal call st (ioKindS sc) (coerceS sc) 0) (readScalar rcall s sc) (ReadPost st sc) := by
  cases sc with
  | int k =>
    obtain ⟨st', h1, h2, h3⟩ := readVal_int (call := call) hr k .none 0
    simp only [ioKindS, coerceS, readScalar]
    rw [h1]
    simp only [ConfD_ok_ok, ReadPost]
    exact ⟨by simp, h2, h3, ⟨_, rfl⟩⟩
  | bool k =>
    obtain ⟨st', h1, h2, h3⟩ := readVal_int (call := call) hr k .bool 0
    simp only [ioKindS, coerceS, readScalar]
    rw [h1]
    simp only [ConfD_ok_ok, ReadPost]
    exact ⟨by simp, h2, h3, ⟨_, rfl⟩⟩
  | enum k =>
    obtain ⟨st', h1, h2, h3⟩ := readVal_int (call := call) hr k .enum 0
    simp only [ioKindS, coerceS, readScalar]
    rw [h1]
    simp only [ConfD_ok_ok, ReadPost]
    exact ⟨by simp, h2, h3, ⟨_, rfl⟩⟩
  | blob =>
    have hrem : st.r.remaining.toNat = s.r.remaining := by rw [hr.remaining]; simp
    have hs : s.r.step (.getBytes s.r.remaining) = ((s.r.read s.r.remaining).1, .ok (.bytes (s.r.read s.r.remaining).2)) := rfl
    obtain ⟨st', h1, h2, h3⟩ := opRead_ok hr hs (by simp)
    simp only [ioKindS, coerceS, readScalar]
    unfold readVal
    rw [doRead_blob, hrem, h1]
    simp only [bindD_ok, convV]
    exact (ConfD_ok_ok _ _ _ _).2 ⟨rfl, h2, h3, ⟨_, rfl⟩⟩
  | struct n =>
    have hc := hcall n rfl st.r s.r hr
    simp only [ioKindS, coerceS, readScalar]
    unfold readVal
    rw [doRead_struct]
    generalize call n st.r = x at hc
    obtain ⟨r', o⟩ := x
    cases hy : rcall n s.r with
    | error e' =>
      rw [hy] at hc
      cases o with
      | error e => simpa using hc
      | ok v => exact hc.elim
    | ok p =>
      rw [hy] at hc
      cases o with
      | error e => exact hc.elim
      | ok v =>
        simp only [ConfD_ok_ok, CallPost] at hc
        obtain ⟨hv, hrr, hch, c, fs, z, hobj⟩ := hc
        subst hobj
        simp only [bindD_ok]
        show ConfD (_, .ok _) _ _
        simp only [ConfD_ok_ok, ReadPost]
        exact ⟨hv, hrr, ⟨hch, rfl, rfl⟩, ⟨c, fs, z, rfl⟩⟩
  | str enc len p =>
    simp only [ioKindS, coerceS]
    unfold readVal
    cases len with
    | none =>
      have hp : p = false := by
        cases p with
        | false => rfl
        | true => exact absurd rfl (hpad enc)
      subst hp
      simp only [Option.map_none, readScalar]
      rw [doRead_str_none]
      cases enc with
      | false =>
        have hs : s.r.step .getString = ((s.r.read s.r.remaining).1,
            .ok (.str (Ansi.decode (s.r.read s.r.remaining).2))) := rfl
        obtain ⟨st', h1, h2, h3⟩ := opRead_ok hr hs (by simp)
        simp only [Bool.false_eq_true, if_false]
        rw [h1]
        simp only [bindD_ok, convV]
        exact (ConfD_ok_ok _ _ _ _).2 ⟨rfl, h2, h3, ⟨_, rfl⟩⟩
      | true =>
        have hs : s.r.step .getEncodedString = ((s.r.read s.r.remaining).1,
            .ok (.str (Ansi.decode (Str.decode (s.r.read s.r.remaining).2)))) := rfl
        obtain ⟨st', h1, h2, h3⟩ := opRead_ok hr hs (by simp)
        simp only [if_true]
        rw [h1]
        simp only [bindD_ok, convV]
        exact (ConfD_ok_ok _ _ _ _).2 ⟨rfl, h2, h3, ⟨_, rfl⟩⟩
    | some tl =>
      -- the length argument on both sides
      have hlenArg : ∃ n : Int, lenArgD st (lenES tl) = .ok n ∧
          readScalar rcall s (.str enc (some tl) p) =
            (if n < 0 then .error .negativeLength else
              .ok ((s.r.read n.toNat).1, .str (Ansi.decode
                (if p then Reader.removePadding (if enc then Str.decode (s.r.read n.toNat).2 else (s.r.read n.toNat).2)
                 else (if enc then Str.decode (s.r.read n.toNat).2 else (s.r.read n.toNat).2))))) := by
        cases tl with
        | lit n => exact ⟨n, rfl, by simp only [readScalar]⟩
        | byField f =>
          obtain ⟨k, hk1, hk2⟩ := hlen enc f p rfl
          refine ⟨k, by simp [lenES, lenArgD, hk1], ?_⟩
          simp only [readScalar, hk2]
      obtain ⟨n, hn1, hn2⟩ := hlenArg
      rw [hn2]
      simp only [Option.map_some]
      rw [doRead_str_some call st enc p _ n hn1]
      by_cases hneg : n < 0
      · rw [if_pos hneg]
        have hs : s.r.step (if enc then .getFixedEncodedString n p else .getFixedString n p)
            = (s.r, .error .ValueError) := by
          cases enc <;> simp [AReader.step, hneg]
        obtain ⟨st', h1⟩ := opRead_err hr hs
        rw [h1]
        simp only [bindD_err, ConfD_err_err]
        exact Or.inl ⟨rfl, rfl⟩
      · rw [if_neg hneg]
        have hs : s.r.step (if enc then .getFixedEncodedString n p else .getFixedString n p)
            = ((s.r.read n.toNat).1, .ok (.str (Ansi.decode
                (if p then Reader.removePadding (if enc then Str.decode (s.r.read n.toNat).2 else (s.r.read n.toNat).2)
                 else (if enc then Str.decode (s.r.read n.toNat).2 else (s.r.read n.toNat).2))))) := by
          cases enc <;> simp [AReader.step, hneg]
        obtain ⟨st', h1, h2, h3⟩ := opRead_ok hr hs (by cases enc <;> simp)
        rw [h1]
        simp only [bindD_ok, convV]
        exact (ConfD_ok_ok _ _ _ _).2 ⟨rfl, h2, h3, ⟨_, rfl⟩⟩

end EoVerif.Gen.DeConform
