import EoVerif.Lemmas.DeConformInstr
set_option linter.unusedVariables false
/-! The body-level simulation of C03b: every instruction, `<switch>`, and the mutual induction over the
    declarative instruction tree. -/
namespace EoVerif.Gen.DeConform
open EoVerif EoVerif.Gen EoVerif.Spec EoVerif.Gen.Conform

theorem DynD.cast_emp {B Ds lexm st s} {e : Bool} (h : DynD B Ds false lexm st s) (he : e = false) :
    DynD B Ds e lexm st s := by subst he; exact h

theorem DynD.cast {B B' Ds Ds' lexm st s} {e e' : Bool} (h : DynD B Ds e lexm st s) (hB : B = B') (hD : Ds = Ds')
    (he : e = e') : DynD B' Ds' e' lexm st s := by subst hB; subst hD; subst he; exact h

theorem not_mem_of_nodup_append {B : List String} {n : String} {L : List String} (h : (B ++ L).Nodup) (hn : n ∈ L) :
    n ∉ B := by
  intro hx
  rw [List.nodup_append] at h
  exact h.2.2 n hx n hn rfl

/-! ### Leaf instructions -/

theorem field_sim {call : DeCall} {rcall : RCall} {B Ds emp lexm st s} (h : DynD B Ds emp lexm st s)
    {n : String} {ty : Scalar} {opt pre : Bool} {ops : List DeOp}
    (hops : OpsI lexm pre (.field n ty opt) ops) (hnd : (B ++ [n]).Nodup)
    (hok : scalarOK Ds ty = true) (hcall : ∀ x ∈ scalarRefs ty, CallAt call rcall x) :
    ConfD (execDeOps call ops st) (readInstr rcall lexm (.field n ty opt) s)
      (fun st' _ s' => DynD (B ++ [n]) (Ds ++ [⟨n, .param, opt, scalarLen ty⟩]) false lexm st' s') := by
  rw [OpsI] at hops
  subst hops
  have hnB : n ∉ B := not_mem_of_nodup_append hnd (List.mem_singleton.2 rfl)
  simp only [readInstr]
  refine item_sim h.r ?_ ?_
  · intro hopt
    refine h.extend (s0 := s) (vm := .none) hnB (fun x hx => List.mem_append_left _ hx)
      (List.mem_append_right _ (List.mem_singleton.2 rfl)) rfl ?_ (set_startPos _ _ _) rfl rfl rfl ?_ ?_
      (get_set_self _ _ _) (by simp) ?_ (fun _ => rfl)
    · rw [DeSt.set_r]; exact h.r
    · intro hl; rw [DeSt.set_r]; exact h.mode hl
    · intro m hm; exact get_set_ne _ _ _ _ (fun he => hnB (by rw [he]; exact hm))
    · unfold ValOK; exact ⟨by simp, fun _ => Or.inr ⟨rfl, hopt⟩⟩
  · intro st1 hag
    refine named_present h hag hnB hok hcall rfl (fun v => v) ?_ (fun _ _ => rfl)
    intro v hv
    unfold ValOK
    refine ⟨hv.ne_missing, ?_⟩
    intro hl
    cases ty with
    | str e len p => exact Or.inl hv
    | _ => simp [scalarLen] at hl

theorem namedConst_sim {call : DeCall} {rcall : RCall} {B Ds emp lexm st s} (h : DynD B Ds emp lexm st s)
    {n : String} {ty : Scalar} {c : ConstV} {opt pre : Bool} {ops : List DeOp}
    (hops : OpsI lexm pre (.namedConst n ty c opt) ops) (hnd : (B ++ [n]).Nodup)
    (hok : scalarOK Ds ty = true) (hcs : constStrOK ty c = true)
    (hcall : ∀ x ∈ scalarRefs ty, CallAt call rcall x) :
    ConfD (execDeOps call ops st) (readInstr rcall lexm (.namedConst n ty c opt) s)
      (fun st' _ s' => DynD (B ++ [n]) (Ds ++ [⟨n, .const c, opt, scalarLen ty⟩]) false lexm st' s') := by
  rw [OpsI] at hops
  subst hops
  have hnB : n ∉ B := not_mem_of_nodup_append hnd (List.mem_singleton.2 rfl)
  have hvalc : ValOK ⟨n, .const c, opt, scalarLen ty⟩ (constValue c) := by
    unfold ValOK
    refine ⟨rfl, ?_⟩
    intro hl
    cases ty with
    | str e len p =>
      cases c with
      | str x => exact ⟨_, rfl⟩
      | int _ => simp [constStrOK] at hcs
      | bool _ => simp [constStrOK] at hcs
    | _ => simp [scalarLen] at hl
  simp only [readInstr]
  refine item_sim h.r ?_ ?_
  · intro hopt
    refine h.extend (s0 := s) (vm := .none) hnB (fun x hx => List.mem_append_left _ hx)
      (List.mem_append_right _ (List.mem_singleton.2 rfl)) rfl ?_ (set_startPos _ _ _) rfl rfl rfl ?_ ?_
      (get_set_self _ _ _) (by simp) hvalc (fun hv => by cases hv)
    · rw [DeSt.set_r]; exact h.r
    · intro hl; rw [DeSt.set_r]; exact h.mode hl
    · intro m hm; exact get_set_ne _ _ _ _ (fun he => hnB (by rw [he]; exact hm))
  · intro st1 hag
    have := named_present (call := call) (rcall := rcall) h hag hnB hok hcall
      (d := ⟨n, .const c, opt, scalarLen ty⟩) rfl (fun _ => constValue c) (fun _ _ => hvalc) (fun hv => by cases hv)
    have heq : (readScalar rcall s ty).map
          (fun (p : AReader × Value) => (({ s with r := p.1 } : RSt).bind n (constValue c)))
        = (match readScalar rcall s ty with
           | .error e => .error e
           | .ok (r, v) => .ok (({ s with r := r } : RSt).bind n ((fun _ => constValue c) v))) := by
      cases readScalar rcall s ty <;> rfl
    exact heq ▸ this

theorem length_sim {call : DeCall} {rcall : RCall} {B Ds emp lexm st s} (h : DynD B Ds emp lexm st s)
    {n : String} {k : IntKind} {off : Int} {opt pre : Bool} {ref : String} {ops : List DeOp}
    (hops : OpsI lexm pre (.length n k off opt ref) ops) (hnd : (B ++ [n]).Nodup) (hopt : opt = false) :
    ConfD (execDeOps call ops st) (readInstr rcall lexm (.length n k off opt ref) s)
      (fun st' _ s' => DynD (B ++ [n]) (Ds ++ [⟨n, .len, opt, none⟩]) false lexm st' s') := by
  rw [OpsI] at hops
  subst hops
  subst hopt
  have hnB : n ∉ B := not_mem_of_nodup_append hnd (List.mem_singleton.2 rfl)
  simp only [readInstr, wrapOpt, Bool.false_and, Bool.false_eq_true, if_false]
  rw [execDeOps_single, exec_read]
  obtain ⟨st', h1, h2, h3⟩ := readVal_int (call := call) h.r k .none off
  rw [h1]
  simp only [bindD_ok, store, ConfD_ok_ok]
  refine h.extend (s0 := { s with r := (areadInt s.r k).1 }) (vm := .int ((areadInt s.r k).2 + off)) hnB
    (fun x hx => List.mem_append_left _ hx) (List.mem_append_right _ (List.mem_singleton.2 rfl)) rfl ?_ ?_ rfl rfl rfl
    ?_ ?_ (get_set_self _ _ _) (by simp) ?_ (fun _ => rfl)
  · rw [DeSt.set_r]; exact h2
  · rw [set_startPos]; exact h3.2.2
  · intro hl; rw [DeSt.set_r, h3.1]; exact h.mode hl
  · intro m hm
    rw [get_set_ne _ _ _ _ (fun he => hnB (by rw [he]; exact hm))]
    exact kept_get h3 m
  · unfold ValOK; exact ⟨_, rfl⟩

theorem const_sim {call : DeCall} {rcall : RCall} {B Ds emp lexm st s} (h : DynD B Ds emp lexm st s)
    {ty : Scalar} {c : ConstV} {pre : Bool} {ops : List DeOp}
    (hops : OpsI lexm pre (.const ty c) ops)
    (hok : scalarOK Ds ty = true) (hcall : ∀ x ∈ scalarRefs ty, CallAt call rcall x) :
    ConfD (execDeOps call ops st) (readInstr rcall lexm (.const ty c) s)
      (fun st' _ s' => DynD B Ds false lexm st' s') := by
  rw [OpsI] at hops
  subst hops
  simp only [readInstr]
  exact unnamed_sim h hok hcall

theorem exec_dummyGuard (call : DeCall) (body : List DeOp) (st : DeSt) :
    execDeOp call (.dummyGuard body) st
      = if st.r.pos == st.startPos then execDeOps call body st else (st, .ok ()) := by
  rw [execDeOp]

theorem dummy_sim {call : DeCall} {rcall : RCall} {B Ds emp lexm st s} (h : DynD B Ds emp lexm st s)
    {ty : Scalar} {c : ConstV} {ops : List DeOp}
    (hops : OpsI lexm emp (.dummy ty c) ops)
    (hok : scalarOK Ds ty = true) (hcall : ∀ x ∈ scalarRefs ty, CallAt call rcall x) :
    ConfD (execDeOps call ops st) (readInstr rcall lexm (.dummy ty c) s)
      (fun st' _ s' => DynD B Ds false lexm st' s') := by
  rw [OpsI] at hops
  simp only [readInstr]
  have hpos : (st.r.pos == st.startPos) = (s.r.pos == s.start) := by rw [h.r.pos, h.start]
  rcases hops with rfl | ⟨hpre, rfl⟩
  · rw [execDeOps_single, exec_dummyGuard, hpos]
    by_cases hc : (s.r.pos == s.start) = true
    · rw [if_pos hc, if_pos hc]
      exact unnamed_sim h hok hcall
    · rw [if_neg hc, if_neg hc]
      exact h.noemp
  · have hc : (s.r.pos == s.start) = true := by
      rw [← hpos, h.emp hpre]; simp
    rw [if_pos hc]
    exact unnamed_sim h hok hcall

theorem exec_nextChunk (call : DeCall) (st : DeSt) :
    execDeOp call .nextChunk st = ((rstep st .nextChunk).1, (rstep st .nextChunk).2.map (fun _ => ())) := by
  rw [execDeOp]

theorem exec_setChunked (call : DeCall) (b : Bool) (st : DeSt) :
    execDeOp call (.setChunked b) st = ((rstep st (.setChunked b)).1, (rstep st (.setChunked b)).2.map (fun _ => ())) := by
  rw [execDeOp]

theorem brk_sim {call : DeCall} {rcall : RCall} {B Ds emp lexm st s} (h : DynD B Ds emp lexm st s)
    {pre : Bool} {ops : List DeOp} (hops : OpsI lexm pre .brk ops) :
    ConfD (execDeOps call ops st) (readInstr rcall lexm .brk s)
      (fun st' _ s' => DynD B Ds false lexm st' s') := by
  rw [OpsI] at hops
  obtain ⟨hlex, rfl⟩ := hops
  simp only [readInstr]
  rw [execDeOps_single, exec_nextChunk]
  obtain ⟨st', h1, h2, h3⟩ := rstep_nextChunk h.r (h.mode hlex)
  rw [h1]
  simp only [ConfD_ok_ok]
  exact h.reader h3.2.1 h3.2.2 h2 (fun _ => by rw [h3.1]; exact h.mode hlex)

theorem rstep_setChunked {st : DeSt} {a : AReader} (hr : RRel st.r a) (b : Bool) :
    ∃ st', (((rstep st (.setChunked b)).1, (rstep st (.setChunked b)).2.map (fun _ => ())) : Res DeSt Unit)
        = (st', .ok ()) ∧
      RRel st'.r { a with chunked := b } ∧ st'.r.chunked = b ∧ st'.env = st.env ∧ st'.startPos = st.startPos := by
  have hs : a.step (.setChunked b) = ({ a with chunked := b }, .ok .none) := rfl
  obtain ⟨h1, h2⟩ := hr.step (.setChunked b)
  rw [hs] at h1 h2
  have hch := step_setChunked_chunked st.r b
  unfold rstep
  generalize st.r.step (.setChunked b) = x at h1 h2 hch
  obtain ⟨r', o⟩ := x
  simp only at h1 h2 hch
  subst h1
  exact ⟨_, rfl, h2, hch, rfl, rfl⟩

/-! ### `<switch>` -/

/-- the callback deserializes the case class `cls` as reading the case body `b` prescribes -/
def classRead (rcall : RCall) (lex : Bool) (cls : String) (b : List TInstr) (a : AReader) :
    Except RErr (AReader × Value) :=
  match readInstrs rcall lex b { r := a, start := a.pos } with
  | .error e => .error e
  | .ok cs => .ok ((cs.r.step (.setChunked a.chunked)).1, finishObj cls b cs.attrs ((cs.r.pos : Int) - a.pos))

def CaseAt (call : DeCall) (rcall : RCall) (lex : Bool) (cls : String) (b : List TInstr) : Prop :=
  ∀ r a, RRel r a → (lex = true → r.chunked = true) → ConfD (call cls r) (classRead rcall lex cls b a) (CallPost r)

def execSelD (call : DeCall) (st : DeSt) : Option DeCase → Res DeSt Unit
  | none => (st, .ok ())
  | some c =>
    match c.body with
    | .setNone dv => (st.set dv .none, .ok ())
    | .callCls dv cls =>
      match (call cls st.r).2 with
      | .error e => ({ st with r := (call cls st.r).1 }, .error e)
      | .ok v => (({ st with r := (call cls st.r).1 } : DeSt).set dv v, .ok ())

theorem exec_switchD (call : DeCall) (f : String) (cases : List DeCase) (st : DeSt) (fv : Value)
    (h : st.get f = some fv) :
    execDeOp call (.switch f cases) st = execSelD call st (cases.find? (fun c => selP fv c.cond)) := by
  rw [execDeOp]
  simp only [h]
  generalize hg : List.find? _ cases = sel
  have hg' : List.find? (fun c => selP fv c.cond) cases = sel := hg
  rw [hg']
  cases sel with
  | none => rfl
  | some c =>
    unfold execSelD
    cases c.body with
    | setNone dv => rfl
    | callCls dv cls =>
      simp only
      generalize call cls st.r = x
      obtain ⟨r', o⟩ := x
      cases o <;> rfl

theorem readCases_nil (rcall : RCall) (lex : Bool) (fv : Value) (dn : String) (s : RSt) :
    readCases rcall lex fv dn [] s = .ok s := by simp only [readCases]

theorem readCases_cons' (rcall : RCall) (lex : Bool) (fv : Value) (dn : String) (cond : Option Int) (cls : String)
    (body : List TInstr) (rest : List TCase) (s : RSt) :
    readCases rcall lex fv dn (.mk cond cls body :: rest) s =
      if (!selP fv cond) = true then readCases rcall lex fv dn rest s
      else if body.isEmpty = true then .ok (s.bind dn .none)
      else (match classRead rcall lex cls body s.r with
        | .error e => .error e
        | .ok p => .ok (({ s with r := p.1 } : RSt).bind dn p.2)) := by
  simp only [readCases]
  show (if (!selP fv cond) = true then readCases rcall lex fv dn rest s
    else if body.isEmpty = true then Except.ok (s.bind dn Value.none) else _) = _
  split
  · rfl
  · split
    · rfl
    · unfold classRead
      cases readInstrs rcall lex body { r := s.r, start := s.r.pos } <;> rfl

theorem bind_bind (s : RSt) (n : String) (v w : Value) (a : AReader) (h : n ∉ s.attrs.map (·.1)) :
    ({ (s.bind n w) with r := a } : RSt).bind n v = ({ s with r := a } : RSt).bind n v := by
  have hany : s.attrs.any (·.1 == n) = false := by
    cases hq : s.attrs.any (·.1 == n) with
    | false => rfl
    | true =>
      rw [List.any_eq_true] at hq
      obtain ⟨p, hp, hpn⟩ := hq
      exact absurd (List.mem_map.2 ⟨p, hp, by simpa using hpn⟩) h
  have hupd : ∀ (L : List (String × Value)), n ∉ L.map (·.1) →
      L.map (fun p => if (p.1 == n) = true then (n, v) else p) = L := by
    intro L hL
    induction L with
    | nil => rfl
    | cons y ys ih =>
      simp only [List.map_cons, List.mem_cons, not_or] at hL
      rw [List.map_cons, ih hL.2]
      have : (y.1 == n) = false := by
        cases h' : (y.1 == n) with
        | false => rfl
        | true => exact absurd (by simpa using h') (Ne.symm hL.1)
      simp [this]
  unfold RSt.bind
  simp only [hany, Bool.false_eq_true, if_false, List.any_append, List.any_cons, beq_self_eq_true, Bool.true_or,
    Bool.or_true, if_true, List.filter_append, List.filter_filter, List.map_append, hupd s.attrs h]
  simp

set_option maxHeartbeats 800000 in
theorem cases_sim {call : DeCall} {rcall : RCall} {B Ds emp lexm st s} (h : DynD B Ds emp lexm st s)
    {fd : String} {fv : Value} (hfd : fd ∉ B) :
    ∀ (cs : List TCase), (∀ cond cls b, TCase.mk cond cls b ∈ cs → b ≠ [] → CaseAt call rcall lexm cls b) →
    ConfD (execSelD call (st.set fd .none) ((cs.map (caseDe fd)).find? (fun c => selP fv c.cond)))
      (readCases rcall lexm fv fd cs (s.bind fd .none))
      (fun st' _ s' => DynD (B ++ [fd]) (Ds ++ [⟨fd, .data, true, none⟩]) false lexm st' s')
  | [], _ => by
    rw [List.map_nil, List.find?_nil, readCases_nil]
    simp only [execSelD, ConfD_ok_ok]
    refine h.extend (s0 := s) (vm := .none) hfd (fun x hx => List.mem_append_left _ hx)
      (List.mem_append_right _ (List.mem_singleton.2 rfl)) rfl ?_ (set_startPos _ _ _) rfl rfl rfl ?_ ?_
      (get_set_self _ _ _) (by simp) (by unfold ValOK; simp) (fun _ => rfl)
    · rw [DeSt.set_r]; exact h.r
    · intro hl; rw [DeSt.set_r]; exact h.mode hl
    · intro m hm; exact get_set_ne _ _ _ _ (fun he => hfd (by rw [he]; exact hm))
  | .mk cond cls b :: rest, hcases => by
    rw [List.map_cons, List.find?_cons, readCases_cons']
    have hfdattr : fd ∉ s.attrs.map (·.1) := fun hx => hfd (h.attr_names_sub fd hx)
    cases hhit : selP fv cond with
    | false =>
      have : selP fv (caseDe fd (.mk cond cls b)).cond = false := hhit
      simp only [this, Bool.not_false, if_true]
      exact cases_sim h hfd rest (fun c' cls' b' hm => hcases c' cls' b' (List.mem_cons_of_mem _ hm))
    | true =>
      have : selP fv (caseDe fd (.mk cond cls b)).cond = true := hhit
      simp only [this, Bool.not_true, Bool.false_eq_true, if_false]
      cases hbe : b.isEmpty with
      | true =>
        simp only [if_true, execSelD, caseDe, hbe, ConfD_ok_ok]
        have hb := bind_bind s fd .none .none s.r hfdattr
        have hb' : (s.bind fd .none).bind fd .none = s.bind fd .none := hb
        rw [hb']
        refine h.extend (s0 := s) (vm := .none) hfd (fun x hx => List.mem_append_left _ hx)
          (List.mem_append_right _ (List.mem_singleton.2 rfl)) rfl ?_ ?_ rfl rfl rfl ?_ ?_
          (get_set_self _ _ _) (by simp) (by unfold ValOK; simp) (fun _ => rfl)
        · rw [DeSt.set_r, DeSt.set_r]; exact h.r
        · rw [set_startPos, set_startPos]
        · intro hl; rw [DeSt.set_r, DeSt.set_r]; exact h.mode hl
        · intro m hm
          have hne : fd ≠ m := fun he => hfd (by rw [he]; exact hm)
          rw [get_set_ne _ _ _ _ hne, get_set_ne _ _ _ _ hne]
      | false =>
        have hbne : b ≠ [] := by intro hh; subst hh; cases hbe
        simp only [Bool.false_eq_true, if_false, execSelD, caseDe, hbe]
        have hca := hcases cond cls b (List.mem_cons_self ..) hbne (st.set fd .none).r s.r
          (by rw [DeSt.set_r]; exact h.r) (fun hl => by rw [DeSt.set_r]; exact h.mode hl)
        have hsr : (s.bind fd .none).r = s.r := rfl
        rw [hsr]
        generalize call cls (st.set fd .none).r = x at hca
        obtain ⟨r', o⟩ := x
        cases hy : classRead rcall lexm cls b s.r with
        | error e' =>
          rw [hy] at hca
          cases o with
          | error e => simpa using hca
          | ok v => exact hca.elim
        | ok p =>
          rw [hy] at hca
          cases o with
          | error e => exact hca.elim
          | ok v =>
            obtain ⟨a', v'⟩ := p
            simp only [ConfD_ok_ok, CallPost] at hca
            obtain ⟨hv, hrr, hch, c, fs, z, hobj⟩ := hca
            have hv' : v = v' := hv
            subst hv'
            simp only [ConfD_ok_ok]
            rw [bind_bind s fd v .none a' hfdattr]
            refine h.extend (s0 := { s with r := a' }) (vm := v) hfd (fun x hx => List.mem_append_left _ hx)
              (List.mem_append_right _ (List.mem_singleton.2 rfl)) rfl ?_ ?_ rfl rfl rfl ?_ ?_
              (get_set_self _ _ _) (by rw [hobj]; simp) (by unfold ValOK; rw [hobj]; simp) (fun _ => rfl)
            · rw [DeSt.set_r]; exact hrr
            · rw [set_startPos]; exact set_startPos _ _ _
            · intro hl; rw [DeSt.set_r]; show r'.chunked = true
              rw [hch, DeSt.set_r]; exact h.mode hl
            · intro m hm
              have hne : fd ≠ m := fun he => hfd (by rw [he]; exact hm)
              rw [get_set_ne _ _ _ _ hne]
              have e1 : DeSt.get { st.set fd .none with r := r' } m = (st.set fd .none).get m := rfl
              exact e1.trans (get_set_ne _ _ _ _ hne)

theorem exec_declNone (call : DeCall) (n : String) (st : DeSt) :
    execDeOp call (.declNone n) st = (st.set n .none, .ok ()) := by rw [execDeOp]

theorem switch_sim {call : DeCall} {rcall : RCall} {B Ds emp lexm st s} (h : DynD B Ds emp lexm st s)
    {f : String} {cases : List TCase} {pre : Bool} {ops : List DeOp}
    (hops : OpsI lexm pre (.switch f cases) ops)
    (hnd : (B ++ [f ++ "_data"]).Nodup) (hvar : declaredVar Ds f = true)
    (hcases : ∀ x ∈ directCasesI lexm (.switch f cases), x.2.1 ≠ [] → CaseAt call rcall x.2.2 x.1 x.2.1) :
    ConfD (execDeOps call ops st) (readInstr rcall lexm (.switch f cases) s)
      (fun st' _ s' => DynD (B ++ [f ++ "_data"]) (Ds ++ [⟨f ++ "_data", .data, true, none⟩]) false lexm st' s') := by
  rw [OpsI] at hops
  subst hops
  have hfd : (f ++ "_data") ∉ B := not_mem_of_nodup_append hnd (List.mem_singleton.2 rfl)
  obtain ⟨fv, h1, h2, hfB⟩ := h.var_lookup hvar
  have hne : (f ++ "_data") ≠ f := fun he => hfd (by rw [he]; exact hfB)
  simp only [readInstr]
  rw [execDeOps_cons, exec_declNone, bindD_ok, execDeOps_single,
    exec_switchD call f _ _ fv (by rw [get_set_ne _ _ _ _ hne]; exact h1), h2]
  refine cases_sim h hfd cases ?_
  intro cond cls b hm hb
  exact hcases (cls, b, lexm) (by
    simp only [directCasesI, List.mem_map]
    exact ⟨_, hm, rfl⟩) hb

end EoVerif.Gen.DeConform
