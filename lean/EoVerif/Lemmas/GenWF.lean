import EoVerif.Model.GenCompile
import EoVerif.Spec.WellFormed
/-! Helper lemmas for C17. -/
namespace EoVerif.Gen.WF
open EoVerif.Spec

/-! ### Association lists -/

theorem find_fst_append_single {β} (L : List (String × β)) (n m : String) (b : β) :
    ((L ++ [(n, b)]).find? (·.1 == m)).map (·.2)
      = ((L.find? (·.1 == m)).map (·.2)).or (if n == m then some b else none) := by
  induction L with
  | nil => by_cases h : (n == m) = true <;> simp [List.find?, h]
  | cons x xs ih =>
    by_cases hx : (x.1 == m) = true
    · simp [List.find?, hx]
    · simp only [List.cons_append, List.find?, hx]
      exact ih

theorem find_fst_map_upd {β} (L : List (String × β)) (l m : String) (b : β) :
    ((L.map (fun p => if p.1 == l then (p.1, b) else p)).find? (·.1 == m)).map (·.2)
      = ((L.find? (·.1 == m)).map (·.2)).map (fun x => if m == l then b else x) := by
  induction L with
  | nil => rfl
  | cons x xs ih =>
    obtain ⟨a, v⟩ := x
    rw [List.map_cons, List.find?_cons, List.find?_cons]
    cases hl : (a == l) <;> cases hx : (a == m)
    · simpa [hl, hx] using ih
    · have hxm : a = m := by simpa using hx
      subst hxm
      simp [hl]
    · simpa [hl, hx] using ih
    · have hxm : a = m := by simpa using hx
      subst hxm
      simp [hl]

theorem any_fst_eq_isSome {β} (L : List (String × β)) (n : String) :
    L.any (·.1 == n) = ((L.find? (·.1 == n)).map (·.2)).isSome := by
  induction L with
  | nil => simp
  | cons x xs ih =>
    by_cases hx : (x.1 == n) = true
    · simp [List.find?, hx]
    · simp only [List.any_cons, hx, List.find?]
      simpa using ih



theorem except_bind_ok {α β} {x : Except GenErr α} {f : α → Except GenErr β} {r : β}
    (h : (x >>= f) = .ok r) : ∃ a, x = .ok a ∧ f a = .ok r := by
  cases x with
  | error m => cases h
  | ok a => exact ⟨a, rfl, h⟩

theorem except_bind_ok' {α β} {x : Except GenErr α} {f : α → Except GenErr β} {r : β}
    (h : (x >>= f) = .ok r) : match x with | .ok a => f a = .ok r | .error _ => False := by
  cases x with
  | error m => cases h
  | ok a => exact h

/-- peel one guard stage of a `do` block: every successful path ends in the hypothesis itself -/
local syntax "wf_stage " ident : tactic
local macro_rules
  | `(tactic| wf_stage $h) =>
    `(tactic| first
      | exact $h:ident
      | cases $h:ident
      | (split at $h:ident <;> wf_stage $h)
      | (replace $h:ident := except_bind_ok' $h:ident; wf_stage $h))

/-- what a successful `validateField` guarantees (the context-sensitive part) -/
theorem validateField_ok {tf : TypeEnv} {ctx : Ctx} {p : FP} (h : validateField tf ctx p = .ok ()) :
    (p.name = none → p.hardcoded.isSome = true ∧ p.optional = false) ∧
    (∀ n, p.name = some n → (ctx.field? n).isSome = false) ∧
    (∀ l, p.lenStr = some l →
      (!PyStr.isdigit l && (ctx.lenRef? l).isNone) = false ∧ (ctx.lenRef? l).getD false = false) := by
  unfold validateField at h
  extract_lets j11 j10 j9 j8 j7 j6 j5 j4 j3 j2 j1 j0 at h
  have h0 : j0 () = .ok () := by wf_stage h
  have h1 : j1 () = .ok () := by simp only [j0] at h0; wf_stage h0
  have h4 : j4 () = .ok () := by simp only [j1, j2, j3] at h1; wf_stage h1
  have h7 : j7 () = .ok () := by simp only [j4, j5, j6] at h4; wf_stage h4
  have h9 : j9 () = .ok () := by simp only [j7, j8] at h7; wf_stage h7
  have h10 : j10 () = .ok () := by
    simp only [j9] at h9
    split at h9
    · exact h9
    · obtain ⟨t, _, h9⟩ := except_bind_ok h9
      wf_stage h9
  have h11 : j11 () = .ok () := by simp only [j10] at h10; wf_stage h10
  refine ⟨?_, ?_, ?_⟩
  · intro hn
    simp only [j7, j8, hn, Option.isNone_none, if_true] at h7
    split at h7
    · cases h7
    · split at h7
      · cases h7
      · rename_i h1 h2
        simp at h1 h2
        simp [h2, Option.isSome_iff_ne_none, h1]
  · intro n hn
    simp only [j10, hn] at h10
    split at h10
    · cases h10
    · rename_i h1; simpa using h1
  · intro l hl
    simp only [j11, hl] at h11
    split at h11
    · cases h11
    · rename_i h1
      split at h11
      · cases h11
      · rename_i h2; simp only [Bool.not_eq_true] at h1 h2; exact ⟨h1, h2⟩

/-! ### `Ctx` updates -/

theorem setField_fresh {ctx : Ctx} {fd : FieldData} (h : (ctx.field? fd.name).isSome = false) :
    ctx.setField fd = { ctx with accessible := ctx.accessible ++ [(fd.name, fd)] } := by
  unfold Ctx.setField
  rw [any_fst_eq_isSome]
  unfold Ctx.field? at h
  rw [h]; rfl

theorem setLenRef_fresh {ctx : Ctx} {n : String} {b : Bool} (h : ctx.lenRef? n = none) :
    ctx.setLenRef n b = { ctx with lenRef := ctx.lenRef ++ [(n, b)] } := by
  unfold Ctx.setLenRef
  rw [any_fst_eq_isSome]
  unfold Ctx.lenRef? at h
  rw [h]; rfl

theorem setLenRef_present {ctx : Ctx} {n : String} {b : Bool} (h : (ctx.lenRef? n).isSome = true) :
    ctx.setLenRef n b
      = { ctx with lenRef := ctx.lenRef.map (fun p => if p.1 == n then (p.1, b) else p) } := by
  unfold Ctx.setLenRef
  rw [any_fst_eq_isSome]
  unfold Ctx.lenRef? at h
  rw [h]; rfl

/-- the context `generateField` leaves behind for a named field -/
def fieldCtx (ctx : Ctx) (p : FP) (n : String) (t : Ty) : Ctx :=
  let c1 := ctx.setField ⟨n, t, p.offset, p.arrayField⟩
  if p.lengthField then c1.setLenRef n false
  else match p.lenStr with
    | some l => if (c1.lenRef? l).isSome then c1.setLenRef l true else c1
    | none => c1

theorem generateField_none {tf : TypeEnv} {ctx ctx' : Ctx} {d d' : Data} {p : FP} (hn : p.name = none)
    (h : generateField tf ctx d p = .ok (ctx', d')) : ctx' = ctx := by
  unfold generateField at h
  simp only [hn, pure, Except.pure, Except.ok.injEq, Prod.mk.injEq] at h
  exact h.1.symm

theorem generateField_some {tf : TypeEnv} {ctx ctx' : Ctx} {d d' : Data} {p : FP} {n : String}
    (hn : p.name = some n) (h : generateField tf ctx d p = .ok (ctx', d')) :
    ∃ t, ctx' = fieldCtx ctx p n t := by
  unfold generateField at h
  simp only [hn] at h
  obtain ⟨t, _, h⟩ := except_bind_ok h
  refine ⟨t, ?_⟩
  simp only [fieldCtx]
  split at h
  · simp only [pure, Except.pure, Except.ok.injEq, Prod.mk.injEq] at h
    rw [if_pos ‹_›]; exact h.1.symm
  · rw [if_neg ‹_›]
    split at h
    next l hl =>
      simp only [hl]
      split at h
      · split at h
        · simp only [pure, Except.pure, Except.ok.injEq, Prod.mk.injEq] at h
          rw [if_pos ‹_›]; exact h.1.symm
        · cases h
      · simp only [pure, Except.pure, Except.ok.injEq, Prod.mk.injEq] at h
        rw [if_neg ‹_›]; exact h.1.symm
    next hl =>
      simp only [hl]
      simp only [pure, Except.pure, Except.ok.injEq, Prod.mk.injEq] at h
      exact h.1.symm

theorem generateAll_ok {tf : TypeEnv} {ctx ctx' : Ctx} {d d' : Data} {p : FP}
    (h : generateAll tf ctx d p = .ok (ctx', d')) :
    validateField tf ctx p = .ok () ∧ ∃ d1, generateField tf ctx d p = .ok (ctx', d1) := by
  unfold generateAll at h
  obtain ⟨u, hv, h⟩ := except_bind_ok h
  obtain ⟨⟨c1, d1⟩, hg, h⟩ := except_bind_ok h
  obtain ⟨d2, _, h⟩ := except_bind_ok h
  obtain ⟨d3, _, h⟩ := except_bind_ok h
  simp only [pure, Except.pure, Except.ok.injEq, Prod.mk.injEq] at h
  refine ⟨hv, d1, ?_⟩
  rw [hg, ← h.1]

/-! ### Agreement of the two contexts -/

/-- the generator's context and the declarative context of the same position agree
    (same body as `Agree` in `Props/C17.lean`) -/
def AgreeW (ctx : Ctx) (w : WCtx) : Prop :=
  ctx.chunked = w.chunked ∧ ctx.reachedOptional = w.afterOptional ∧ ctx.reachedDummy = w.afterDummy ∧
  (∀ n, (ctx.field? n).isSome = w.names.contains n) ∧
  (∀ n, ctx.lenRef? n = w.lenState n) ∧
  (∀ n, (w.lenState n).isSome = true → w.names.contains n = true)

theorem lenState_markRef (w : WCtx) (l m : String) :
    (w.markRef l).lenState m = (w.lenState m).map (fun x => if m == l then true else x) :=
  find_fst_map_upd w.lens l m true

theorem fieldCtx_spec {ctx : Ctx} {p : FP} {n : String} {t : Ty}
    (hfresh : (ctx.field? n).isSome = false) (hlf : p.lengthField = true → ctx.lenRef? n = none) :
    (fieldCtx ctx p n t).chunked = ctx.chunked ∧
    (fieldCtx ctx p n t).reachedOptional = ctx.reachedOptional ∧
    (fieldCtx ctx p n t).reachedDummy = ctx.reachedDummy ∧
    (∀ m, ((fieldCtx ctx p n t).field? m).isSome = ((ctx.field? m).isSome || n == m)) ∧
    (∀ m, (fieldCtx ctx p n t).lenRef? m =
      if p.lengthField then (ctx.lenRef? m).or (if n == m then some false else none)
      else match p.lenStr with
        | some l =>
          if (ctx.lenRef? l).isSome then (ctx.lenRef? m).map (fun x => if m == l then true else x)
          else ctx.lenRef? m
        | none => ctx.lenRef? m) := by
  have hsf := setField_fresh (ctx := ctx) (fd := ⟨n, t, p.offset, p.arrayField⟩) hfresh
  have hfield : ∀ (c : Ctx), c.accessible = ctx.accessible ++ [(n, ⟨n, t, p.offset, p.arrayField⟩)] →
      ∀ m, (c.field? m).isSome = ((ctx.field? m).isSome || n == m) := by
    intro c hc m
    unfold Ctx.field?
    rw [hc, find_fst_append_single]
    cases (Option.map (fun x => x.snd) (List.find? (fun x => x.fst == m) ctx.accessible)) <;>
      cases (n == m) <;> rfl
  obtain ⟨c1, hc1, hc⟩ : ∃ c1, ctx.setField ⟨n, t, p.offset, p.arrayField⟩ = c1 ∧
      c1 = { ctx with accessible := ctx.accessible ++ [(n, ⟨n, t, p.offset, p.arrayField⟩)] } :=
    ⟨_, rfl, hsf⟩
  have e1 : ∀ m, c1.lenRef? m = ctx.lenRef? m := by subst hc; intro m; rfl
  unfold fieldCtx
  simp only [hc1]
  split
  next hl =>
    rw [setLenRef_fresh (ctx := c1) (by rw [e1]; exact hlf hl)]
    subst hc
    refine ⟨rfl, rfl, rfl, hfield _ rfl, fun m => ?_⟩
    exact find_fst_append_single ctx.lenRef n m false
  next hl =>
    split
    next l hls =>
      rw [e1]
      split
      next hsome =>
        rw [setLenRef_present (ctx := c1) (by rw [e1]; exact hsome)]
        subst hc
        refine ⟨rfl, rfl, rfl, hfield _ rfl, fun m => ?_⟩
        exact find_fst_map_upd ctx.lenRef l m true
      next hnone =>
        subst hc
        exact ⟨rfl, rfl, rfl, hfield _ rfl, fun m => rfl⟩
    next hls =>
      subst hc
      exact ⟨rfl, rfl, rfl, hfield _ rfl, fun m => rfl⟩


theorem flagAttr_eq_battr (e : Xml) (n : String) : flagAttr e n = battr e n := rfl

theorem contains_append_single (L : List String) (n m : String) :
    (L ++ [n]).contains m = (L.contains m || n == m) := by
  induction L with
  | nil =>
    simp only [List.nil_append, List.contains_cons, List.contains_nil, Bool.or_false, Bool.false_or]
    exact BEq.comm
  | cons x xs ih => simp only [List.cons_append, List.contains_cons, ih, Bool.or_assoc]

/-- the common simulation step for `<field>`, `<array>`, `<length>` -/
theorem named_sim {tf : TypeEnv} {ctx ctx1 : Ctx} {d d1 : Data} {w : WCtx} {e : Xml}
    {isArray isLength : Bool} {p : FP}
    (hname : p.name = e.get "name") (hopt : p.optional = battr e "optional")
    (hlen : p.lenStr = if isLength then none else e.get "length")
    (hlf : p.lengthField = isLength)
    (h1 : (ctx.reachedOptional && !p.optional) = false)
    (h2 : (isArray && battr e "delimited" && !ctx.chunked) = false)
    (h3 : (isArray || isLength) = true → (e.get "name").isSome = true)
    (h4 : p.hardcoded.isSome = true → (isArray || isLength) = false → hasText e = true)
    (hall : generateAll tf ctx d p = .ok (ctx1, d1)) (ha : AgreeW ctx w) :
    ∃ w', wfNamed w e isArray isLength = some w' ∧
      AgreeW (if p.optional then { ctx1 with reachedOptional := true } else ctx1) w' ∧
      w'.chunked = w.chunked := by
  obtain ⟨hv, d2, hg⟩ := generateAll_ok hall
  obtain ⟨v1, v2, v3⟩ := validateField_ok hv
  obtain ⟨a1, a2, a3, a4, a5, a6⟩ := ha
  unfold wfNamed
  rw [a2] at h1
  rw [a1] at h2
  simp only [← hopt, h1, h2, Bool.false_eq_true, if_false]
  cases hn : e.get "name" with
  | none =>
    rw [hn] at hname
    obtain ⟨v1a, v1b⟩ := v1 hname
    have hal : (isArray || isLength) = false := by
      cases hh : (isArray || isLength)
      · rfl
      · have := h3 hh; rw [hn] at this; cases this
    have hil : isLength = false := by cases isLength <;> simp_all
    have ht := h4 v1a hal
    have hc1 := generateField_none hname hg
    subst hc1
    simp only [hal, ht, v1b, Bool.false_eq_true, if_false, Bool.not_true]
    rw [hil] at hlen
    simp only [Bool.false_eq_true, if_false] at hlen
    cases hl : e.get "length" with
    | none => exact ⟨w, rfl, ⟨a1, a2, a3, a4, a5, a6⟩, rfl⟩
    | some l =>
      rw [hl] at hlen
      obtain ⟨v3a, v3b⟩ := v3 l hlen
      rw [a5] at v3a v3b
      simp only [v3a, v3b, Bool.false_eq_true, if_false]
      exact ⟨w, rfl, ⟨a1, a2, a3, a4, a5, a6⟩, rfl⟩
  | some n =>
    rw [hn] at hname
    have hfresh := v2 n hname
    have hfresh' : w.names.contains n = false := by rw [← a4]; exact hfresh
    have hlfresh : ctx.lenRef? n = none := by
      cases hh : ctx.lenRef? n with
      | none => rfl
      | some b =>
        have := a6 n (by rw [← a5, hh]; rfl)
        rw [hfresh'] at this; cases this
    obtain ⟨t, hc1⟩ := generateField_some hname hg
    obtain ⟨s1, s2, s3, s4, s5⟩ := fieldCtx_spec (ctx := ctx) (p := p) (n := n) (t := t) hfresh
      (fun _ => hlfresh)
    rw [← hc1] at s1 s2 s3 s4 s5
    simp only [hfresh', Bool.false_eq_true, if_false]
    -- the generator context after the optional flag
    have k1 : (if p.optional then { ctx1 with reachedOptional := true } else ctx1).chunked = ctx.chunked := by
      split <;> exact s1
    have k2 : (if p.optional then { ctx1 with reachedOptional := true } else ctx1).reachedOptional
        = (ctx.reachedOptional || p.optional) := by
      split
      next h => simp [h]
      next h => simp [h, s2]
    have k3 : (if p.optional then { ctx1 with reachedOptional := true } else ctx1).reachedDummy
        = ctx.reachedDummy := by
      split <;> exact s3
    have k4 : ∀ m, ((if p.optional then { ctx1 with reachedOptional := true } else ctx1).field? m).isSome
        = ((ctx.field? m).isSome || n == m) := by
      intro m; split <;> exact s4 m
    have k5 : ∀ m, (if p.optional then { ctx1 with reachedOptional := true } else ctx1).lenRef? m
        = ctx1.lenRef? m := by
      intro m; split <;> rfl
    generalize (if p.optional then { ctx1 with reachedOptional := true } else ctx1) = cF at k1 k2 k3 k4 k5
    cases isLength with
    | true =>
      simp only [if_true, Option.map_some]
      simp only [hlf, if_true] at s5
      refine ⟨_, rfl, ⟨?_, ?_, ?_, ?_, ?_, ?_⟩, rfl⟩
      · exact k1.trans a1
      · rw [k2, a2]
      · exact k3.trans a3
      · intro m; rw [k4, a4]; exact (contains_append_single _ _ _).symm
      · intro m; rw [k5, s5, a5]
        exact (find_fst_append_single w.lens n m false).symm
      · intro m hm
        show (w.names ++ [n]).contains m = true
        rw [contains_append_single]
        have hm' : (((w.lens ++ [(n, false)]).find? (·.1 == m)).map (·.2)).isSome = true := hm
        rw [find_fst_append_single] at hm'
        cases hw : w.lenState m with
        | some b => rw [a6 m (by rw [hw]; rfl)]; rfl
        | none =>
          have hw' : Option.map (fun x => x.snd) (List.find? (fun x => x.fst == m) w.lens) = none := hw
          rw [hw'] at hm'
          cases hnm : (n == m)
          · simp [hnm] at hm'
          · simp
    | false =>
      simp only [Bool.false_eq_true, if_false] at hlen ⊢
      simp only [hlf, Bool.false_eq_true, if_false] at s5
      cases hl : e.get "length" with
      | none =>
        rw [hl] at hlen
        simp only [hlen] at s5
        simp only [Option.map_some]
        refine ⟨_, rfl, ⟨?_, ?_, ?_, ?_, ?_, ?_⟩, rfl⟩
        · exact k1.trans a1
        · rw [k2, a2]
        · exact k3.trans a3
        · intro m; rw [k4, a4]; exact (contains_append_single _ _ _).symm
        · intro m; rw [k5, s5, a5]; rfl
        · intro m hm
          show (w.names ++ [n]).contains m = true
          rw [contains_append_single, a6 m hm]; rfl
      | some l =>
        rw [hl] at hlen
        obtain ⟨v3a, v3b⟩ := v3 l hlen
        simp only [hlen] at s5
        rw [a5] at v3a v3b
        simp only [v3a, v3b, Bool.false_eq_true, if_false, Option.map_some]
        cases hls : (w.lenState l).isSome with
        | true =>
          simp only [if_true]
          simp only [a5, hls, if_true] at s5
          refine ⟨_, rfl, ⟨?_, ?_, ?_, ?_, ?_, ?_⟩, rfl⟩
          · exact k1.trans a1
          · rw [k2, a2]; rfl
          · exact k3.trans a3
          · intro m; rw [k4, a4]; exact (contains_append_single _ _ _).symm
          · intro m; rw [k5, s5]; exact (lenState_markRef w l m).symm
          · intro m hm
            show (w.names ++ [n]).contains m = true
            have hm' : ((w.markRef l).lenState m).isSome = true := hm
            rw [lenState_markRef, Option.isSome_map] at hm'
            rw [contains_append_single, a6 m hm']; rfl
        | false =>
          simp only [Bool.false_eq_true, if_false]
          simp only [a5, hls, Bool.false_eq_true, if_false] at s5
          refine ⟨_, rfl, ⟨?_, ?_, ?_, ?_, ?_, ?_⟩, rfl⟩
          · exact k1.trans a1
          · rw [k2, a2]
          · exact k3.trans a3
          · intro m; rw [k4, a4]; exact (contains_append_single _ _ _).symm
          · intro m; rw [k5, s5]; rfl
          · intro m hm
            show (w.names ++ [n]).contains m = true
            rw [contains_append_single, a6 m hm]; rfl


/-! ### The leaf instructions -/

theorem getText_some_hasText {e : Xml} {r : String} (h : e.getText = .ok (some r)) : hasText e = true := by
  unfold Xml.getText at h
  extract_lets t tails at h
  unfold hasText
  show (!t.isEmpty || !tails.isEmpty) = true
  cases htl : tails with
  | cons x xs => simp
  | nil =>
    rw [htl] at h
    simp only [Xml.getText.go] at h
    split at h
    · cases h
    · rename_i hne; simp [hne]

theorem genFieldInstr_sim {tf : TypeEnv} {ctx ctx' : Ctx} {d d' : Data} {e : Xml} {w : WCtx}
    (h : genFieldInstr tf ctx d e = .ok (ctx', d')) (ha : AgreeW ctx w) :
    ∃ w', wfNamed w e false false = some w' ∧ AgreeW ctx' w' ∧ w'.chunked = w.chunked := by
  unfold genFieldInstr at h
  extract_lets optional padded jp at h
  split at h
  · cases h
  · rename_i hro
    simp only [jp] at h
    obtain ⟨ty, _, h⟩ := except_bind_ok h
    obtain ⟨text, htext, h⟩ := except_bind_ok h
    obtain ⟨⟨c1, d1⟩, hall, h⟩ := except_bind_ok h
    simp only [pure, Except.pure, Except.ok.injEq, Prod.mk.injEq] at h
    obtain ⟨rfl, rfl⟩ := h
    refine named_sim (isArray := false) (isLength := false) (e := e) rfl rfl rfl rfl ?_ rfl ?_ ?_ hall ha
    · exact Bool.eq_false_iff.mpr hro
    · intro h; cases h
    · intro hs _
      cases text with
      | none => cases hs
      | some r => exact getText_some_hasText htext

theorem getReq_ok {e : Xml} {n v : String} (h : e.getReq n = .ok v) : e.get n = some v := by
  unfold Xml.getReq at h
  split at h
  · rename_i v' hv; cases h; exact hv
  · cases h

theorem genArrayInstr_sim {tf : TypeEnv} {ctx ctx' : Ctx} {d d' : Data} {e : Xml} {w : WCtx}
    (h : genArrayInstr tf ctx d e = .ok (ctx', d')) (ha : AgreeW ctx w) :
    ∃ w', wfNamed w e true false = some w' ∧ AgreeW ctx' w' ∧ w'.chunked = w.chunked := by
  unfold genArrayInstr at h
  extract_lets optional delimited jp2 jp at h
  split at h
  · cases h
  · rename_i hro
    simp only [jp] at h
    split at h
    · cases h
    · rename_i hdel
      simp only [jp2] at h
      obtain ⟨name, hname, h⟩ := except_bind_ok h
      obtain ⟨ty, _, h⟩ := except_bind_ok h
      obtain ⟨⟨c1, d1⟩, hall, h⟩ := except_bind_ok h
      simp only [pure, Except.pure, Except.ok.injEq, Prod.mk.injEq] at h
      obtain ⟨rfl, rfl⟩ := h
      have hn := getReq_ok hname
      refine named_sim (isArray := true) (isLength := false) (e := e) hn.symm rfl rfl rfl ?_ ?_ ?_ ?_ hall ha
      · exact Bool.eq_false_iff.mpr hro
      · exact Bool.eq_false_iff.mpr hdel
      · intro _; rw [hn]; rfl
      · intro _ h; cases h

theorem genLengthInstr_sim {tf : TypeEnv} {ctx ctx' : Ctx} {d d' : Data} {e : Xml} {w : WCtx}
    (h : genLengthInstr tf ctx d e = .ok (ctx', d')) (ha : AgreeW ctx w) :
    ∃ w', wfNamed w e false true = some w' ∧ AgreeW ctx' w' ∧ w'.chunked = w.chunked := by
  unfold genLengthInstr at h
  extract_lets optional jp at h
  split at h
  · cases h
  · rename_i hro
    simp only [jp] at h
    obtain ⟨name, hname, h⟩ := except_bind_ok h
    obtain ⟨ty, _, h⟩ := except_bind_ok h
    obtain ⟨off, _, h⟩ := except_bind_ok h
    obtain ⟨⟨c1, d1⟩, hall, h⟩ := except_bind_ok h
    simp only [pure, Except.pure, Except.ok.injEq, Prod.mk.injEq] at h
    obtain ⟨rfl, rfl⟩ := h
    have hn := getReq_ok hname
    refine named_sim (isArray := false) (isLength := true) (e := e) hn.symm rfl rfl rfl ?_ rfl ?_ ?_ hall ha
    · exact Bool.eq_false_iff.mpr hro
    · intro _; rw [hn]; rfl
    · intro _ h; cases h

theorem genDummyInstr_sim {tf : TypeEnv} {ctx ctx' : Ctx} {d d' : Data} {e : Xml}
    (h : genDummyInstr tf ctx d e = .ok (ctx', d')) :
    hasText e = true ∧ ∃ b, ctx' = { ctx with reachedDummy := true, needsOldLen := b } := by
  unfold genDummyInstr at h
  obtain ⟨ty, _, h⟩ := except_bind_ok h
  obtain ⟨text, htext, h⟩ := except_bind_ok h
  extract_lets p ng d0 at h
  obtain ⟨u, hv, h⟩ := except_bind_ok h
  obtain ⟨d1, _, h⟩ := except_bind_ok h
  obtain ⟨d2, _, h⟩ := except_bind_ok h
  simp only [pure, Except.pure, Except.ok.injEq, Prod.mk.injEq] at h
  obtain ⟨v1, _, _⟩ := validateField_ok hv
  have := (v1 rfl).1
  refine ⟨?_, _, h.1.symm⟩
  cases text with
  | none => cases this
  | some r => exact getText_some_hasText htext


/-! ### The simulation -/

theorem wfBody_skip (c : WCtx) : ∀ (cs : List Xml),
    cs.any (fun x => Xml.instructionTags.contains x.tag) = false → wfBody c cs true = some c
  | [], _ => by unfold wfBody; rfl
  | x :: xs, h => by
    rw [List.any_cons, Bool.or_eq_false_iff] at h
    unfold wfBody
    rw [if_pos (by rw [h.1]; rfl)]
    exact wfBody_skip c xs h.2

theorem caseDataTypeName_ok {cls f n : String} {ce : Xml} (h : caseDataTypeName cls f ce = .ok n)
    (hd : ce.getBool "default" = false) : (ce.get "value").isSome = true := by
  unfold caseDataTypeName at h
  simp only [hd, Bool.false_eq_true, if_false] at h
  obtain ⟨v, hv, _⟩ := except_bind_ok h
  rw [getReq_ok hv]; rfl

theorem getBool_eq_battr (e : Xml) (n : String) : e.getBool n = battr e n := rfl

mutual

theorem instr_sim (tf : TypeEnv) : ∀ (x : Xml) (ctx : Ctx) (d : Data) (ctx' : Ctx) (d' : Data) (w : WCtx),
    AgreeW ctx w → genInstruction tf ctx d x = .ok (ctx', d') →
    ∃ w', wfInstr w x = some w' ∧ AgreeW ctx' w' ∧ w'.chunked = w.chunked
  | .mk tag attrs text tail children, ctx, d, ctx', d', w, ha, h => by
    unfold genInstruction at h
    unfold wfInstr
    obtain ⟨a1, a2, a3, a4, a5, a6⟩ := id ha
    dsimp only at h ⊢
    by_cases hd : ctx.reachedDummy = true
    · rw [if_pos hd] at h; cases h
    rw [if_neg hd] at h
    rw [if_neg (by rw [← a3]; exact hd)]
    by_cases h1 : (tag == "field") = true
    · rw [if_pos h1] at h ⊢; exact genFieldInstr_sim h ha
    rw [if_neg h1] at h ⊢
    by_cases h2 : (tag == "array") = true
    · rw [if_pos h2] at h ⊢; exact genArrayInstr_sim h ha
    rw [if_neg h2] at h ⊢
    by_cases h3 : (tag == "length") = true
    · rw [if_pos h3] at h ⊢; exact genLengthInstr_sim h ha
    rw [if_neg h3] at h ⊢
    by_cases h4 : (tag == "dummy") = true
    · rw [if_pos h4] at h ⊢
      obtain ⟨ht, b, hc⟩ := genDummyInstr_sim h
      rw [if_pos ht]
      subst hc
      exact ⟨_, rfl, ⟨a1, a2, rfl, a4, a5, a6⟩, rfl⟩
    rw [if_neg h4] at h ⊢
    by_cases h5 : (tag == "switch") = true
    · rw [if_pos h5] at h
      have ht : tag = "switch" := by simpa using h5
      subst ht
      rw [if_neg (by decide), if_neg (by decide), if_pos (by decide)]
      split at h
      · cases h
      rename_i f hf
      rw [getReq_ok hf]
      dsimp only
      split at h
      · cases h
      split at h
      · cases h
      rename_i d2 ro rd sc dc hcases
      have hw := cases_sim tf children ctx _ f true ctx.reachedOptional ctx.reachedDummy [] []
        d2 ro rd sc dc w ha hcases
      rw [a2, a3] at hw
      rw [hw]
      simp only [Except.ok.injEq, Prod.mk.injEq] at h
      obtain ⟨rfl, _⟩ := h
      exact ⟨_, rfl, ⟨a1, rfl, rfl, a4, a5, a6⟩, rfl⟩
    rw [if_neg h5] at h
    by_cases h6 : (tag == "chunked") = true
    · rw [if_pos h6] at h
      have ht : tag = "chunked" := by simpa using h6
      subst ht
      rw [if_neg (by decide), if_pos (by decide)]
      cases hch : ctx.chunked with
      | false =>
        simp only [hch, Bool.not_false, if_true] at h
        split at h
        · cases h
        rename_i c2 d2 hb
        have hag : AgreeW { ctx with chunked := true } { w with chunked := true } :=
          ⟨rfl, a2, a3, a4, a5, a6⟩
        obtain ⟨w2, hw2, ⟨b1, b2, b3, b4, b5, b6⟩, hc2⟩ :=
          body_sim tf children false _ _ c2 d2 _ hag hb
        rw [hw2]
        simp only [Except.ok.injEq, Prod.mk.injEq] at h
        obtain ⟨rfl, _⟩ := h
        exact ⟨_, rfl, ⟨by rw [← a1, hch], b2, b3, b4, b5, b6⟩, rfl⟩
      | true =>
        simp only [hch, Bool.not_true, Bool.false_eq_true, if_false] at h
        split at h
        · cases h
        rename_i c2 d2 hb
        have hag : AgreeW ctx { w with chunked := true } := ⟨hch, a2, a3, a4, a5, a6⟩
        obtain ⟨w2, hw2, ⟨b1, b2, b3, b4, b5, b6⟩, hc2⟩ :=
          body_sim tf children false _ _ c2 d2 _ hag hb
        rw [hw2]
        simp only [Except.ok.injEq, Prod.mk.injEq] at h
        obtain ⟨rfl, _⟩ := h
        exact ⟨_, rfl, ⟨(b1.trans hc2).trans (hch.symm.trans a1), b2, b3, b4, b5, b6⟩, rfl⟩
    rw [if_neg h6] at h
    by_cases h7 : (tag == "break") = true
    · rw [if_pos h7] at h ⊢
      by_cases hch : (!ctx.chunked) = true
      · rw [if_pos hch] at h; cases h
      · rw [if_neg hch] at h
        simp only [Except.ok.injEq, Prod.mk.injEq] at h
        obtain ⟨rfl, _⟩ := h
        rw [if_pos (by rw [← a1]; simpa using hch)]
        exact ⟨_, rfl, ⟨a1, rfl, rfl, a4, a5, a6⟩, rfl⟩
    rw [if_neg h7] at h ⊢
    rw [if_neg h6, if_neg h5]
    simp only [Except.ok.injEq, Prod.mk.injEq] at h
    obtain ⟨rfl, _⟩ := h
    exact ⟨w, rfl, ha, rfl⟩

theorem body_sim (tf : TypeEnv) : ∀ (cs : List Xml) (only : Bool) (ctx : Ctx) (d : Data) (ctx' : Ctx) (d' : Data)
    (w : WCtx), AgreeW ctx w → genBody tf ctx d cs only = .ok (ctx', d') →
    ∃ w', wfBody w cs only = some w' ∧ AgreeW ctx' w' ∧ w'.chunked = w.chunked
  | [], only, ctx, d, ctx', d', w, ha, h => by
    unfold genBody at h
    simp only [Except.ok.injEq, Prod.mk.injEq] at h
    obtain ⟨rfl, _⟩ := h
    unfold wfBody
    exact ⟨w, rfl, ha, rfl⟩
  | c :: cs, only, ctx, d, ctx', d', w, ha, h => by
    unfold genBody at h
    unfold wfBody
    by_cases hc : (only && !(Xml.instructionTags.contains c.tag)) = true
    · rw [if_pos hc] at h ⊢
      exact body_sim tf cs only ctx d ctx' d' w ha h
    · rw [if_neg hc] at h ⊢
      split at h
      · cases h
      · rename_i c1 d1 hi
        obtain ⟨w1, hw1, ha1, hch1⟩ := instr_sim tf c ctx d c1 d1 w ha hi
        rw [hw1]
        obtain ⟨w2, hw2, ha2, hch2⟩ := body_sim tf cs only c1 d1 ctx' d' w1 ha1 h
        exact ⟨w2, hw2, ha2, hch2.trans hch1⟩

theorem cases_sim (tf : TypeEnv) : ∀ (cs : List Xml) (ctx : Ctx) (d : Data) (f : String) (start ro rd : Bool)
    (sc : List SerCase) (dc : List DeCase) (d' : Data) (ro' rd' : Bool) (sc' : List SerCase) (dc' : List DeCase)
    (w : WCtx), AgreeW ctx w →
    genCases tf ctx d f cs start ro rd sc dc = .ok (d', ro', rd', sc', dc') →
    wfCases w f cs start ro rd = some (ro', rd')
  | [], ctx, d, f, start, ro, rd, sc, dc, d', ro', rd', sc', dc', w, ha, h => by
    unfold genCases at h
    simp only [Except.ok.injEq, Prod.mk.injEq] at h
    obtain ⟨_, rfl, rfl, _⟩ := h
    unfold wfCases
    rfl
  | (.mk ctag cattrs ctext ctail cchildren) :: cs, ctx, d, f, start, ro, rd, sc, dc, d', ro', rd', sc', dc', w,
      ha, h => by
    unfold genCases at h
    unfold wfCases
    obtain ⟨a1, a2, a3, a4, a5, a6⟩ := id ha
    dsimp only at h ⊢
    by_cases hct : (ctag != "case") = true
    · rw [if_pos hct] at h ⊢
      exact cases_sim tf cs ctx d f start ro rd sc dc d' ro' rd' sc' dc' w ha h
    rw [if_neg hct] at h ⊢
    split at h
    · cases h
    rename_i clsName hcn
    split at h
    · cases h
    rename_i cond hcond
    by_cases hfn : (ctx.field? f).isNone = true
    · rw [if_pos hfn] at h; cases h
    rw [if_neg hfn] at h
    have hfs : w.names.contains f = true := by
      rw [← a4]
      cases hh : ctx.field? f with
      | none => rw [hh] at hfn; exact absurd rfl hfn
      | some _ => rfl
    -- the two guards on `default` / `value`
    have hg1 : ¬ ((battr (Xml.mk ctag cattrs ctext ctail cchildren) "default" && start) = true) := by
      intro hb
      rw [Bool.and_eq_true] at hb
      rw [← getBool_eq_battr] at hb
      rw [hb.1, hb.2] at hcond
      cases hcond
    have hg2 : ¬ ((!battr (Xml.mk ctag cattrs ctext ctail cchildren) "default" &&
        ((Xml.mk ctag cattrs ctext ctail cchildren).get "value").isNone) = true) := by
      intro hb
      rw [Bool.and_eq_true] at hb
      have hdf : (Xml.mk ctag cattrs ctext ctail cchildren).getBool "default" = false := by
        rw [getBool_eq_battr]; simpa using hb.1
      have := caseDataTypeName_ok hcn hdf
      cases hv : (Xml.mk ctag cattrs ctext ctail cchildren).get "value" with
      | none => rw [hv] at this; cases this
      | some v => rw [hv] at hb; exact absurd hb.2 (by simp)
    rw [if_neg hg1, if_neg hg2, if_neg (by rw [hfs]; decide)]
    by_cases hem : (!(cchildren.any (fun x => Xml.instructionTags.contains x.tag))) = true
    · rw [if_pos hem] at h
      rw [wfBody_skip _ cchildren (by simpa using hem)]
      dsimp only
      rw [← a2, ← a3]
      exact cases_sim tf cs ctx _ f false _ _ _ _ d' ro' rd' sc' dc' w ha h
    · rw [if_neg hem] at h
      split at h
      · cases h
      rename_i c2 cd hb
      have hag : AgreeW { ctx with accessible := [], lenRef := [] } { w with names := [], lens := [] } :=
        ⟨a1, a2, a3, fun _ => rfl, fun _ => rfl, fun _ hn => by cases hn⟩
      obtain ⟨w2, hw2, ⟨b1, b2, b3, b4, b5, b6⟩, _⟩ :=
        body_sim tf cchildren true _ _ c2 cd _ hag hb
      rw [hw2]
      dsimp only
      rw [← b2, ← b3]
      exact cases_sim tf cs ctx _ f false _ _ _ _ d' ro' rd' sc' dc' w ha h

end


/-! ### From `compile` down to the class bodies -/

theorem mapM'_ok {α β} {g : α → Except GenErr β} : ∀ {l : List α} {r : List β},
    mapM' g l = .ok r → ∀ x ∈ l, ∃ y, g x = .ok y
  | [], _, _, x, hx => by cases hx
  | a :: as, r, h, x, hx => by
    unfold mapM' at h
    split at h
    · cases h
    · rename_i b hb
      cases hr : mapM' g as with
      | error m => rw [hr] at h; cases h
      | ok r' =>
        cases hx with
        | head => exact ⟨b, hb⟩
        | tail _ hx' => exact mapM'_ok hr x hx'

theorem genObject_ok {tf : TypeEnv} {name : String} {e : Xml} {cs : List ClassIR}
    (h : genObject tf name e = .ok cs) :
    ∃ ctx d, genBody tf {} { className := name } e.children true = .ok (ctx, d) := by
  unfold genObject at h
  split at h
  · cases h
  · rename_i ctx d hb; exact ⟨ctx, d, hb⟩

theorem genObject_wfClass {tf : TypeEnv} {name : String} {e : Xml} {cs : List ClassIR}
    (h : genObject tf name e = .ok cs) : wfClass e = true := by
  obtain ⟨ctx, d, hb⟩ := genObject_ok h
  have hag : AgreeW {} {} := ⟨rfl, rfl, rfl, fun _ => rfl, fun _ => rfl, fun _ hn => by cases hn⟩
  obtain ⟨w', hw, _, _⟩ := body_sim tf e.children true _ _ ctx d _ hag hb
  unfold wfClass
  rw [hw]; rfl

theorem genStruct_wfClass {tf : TypeEnv} {e : Xml} {r : List ClassIR × GenFile}
    (h : genStruct tf e = .ok r) : wfClass e = true := by
  unfold genStruct at h
  obtain ⟨n, _, h⟩ := except_bind_ok h
  obtain ⟨t, _, h⟩ := except_bind_ok h
  split at h
  · obtain ⟨cs, hcs, _⟩ := except_bind_ok h
    exact genObject_wfClass hcs
  · cases h

theorem genPacket_wfClass {tf : TypeEnv} {dir : String} {e : Xml} {r : List ClassIR × GenFile}
    (h : genPacket tf dir e = .ok r) : wfClass e = true := by
  unfold genPacket at h
  extract_lets jp at h
  obtain ⟨suffix, h⟩ : ∃ s, jp s = .ok r := by
    repeat' split at h
    all_goals first | cases h | (obtain ⟨s, _, h⟩ := except_bind_ok h; exact ⟨s, h⟩)
  simp only [jp] at h
  obtain ⟨fam, _, h⟩ := except_bind_ok h
  obtain ⟨act, _, h⟩ := except_bind_ok h
  obtain ⟨ft, _, h⟩ := except_bind_ok h
  split at h
  · obtain ⟨fvals, _, h⟩ := except_bind_ok h
    obtain ⟨at_, _, h⟩ := except_bind_ok h
    split at h
    · obtain ⟨avals, _, h⟩ := except_bind_ok h
      split at h
      · obtain ⟨fv, _, h⟩ := except_bind_ok h
        split at h
        · obtain ⟨av, _, h⟩ := except_bind_ok h
          obtain ⟨cs, hcs, _⟩ := except_bind_ok h
          exact genObject_wfClass hcs
        · cases h
      · cases h
    · cases h
  · cases h

theorem genFile_wfClass {tf : TypeEnv} {f : ProtoFile} {out : GenOutput} (h : genFile tf f = .ok out)
    {e : Xml} (he : e ∈ f.root.findall "struct" ∨ e ∈ f.root.findall "packet") : wfClass e = true := by
  unfold genFile at h
  obtain ⟨enums, _, h⟩ := except_bind_ok h
  obtain ⟨structs, hs, h⟩ := except_bind_ok h
  obtain ⟨packets, hp, h⟩ := except_bind_ok h
  cases he with
  | inl he =>
    obtain ⟨y, hy⟩ := mapM'_ok hs e he
    exact genStruct_wfClass hy
  | inr he =>
    obtain ⟨y, hy⟩ := mapM'_ok hp e he
    exact genPacket_wfClass hy

theorem compile_wfClass {files : List ProtoFile} {out : GenOutput} (h : compile files = .ok out)
    {f : ProtoFile} (hf : f ∈ files) {e : Xml}
    (he : e ∈ f.root.findall "struct" ∨ e ∈ f.root.findall "packet") : wfClass e = true := by
  unfold compile at h
  obtain ⟨defs, _, h⟩ := except_bind_ok h
  extract_lets tf at h
  obtain ⟨outs, ho, _⟩ := except_bind_ok h
  obtain ⟨y, hy⟩ := mapM'_ok ho f hf
  exact genFile_wfClass hy he

end EoVerif.Gen.WF
