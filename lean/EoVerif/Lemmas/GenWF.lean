import EoVerif.Model.GenCompile
import EoVerif.Spec.WellFormed
/-! Helper lemmas for C17. -/
namespace EoVerif.Gen

end EoVerif.Gen
