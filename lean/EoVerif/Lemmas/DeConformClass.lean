import EoVerif.Lemmas.DeConformInit
set_option linter.unusedVariables false
/-! The class level of C03b: `construct` against `finishObj`, `deserializeBody` against `classRead`. -/
namespace EoVerif.Gen.DeConform
open EoVerif EoVerif.Gen EoVerif.Spec EoVerif.Gen.Conform

/-- static facts about the declarations of a class body (`lr` = `lenRefOf body`) -/
structure DeclsOK (Ds : List Decl) (lr : String → Option String) : Prop where
  nodup : (Ds.map (·.name)).Nodup
  lenKind : ∀ d ∈ Ds, ∀ l, d.lenOf = some l → d.kind.isLen = false ∧ d.kind ≠ .data ∧
    ∃ dl ∈ Ds, dl.name = l ∧ dl.kind.isLen = true
  uniq : ∀ d1 ∈ Ds, ∀ d2 ∈ Ds, ∀ l, d1.lenOf = some l → d2.lenOf = some l → d1 = d2
  lenRef : ∀ d ∈ Ds, d.kind.isLen = true → ∃ d' ∈ Ds, d'.lenOf = some d.name ∧ lr d.name = some d'.name
  nonRef : ∀ d ∈ Ds, d.kind.isLen = false → lr d.name = none

theorem argOfDecl_some {d : Decl} (h : d.kind.isLen = false) : argOfDecl d = some d.name := by
  unfold argOfDecl
  cases hk : d.kind <;> simp_all [DKind.isLen]

theorem argOfDecl_eq_some {d : Decl} {n : String} (h : argOfDecl d = some n) : d.kind.isLen = false ∧ d.name = n := by
  unfold argOfDecl at h
  cases hk : d.kind <;> rw [hk] at h <;> simp at h <;> exact ⟨rfl, h⟩

theorem paramOfDecl_some {d : Decl} (h : d.kind.isLen = false) : ∃ b, paramOfDecl d = some ⟨d.name, b⟩ := by
  unfold paramOfDecl
  cases hk : d.kind <;> simp_all [DKind.isLen]

theorem paramOfDecl_eq_some {d : Decl} {p : Param} (h : paramOfDecl d = some p) :
    d.kind.isLen = false ∧ p.name = d.name := by
  unfold paramOfDecl at h
  cases hk : d.kind <;> rw [hk] at h <;> simp at h <;> (subst h; exact ⟨rfl, rfl⟩)

theorem args_find (val : String → Value) : ∀ (L : List String) (n : String), n ∈ L →
    ((L.map (fun n => (n, val n))).find? (·.1 == n)).map (·.2) = some (val n)
  | [], n, h => by cases h
  | x :: xs, n, h => by
    rw [List.map_cons, List.find?_cons]
    by_cases hx : (x == n) = true
    · have : x = n := by simpa using hx
      subst this
      simp
    · simp only [hx]
      rcases List.mem_cons.1 h with h | h
      · exact absurd (by simp [h]) hx
      · exact args_find val xs n h

theorem AttrsOK_map_eq {α : Type} (F : Decl → α) (G : String × Value → α) :
    ∀ (Ds : List Decl) (as : List (String × Value)), AttrsOK Ds as →
    (∀ d ∈ Ds, ∀ p ∈ as, p.1 = d.name → F d = G p) → Ds.map F = as.map G
  | [], [], _, _ => rfl
  | [], _ :: _, h, _ => h.elim
  | _ :: _, [], h, _ => h.elim
  | d :: Ds, p :: as, h, hfg => by
    rw [List.map_cons, List.map_cons, hfg d (List.mem_cons_self ..) p (List.mem_cons_self ..) h.1,
      AttrsOK_map_eq F G Ds as h.2.2
        (fun d' hd' p' hp' => hfg d' (List.mem_cons_of_mem _ hd') p' (List.mem_cons_of_mem _ hp'))]

set_option maxHeartbeats 800000 in
theorem construct_eq {ir : ClassIR} {Ds : List Decl} {lr : String → Option String}
    {attrs : List (String × Value)} {val : String → Value}
    (hD : DeclsOK Ds lr)
    (hf : ir.fields = Ds.map fieldOfDecl) (hp : ir.params = Ds.filterMap paramOfDecl)
    (hi : InitOK Ds ir.initBody) (ha : AttrsOK Ds attrs)
    (hval : ∀ d ∈ Ds, d.kind.isVar = true → val d.name = look attrs d.name) :
    construct ir ((Ds.filterMap argOfDecl).map (fun n => (n, val n)))
      = .ok (.obj ir.name (attrs.map (fixWith lr attrs)) 0) := by
  have hnames := AttrsOK_names ha
  have hand : (attrs.map (·.1)).Nodup := by rw [hnames]; exact hD.nodup
  -- the attribute value of a declaration
  have hav : ∀ d ∈ Ds, ∃ v, (d.name, v) ∈ attrs ∧ ValOK d v ∧ look attrs d.name = v := by
    intro d hd
    obtain ⟨v, hv, hval'⟩ := AttrsOK_mem ha d hd
    exact ⟨v, hv, hval', look_of_mem hand hv⟩
  -- names are separated
  have hsep : ∀ d ∈ Ds, d.kind.isLen = false → ∀ d' ∈ Ds, ∀ l, d'.lenOf = some l → d.name ≠ l := by
    intro d hd hk d' hd' l hl hdl
    obtain ⟨_, _, dl, hdlm, hdln, hdlk⟩ := hD.lenKind d' hd' l hl
    have := name_inj hD.nodup hd hdlm (by rw [hdl, hdln])
    subst this
    rw [hk] at hdlk; cases hdlk
  -- the arguments
  have harg : ∀ d ∈ Ds, d.kind.isLen = false →
      (((Ds.filterMap argOfDecl).map (fun n => (n, val n))).find? (·.1 == d.name)).map (·.2) = some (val d.name) := by
    intro d hd hk
    refine args_find val _ d.name ?_
    rw [List.mem_filterMap]
    exact ⟨d, hd, argOfDecl_some hk⟩
  have hass : ∀ d ∈ Ds, d.kind.isLen = false →
      AssignOK ((Ds.filterMap argOfDecl).map (fun n => (n, val n))) (look attrs) d := by
    intro d hd hk
    obtain ⟨v, hv, hvalok, hlook⟩ := hav d hd
    have hargd := harg d hd hk
    refine ⟨?_, ?_⟩
    · intro e he
      unfold ExprOK at he
      unfold ValOK at hvalok
      cases hkk : d.kind with
      | len => rw [hkk] at hk; cases hk
      | param =>
        rw [hkk] at he
        simp only at he
        subst he
        simp only [assignVal, hargd, Option.getD_some]
        rw [hval d hd (by rw [hkk]; rfl)]
      | data =>
        rw [hkk] at he
        simp only at he
        subst he
        simp only [assignVal, hargd, Option.getD_some]
        rw [hval d hd (by rw [hkk]; rfl)]
      | arr =>
        rw [hkk] at he hvalok
        simp only at he hvalok
        subst he
        simp only [assignVal, hargd, Option.getD_some]
        rw [hval d hd (by rw [hkk]; rfl), hlook]
        rcases hvalok with ⟨vs, rfl⟩ | ⟨rfl, ho⟩
        · rfl
        · simp [ho]
      | const c =>
        rw [hkk] at he hvalok
        simp only at he hvalok
        rw [hlook, hvalok.1]
        cases e with
        | strLit s => simp only [evalConst, Option.some.injEq] at he; simp only [assignVal]; rw [he]
        | boolLit b => simp only [evalConst, Option.some.injEq] at he; simp only [assignVal]; rw [he]
        | pasted t =>
          simp only [evalConst] at he
          split at he
          · rename_i hdg
            simp only [Option.some.injEq] at he
            simp only [assignVal, pastedValue, hdg, if_true]; rw [he]
          · cases he
        | param n => simp [evalConst] at he
        | tupleOf n o => simp [evalConst] at he
    · intro l hl
      obtain ⟨_, hnd, _⟩ := hD.lenKind d hd l hl
      rw [hlook]
      unfold ValOK at hvalok
      cases hkk : d.kind with
      | len => rw [hkk] at hk; cases hk
      | data => exact absurd hkk hnd
      | param =>
        rw [hkk] at hvalok
        rcases hvalok.2 (by rw [hl]; rfl) with ⟨x, hx⟩ | ⟨hx, ho⟩
        · exact Or.inl ⟨x, hx⟩
        · exact Or.inr (Or.inr ⟨hx, ho⟩)
      | const c =>
        rw [hkk] at hvalok
        obtain ⟨x, hx⟩ := hvalok.2 (by rw [hl]; rfl)
        exact Or.inl ⟨x, hx⟩
      | arr =>
        rw [hkk] at hvalok
        rcases hvalok with ⟨x, hx⟩ | ⟨hx, ho⟩
        · exact Or.inr (Or.inl ⟨x, hx⟩)
        · exact Or.inr (Or.inr ⟨hx, ho⟩)
  have hrun : runInit ir.initBody ((Ds.filterMap argOfDecl).map (fun n => (n, val n))) []
      = .ok (initA (look attrs) Ds) := by
    have := go_initA ((Ds.filterMap argOfDecl).map (fun n => (n, val n))) (look attrs) Ds ir.initBody [] hi hass
      (fun _ _ _ h => by cases h) hsep hD.nodup
    rw [List.nil_append] at this
    exact this
  -- the checks of the constructor call
  have hchk1 : ((Ds.filterMap argOfDecl).map (fun n => (n, val n))).any
      (fun a => !(ir.params.any (·.name == a.1))) = false := by
    rw [List.any_eq_false]
    intro a ham
    rw [List.mem_map] at ham
    obtain ⟨n, hn, rfl⟩ := ham
    rw [List.mem_filterMap] at hn
    obtain ⟨d, hd, hdn⟩ := hn
    simp only [Bool.not_eq_true, Bool.not_eq_false', List.any_eq_true]
    rw [hp]
    obtain ⟨hk, rfl⟩ := argOfDecl_eq_some hdn
    obtain ⟨b, hb⟩ := paramOfDecl_some hk
    exact ⟨_, List.mem_filterMap.2 ⟨d, hd, hb⟩, by simp⟩
  have hchk2 : ir.params.any (fun p => !p.hasDefault &&
      !(((Ds.filterMap argOfDecl).map (fun n => (n, val n))).any (·.1 == p.name))) = false := by
    rw [List.any_eq_false]
    intro p hpm
    rw [hp, List.mem_filterMap] at hpm
    obtain ⟨d, hd, hdp⟩ := hpm
    have hpn : p.name = d.name ∧ d.kind.isLen = false := by
      obtain ⟨h1, h2⟩ := paramOfDecl_eq_some hdp
      exact ⟨h2, h1⟩
    have hin : (((Ds.filterMap argOfDecl).map (fun n => (n, val n))).any (·.1 == p.name)) = true := by
      rw [List.any_eq_true]
      refine ⟨(d.name, val d.name), List.mem_map.2 ⟨d.name, ?_, rfl⟩, by simp [hpn.1]⟩
      rw [List.mem_filterMap]
      exact ⟨d, hd, argOfDecl_some hpn.2⟩
    rw [hin]; simp
  unfold construct
  rw [hchk1, hchk2]
  simp only [Bool.false_eq_true, if_false, hrun]
  congr 2
  rw [hf, List.map_map]
  refine AttrsOK_map_eq _ _ Ds attrs ha ?_
  intro d hd p hpm hpn
  obtain ⟨v, hv, hvalok, hlook⟩ := hav d hd
  have hpv : p = (d.name, v) := by
    have h1 : look attrs d.name = p.2 := look_of_mem hand (by rw [← hpn]; exact hpm)
    rw [hlook] at h1
    rw [← hpn, h1]
  subst hpv
  show ((fieldOfDecl d).name, _) = _
  have hfn : (fieldOfDecl d).name = d.name := rfl
  rw [hfn]
  have hlk : ((List.find? (fun x => x.1 == d.name) (initA (look attrs) Ds)).map (·.2)).getD Value.missing
      = look (initA (look attrs) Ds) d.name := rfl
  rw [hlk]
  unfold fixWith
  by_cases hk : d.kind.isLen = true
  · obtain ⟨d', hd', hlo', hlr'⟩ := hD.lenRef d hd hk
    obtain ⟨hnl', _, _⟩ := hD.lenKind d' hd' d.name hlo'
    have hl := look_initA_len (look attrs) d.name d' hlo' hnl' Ds
      (fun d0 hd0 hk0 he => by
        have := name_inj hD.nodup hd0 hd he
        subst this; rw [hk0] at hk; cases hk)
      (fun d0 hd0 hl0 => hD.uniq d0 hd0 d' hd' d.name hl0 hlo') hd'
    rw [hl]
    simp only [hlr']
    obtain ⟨v', hv', hvalok', hlook'⟩ := hav d' hd'
    have hlook'' : (Option.map (fun x => x.snd) (List.find? (fun x => x.fst == d'.name) attrs)).getD Value.missing
        = v' := hlook'
    rw [hlook'', hlook']
    obtain ⟨_, hass2⟩ := hass d' hd' hnl'
    rcases hass2 d.name hlo' with ⟨x, hx⟩ | ⟨x, hx⟩ | ⟨hx, _⟩
    · rw [hlook'] at hx; subst hx; rfl
    · rw [hlook'] at hx; subst hx; rfl
    · rw [hlook'] at hx; subst hx; rfl
  · have hk' : d.kind.isLen = false := by simpa using hk
    rw [look_initA_nonlen (look attrs) Ds hD.nodup hsep d hd hk', hlook]
    simp only [hD.nonRef d hd hk']

/-! ### The static facts from the side conditions -/

mutual
theorem declNames_sublist_I : ∀ (i : TInstr), List.Sublist ((declsI i).map (·.name)) (namesI i)
  | .field n ty opt => by simp [declsI, namesI]
  | .namedConst n ty c opt => by simp [declsI, namesI]
  | .length n k off opt r => by simp [declsI, namesI]
  | .array n e len opt del tr ef => by
    rw [declsI, namesI]
    split
    · simp
    · simp
  | .switch f cs => by simp [declsI, namesI]
  | .chunked b => by rw [declsI, namesI]; exact declNames_sublist_L b
  | .const _ _ => by simp [declsI, namesI]
  | .dummy _ _ => by simp [declsI, namesI]
  | .brk => by simp [declsI, namesI]
theorem declNames_sublist_L : ∀ (is : List TInstr), List.Sublist ((declsL is).map (·.name)) (namesL is)
  | [] => by simp [declsL, namesL]
  | i :: rest => by
    rw [declsL, namesL, List.map_append]
    exact List.Sublist.append (declNames_sublist_I i) (declNames_sublist_L rest)
end

mutual
theorem lenOf_kind_I : ∀ (i : TInstr) (d : Decl), d ∈ declsI i → ∀ l, d.lenOf = some l →
    d.kind.isLen = false ∧ d.kind ≠ .data
  | .field n ty opt, d, h, l, hl => by
    simp only [declsI, List.mem_singleton] at h; subst h; exact ⟨rfl, by simp⟩
  | .namedConst n ty c opt, d, h, l, hl => by
    simp only [declsI, List.mem_singleton] at h; subst h; exact ⟨rfl, by simp⟩
  | .length n k off opt r, d, h, l, hl => by
    simp only [declsI, List.mem_singleton] at h; subst h; cases hl
  | .array n e len opt del tr ef, d, h, l, hl => by
    simp only [declsI, List.mem_singleton] at h; subst h; exact ⟨rfl, by simp⟩
  | .switch f cs, d, h, l, hl => by
    simp only [declsI, List.mem_singleton] at h; subst h; cases hl
  | .chunked b, d, h, l, hl => by rw [declsI] at h; exact lenOf_kind_L b d h l hl
  | .const _ _, d, h, _, _ => by simp [declsI] at h
  | .dummy _ _, d, h, _, _ => by simp [declsI] at h
  | .brk, d, h, _, _ => by simp [declsI] at h
theorem lenOf_kind_L : ∀ (is : List TInstr) (d : Decl), d ∈ declsL is → ∀ l, d.lenOf = some l →
    d.kind.isLen = false ∧ d.kind ≠ .data
  | [], d, h, _, _ => by simp [declsL] at h
  | i :: rest, d, h, l, hl => by
    rw [declsL, List.mem_append] at h
    rcases h with h | h
    · exact lenOf_kind_I i d h l hl
    · exact lenOf_kind_L rest d h l hl
end

theorem declaredLen_mem {Ds : List Decl} {l : String} (h : declaredLen Ds l = true) :
    ∃ dl ∈ Ds, dl.name = l ∧ dl.kind.isLen = true := by
  unfold declaredLen at h
  rw [List.any_eq_true] at h
  obtain ⟨d, hd, hdl⟩ := h
  rw [Bool.and_eq_true] at hdl
  exact ⟨d, hd, by simpa using hdl.1, hdl.2⟩

theorem scalarLen_some {ty : Scalar} {l : String} (h : scalarLen ty = some l) :
    ∃ e p, ty = .str e (some (.byField l)) p := by
  cases ty with
  | str e len p =>
    cases len with
    | none => simp [scalarLen] at h
    | some tl =>
      cases tl with
      | lit n => simp [scalarLen] at h
      | byField f => simp only [scalarLen, Option.some.injEq] at h; subst h; exact ⟨e, p, rfl⟩
  | _ => simp [scalarLen] at h

mutual
theorem okI_scope : ∀ (i : TInstr) (Ds : List Decl), okI Ds i = true → ∀ d ∈ declsI i, ∀ l, d.lenOf = some l →
    ∃ dl ∈ Ds ++ declsI i, dl.name = l ∧ dl.kind.isLen = true
  | .field n ty opt, Ds, hok, d, h, l, hl => by
    simp only [declsI, List.mem_singleton] at h; subst h
    obtain ⟨e, p, rfl⟩ := scalarLen_some hl
    rw [okI] at hok
    obtain ⟨dl, hdl, h1, h2⟩ := declaredLen_mem (show declaredLen Ds l = true from hok)
    exact ⟨dl, List.mem_append_left _ hdl, h1, h2⟩
  | .namedConst n ty c opt, Ds, hok, d, h, l, hl => by
    simp only [declsI, List.mem_singleton] at h; subst h
    obtain ⟨e, p, rfl⟩ := scalarLen_some hl
    rw [okI, Bool.and_eq_true] at hok
    obtain ⟨dl, hdl, h1, h2⟩ := declaredLen_mem (show declaredLen Ds l = true from hok.1)
    exact ⟨dl, List.mem_append_left _ hdl, h1, h2⟩
  | .length n k off opt r, Ds, hok, d, h, l, hl => by
    simp only [declsI, List.mem_singleton] at h; subst h; cases hl
  | .array n e len opt del tr ef, Ds, hok, d, h, l, hl => by
    simp only [declsI, List.mem_singleton] at h; subst h
    rw [okI, Bool.and_eq_true, Bool.and_eq_true] at hok
    have hlen : len = some (.byField l) := by
      cases len with
      | none => simp [tlenRef] at hl
      | some tl =>
        cases tl with
        | lit n => simp [tlenRef] at hl
        | byField f => simp only [tlenRef, Option.some.injEq] at hl; subst hl; rfl
    subst hlen
    obtain ⟨dl, hdl, h1, h2⟩ := declaredLen_mem (show declaredLen Ds l = true from hok.1.2)
    exact ⟨dl, List.mem_append_left _ hdl, h1, h2⟩
  | .switch f cs, Ds, hok, d, h, l, hl => by
    simp only [declsI, List.mem_singleton] at h; subst h; cases hl
  | .chunked b, Ds, hok, d, h, l, hl => by
    rw [declsI] at h ⊢
    rw [okI] at hok
    exact okL_scope b Ds hok d h l hl
  | .const _ _, _, _, d, h, _, _ => by simp [declsI] at h
  | .dummy _ _, _, _, d, h, _, _ => by simp [declsI] at h
  | .brk, _, _, d, h, _, _ => by simp [declsI] at h
theorem okL_scope : ∀ (is : List TInstr) (Ds : List Decl), okL Ds is = true → ∀ d ∈ declsL is, ∀ l, d.lenOf = some l →
    ∃ dl ∈ Ds ++ declsL is, dl.name = l ∧ dl.kind.isLen = true
  | [], _, _, d, h, _, _ => by simp [declsL] at h
  | i :: rest, Ds, hok, d, h, l, hl => by
    rw [okL, Bool.and_eq_true] at hok
    rw [declsL, List.mem_append] at h
    rw [declsL]
    rcases h with h | h
    · obtain ⟨dl, hdl, h1, h2⟩ := okI_scope i Ds hok.1 d h l hl
      refine ⟨dl, ?_, h1, h2⟩
      rw [← List.append_assoc]; exact List.mem_append_left _ hdl
    · obtain ⟨dl, hdl, h1, h2⟩ := okL_scope rest (Ds ++ declsI i) hok.2 d h l hl
      refine ⟨dl, ?_, h1, h2⟩
      rw [← List.append_assoc]; exact hdl
end

mutual
theorem lenRefI_decl : ∀ (i : TInstr) (q r : String), lenRefI i q = some r →
    ∃ d ∈ declsI i, d.name = q ∧ d.kind.isLen = true
  | .length n k off opt ref, q, r, h => by
    rw [lenRefI] at h
    split at h
    · rename_i hnq
      exact ⟨_, by rw [declsI]; exact List.mem_singleton.2 rfl, by simpa using hnq, rfl⟩
    · cases h
  | .chunked b, q, r, h => by
    rw [lenRefI] at h; rw [declsI]; exact lenRefL_decl b q r h
  | .field _ _ _, q, r, h => by simp [lenRefI] at h
  | .const _ _, q, r, h => by simp [lenRefI] at h
  | .namedConst _ _ _ _, q, r, h => by simp [lenRefI] at h
  | .array _ _ _ _ _ _ _, q, r, h => by simp [lenRefI] at h
  | .dummy _ _, q, r, h => by simp [lenRefI] at h
  | .switch _ _, q, r, h => by simp [lenRefI] at h
  | .brk, q, r, h => by simp [lenRefI] at h
theorem lenRefL_decl : ∀ (is : List TInstr) (q r : String), lenRefL is q = some r →
    ∃ d ∈ declsL is, d.name = q ∧ d.kind.isLen = true
  | [], q, r, h => by simp [lenRefL] at h
  | i :: rest, q, r, h => by
    rw [lenRefL] at h
    rw [declsL]
    cases hi : lenRefI i q with
    | some x =>
      obtain ⟨d, hd, h1, h2⟩ := lenRefI_decl i q x hi
      exact ⟨d, List.mem_append_left _ hd, h1, h2⟩
    | none =>
      rw [hi] at h
      obtain ⟨d, hd, h1, h2⟩ := lenRefL_decl rest q r h
      exact ⟨d, List.mem_append_right _ hd, h1, h2⟩
end

/-- the side conditions give the static facts `construct_eq` needs -/
theorem declsOK_of_bodyOK {b : List TInstr} (h : bodyOK b = true) : DeclsOK (declsL b) (lenRefOf b) := by
  unfold bodyOK at h
  rw [Bool.and_eq_true, Bool.and_eq_true, decide_eq_true_eq] at h
  obtain ⟨⟨hok, hnd⟩, hlr⟩ := h
  have hnodup : ((declsL b).map (·.name)).Nodup := (declNames_sublist_L b).nodup hnd
  have hlenKind : ∀ d ∈ declsL b, ∀ l, d.lenOf = some l → d.kind.isLen = false ∧ d.kind ≠ .data ∧
      ∃ dl ∈ declsL b, dl.name = l ∧ dl.kind.isLen = true := by
    intro d hd l hl
    obtain ⟨h1, h2⟩ := lenOf_kind_L b d hd l hl
    obtain ⟨dl, hdl, h3, h4⟩ := okL_scope b [] hok d hd l hl
    exact ⟨h1, h2, dl, by simpa using hdl, h3, h4⟩
  -- the referencing item of a length field
  unfold lenRefsOK at hlr
  rw [List.all_eq_true] at hlr
  have hrefs : ∀ d ∈ declsL b, d.kind.isLen = true → ∃ d', (declsL b).filter (fun d' => d'.lenOf == some d.name) = [d'] ∧
      lenRefL b d.name = some d'.name := by
    intro d hd hk
    have := hlr d hd
    rw [if_pos hk] at this
    split at this
    · rename_i d' hf
      exact ⟨d', hf, by simpa using this⟩
    · cases this
  refine ⟨hnodup, hlenKind, ?_, ?_, ?_⟩
  · intro d1 h1 d2 h2 l hl1 hl2
    obtain ⟨_, _, dl, hdl, hdn, hdk⟩ := hlenKind d1 h1 l hl1
    obtain ⟨d', hf, _⟩ := hrefs dl hdl hdk
    rw [hdn] at hf
    have m1 : d1 ∈ (declsL b).filter (fun d' => d'.lenOf == some l) :=
      List.mem_filter.2 ⟨h1, by simp [hl1]⟩
    have m2 : d2 ∈ (declsL b).filter (fun d' => d'.lenOf == some l) :=
      List.mem_filter.2 ⟨h2, by simp [hl2]⟩
    rw [hf, List.mem_singleton] at m1 m2
    rw [m1, m2]
  · intro d hd hk
    obtain ⟨d', hf, hr⟩ := hrefs d hd hk
    have m : d' ∈ (declsL b).filter (fun d' => d'.lenOf == some d.name) := by rw [hf]; exact List.mem_singleton.2 rfl
    obtain ⟨m1, m2⟩ := List.mem_filter.1 m
    exact ⟨d', m1, by simpa using m2, by rw [← lenRefL_eq]; exact hr⟩
  · intro d hd hk
    cases hq : lenRefOf b d.name with
    | none => rfl
    | some r =>
      rw [← lenRefL_eq] at hq
      obtain ⟨dl, hdl, h1, h2⟩ := lenRefL_decl b d.name r hq
      have := name_inj hnodup hdl hd h1
      subst this
      rw [hk] at h2; cases h2

end EoVerif.Gen.DeConform
