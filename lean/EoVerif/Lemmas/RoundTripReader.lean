import EoVerif.Spec.Protocol
import EoVerif.Lemmas.Reader
/-!
# Round trip at the level of the declarative semantics — abstract-reader lemmas

Prefix-parsing facts about `AReader` that hold in **both** modes: a reader positioned after `A` in
`A ++ b ++ post` reads `b` back (non-chunked: always; chunked: when the current chunk is "clean",
i.e. there is no break byte between `chunkStart` and the position, and `b` holds no break byte),
and sees `remaining = |b|` when `post` ends the segment.
-/
namespace EoVerif.Spec.RT
open EoVerif

/-- no break byte between the start of the current chunk and the position -/
def Clean (r : AReader) : Prop :=
  r.chunkStart ≤ r.pos ∧ 0xFF ∉ (r.data.take r.pos).drop r.chunkStart

/-- what follows ends the current segment: end of data, or (chunked mode) a break byte -/
def End (ch : Bool) (post : Bytes) : Prop :=
  post = [] ∨ (ch = true ∧ ∃ t, post = 0xFF :: t)

theorem End.mono {post : Bytes} (h : End false post) (ch : Bool) : End ch post := by
  rcases h with h | ⟨h, _⟩
  · exact Or.inl h
  · cases h

theorem End.nil (ch : Bool) : End ch [] := Or.inl rfl

theorem End.brk (t : Bytes) : End true (0xFF :: t) := Or.inr ⟨rfl, t, rfl⟩

/-! ### `findFrom` over a clean prefix -/

theorem findFrom_skip (b Y : Bytes) (i : Nat) (hff : 0xFF ∉ b) :
    Reader.findFrom (b ++ Y) i = Reader.findFrom Y (i + b.length) := by
  induction b generalizing i with
  | nil => simp
  | cons x xs ih =>
    simp only [List.mem_cons, not_or] at hff
    have hx : x ≠ 0xFF := fun e => hff.1 e.symm
    simp only [List.cons_append, Reader.findFrom, if_neg hx, ih (i + 1) hff.2, List.length_cons]
    congr 1; omega

theorem findFrom_end (ch : Bool) (post : Bytes) (i : Nat) (h : End ch post) :
    Reader.findFrom post i = i := by
  rcases h with rfl | ⟨_, t, rfl⟩ <;> simp [Reader.findFrom]

/-- the break of a clean reader positioned after `A`, with `X` ahead -/
theorem brk_clean (r : AReader) (A X : Bytes) (hd : r.data = A ++ X) (hp : r.pos = A.length)
    (hc : Clean r) : r.brk = Reader.findFrom X A.length := by
  obtain ⟨h1, h2⟩ := hc
  rw [hd, hp, List.take_left' rfl] at h2
  rw [hp] at h1
  unfold AReader.brk
  have hle : r.chunkStart ≤ r.data.length := by rw [hd, List.length_append]; omega
  rw [if_pos hle, hd, List.drop_append_of_le_length h1, findFrom_skip _ _ _ h2, List.length_drop]
  congr 1; omega

/-- remaining bytes of the current segment when `b ++ post` is ahead -/
theorem remaining_ge (r : AReader) (A b post : Bytes) (hd : r.data = A ++ b ++ post)
    (hp : r.pos = A.length) (hc : r.chunked = true → Clean r ∧ 0xFF ∉ b) :
    b.length ≤ r.remaining := by
  unfold AReader.remaining
  cases hch : r.chunked with
  | false =>
    simp only [Bool.false_eq_true, if_false, hd, hp, List.length_append]; omega
  | true =>
    obtain ⟨hcl, hff⟩ := hc hch
    have hb := brk_clean r A (b ++ post) (by rw [hd, List.append_assoc]) hp hcl
    rw [findFrom_skip _ _ _ hff] at hb
    have := Reader.findFrom_ge post (A.length + b.length)
    simp only [if_true, hp, hb]; omega

theorem remaining_end (r : AReader) (A b post : Bytes) (hd : r.data = A ++ b ++ post)
    (hp : r.pos = A.length) (hc : r.chunked = true → Clean r ∧ 0xFF ∉ b)
    (he : End r.chunked post) : r.remaining = b.length := by
  unfold AReader.remaining
  cases hch : r.chunked with
  | false =>
    rw [hch] at he
    rcases he with rfl | ⟨h, _⟩
    · simp only [Bool.false_eq_true, if_false, hd, hp, List.length_append, List.length_nil]; omega
    · cases h
  | true =>
    obtain ⟨hcl, hff⟩ := hc hch
    have hb := brk_clean r A (b ++ post) (by rw [hd, List.append_assoc]) hp hcl
    rw [findFrom_skip _ _ _ hff, findFrom_end _ _ _ he] at hb
    simp only [if_true, hp, hb]; omega

/-- **prefix parsing**: the bytes `b` ahead are read back exactly -/
theorem read_exact (r : AReader) (A b post : Bytes) (hd : r.data = A ++ b ++ post)
    (hp : r.pos = A.length) (hc : r.chunked = true → Clean r ∧ 0xFF ∉ b) :
    r.read b.length = ({ r with pos := A.length + b.length }, b) := by
  have hge := remaining_ge r A b post hd hp hc
  unfold AReader.read
  simp only [Nat.min_eq_left hge, hp]
  rw [hd, List.append_assoc, List.drop_left, List.take_left]

theorem read_exact' (r : AReader) (A b post : Bytes) (n : Nat) (hn : n = b.length)
    (hd : r.data = A ++ b ++ post) (hp : r.pos = A.length)
    (hc : r.chunked = true → Clean r ∧ 0xFF ∉ b) :
    r.read n = ({ r with pos := A.length + b.length }, b) := by
  subst hn; exact read_exact r A b post hd hp hc

/-- the reader stays clean after reading break-free bytes -/
theorem clean_advance (r : AReader) (A b post : Bytes) (hd : r.data = A ++ b ++ post)
    (hp : r.pos = A.length) (hc : Clean r) (hff : 0xFF ∉ b) :
    Clean { r with pos := A.length + b.length } := by
  obtain ⟨h1, h2⟩ := hc
  rw [hp] at h1
  rw [hd, hp, List.append_assoc, List.take_left' rfl] at h2
  refine ⟨by show r.chunkStart ≤ A.length + b.length; omega, ?_⟩
  show 0xFF ∉ (r.data.take (A.length + b.length)).drop r.chunkStart
  have e : A.length + b.length = (A ++ b).length := by rw [List.length_append]
  rw [hd, e, List.take_left' rfl, List.drop_append_of_le_length h1]
  intro hm
  rcases List.mem_append.1 hm with hm | hm
  · exact h2 hm
  · exact hff hm

/-- `next_chunk` at a break byte -/
theorem nextChunk_at (r : AReader) (A t : Bytes) (hd : r.data = A ++ 0xFF :: t)
    (hp : r.pos = A.length) (hch : r.chunked = true) (hc : Clean r) :
    nextChunkA r = { r with pos := A.length + 1, chunkStart := A.length + 1 } := by
  have hb := brk_clean r A (0xFF :: t) hd hp hc
  simp only [Reader.findFrom, if_true] at hb
  have hlen : r.data.length = A.length + (t.length + 1) := by
    rw [hd, List.length_append, List.length_cons]
  unfold nextChunkA AReader.step
  simp only [hch, Bool.not_true, Bool.false_eq_true, if_false, hb]
  rw [if_pos (by omega)]

end EoVerif.Spec.RT
