import EoVerif.Lemmas.DeConformWalk
import EoVerif.Lemmas.ConformTop
set_option linter.unusedVariables false
/-! From `compile` / `elabSpec` down to the class bodies, for the deserializer (C03b). -/
namespace EoVerif.Gen.DeConform
open EoVerif EoVerif.Gen EoVerif.Spec EoVerif.Gen.Conform EoVerif.Gen.WF

/-- a resolved string type without a `length=` has no length -/
theorem getType_str_len {defs : Defs} {fuel : Nat} {s : String} {e : Bool} {l0 : Option String}
    (h : getType defs (fuel + 2) s none = .ok (.str e l0)) : l0 = none := by
  rw [getType_none] at h
  obtain ⟨under, hu, hr, hf⟩ := createType_ok h
  unfold resultOf at hr
  split at hr
  · cases hr
  · repeat' split at hr
    all_goals first | (cases hr; rfl) | cases hr | skip
    unfold customOf at hr
    repeat' split at hr
    all_goals first | cases hr | skip
    · obtain ⟨_, _, _, _, he⟩ := createEnum_ok hr; cases he
    · obtain ⟨_, _, _, he, _⟩ := createStruct_ok hr; cases he

/-- the generated class carries the members of the generation data -/
def IrOf (d : Data) (ir : ClassIR) : Prop :=
  ir.name = d.className ∧ ir.de = d.de ∧ ir.fields = d.fields ∧ ir.params = d.params ∧
  ir.initBody = d.initBody ∧ ir.deArgs = d.deArgs

theorem genPacket_spec_de {tf : TypeEnv} {dir : String} {p : Xml} {r : List ClassIR × GenFile}
    (h : genPacket tf dir p = .ok r) :
    ∃ ctx d c, genBody tf {} { className := pktName dir p } p.children true = .ok (ctx, d) ∧
      r.1 = c :: d.aux ∧ IrOf d c := by
  unfold genPacket at h
  extract_lets jp at h
  obtain ⟨suffix, hsuf, h⟩ : ∃ s, s = (if dir == "net/client" then "ClientPacket" else "ServerPacket") ∧
      jp s = .ok r := by
    split at h
    · rename_i hd; exact ⟨_, by rw [if_pos hd], h⟩
    · rename_i hd
      split at h
      · exact ⟨_, by rw [if_neg hd], h⟩
      · simp only [throw_bind_ok] at h
  simp only [jp] at h
  obtain ⟨fam, hfam, h⟩ := except_bind_ok h
  obtain ⟨act, hact, h⟩ := except_bind_ok h
  have hname : fam ++ act ++ suffix = pktName dir p := by
    unfold pktName; rw [getReq_ok hfam, getReq_ok hact, hsuf]; rfl
  obtain ⟨ft, _, h⟩ := except_bind_ok h
  split at h
  · obtain ⟨fvals, _, h⟩ := except_bind_ok h
    obtain ⟨at_, _, h⟩ := except_bind_ok h
    split at h
    · obtain ⟨avals, _, h⟩ := except_bind_ok h
      split at h
      · obtain ⟨fv, _, h⟩ := except_bind_ok h
        split at h
        · obtain ⟨av, _, h⟩ := except_bind_ok h
          obtain ⟨cs, hcs, h⟩ := except_bind_ok h
          rw [hname] at hcs
          obtain ⟨ctx, d, hb, rfl⟩ := genObject_spec hcs
          simp only [pure, Except.pure, Except.ok.injEq] at h
          subst h
          exact ⟨ctx, d, _, hb, rfl, rfl, rfl, rfl, rfl, rfl, rfl⟩
        · simp only [throw_bind_ok] at h
      · simp only [throw_bind_ok] at h
    · simp only [throw_bind_ok] at h
  · simp only [throw_bind_ok] at h

theorem compile_spec_de {files : List ProtoFile} {out : GenOutput} (hc : compile files = .ok out) :
    ∃ defs, indexFiles files [] = .ok defs ∧ DefsInv defs (allDefs files) ∧
      (∀ p ∈ srcs files, ∃ ctx d ir,
        genBody (getType defs (4 * defs.length + 16)) {} { className := p.1 } p.2.children true = .ok (ctx, d) ∧
        ir ∈ out.classes ∧ IrOf d ir ∧ ∀ a ∈ d.aux, a ∈ out.classes) := by
  unfold compile at hc
  simp only [bind_ok_iff, pure_ok_iff] at hc
  obtain ⟨defs, hdefs, outs, houts, rfl⟩ := hc
  have hinv : DefsInv defs (allDefs files) := by
    have := indexFiles_inv files [] defs [] ⟨by simp, (fun p hp => by cases hp), (fun q hq => by cases hq),
      (fun p hp => by cases hp)⟩ hdefs
    simpa using this
  have hd : DefsOK defs := hinv.named
  obtain ⟨_, hm1, hm2⟩ := mapM'_spec houts
  have hfuel : 4 * defs.length + 16 = (4 * defs.length + 14) + 2 := rfl
  refine ⟨defs, hdefs, hinv, ?_⟩
  intro p hp
  unfold srcs at hp
  rw [List.mem_append] at hp
  rcases hp with hp | hp
  · unfold specStructs at hp
    rw [List.mem_filterMap] at hp
    obtain ⟨s, hs, hsn⟩ := hp
    rw [List.mem_flatten] at hs
    obtain ⟨_, hl, hs⟩ := hs
    obtain ⟨f, hf, rfl⟩ := List.mem_map.1 hl
    obtain ⟨o, ho, hgf⟩ := hm2 f hf
    obtain ⟨structs, packets, hss, hpp, hcls⟩ := genFile_spec hgf
    obtain ⟨r, hr, hgs⟩ := (mapM'_spec hss).2.2 s hs
    rw [hfuel] at hgs
    obtain ⟨n, ctx, d, hn, hb, hr1⟩ := genStruct_spec hd hgs
    rw [hn] at hsn
    simp only [Option.map_some, Option.some.injEq] at hsn
    subst hsn
    have hall : ∀ a ∈ r.1, a ∈ (List.map (fun x => x.classes) outs).flatten := by
      intro a ha
      simp only [List.mem_flatten, List.mem_map]
      refine ⟨_, ⟨o, ho, rfl⟩, ?_⟩
      rw [hcls]
      apply List.mem_append_left
      simp only [List.mem_flatten, List.mem_map]
      exact ⟨_, ⟨r, hr, rfl⟩, ha⟩
    rw [hr1] at hall
    exact ⟨ctx, d, d.toClass ctx, hb, hall _ (List.mem_cons_self ..), ⟨rfl, rfl, rfl, rfl, rfl, rfl⟩,
      fun a ha => hall a (List.mem_cons_of_mem _ ha)⟩
  · unfold specPackets at hp
    rw [List.mem_flatten] at hp
    obtain ⟨_, hl, hp⟩ := hp
    obtain ⟨f, hf, rfl⟩ := List.mem_map.1 hl
    obtain ⟨x, hx, rfl⟩ := List.mem_map.1 hp
    obtain ⟨o, ho, hgf⟩ := hm2 f hf
    obtain ⟨structs, packets, hss, hpp, hcls⟩ := genFile_spec hgf
    obtain ⟨r, hr, hgp⟩ := (mapM'_spec hpp).2.2 x hx
    obtain ⟨ctx, d, c, hb, hr1, hir⟩ := genPacket_spec_de hgp
    have hall : ∀ a ∈ r.1, a ∈ (List.map (fun x => x.classes) outs).flatten := by
      intro a ha
      simp only [List.mem_flatten, List.mem_map]
      refine ⟨_, ⟨o, ho, rfl⟩, ?_⟩
      rw [hcls]
      apply List.mem_append_right
      simp only [List.mem_flatten, List.mem_map]
      exact ⟨_, ⟨r, hr, rfl⟩, ha⟩
    rw [hr1] at hall
    exact ⟨ctx, d, c, hb, hall _ (List.mem_cons_self ..), hir, fun a ha => hall a (List.mem_cons_of_mem _ ha)⟩

/-- the generated class against the body, from the walk -/
theorem classRel_of_ir {lex : Bool} {d0 d' : Data} {b : List TInstr} {ir : ClassIR}
    (h : DStepAll lex d0 d' b) (hir : IrOf d' ir) (h1 : d0.de = []) (h2 : d0.fields = []) (h3 : d0.params = [])
    (h4 : d0.deArgs = []) (h5 : d0.initBody = []) : ClassRel lex b ir := by
  obtain ⟨ops, I, recs, e1, p1, f1, q1, a1, i1, k1, _⟩ := h
  obtain ⟨_, g1, g2, g3, g4, g5⟩ := hir
  rw [h1] at e1 p1
  refine ⟨?_, ?_, ?_, ?_, ?_⟩
  · rw [g1, e1, List.nil_append]; exact p1
  · rw [g2, f1, h2, List.nil_append]
  · rw [g3, q1, h3, List.nil_append]
  · rw [g5, a1, h4, List.nil_append]
  · rw [g4, i1, h5, List.nil_append]; exact k1

end EoVerif.Gen.DeConform
