import EoVerif.Model.GenExec
/-! Helper lemmas about `compile` (invariants of the generation `Data` along the instruction walk). -/
namespace EoVerif.Gen

/-- the class predicate of C19 (definitionally the same as `ClassOK` in `Props/C19.lean`) -/
def ClassOK' (c : ClassIR) : Prop :=
  c.setters = [] ∧
  "byte_size" ∈ c.getters ∧
  (∀ f ∈ c.fields, f.kind ≠ .length → f.name ∈ c.getters) ∧
  (∀ f ∈ c.fields, f.isArray = true → ∃ opt, InitStmt.assign f.name (.tupleOf f.name opt) ∈ c.initBody)

/-- the invariant of the generation data -/
structure DataOK (d : Data) : Prop where
  getters : ∀ f ∈ d.fields, f.kind ≠ .length → f.name ∈ d.getters
  arrays : ∀ f ∈ d.fields, f.isArray = true →
    ∃ opt, InitStmt.assign f.name (.tupleOf f.name opt) ∈ d.initBody
  aux : ∀ c ∈ d.aux, ClassOK' c

theorem bind_ok_iff {ε α β} (x : Except ε α) (f : α → Except ε β) (b : β) :
    (x >>= f) = .ok b ↔ ∃ a, x = .ok a ∧ f a = .ok b := by
  cases x <;> simp [bind, Except.bind]

theorem pure_ok_iff {ε α} (a b : α) : (pure a : Except ε α) = .ok b ↔ a = b := by
  simp [pure, Except.pure]

theorem throw_ne_ok {ε α} (e : ε) (b : α) : (throw e : Except ε α) = .ok b ↔ False := by
  simp [throw, throwThe, MonadExceptOf.throw]

theorem throw_bind_ok {ε α β} (e : ε) (k : α → Except ε β) (b : β) :
    ((throw e : Except ε α) >>= k) = .ok b ↔ False := by
  simp [throw, throwThe, MonadExceptOf.throw, bind, Except.bind]

theorem pure_bind_ok {ε α β} (a : α) (k : α → Except ε β) :
    ((pure a : Except ε α) >>= k) = k a := rfl

theorem DataOK.init (n : String) : DataOK { className := n } :=
  ⟨by simp, by simp, by simp⟩

/-- only `fields`, `getters`, `initBody`, `aux` matter -/
theorem DataOK.congr {d d' : Data} (h : DataOK d) (hf : d'.fields = d.fields)
    (hg : d'.getters = d.getters) (hi : d'.initBody = d.initBody) (ha : d'.aux = d.aux) : DataOK d' :=
  ⟨by rw [hf, hg]; exact h.getters, by rw [hf, hi]; exact h.arrays, by rw [ha]; exact h.aux⟩

/-- one growth step -/
theorem DataOK.step {d d' : Data} (h : DataOK d) (fs : List FieldDecl)
    (hf : d'.fields = d.fields ++ fs)
    (hg : ∀ x ∈ d.getters, x ∈ d'.getters)
    (hi : ∀ x ∈ d.initBody, x ∈ d'.initBody)
    (h1 : ∀ f ∈ fs, f.kind ≠ .length → f.name ∈ d'.getters)
    (h2 : ∀ f ∈ fs, f.isArray = true →
      ∃ opt, InitStmt.assign f.name (.tupleOf f.name opt) ∈ d'.initBody)
    (ha : ∀ c ∈ d'.aux, c ∈ d.aux ∨ ClassOK' c) : DataOK d' := by
  refine ⟨?_, ?_, ?_⟩
  · intro f hfm hk
    rw [hf, List.mem_append] at hfm
    rcases hfm with hfm | hfm
    · exact hg _ (h.getters f hfm hk)
    · exact h1 f hfm hk
  · intro f hfm hk
    rw [hf, List.mem_append] at hfm
    rcases hfm with hfm | hfm
    · obtain ⟨opt, ho⟩ := h.arrays f hfm hk
      exact ⟨opt, hi _ ho⟩
    · exact h2 f hfm hk
  · intro c hc
    rcases ha c hc with hc | hc
    · exact h.aux c hc
    · exact hc

theorem DataOK.fieldStep {d d' : Data} (hd : DataOK d) (name : String) (kind : FieldKind) (arr : Bool)
    (E : InitExpr)
    (hf : d'.fields = d.fields ++ [⟨name, kind, arr⟩])
    (hg : d'.getters = d.getters ++ [name])
    (hi : ∀ x, x ∈ d.initBody ∨ x = .assign name E → x ∈ d'.initBody)
    (ha : d'.aux = d.aux)
    (harr : arr = true → ∃ opt, E = .tupleOf name opt) : DataOK d' := by
  refine hd.step [⟨name, kind, arr⟩] hf ?_ ?_ ?_ ?_ ?_
  · intro x hx; rw [hg]; exact List.mem_append_left _ hx
  · intro x hx; exact hi x (Or.inl hx)
  · intro f hfm _
    rw [List.mem_singleton] at hfm; subst hfm
    rw [hg]; exact List.mem_append_right _ (List.mem_singleton.2 rfl)
  · intro f hfm hk
    rw [List.mem_singleton] at hfm; subst hfm
    obtain ⟨opt, ho⟩ := harr hk
    exact ⟨opt, hi _ (Or.inr (by rw [ho]))⟩
  · intro c hc; rw [ha] at hc; exact Or.inl hc

theorem DataOK.lengthStep {d d' : Data} (hd : DataOK d) (name : String)
    (hf : d'.fields = d.fields ++ [⟨name, .length, false⟩])
    (hg : d'.getters = d.getters)
    (hi : d'.initBody = d.initBody)
    (ha : d'.aux = d.aux) : DataOK d' := by
  refine hd.step [⟨name, .length, false⟩] hf ?_ ?_ ?_ ?_ ?_
  · intro x hx; rw [hg]; exact hx
  · intro x hx; rw [hi]; exact hx
  · intro f hfm hk
    rw [List.mem_singleton] at hfm; subst hfm
    exact absurd rfl hk
  · intro f hfm hk
    rw [List.mem_singleton] at hfm; subst hfm
    cases hk
  · intro c hc; rw [ha] at hc; exact Or.inl hc

theorem generateField_ok {tf : TypeEnv} {ctx ctx' : Ctx} {d d' : Data} {p : FP} (hd : DataOK d)
    (hp : p.arrayField = true → p.lengthField = false ∧ p.hardcoded = none)
    (h : generateField tf ctx d p = .ok (ctx', d')) : DataOK d' := by
  unfold generateField at h
  split at h
  · simp only [pure_ok_iff, Prod.mk.injEq] at h
    rw [← h.2]; exact hd
  · rename_i name hn
    simp only [bind_ok_iff] at h
    obtain ⟨t, ht, h⟩ := h
    by_cases hl : p.lengthField = true
    · have harr : p.arrayField = false := by
        cases h' : p.arrayField
        · rfl
        · have := (hp h').1; rw [hl] at this; cases this
      simp only [hl, if_true, harr, pure_ok_iff, Prod.mk.injEq] at h
      obtain ⟨_, rfl⟩ := h
      exact hd.lengthStep name rfl rfl rfl rfl
    · have harr : p.arrayField = true → ∃ opt,
          (match p.hardcoded with
            | none => if p.arrayField = true then InitExpr.tupleOf name p.optional else InitExpr.param name
            | some h => match t with
              | Ty.str _ _ => InitExpr.strLit h
              | Ty.bool _ => InitExpr.boolLit (h == "true")
              | _ => InitExpr.pasted h) = .tupleOf name opt := by
        intro h'
        refine ⟨p.optional, ?_⟩
        rw [(hp h').2]; simp only [h', if_true]
      have hl' : p.lengthField = false := by simpa using hl
      simp only [hl', Bool.false_eq_true, if_false] at h
      split at h
      · split at h
        · split at h
          · simp only [pure_ok_iff, Prod.mk.injEq] at h
            obtain ⟨_, rfl⟩ := h
            refine hd.fieldStep name _ _ _ rfl rfl ?_ rfl harr
            intro x hx
            rcases hx with hx | hx
            · exact List.mem_append_left _ (List.mem_append_left _ hx)
            · subst hx
              exact List.mem_append_left _ (List.mem_append_right _ (List.mem_singleton.2 rfl))
          · simp only [throw_ne_ok] at h
        · simp only [pure_ok_iff, Prod.mk.injEq] at h
          obtain ⟨_, rfl⟩ := h
          refine hd.fieldStep name _ _ _ rfl rfl ?_ rfl harr
          intro x hx
          rcases hx with hx | hx
          · exact List.mem_append_left _ hx
          · subst hx
            exact List.mem_append_right _ (List.mem_singleton.2 rfl)
      · simp only [pure_ok_iff, Prod.mk.injEq] at h
        obtain ⟨_, rfl⟩ := h
        refine hd.fieldStep name _ _ _ rfl rfl ?_ rfl harr
        intro x hx
        rcases hx with hx | hx
        · exact List.mem_append_left _ hx
        · subst hx
          exact List.mem_append_right _ (List.mem_singleton.2 rfl)

/-- `fields`, `getters`, `initBody`, `aux` agree -/
def SameCore (d d' : Data) : Prop :=
  d'.fields = d.fields ∧ d'.getters = d.getters ∧ d'.initBody = d.initBody ∧ d'.aux = d.aux

theorem DataOK.ofSameCore {d d' : Data} (h : DataOK d) (hs : SameCore d d') : DataOK d' :=
  h.congr hs.1 hs.2.1 hs.2.2.1 hs.2.2.2

theorem generateSerialize_core {tf : TypeEnv} {ctx : Ctx} {d d' : Data} {p : FP}
    (h : generateSerialize tf ctx d p = .ok d') : SameCore d d' := by
  unfold generateSerialize at h
  cases hA : p.arrayField <;>
    simp only [hA, Bool.false_eq_true, if_false, if_true, bind_ok_iff, pure_ok_iff] at h
  all_goals
    obtain ⟨_, _, _, _, _, _, _, _, rfl⟩ := h
    exact ⟨rfl, rfl, rfl, rfl⟩

theorem generateDeserialize_core {tf : TypeEnv} {ctx : Ctx} {d d' : Data} {p : FP}
    (h : generateDeserialize tf ctx d p = .ok d') : SameCore d d' := by
  unfold generateDeserialize at h
  cases hA : p.arrayField <;>
    simp only [hA, Bool.false_eq_true, if_false, if_true, bind_ok_iff, pure_ok_iff] at h
  all_goals
    obtain ⟨_, _, _, _, _, _, rfl⟩ := h
    exact ⟨rfl, rfl, rfl, rfl⟩

theorem generateAll_ok {tf : TypeEnv} {ctx ctx' : Ctx} {d d' : Data} {p : FP} (hd : DataOK d)
    (hp : p.arrayField = true → p.lengthField = false ∧ p.hardcoded = none)
    (h : generateAll tf ctx d p = .ok (ctx', d')) : DataOK d' := by
  unfold generateAll at h
  simp only [bind_ok_iff, pure_ok_iff] at h
  obtain ⟨_, _, ⟨c1, d1⟩, h1, d2, h2, d3, h3, h4⟩ := h
  simp only [Prod.mk.injEq] at h4
  obtain ⟨_, rfl⟩ := h4
  exact ((generateField_ok hd hp h1).ofSameCore (generateSerialize_core h2)).ofSameCore
    (generateDeserialize_core h3)

theorem genFieldInstr_ok {tf : TypeEnv} {ctx ctx' : Ctx} {d d' : Data} {e : Xml} (hd : DataOK d)
    (h : genFieldInstr tf ctx d e = .ok (ctx', d')) : DataOK d' := by
  unfold genFieldInstr at h
  dsimp only at h
  split at h
  · simp only [bind_ok_iff, throw_ne_ok, false_and, exists_false] at h
  · simp only [bind_ok_iff, pure_ok_iff, Prod.mk.injEq] at h
    obtain ⟨ty, _, text, _, ⟨c1, d1⟩, h1, _, rfl⟩ := h
    exact generateAll_ok hd (by intro h; cases h) h1

theorem genArrayInstr_ok {tf : TypeEnv} {ctx ctx' : Ctx} {d d' : Data} {e : Xml} (hd : DataOK d)
    (h : genArrayInstr tf ctx d e = .ok (ctx', d')) : DataOK d' := by
  unfold genArrayInstr at h
  dsimp only at h
  split at h
  · simp only [bind_ok_iff, throw_ne_ok, false_and, exists_false] at h
  · split at h
    · simp only [bind_ok_iff, throw_ne_ok, false_and, exists_false] at h
    · simp only [bind_ok_iff, pure_ok_iff, Prod.mk.injEq] at h
      obtain ⟨name, _, ty, _, ⟨c1, d1⟩, h1, _, rfl⟩ := h
      exact generateAll_ok hd (by intro _; exact ⟨rfl, rfl⟩) h1

theorem genLengthInstr_ok {tf : TypeEnv} {ctx ctx' : Ctx} {d d' : Data} {e : Xml} (hd : DataOK d)
    (h : genLengthInstr tf ctx d e = .ok (ctx', d')) : DataOK d' := by
  unfold genLengthInstr at h
  dsimp only at h
  split at h
  · simp only [bind_ok_iff, throw_ne_ok, false_and, exists_false] at h
  · simp only [bind_ok_iff, pure_ok_iff, Prod.mk.injEq] at h
    obtain ⟨name, _, ty, _, off, _, ⟨c1, d1⟩, h1, _, rfl⟩ := h
    exact generateAll_ok hd (by intro h; cases h) h1

theorem genDummyInstr_ok {tf : TypeEnv} {ctx ctx' : Ctx} {d d' : Data} {e : Xml} (hd : DataOK d)
    (h : genDummyInstr tf ctx d e = .ok (ctx', d')) : DataOK d' := by
  unfold genDummyInstr at h
  simp only [bind_ok_iff, pure_ok_iff, Prod.mk.injEq] at h
  obtain ⟨ty, _, text, _, _, _, d1, h1, d2, h2, _, rfl⟩ := h
  have s1 := generateSerialize_core h1
  have s2 := generateDeserialize_core h2
  refine hd.congr ?_ ?_ ?_ ?_
  · exact s2.1.trans s1.1
  · exact s2.2.1.trans s1.2.1
  · exact s2.2.2.1.trans s1.2.2.1
  · exact s2.2.2.2.trans s1.2.2.2

theorem DataOK.toClass {d : Data} (h : DataOK d) (ctx : Ctx) : ClassOK' (d.toClass ctx) := by
  refine ⟨rfl, ?_, ?_, ?_⟩
  · exact List.mem_append_right _ (List.mem_singleton.2 rfl)
  · intro f hf hk; exact List.mem_append_left _ (h.getters f hf hk)
  · exact h.arrays

mutual

theorem genInstruction_ok (tf : TypeEnv) : (x : Xml) → ∀ (ctx ctx' : Ctx) (d d' : Data), DataOK d →
    genInstruction tf ctx d x = .ok (ctx', d') → DataOK d'
  | .mk tag attrs text tail children => by
    intro ctx ctx' d d' hd h
    rw [genInstruction] at h
    by_cases h0 : ctx.reachedDummy = true
    · rw [if_pos h0] at h; cases h
    rw [if_neg h0] at h
    by_cases h1 : (tag == "field") = true
    · rw [if_pos h1] at h; exact genFieldInstr_ok hd h
    rw [if_neg h1] at h
    by_cases h2 : (tag == "array") = true
    · rw [if_pos h2] at h; exact genArrayInstr_ok hd h
    rw [if_neg h2] at h
    by_cases h3 : (tag == "length") = true
    · rw [if_pos h3] at h; exact genLengthInstr_ok hd h
    rw [if_neg h3] at h
    by_cases h4 : (tag == "dummy") = true
    · rw [if_pos h4] at h; exact genDummyInstr_ok hd h
    rw [if_neg h4] at h
    by_cases h5 : (tag == "switch") = true
    · rw [if_pos h5] at h
      split at h
      · cases h
      split at h
      · cases h
      dsimp only at h
      split at h
      · cases h
      rename_i fieldName _ _ _ _ _ d2 ro rd sc dc hc
      have hd2 := genCases_ok tf children _ _ _ _ _ _ _ _ _ ?_ hc
      · cases h
        dsimp only at hd2
        cases (children.any fun x => x.tag == "case") <;>
          cases (children.any fun c => c.tag == "case" && c.getBool "default") <;>
          exact hd2.congr rfl rfl rfl rfl
      · refine hd.fieldStep (fieldName ++ "_data") .caseData false (.param (fieldName ++ "_data"))
          rfl rfl ?_ rfl (by intro h; cases h)
        intro x hx
        rcases hx with hx | hx
        · exact List.mem_append_left _ hx
        · subst hx
          exact List.mem_append_right _ (List.mem_singleton.2 rfl)
    rw [if_neg h5] at h
    by_cases h6 : (tag == "chunked") = true
    · rw [if_pos h6] at h
      dsimp only at h
      split at h
      · cases h
      rename_i c2 d2 hc
      have hd2 := genBody_ok tf children _ _ _ _ _ ?_ hc
      · split at h <;> cases h
        · exact hd2.congr rfl rfl rfl rfl
        · exact hd2
      · split
        · exact hd.congr rfl rfl rfl rfl
        · exact hd
    rw [if_neg h6] at h
    by_cases h7 : (tag == "break") = true
    · rw [if_pos h7] at h
      split at h
      · cases h
      · cases h
        exact hd.congr rfl rfl rfl rfl
    rw [if_neg h7] at h
    cases h
    exact hd

theorem genBody_ok (tf : TypeEnv) : (l : List Xml) → ∀ (ctx ctx' : Ctx) (d d' : Data) (b : Bool), DataOK d →
    genBody tf ctx d l b = .ok (ctx', d') → DataOK d'
  | [] => by
    intro ctx ctx' d d' b hd h
    rw [genBody] at h
    cases h; exact hd
  | c :: cs => by
    intro ctx ctx' d d' b hd h
    rw [genBody] at h
    split at h
    · exact genBody_ok tf cs _ _ _ _ _ hd h
    · split at h
      · cases h
      · rename_i c1 d1 h1
        exact genBody_ok tf cs _ _ _ _ _ (genInstruction_ok tf c _ _ _ _ hd h1) h

theorem genCases_ok (tf : TypeEnv) : (l : List Xml) → ∀ (ctx : Ctx) (d : Data) (fn : String)
    (start ro rd : Bool) (sc : List SerCase) (dc : List DeCase)
    (res : Data × Bool × Bool × List SerCase × List DeCase), DataOK d →
    genCases tf ctx d fn l start ro rd sc dc = .ok res → DataOK res.1
  | [] => by
    intro ctx d fn start ro rd sc dc res hd h
    rw [genCases] at h
    cases h; exact hd
  | .mk ctag cattrs ctext ctail cchildren :: cs => by
    intro ctx d fn start ro rd sc dc res hd h
    rw [genCases] at h
    dsimp only at h
    by_cases h0 : (ctag != "case") = true
    · rw [if_pos h0] at h
      exact genCases_ok tf cs _ _ _ _ _ _ _ _ _ hd h
    rw [if_neg h0] at h
    split at h
    · cases h
    split at h
    · cases h
    rename_i cond _
    by_cases h1 : (ctx.field? fn).isNone = true
    · rw [if_pos h1] at h; cases h
    rw [if_neg h1] at h
    by_cases h2 : (!cchildren.any fun x => Xml.instructionTags.contains x.tag) = true
    · rw [if_pos h2] at h
      refine genCases_ok tf cs _ _ _ _ _ _ _ _ _ ?_ h
      exact hd.congr rfl rfl rfl rfl
    rw [if_neg h2] at h
    split at h
    · cases h
    rename_i caseCtx' cd hb
    have hcd := genBody_ok tf cchildren _ _ _ _ _ (DataOK.init _) hb
    refine genCases_ok tf cs _ _ _ _ _ _ _ _ _ ?_ h
    refine hd.step [] (List.append_nil _).symm (fun _ hx => hx) (fun _ hx => hx)
      (fun _ hx => by cases hx) (fun _ hx => by cases hx) ?_
    intro c hc
    dsimp only at hc
    rw [List.mem_append, List.mem_append, List.mem_singleton] at hc
    rcases hc with (hc | hc) | hc
    · exact Or.inl hc
    · subst hc; exact Or.inr (hcd.toClass _)
    · exact Or.inr (hcd.aux c hc)

end

theorem genObject_ok {tf : TypeEnv} {n : String} {body : Xml} {cs : List ClassIR}
    (h : genObject tf n body = .ok cs) : ∀ c ∈ cs, ClassOK' c := by
  unfold genObject at h
  split at h
  · cases h
  · rename_i ctx d hb
    cases h
    have hd := genBody_ok tf _ _ _ _ _ _ (DataOK.init _) hb
    intro c hc
    rcases List.mem_cons.1 hc with rfl | hc
    · exact hd.toClass _
    · exact hd.aux c hc

theorem genStruct_ok {tf : TypeEnv} {e : Xml} {r : List ClassIR × GenFile}
    (h : genStruct tf e = .ok r) : ∀ c ∈ r.1, ClassOK' c := by
  unfold genStruct at h
  simp only [bind_ok_iff] at h
  obtain ⟨n, _, t, _, h⟩ := h
  split at h
  · simp only [bind_ok_iff, pure_ok_iff] at h
    obtain ⟨cs, hcs, rfl⟩ := h
    exact genObject_ok hcs
  · simp only [throw_ne_ok] at h

theorem genPacket_ok {tf : TypeEnv} {dir : String} {e : Xml} {r : List ClassIR × GenFile}
    (h : genPacket tf dir e = .ok r) : ∀ c ∈ r.1, ClassOK' c := by
  unfold genPacket at h
  repeat' first
    | (rw [throw_bind_ok] at h; exact h.elim)
    | (rw [throw_ne_ok] at h; exact h.elim)
    | rw [pure_bind_ok] at h
    | (rw [bind_ok_iff] at h; obtain ⟨_, _, h⟩ := h)
    | split at h
  all_goals
    have hok := genObject_ok ‹genObject tf _ e = Except.ok _›
    rw [pure_ok_iff] at h
    subst h
    intro c' hc'
    rcases List.mem_cons.1 hc' with rfl | hc'
    · have h1 := hok _ (List.mem_cons_self ..)
      exact h1
    · exact hok c' (List.mem_cons_of_mem _ hc')

theorem mapM'_mem {α β} {f : α → Except GenErr β} : ∀ {l : List α} {r : List β},
    mapM' f l = .ok r → ∀ y ∈ r, ∃ x ∈ l, f x = .ok y
  | [], r, h, y, hy => by
    rw [mapM'] at h; cases h; cases hy
  | a :: as, r, h, y, hy => by
    rw [mapM'] at h
    split at h
    · cases h
    · rename_i b hb
      cases hm : mapM' f as with
      | error m => rw [hm] at h; cases h
      | ok bs =>
        rw [hm] at h
        cases h
        rcases List.mem_cons.1 hy with rfl | hy
        · exact ⟨a, List.mem_cons_self .., hb⟩
        · obtain ⟨x, hx, hfx⟩ := mapM'_mem hm y hy
          exact ⟨x, List.mem_cons_of_mem _ hx, hfx⟩

theorem genFile_ok {tf : TypeEnv} {f : ProtoFile} {o : GenOutput}
    (h : genFile tf f = .ok o) : ∀ c ∈ o.classes, ClassOK' c := by
  unfold genFile at h
  simp only [bind_ok_iff, pure_ok_iff] at h
  obtain ⟨enums, _, structs, hs, packets, hp, rfl⟩ := h
  intro c hc
  dsimp only at hc
  rw [List.mem_append, List.mem_flatten, List.mem_flatten] at hc
  rcases hc with ⟨l, hl, hc⟩ | ⟨l, hl, hc⟩
  · obtain ⟨r, hr, rfl⟩ := List.mem_map.1 hl
    obtain ⟨x, _, hx⟩ := mapM'_mem hs r hr
    exact genStruct_ok hx c hc
  · obtain ⟨r, hr, rfl⟩ := List.mem_map.1 hl
    obtain ⟨x, _, hx⟩ := mapM'_mem hp r hr
    exact genPacket_ok hx c hc

theorem compile_ok {files : List ProtoFile} {out : GenOutput}
    (h : compile files = .ok out) : ∀ c ∈ out.classes, ClassOK' c := by
  unfold compile at h
  simp only [bind_ok_iff, pure_ok_iff] at h
  obtain ⟨defs, _, outs, ho, rfl⟩ := h
  intro c hc
  dsimp only at hc
  rw [List.mem_flatten] at hc
  obtain ⟨l, hl, hc⟩ := hc
  obtain ⟨o, ho', rfl⟩ := List.mem_map.1 hl
  obtain ⟨x, _, hx⟩ := mapM'_mem ho o ho'
  exact genFile_ok hx c hc

/-- `runInit.go` only appends to the attribute list -/
theorem runInit_go_mono (args : List (String × Value)) : ∀ (body : List InitStmt)
    (attrs res : List (String × Value)), runInit.go args body attrs = .ok res → ∀ p ∈ attrs, p ∈ res
  | [], attrs, res, h, p, hp => by
    rw [runInit.go] at h; cases h; exact hp
  | .assign a e :: rest, attrs, res, h, p, hp => by
    rw [runInit.go.eq_def] at h
    dsimp only at h
    repeat' first
      | exact runInit_go_mono args rest _ _ h p (List.mem_append_left _ hp)
      | split at h
      | cases h
  | .lenOf l o opt :: rest, attrs, res, h, p, hp => by
    rw [runInit.go.eq_def] at h
    dsimp only at h
    repeat' first
      | exact runInit_go_mono args rest _ _ h p (List.mem_append_left _ hp)
      | split at h
      | cases h

theorem runInit_tupleOf (name : String) (opt : Bool) (args attrs : List (String × Value))
    (rest : List InitStmt) (res : List (String × Value))
    (h : runInit (.assign name (.tupleOf name opt) :: rest) args attrs = .ok res) :
    ∃ v, (name, v) ∈ res ∧ (v.isNone = true ∨ ∃ vs, v = .tuple vs) := by
  rw [runInit, runInit.go] at h
  dsimp only at h
  generalize (Option.map (fun x => x.snd) (List.find? (fun x => x.fst == name) args)).getD Value.none = av at h
  have key : ∀ v, runInit.go args rest (attrs ++ [(name, v)]) = .ok res → (name, v) ∈ res :=
    fun v hv => runInit_go_mono args rest _ _ hv _ (List.mem_append_right _ (List.mem_singleton.2 rfl))
  cases av with
  | tuple vs => exact ⟨.tuple vs, key _ h, Or.inr ⟨vs, rfl⟩⟩
  | none =>
    cases opt with
    | true => exact ⟨.none, key _ h, Or.inl rfl⟩
    | false => cases h
  | _ => cases h

end EoVerif.Gen
