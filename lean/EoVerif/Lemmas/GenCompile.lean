import EoVerif.Model.GenExec
/-! Helper lemmas about `compile` (invariants of the generation `Data` along the instruction walk). -/
namespace EoVerif.Gen

end EoVerif.Gen
