import EoVerif.Lemmas.RW
import EoVerif.Lemmas.Reader
import EoVerif.Lemmas.Writer
import EoVerif.Props.C09
/-! Helper lemmas for C06: the bytes of a chunk, frame lemmas for the chunked reader. -/
namespace EoVerif.RW

/-! ### bytes written per field (sanitisation on) -/

def fieldBytes : Field → Bytes
  | .char n => numBytes n 1
  | .short n => numBytes n 2
  | .three n => numBytes n 3
  | .int n => numBytes n 4
  | .string s => sanBytes s
  | .encodedString s => Str.encode (sanBytes s)
  | .fixedString s => sanBytes s
  | .fixedEncodedString s => Str.encode (sanBytes s)

def chunkBytes : List Field → Bytes
  | [] => []
  | f :: fs => fieldBytes f ++ chunkBytes fs

/-- what follows the first chunk on the wire -/
def wireTail : List (List Field) → Bytes
  | [] => []
  | c :: cs => 0xFF :: (chunkBytes c ++ wireTail cs)

theorem strBytes_san (w : Writer) (hs : w.san = true) (s : Ansi.Str) : w.strBytes s = sanBytes s :=
  (Writer.sanitised_payload w s hs).2.2

theorem sanBytes_noFF (s : Ansi.Str) : 0xFF ∉ sanBytes s := by
  have h := (Writer.sanitised_payload { san := true } s rfl).2.1
  rw [strBytes_san _ rfl] at h
  exact h

theorem sanBytes_length (s : Ansi.Str) : (sanBytes s).length = s.length := by
  simp [sanBytes, Ansi.encode]

theorem numBytes_noFF (n : Int) (k : Nat) (h0 : 0 ≤ n) (h1 : n < Num.INT_MAX) :
    0xFF ∉ numBytes n k := by
  obtain ⟨bs, hbs, _, _⟩ := Num.decode_encode n h0 h1
  have hsafe := Num.encode_wire_safe n h0 h1 bs hbs
  unfold numBytes
  simp only [hbs]
  intro hm
  exact (hsafe _ (List.mem_of_mem_take hm)).2.1 rfl

theorem checkStringLength_self (s : Ansi.Str) :
    Writer.checkStringLength s (s.length : Int) false = .ok () := by
  simp [Writer.checkStringLength]

/-- every accepted field write appends exactly `fieldBytes f`, which has no break byte -/
theorem field_write (w : Writer) (hs : w.san = true) (f : Field) (hf : f.ok = true) :
    w.step f.writeOp = ({ w with data := w.data ++ fieldBytes f }, .ok ()) ∧
      0xFF ∉ fieldBytes f := by
  cases f with
  | char n =>
    simp only [Field.ok, decide_eq_true_eq] at hf
    exact ⟨(addNumber_ok w n 1 (by omega) hf.1 (by simpa using hf.2) (Num.CHAR_MAX - 1)
      (by decide)).1, numBytes_noFF n 1 hf.1 (by unfold Num.INT_MAX; omega)⟩
  | short n =>
    simp only [Field.ok, decide_eq_true_eq] at hf
    exact ⟨(addNumber_ok w n 2 (by omega) hf.1 (by simpa using hf.2) (Num.SHORT_MAX - 1)
      (by decide)).1, numBytes_noFF n 2 hf.1 (by unfold Num.INT_MAX; omega)⟩
  | three n =>
    simp only [Field.ok, decide_eq_true_eq] at hf
    exact ⟨(addNumber_ok w n 3 (by omega) hf.1 (by simpa using hf.2) (Num.THREE_MAX - 1)
      (by decide)).1, numBytes_noFF n 3 hf.1 (by unfold Num.INT_MAX; omega)⟩
  | int n =>
    simp only [Field.ok, decide_eq_true_eq] at hf
    exact ⟨(addNumber_ok w n 4 (by omega) hf.1 (by simpa using hf.2) (Num.INT_MAX - 1)
      (by decide)).1, numBytes_noFF n 4 hf.1 (by unfold Num.INT_MAX; omega)⟩
  | string s =>
    refine ⟨?_, sanBytes_noFF s⟩
    simp only [Field.writeOp, Writer.step, strBytes_san w hs, fieldBytes]
  | encodedString s =>
    refine ⟨?_, Str.encode_no_FF _ (sanBytes_noFF s)⟩
    simp only [Field.writeOp, Writer.step, strBytes_san w hs, fieldBytes]
  | fixedString s =>
    refine ⟨?_, sanBytes_noFF s⟩
    simp only [Field.writeOp, Writer.step, checkStringLength_self, strBytes_san w hs, fieldBytes,
      Bool.false_eq_true, if_false]
  | fixedEncodedString s =>
    refine ⟨?_, Str.encode_no_FF _ (sanBytes_noFF s)⟩
    simp only [Field.writeOp, Writer.step, checkStringLength_self, strBytes_san w hs, fieldBytes,
      Bool.false_eq_true, if_false]

/-! ### chunks -/

theorem chunkOk_cons (x : Field) (rest : List Field) (h : chunkOk (x :: rest) = true) :
    x.ok = true ∧ chunkOk rest = true ∧ (x.trailing = true → rest = []) := by
  cases rest with
  | nil => simp_all [chunkOk]
  | cons y ys =>
    simp only [chunkOk, Bool.and_eq_true, Bool.not_eq_true'] at h
    refine ⟨h.1.1, h.2, ?_⟩
    intro ht
    rw [h.1.2] at ht
    cases ht

theorem chunkBytes_noFF (c : List Field) (h : chunkOk c = true) : 0xFF ∉ chunkBytes c := by
  induction c with
  | nil => simp [chunkBytes]
  | cons x rest ih =>
    obtain ⟨hx, hr, _⟩ := chunkOk_cons x rest h
    simp only [chunkBytes, List.mem_append, not_or]
    exact ⟨(field_write { san := true } rfl x hx).2, ih hr⟩

theorem writeAll_append (w : Writer) (ops₁ ops₂ : List Writer.Op) (w' : Writer)
    (h : writeAll w ops₁ = .ok w') : writeAll w (ops₁ ++ ops₂) = writeAll w' ops₂ := by
  induction ops₁ generalizing w with
  | nil => simp only [writeAll] at h; cases h; rfl
  | cons op ops ih =>
    simp only [List.cons_append, writeAll] at h ⊢
    split at h
    · exact ih _ h
    · cases h

theorem chunk_write (c : List Field) (h : chunkOk c = true) (w : Writer) (hs : w.san = true) :
    writeAll w (c.map Field.writeOp) = .ok { w with data := w.data ++ chunkBytes c } := by
  induction c generalizing w with
  | nil => simp [writeAll, chunkBytes]
  | cons x rest ih =>
    obtain ⟨hx, hr, _⟩ := chunkOk_cons x rest h
    simp only [List.map_cons, writeAll, (field_write w hs x hx).1]
    have h2 := ih hr { w with data := w.data ++ fieldBytes x } hs
    rw [h2]
    simp [chunkBytes]

theorem break_write (w : Writer) :
    w.step (.addByte 0xFF) = ({ w with data := w.data ++ [0xFF] }, .ok ()) := by
  simp [Writer.step, Writer.checkNumberSize]

theorem chunks_write (cs : List (List Field)) (c : List Field)
    (hok : ∀ x ∈ c :: cs, chunkOk x = true) (w : Writer) (hs : w.san = true) :
    writeAll w (chunkWrites (c :: cs)) =
      .ok { w with data := w.data ++ (chunkBytes c ++ wireTail cs) } := by
  induction cs generalizing c w with
  | nil =>
    simp only [chunkWrites, wireTail, List.append_nil]
    exact chunk_write c (hok c (by simp)) w hs
  | cons c' cs ih =>
    have hc := chunk_write c (hok c (by simp)) w hs
    simp only [chunkWrites, List.append_assoc]
    rw [writeAll_append _ _ _ _ hc]
    simp only [List.singleton_append, writeAll, break_write]
    have h2 := ih c' (fun x hx => hok x (by simp [hx])) { w with data := w.data ++ chunkBytes c ++ [0xFF] } hs
    rw [h2]
    simp [wireTail]

/-! ### the chunk frame of the concrete reader -/

/-- the reader is in chunked mode, its data splits as `pre ++ chunk ++ tail` and its cached break is
    the end of `chunk` -/
structure CFrame (r : Reader) (pre chunk tail : Bytes) : Prop where
  chunked : r.chunked = true
  data : r.data = pre ++ chunk ++ tail
  nb : r.nextBreak = ((pre.length + chunk.length : Nat) : Int)

theorem CFrame.setPos {r : Reader} {pre chunk tail : Bytes} (h : CFrame r pre chunk tail) (p : Nat) :
    CFrame { r with pos := p } pre chunk tail := ⟨h.chunked, h.data, h.nb⟩

theorem remaining_cframe (r : Reader) (pre chunk tail : Bytes) (h : CFrame r pre chunk tail)
    (k : Nat) (hp : r.pos + k = pre.length + chunk.length) : r.remaining = (k : Int) := by
  unfold Reader.remaining
  rw [if_pos h.chunked, h.nb]
  omega

theorem readBytes_cframe (r : Reader) (pre done bs later tail : Bytes)
    (h : CFrame r pre (done ++ bs ++ later) tail) (hp : r.pos = pre.length + done.length) :
    r.readBytes bs.length = ({ r with pos := pre.length + done.length + bs.length }, bs) := by
  have hrem : r.remaining = ((bs.length + later.length : Nat) : Int) :=
    remaining_cframe r pre _ tail h _ (by simp only [List.length_append]; omega)
  have hn : (min (bs.length : Int) r.remaining).toNat = bs.length := by rw [hrem]; omega
  have hd : r.data = (pre ++ done) ++ (bs ++ (later ++ tail)) := by
    rw [h.data]; simp only [List.append_assoc]
  have hp' : pre.length + done.length = (pre ++ done).length := by rw [List.length_append]
  have h2 : (r.data.drop (pre.length + done.length)).take bs.length = bs := by
    rw [hd, hp', List.drop_left, List.take_left]
  unfold Reader.readBytes
  simp only [hn, hp, h2]

theorem readBytes_cframe' (r : Reader) (pre done bs later tail : Bytes) (n : Nat)
    (hn : n = bs.length)
    (h : CFrame r pre (done ++ bs ++ later) tail) (hp : r.pos = pre.length + done.length) :
    r.readBytes n = ({ r with pos := pre.length + done.length + bs.length }, bs) := by
  subst hn; exact readBytes_cframe r pre done bs later tail h hp

theorem numBytes_spec (n : Int) (k : Nat) (hk : 1 ≤ k ∧ k ≤ 4) (h0 : 0 ≤ n) (h1 : n < 253 ^ k) :
    (numBytes n k).length = k ∧ Num.decode (numBytes n k) = n :=
  (addNumber_ok {} n k hk h0 h1 (253 ^ k - 1) rfl).2

theorem number_read (r : Reader) (pre done later tail : Bytes) (n : Int) (k : Nat)
    (hk : 1 ≤ k ∧ k ≤ 4) (h0 : 0 ≤ n) (h1 : n < 253 ^ k)
    (h : CFrame r pre (done ++ numBytes n k ++ later) tail)
    (hp : r.pos = pre.length + done.length) :
    r.readBytes k = ({ r with pos := pre.length + done.length + (numBytes n k).length },
      numBytes n k) ∧ Num.decode (numBytes n k) = n := by
  obtain ⟨hl, hd⟩ := numBytes_spec n k hk h0 h1
  exact ⟨readBytes_cframe' r pre done _ later tail k hl.symm h hp, hd⟩

theorem sanBytes_no7E_of (s : Ansi.Str) (h : (!(sanBytes s).contains 0x7E) = true) :
    ∀ b ∈ sanBytes s, b ≠ 0x7E := by
  simp only [Bool.not_eq_true', List.contains_eq_mem, decide_eq_false_iff_not] at h
  intro b hb e
  exact h (e ▸ hb)

/-- reading a field whose bytes come next in the chunk -/
theorem field_read (f : Field) (hf : f.ok = true) (r : Reader) (pre done later tail : Bytes)
    (h : CFrame r pre (done ++ fieldBytes f ++ later) tail)
    (hp : r.pos = pre.length + done.length) (ht : f.trailing = true → later = []) :
    r.step f.readOp =
      ({ r with pos := pre.length + done.length + (fieldBytes f).length }, .ok f.expect) := by
  cases f with
  | char n =>
    simp only [Field.ok, decide_eq_true_eq] at hf
    obtain ⟨h1, h2⟩ := number_read r pre done later tail n 1 (by omega) hf.1 (by simpa using hf.2) h hp
    simp only [Field.readOp, Reader.step, Field.expect, fieldBytes, h1, h2]
  | short n =>
    simp only [Field.ok, decide_eq_true_eq] at hf
    obtain ⟨h1, h2⟩ := number_read r pre done later tail n 2 (by omega) hf.1 (by simpa using hf.2) h hp
    simp only [Field.readOp, Reader.step, Field.expect, fieldBytes, h1, h2]
  | three n =>
    simp only [Field.ok, decide_eq_true_eq] at hf
    obtain ⟨h1, h2⟩ := number_read r pre done later tail n 3 (by omega) hf.1 (by simpa using hf.2) h hp
    simp only [Field.readOp, Reader.step, Field.expect, fieldBytes, h1, h2]
  | int n =>
    simp only [Field.ok, decide_eq_true_eq] at hf
    obtain ⟨h1, h2⟩ := number_read r pre done later tail n 4 (by omega) hf.1 (by simpa using hf.2) h hp
    simp only [Field.readOp, Reader.step, Field.expect, fieldBytes, h1, h2]
  | string s =>
    have hl : later = [] := ht rfl
    subst hl
    simp only [fieldBytes] at h ⊢
    have hrem : r.remaining = ((sanBytes s).length : Int) :=
      remaining_cframe r pre _ tail h _ (by simp only [List.length_append, List.length_nil]; omega)
    simp only [Field.readOp, Reader.step, Field.expect]
    rw [readBytes_cframe' r pre done _ [] tail _ (by rw [hrem]; simp) h hp]
    simp only [sanImage]
  | encodedString s =>
    have hl : later = [] := ht rfl
    subst hl
    simp only [fieldBytes] at h ⊢
    have hrem : r.remaining = ((Str.encode (sanBytes s)).length : Int) :=
      remaining_cframe r pre _ tail h _ (by simp only [List.length_append, List.length_nil]; omega)
    simp only [Field.readOp, Reader.step, Field.expect]
    rw [readBytes_cframe' r pre done _ [] tail _ (by rw [hrem]; simp) h hp]
    simp only []
    rw [Str.decode_encode _ (sanBytes_no7E_of s hf)]
    simp only [sanImage]
  | fixedString s =>
    simp only [fieldBytes] at h ⊢
    have hl : ((s.length : Nat) : Int).toNat = (sanBytes s).length := by
      rw [sanBytes_length]; simp
    simp only [Field.readOp, Reader.step, Field.expect]
    rw [if_neg (by omega)]
    rw [readBytes_cframe' r pre done _ later tail _ hl h hp]
    simp [sanImage]
  | fixedEncodedString s =>
    simp only [fieldBytes] at h ⊢
    have hl : ((s.length : Nat) : Int).toNat = (Str.encode (sanBytes s)).length := by
      rw [Str.encode_length, sanBytes_length]; simp
    simp only [Field.readOp, Reader.step, Field.expect]
    rw [if_neg (by omega)]
    rw [readBytes_cframe' r pre done _ later tail _ hl h hp]
    simp only [Bool.false_eq_true, if_false]
    rw [Str.decode_encode _ (sanBytes_no7E_of s hf)]
    simp only [sanImage]

/-! ### running lists of reads -/

theorem readAll_append (r : Reader) (ops₁ ops₂ : List Reader.Op) :
    readAll r (ops₁ ++ ops₂) =
      ((readAll (readAll r ops₁).1 ops₂).1, (readAll r ops₁).2 ++ (readAll (readAll r ops₁).1 ops₂).2) := by
  induction ops₁ generalizing r with
  | nil => simp [readAll]
  | cons op ops ih =>
    simp only [List.cons_append, readAll, ih]

/-- reading the first `k` fields of a chunk -/
theorem fields_read (c : List Field) :
    ∀ (k : Nat) (r : Reader) (pre done tail : Bytes), chunkOk c = true →
      CFrame r pre (done ++ chunkBytes c) tail → r.pos = pre.length + done.length →
      readAll r ((c.take k).map Field.readOp) =
        ({ r with pos := pre.length + done.length + (chunkBytes (c.take k)).length },
          (c.take k).map (fun f => .ok f.expect)) := by
  induction c with
  | nil =>
    intro k r pre done tail _ _ hp
    simp only [List.take_nil, List.map_nil, readAll, chunkBytes, List.length_nil, Nat.add_zero,
      ← hp]
  | cons x rest ih =>
    intro k r pre done tail hok h hp
    cases k with
    | zero =>
      simp only [List.take_zero, List.map_nil, readAll, chunkBytes, List.length_nil, Nat.add_zero,
        ← hp]
    | succ k =>
      obtain ⟨hx, hr, htr⟩ := chunkOk_cons x rest hok
      have h' : CFrame r pre (done ++ fieldBytes x ++ chunkBytes rest) tail := by
        simpa only [chunkBytes, List.append_assoc] using h
      have hlater : x.trailing = true → chunkBytes rest = [] := by
        intro ht; rw [htr ht]; rfl
      have h1 := field_read x hx r pre done (chunkBytes rest) tail h' hp hlater
      have h2 := ih k { r with pos := pre.length + done.length + (fieldBytes x).length } pre
        (done ++ fieldBytes x) tail hr (h'.setPos _) (by simp only [List.length_append]; omega)
      simp only [List.take_succ_cons, List.map_cons, readAll, h1, h2, chunkBytes,
        List.length_append]
      simp only [Nat.add_assoc]

/-- a surplus read at the end of a chunk returns a zero and does not move -/
theorem surplus_read (s : Surplus) (r : Reader) (h0 : r.remaining = 0) :
    r.step s.readOp = (r, .ok s.zero) := by
  cases s with
  | bytes n =>
    exact (Reader.exhausted_reads' r h0 n 0 (by omega) false).2.1
  | fixedString l p =>
    exact (Reader.exhausted_reads' r h0 0 l (by omega) p).2.2.2.2.2.2.2.2.1
  | fixedEncodedString l p =>
    exact (Reader.exhausted_reads' r h0 0 l (by omega) p).2.2.2.2.2.2.2.2.2
  | byte => exact (Reader.exhausted_reads' r h0 0 0 (by omega) false).1
  | char => exact (Reader.exhausted_reads' r h0 0 0 (by omega) false).2.2.1
  | short => exact (Reader.exhausted_reads' r h0 0 0 (by omega) false).2.2.2.1
  | three => exact (Reader.exhausted_reads' r h0 0 0 (by omega) false).2.2.2.2.1
  | int => exact (Reader.exhausted_reads' r h0 0 0 (by omega) false).2.2.2.2.2.1
  | string => exact (Reader.exhausted_reads' r h0 0 0 (by omega) false).2.2.2.2.2.2.1
  | encodedString => exact (Reader.exhausted_reads' r h0 0 0 (by omega) false).2.2.2.2.2.2.2.1

theorem surplus_reads (sp : List Surplus) (r : Reader) (h0 : r.remaining = 0) :
    readAll r (sp.map Surplus.readOp) = (r, sp.map (fun s => .ok s.zero)) := by
  induction sp with
  | nil => rfl
  | cons s rest ih => simp only [List.map_cons, readAll, surplus_read s r h0, ih]

/-! ### moving to the next chunk -/

theorem findFrom_chunk (chunk tail : Bytes) (i : Nat) (hff : 0xFF ∉ chunk)
    (ht : tail = [] ∨ ∃ rest, tail = 0xFF :: rest) :
    Reader.findFrom (chunk ++ tail) i = i + chunk.length := by
  induction chunk generalizing i with
  | nil =>
    rcases ht with rfl | ⟨rest, rfl⟩ <;> simp [Reader.findFrom]
  | cons b bs ih =>
    simp only [List.mem_cons, not_or] at hff
    have hb : b ≠ 0xFF := fun e => hff.1 e.symm
    simp only [List.cons_append, Reader.findFrom, if_neg hb, ih (i + 1) hff.2, List.length_cons]
    omega

theorem nextChunk_ok (r : Reader) (hc : r.chunked = true) : (r.step .nextChunk).2 = .ok .none := by
  simp [Reader.step, hc]

/-- `next_chunk` from anywhere in a chunk followed by a break lands on the start of the next chunk
    and caches that chunk's end -/
theorem nextChunk_cframe (r : Reader) (pre chunk chunk' tail' : Bytes)
    (h : CFrame r pre chunk (0xFF :: (chunk' ++ tail'))) (hff : 0xFF ∉ chunk')
    (ht : tail' = [] ∨ ∃ rest, tail' = 0xFF :: rest) :
    (r.step .nextChunk).2 = .ok .none ∧
      CFrame (r.step .nextChunk).1 (pre ++ chunk ++ [0xFF]) chunk' tail' ∧
      (r.step .nextChunk).1.pos = (pre ++ chunk ++ [0xFF]).length := by
  have hlen : r.data.length = pre.length + chunk.length + 1 + chunk'.length + tail'.length := by
    rw [h.data]; simp only [List.length_append, List.length_cons]; omega
  have hnb : r.nextBreak.toNat = pre.length + chunk.length := by rw [h.nb]; omega
  have hlt : pre.length + chunk.length < r.data.length := by omega
  have hd : r.data = (pre ++ chunk ++ [0xFF]) ++ (chunk' ++ tail') := by
    rw [h.data]; simp only [List.append_assoc, List.singleton_append]
  have hl3 : (pre ++ chunk ++ [0xFF]).length = pre.length + chunk.length + 1 := by
    simp only [List.length_append, List.length_cons, List.length_nil]
  have hfn : Reader.findFrom (r.data.drop (pre.length + chunk.length + 1))
      (pre.length + chunk.length + 1) = pre.length + chunk.length + 1 + chunk'.length := by
    rw [hd, ← hl3, List.drop_left]
    exact findFrom_chunk chunk' tail' _ hff ht
  have hle : pre.length + chunk.length + 1 ≤ r.data.length := by omega
  simp only [Reader.step, h.chunked, Bool.not_true, Bool.false_eq_true, if_false, hnb, if_pos hlt,
    Reader.findNextBreak, if_pos hle, hfn]
  refine ⟨trivial, ⟨rfl, by show r.data = _; rw [hd]; simp only [List.append_assoc], ?_⟩, hl3.symm⟩
  simp only [hl3]

/-- the reader right after `set_chunked(True)` on fresh data -/
theorem initial_cframe (chunk tail : Bytes) (hff : 0xFF ∉ chunk)
    (ht : tail = [] ∨ ∃ rest, tail = 0xFF :: rest) :
    CFrame ((Reader.new (chunk ++ tail)).step (.setChunked true)).1 [] chunk tail ∧
      ((Reader.new (chunk ++ tail)).step (.setChunked true)).1.pos = 0 := by
  have e : ((Reader.new (chunk ++ tail)).step (.setChunked true)).1 =
      { data := chunk ++ tail, pos := 0, chunked := true, chunkStart := 0,
        nextBreak := (chunk.length : Int) } := by
    simp [Reader.step, Reader.new, Reader.findNextBreak, findFrom_chunk chunk tail 0 hff ht]
  rw [e]
  exact ⟨⟨rfl, by simp, by simp⟩, rfl⟩

theorem wireTail_shape (cs : List (List Field)) :
    wireTail cs = [] ∨ ∃ rest, wireTail cs = 0xFF :: rest := by
  cases cs with
  | nil => exact Or.inl rfl
  | cons c cs => exact Or.inr ⟨_, rfl⟩

/-! ### one chunk, then all chunks -/

def planBody (c : List Field) : Plan → List Reader.Op
  | .under k => (c.take k).map Field.readOp
  | .over sp => c.map Field.readOp ++ sp.map Surplus.readOp

def planBodyExpect (c : List Field) : Plan → List (Except PyErr Reader.Val)
  | .under k => (c.take k).map (fun f => .ok f.expect)
  | .over sp => c.map (fun f => .ok f.expect) ++ sp.map (fun s => .ok s.zero)

theorem planOps_eq (c : List Field) (p : Plan) : planOps c p = planBody c p ++ [.nextChunk] := by
  cases p <;> simp [planOps, planBody]

theorem planExpect_eq (c : List Field) (p : Plan) :
    planExpect c p = planBodyExpect c p ++ [.ok .none] := by
  cases p <;> simp [planExpect, planBodyExpect]

/-- whatever the plan, the reads of a chunk return what is expected and stay inside the frame -/
theorem planBody_read (c : List Field) (p : Plan) (hok : chunkOk c = true) (r : Reader)
    (pre tail : Bytes) (h : CFrame r pre (chunkBytes c) tail) (hp : r.pos = pre.length) :
    (readAll r (planBody c p)).2 = planBodyExpect c p ∧
      CFrame (readAll r (planBody c p)).1 pre (chunkBytes c) tail := by
  have hf := fun k => fields_read c k r pre [] tail hok (by simpa using h) (by simpa using hp)
  cases p with
  | under k =>
    simp only [planBody, planBodyExpect, hf k]
    exact ⟨trivial, h.setPos _⟩
  | over sp =>
    have hfull := hf c.length
    simp only [List.take_length] at hfull
    have h1 : CFrame { r with pos := pre.length + ([] : Bytes).length + (chunkBytes c).length }
        pre (chunkBytes c) tail := h.setPos _
    have h0 : Reader.remaining
        { r with pos := pre.length + ([] : Bytes).length + (chunkBytes c).length } = 0 := by
      have := remaining_cframe _ pre (chunkBytes c) tail h1 0 (by simp)
      simpa using this
    simp only [planBody, planBodyExpect, readAll_append, hfull, surplus_reads sp _ h0]
    exact ⟨trivial, h1⟩

theorem chunks_read (cs : List (List Field)) :
    ∀ (c : List Field) (p : Plan) (ps : List Plan) (r : Reader) (pre : Bytes),
      (∀ x ∈ c :: cs, chunkOk x = true) → ps.length = cs.length →
      CFrame r pre (chunkBytes c) (wireTail cs) → r.pos = pre.length →
      (readAll r (allPlanOps (c :: cs) (p :: ps))).2 = allPlanExpect (c :: cs) (p :: ps) := by
  induction cs with
  | nil =>
    intro c p ps r pre hok hlen h hp
    obtain ⟨hb, hfr⟩ := planBody_read c p (hok c (by simp)) r pre _ h hp
    cases ps with
    | cons _ _ => simp at hlen
    | nil =>
      simp only [allPlanOps, allPlanExpect, List.append_nil, planOps_eq, planExpect_eq,
        readAll_append, hb, readAll, nextChunk_ok _ hfr.chunked]
  | cons c' cs ih =>
    intro c p ps r pre hok hlen h hp
    obtain ⟨hb, hfr⟩ := planBody_read c p (hok c (by simp)) r pre _ h hp
    cases ps with
    | nil => simp at hlen
    | cons p' ps =>
      have hfr' : CFrame (readAll r (planBody c p)).1 pre (chunkBytes c)
          (0xFF :: (chunkBytes c' ++ wireTail cs)) := hfr
      obtain ⟨hn, hfn, hpn⟩ := nextChunk_cframe _ pre (chunkBytes c) (chunkBytes c') (wireTail cs)
        hfr' (chunkBytes_noFF c' (hok c' (by simp))) (wireTail_shape cs)
      have hrec := ih c' p' ps _ _ (fun x hx => hok x (by simp [hx]))
        (by simpa using hlen) hfn hpn
      rw [allPlanOps, allPlanExpect, planOps_eq, planExpect_eq, List.append_assoc,
        List.append_assoc, readAll_append]
      simp only [List.singleton_append, readAll, hb, hn, hrec]

end EoVerif.RW
