import EoVerif.Lemmas.ConformCases
/-! The body-level simulation of C02: mutual induction over `genInstruction` / `genBody` / `genCases`
    against `elabInstr` / `elabBody` / `elabCases`. -/
namespace EoVerif.Gen.Conform
open EoVerif EoVerif.Gen EoVerif.Spec EoVerif.Gen.WF

theorem LensOK_append (lens : String → Option LenInfo) : ∀ (a b : List TInstr),
    LensOK lens (a ++ b) ↔ LensOK lens a ∧ LensOK lens b
  | [], b => by simp [LensOK]
  | i :: a, b => by
    have ih := LensOK_append lens a b
    cases i <;> simp only [List.cons_append, LensOK, ih, and_assoc]

theorem elabBody_flag (env : Env) (ss : String → Option Int) (cls : String) (scope : List Xml) :
    ∀ (cs : List Xml) (b b' : Bool), elabBody env ss cls scope cs b = elabBody env ss cls scope cs b'
  | [], b, b' => by rw [elabBody, elabBody]
  | c :: cs, b, b' => by rw [elabBody, elabBody, elabBody_flag env ss cls scope cs b b']

theorem CtxOK.congr {c c' : Ctx} {lens : String → Option LenInfo} (h : CtxOK c lens)
    (ha : c'.accessible = c.accessible) (hl : c'.lenRef = c.lenRef) : CtxOK c' lens := by
  unfold CtxOK Ctx.field? Ctx.lenRef? at *
  rw [ha, hl]; exact h

theorem CtxOK.empty {c : Ctx} (lens : String → Option LenInfo) (ha : c.accessible = []) (hl : c.lenRef = []) :
    CtxOK c lens := by
  refine ⟨fun n h => ?_, fun l h => ?_⟩
  · unfold Ctx.field? at h; rw [ha] at h; cases h
  · unfold Ctx.lenRef? at h; rw [hl] at h; cases h

section
variable {okT : String → Bool} {tf : TypeEnv} {env : Env} {ss : String → Option Int}

set_option maxHeartbeats 800000 in
mutual

theorem instr_all (htf : TfOK okT tf env) :
    ∀ (x : Xml) (ctx : Ctx) (d : Data) (ctx' : Ctx) (d' : Data) (is : List TInstr) (following scope : List Xml)
      (cls : String) (lex : Bool) (lens : String → Option LenInfo),
    fragInstr okT scope x = true → CtxOK ctx lens → CtxEnum env scope ctx → ctx.chunked = lex → d.className = cls →
    genInstruction tf ctx d x = .ok (ctx', d') →
    elabInstr env ss cls scope following x = some is → LensOK lens is → LensDeepL is →
    StepAll lens lex env scope ctx d ctx' d' is
  | .mk tag attrs text tail children, ctx, d, ctx', d', is, following, scope, cls, lex, lens,
      hfr, hok, hen, hlex, hcls, hg, he, hl, hld => by
    unfold genInstruction at hg
    unfold fragInstr at hfr
    dsimp only at hg
    by_cases hd : ctx.reachedDummy = true
    · rw [if_pos hd] at hg; cases hg
    rw [if_neg hd] at hg
    by_cases h1 : (tag == "field") = true
    · rw [if_pos h1] at hg hfr
      have ht : tag = "field" := by simpa using h1
      refine StepAll.of_leaf (elab_leaf_direct lex he (by subst ht; decide) (by subst ht; decide)) ?_
      rw [Bool.and_eq_true] at hfr
      intro call wcall TV TVs obj base hcall
      refine field_step htf hcall hok hen h1 hfr.1 ?_ hg he
      intro n ty hn hty
      have := hfr.2
      unfold scopeField at this
      rw [hn, hty] at this
      rw [fft_eq]
      simpa using this
    rw [if_neg h1] at hg hfr
    have h1' : (tag == "field") = false := by simpa using h1
    by_cases h2 : (tag == "array") = true
    · rw [if_pos h2] at hg
      have ht : tag = "array" := by simpa using h2
      have h3' : (tag == "length") = false := by subst ht; decide
      have h4' : (tag == "dummy") = false := by subst ht; decide
      rw [if_neg (by rw [h3']; simp), if_neg (by rw [h4']; simp), if_pos h2] at hfr
      refine StepAll.of_leaf (elab_leaf_direct lex he (by subst ht; decide) (by subst ht; decide)) ?_
      intro call wcall TV TVs obj base hcall
      exact array_step htf hcall hok hen h2 h1' h3' hfr hg he
    rw [if_neg h2] at hg
    have h2' : (tag == "array") = false := by simpa using h2
    by_cases h3 : (tag == "length") = true
    · rw [if_pos h3] at hg hfr
      have ht : tag = "length" := by simpa using h3
      refine StepAll.of_leaf (elab_leaf_direct lex he (by subst ht; decide) (by subst ht; decide)) ?_
      intro call wcall TV TVs obj base _
      exact length_step htf hok hen h3 h1' hfr hg he hl
    rw [if_neg h3] at hg hfr
    have h3' : (tag == "length") = false := by simpa using h3
    by_cases h4 : (tag == "dummy") = true
    · rw [if_pos h4] at hg hfr
      have ht : tag = "dummy" := by simpa using h4
      refine StepAll.of_leaf (elab_leaf_direct lex he (by subst ht; decide) (by subst ht; decide)) ?_
      intro call wcall TV TVs obj base hcall
      exact dummy_step htf hcall hok hen h4 h1' h3' h2' hfr hg he
    rw [if_neg h4] at hg hfr
    rw [if_neg h2] at hfr
    rw [elabInstr, if_neg h1, if_neg h3, if_neg h2, if_neg h4] at he
    by_cases h5 : (tag == "switch") = true
    · -- `<switch>`
      rw [if_pos h5] at hg hfr he
      have ht : tag = "switch" := by simpa using h5
      have h6' : (tag == "chunked") = false := by subst ht; decide
      have h7' : (tag == "break") = false := by subst ht; decide
      rw [if_neg (by rw [h6']; simp), if_neg (by rw [h7']; simp)] at he
      rw [Bool.and_eq_true] at hfr
      obtain ⟨hhas, hfc⟩ := hfr
      split at hg
      · cases hg
      rename_i f hf
      have hgf := getReq_ok hf
      split at hg
      · cases hg
      split at hg
      · cases hg
      rename_i d3 ro rd sc dc hgc
      rw [hgf] at he
      simp only at he
      cases htc : elabCases env ss cls f (enumMembers env (findFieldType f scope)) children with
      | none => rw [htc] at he; cases he
      | some tcs =>
      rw [htc] at he
      simp only [Option.map_some, Option.some.injEq] at he
      subst he
      have hldc : LensDeepC tcs := by
        rw [LensDeepL, LensDeepI] at hld; exact hld.1
      obtain ⟨d2, hgc, hd2n, hd2s, hd2a, hd2r⟩ : ∃ d2 : Data,
          genCases tf ctx d2 f children true ctx.reachedOptional ctx.reachedDummy [] [] = .ok (d3, ro, rd, sc, dc) ∧
          d2.className = d.className ∧ d2.ser = d.ser ∧ d2.aux = d.aux ∧ d2.rmoAssigned = d.rmoAssigned :=
        ⟨_, hgc, rfl, rfl, rfl, rfl⟩
      obtain ⟨scNew, recs, c1, c2, c3, c4, c5, c6, c7, c8, c9, c10, c11⟩ :=
        cases_all htf children ctx d2 f true ctx.reachedOptional ctx.reachedDummy [] [] d3 ro rd sc dc cls
          scope tcs lex hfc hen hlex (hd2n.trans hcls) hgc htc hldc
      rw [hd2s] at c2
      rw [hd2n] at c3
      rw [hd2r] at c4
      rw [hd2a] at c5
      rw [List.nil_append] at c1
      subst c1
      simp only [hhas, Bool.true_and, if_true] at hg
      simp only [Except.ok.injEq, Prod.mk.injEq] at hg
      obtain ⟨rfl, rfl⟩ := hg
      -- the emitted chain
      generalize hdflt : (children.any fun c => c.tag == "case" && c.getBool "default") = hasDefault
      have hextra : ∃ extra, (if (!hasDefault) = true then sc ++ [⟨none, .expectNone (f ++ "_data")⟩] else sc)
          = sc ++ extra ∧ (extra = [] ∨ extra = [⟨none, .expectNone (f ++ "_data")⟩]) ∧
          (extra = [] → hasDefault = true) := by
        cases hasDefault with
        | true => exact ⟨[], by simp, Or.inl rfl, fun _ => rfl⟩
        | false => exact ⟨_, by simp, Or.inr rfl, fun h => by cases h⟩
      obtain ⟨extra, hsc, hex, hexd⟩ := hextra
      refine ⟨[.switch f (sc ++ extra)], recs, ?_, ?_, ?_, hok.congr rfl rfl, hen.congr rfl, rfl, c6, ?_, ?_⟩
      · rw [← hsc]
        cases hasDefault <;> simp [c2]
      · cases hasDefault <;> simpa using c3
      · cases hasDefault <;> simpa using c5
      · intro x hx hne
        simp only [directCases, directCasesI, List.append_nil, List.mem_map] at hx
        obtain ⟨tc, htcm, rfl⟩ := hx
        obtain ⟨cond, cl, b⟩ := tc
        exact c7 cond cl b htcm hne
      · intro call wcall TV TVs obj base hcall hcases st wst hty hdyn
        rw [TypedInstrs, TypedInstr] at hty
        obtain ⟨⟨hfm, hdata, htcases⟩, _⟩ := hty
        rw [wireInstrs_single, wireInstr, execSerOps_single, exec_switch call obj f _ st hfm]
        have hcs : ∀ cond cl b, TCase.mk cond cl b ∈ tcs → b ≠ [] → CaseOK call wcall TVs lex cl b := by
          intro cond cl b hm hne
          exact hcases (cl, b, lex) (by
            simp only [directCases, directCasesI, List.append_nil, List.mem_map]
            exact ⟨_, hm, rfl⟩) hne
        have hdef : extra = [] → ∃ cl b, TCase.mk none cl b ∈ tcs := by
          intro he
          have := hexd he
          rw [← hdflt, List.any_eq_true] at this
          obtain ⟨c, hc, hcc⟩ := this
          rw [Bool.and_eq_true] at hcc
          exact c11 c hc hcc.1 hcc.2
        have := switch_sim (lens := lens) (fv := obj.attr f) (wst := wst) hdyn.san hdata extra hex sc tcs c8 hdef
          hcs htcases
        refine this.mono ?_
        intro st' wst' ⟨bs, hs, hw⟩
        subst hs; subst hw
        have hd' := hdyn.app' (ro' := ro) (s := appSt st bs) (b := bs) (r := st.rmo) ⟨rfl, rfl, rfl, rfl⟩
          (fun _ h2 => hdyn.rmo (hdyn.raro h2) h2)
          (fun h => ⟨c10 (hdyn.stopped h).1, (hdyn.stopped h).2⟩)
          (fun h => c10 (hdyn.raro h))
        refine ⟨hd'.data, hd'.san, hd'.oldLen, ?_, ?_, ?_, ?_⟩
        · cases hasDefault <;> simpa [c4] using hd'.rmo
        · cases hasDefault <;> simpa [c4] using hd'.stopped
        · cases hasDefault <;> simp
        · cases hasDefault <;> simpa [c4] using hd'.raro
    rw [if_neg h5] at hg hfr
    by_cases h6 : (tag == "chunked") = true
    · rw [if_pos h6] at hg hfr he
      cases hb : elabBody env ss cls scope children false with
      | none => rw [hb] at he; cases he
      | some b =>
      rw [hb] at he
      simp only [Option.map_some, Option.some.injEq] at he
      subst he
      have hlb : LensOK lens b := by simpa [LensOK] using hl
      have hldb : LensDeepL b := by
        rw [LensDeepL, LensDeepI] at hld; exact hld.1
      have hdc : ∀ lx, directCases lx [TInstr.chunked b] = directCases true b := by
        intro lx; simp [directCases, directCasesI]
      cases hch : ctx.chunked with
      | true =>
        simp only [hch, Bool.not_true, Bool.false_eq_true, if_false] at hg
        split at hg
        · cases hg
        rename_i c2 d2 hgb
        simp only [Except.ok.injEq, Prod.mk.injEq] at hg
        obtain ⟨rfl, rfl⟩ := hg
        have hlex' : lex = true := by rw [← hlex, hch]
        subst hlex'
        obtain ⟨ops, recs, e1, n1, a1, ok1, en1, ch1, ro1, cv1, f1⟩ :=
          body_all htf children false ctx d c2 d2 b scope cls true lens hfr hok hen hch hcls hgb hb hlb hldb
        refine ⟨ops, recs, e1, n1, a1, ok1, en1, ch1, ro1, ?_, ?_⟩
        · intro x hx; rw [hdc] at hx; exact cv1 x hx
        · intro call wcall TV TVs obj base hcall hcases st wst hty hdyn
          rw [wireInstrs_single, wireInstr]
          simp only [if_true]
          have hty' : TypedInstrs TV TVs obj b := by
            rw [TypedInstrs, TypedInstr] at hty; exact hty.1
          exact f1 call wcall TV TVs obj base hcall (fun x hx => hcases x (by rw [hdc]; exact hx)) st wst hty' hdyn
      | false =>
        simp only [hch, Bool.not_false, if_true] at hg
        split at hg
        · cases hg
        rename_i c2 d2 hgb
        simp only [Except.ok.injEq, Prod.mk.injEq] at hg
        obtain ⟨rfl, rfl⟩ := hg
        have hlex' : lex = false := by rw [← hlex, hch]
        subst hlex'
        obtain ⟨ops, recs, e1, n1, a1, ok1, en1, ch1, ro1, cv1, f1⟩ :=
          body_all htf children false { ctx with chunked := true }
            { d with de := d.de ++ [.setChunked true], ser := d.ser ++ [.setSan true] } c2 d2 b scope cls true lens hfr
            (hok.congr rfl rfl) (hen.congr rfl) rfl hcls hgb hb hlb hldb
        refine ⟨[.setSan true] ++ ops ++ [.setSan false], recs, ?_, n1, a1, ok1.congr rfl rfl, en1.congr rfl, hch.symm,
          ro1, ?_, ?_⟩
        · show d2.ser ++ [SerOp.setSan false] = _
          rw [e1]; simp only [List.append_assoc]
        · intro x hx; rw [hdc] at hx; exact cv1 x hx
        intro call wcall TV TVs obj base hcall hcases st wst hty hdyn
        rw [wireInstrs_single, wireInstr]
        simp only [Bool.false_eq_true, if_false]
        have hty' : TypedInstrs TV TVs obj b := by
          rw [TypedInstrs, TypedInstr] at hty; exact hty.1
        rw [List.append_assoc, List.singleton_append, execSerOps_cons, exec_setSan, bindRes_ok, execSerOps_append]
        have hdyn1 : Dyn base ctx.reachedOptional d.rmoAssigned (d.ser ++ [SerOp.setSan true]).isEmpty
            { st with w := { st.w with san := true } } { wst with san := true } :=
          ⟨hdyn.data, rfl, hdyn.oldLen, hdyn.rmo, hdyn.stopped, (fun h => by simp at h), hdyn.raro⟩
        have := f1 call wcall TV TVs obj base hcall (fun x hx => hcases x (by rw [hdc]; exact hx)) _ _ hty' hdyn1
        have hmap : ∀ (o : Option WSt), Option.map (fun s : WSt => { s with san := false }) o
            = o.bind (fun s => some { s with san := false }) := by intro o; cases o <;> rfl
        rw [hmap]
        refine (Conf_bind (g := fun s => some { s with san := false }) this ?_)
        · intro s a h
          rw [execSerOps_single, exec_setSan]
          simp only [Conf_ok_some]
          exact ⟨h.data, rfl, h.oldLen, h.rmo, h.stopped, (fun h' => by simp at h'), h.raro⟩
    rw [if_neg h6] at hg hfr he
    by_cases h7 : (tag == "break") = true
    · rw [if_pos h7] at hg he
      simp only [Option.some.injEq] at he
      subst he
      by_cases hch : (!ctx.chunked) = true
      · rw [if_pos hch] at hg; cases hg
      rw [if_neg hch] at hg
      simp only [Except.ok.injEq, Prod.mk.injEq] at hg
      obtain ⟨rfl, rfl⟩ := hg
      refine ⟨[.addBreak], [], rfl, rfl, by simp, hok.congr rfl rfl, hen.congr rfl, rfl, RecsOK.nil,
        (fun x hx => by simp [directCases, directCasesI] at hx), ?_⟩
      intro call wcall TV TVs obj base _ _ st wst _ hdyn
      rw [wireInstrs_single, wireInstr, execSerOps_single, exec_addBreak]
      simp only [Conf_ok_some]
      refine ⟨?_, hdyn.san, hdyn.oldLen, (fun h => by cases h), (fun h => by cases h), (fun h => by simp at h),
        (fun h => by cases h)⟩
      show st.w.data ++ [255] = base ++ (wst.out ++ [255])
      rw [hdyn.data, List.append_assoc]
    rw [if_neg h7] at hg he
    rw [if_neg h5] at he
    simp only [Except.ok.injEq, Prod.mk.injEq] at hg
    obtain ⟨rfl, rfl⟩ := hg
    simp only [Option.some.injEq] at he
    subst he
    exact StepAll.refl hok hen

theorem body_all (htf : TfOK okT tf env) :
    ∀ (cs : List Xml) (only : Bool) (ctx : Ctx) (d : Data) (ctx' : Ctx) (d' : Data) (is : List TInstr)
      (scope : List Xml) (cls : String) (lex : Bool) (lens : String → Option LenInfo),
    fragBody okT scope cs = true → CtxOK ctx lens → CtxEnum env scope ctx → ctx.chunked = lex → d.className = cls →
    genBody tf ctx d cs only = .ok (ctx', d') →
    elabBody env ss cls scope cs only = some is → LensOK lens is → LensDeepL is →
    StepAll lens lex env scope ctx d ctx' d' is
  | [], only, ctx, d, ctx', d', is, scope, cls, lex, lens, hfr, hok, hen, hlex, hcls, hg, he, hl, hld => by
    unfold genBody at hg
    simp only [Except.ok.injEq, Prod.mk.injEq] at hg
    obtain ⟨rfl, rfl⟩ := hg
    unfold elabBody at he
    simp only [Option.some.injEq] at he
    subst he
    exact StepAll.refl hok hen
  | c :: cs, only, ctx, d, ctx', d', is, scope, cls, lex, lens, hfr, hok, hen, hlex, hcls, hg, he, hl, hld => by
    unfold genBody at hg
    unfold fragBody at hfr
    rw [Bool.and_eq_true] at hfr
    rw [elabBody] at he
    cases hi : elabInstr env ss cls scope cs c with
    | none => rw [hi] at he; cases he
    | some a =>
    cases hr : elabBody env ss cls scope cs only with
    | none => rw [hi, hr] at he; cases he
    | some r =>
    rw [hi, hr] at he
    simp only [Option.some.injEq] at he
    subst he
    rw [LensOK_append] at hl
    rw [LensDeepL_append] at hld
    by_cases hc : (only && !(Xml.instructionTags.contains c.tag)) = true
    · rw [if_pos hc] at hg
      rw [Bool.and_eq_true] at hc
      have hnot : Xml.instructionTags.contains c.tag = false := by simpa using hc.2
      have ha := elab_noninstr (env := env) (ss := ss) (cls := cls) (scope := scope) (following := cs) c hnot
      rw [hi] at ha
      cases ha
      rw [List.nil_append]
      exact body_all htf cs only ctx d ctx' d' r scope cls lex lens hfr.2 hok hen hlex hcls hg hr hl.2 hld.2
    · rw [if_neg hc] at hg
      split at hg
      · cases hg
      rename_i c1 d1 hgi
      have s1 := instr_all htf c ctx d c1 d1 a cs scope cls lex lens hfr.1 hok hen hlex hcls hgi hi hl.1 hld.1
      obtain ⟨_, _, _, n1, _, ok1, en1, ch1, _⟩ := id s1
      have s2 := body_all htf cs only c1 d1 ctx' d' r scope cls lex lens hfr.2 ok1 en1 (ch1.trans hlex)
        (n1.trans hcls) hg hr hl.2 hld.2
      exact s1.trans s2

theorem cases_all (htf : TfOK okT tf env) :
    ∀ (cs : List Xml) (ctx : Ctx) (d : Data) (f : String) (start ro rd : Bool) (sc : List SerCase) (dc : List DeCase)
      (d' : Data) (ro' rd' : Bool) (sc' : List SerCase) (dc' : List DeCase) (cls : String)
      (scope : List Xml) (tcs : List TCase) (lex : Bool),
    fragCases okT cs = true → CtxEnum env scope ctx → ctx.chunked = lex → d.className = cls →
    genCases tf ctx d f cs start ro rd sc dc = .ok (d', ro', rd', sc', dc') →
    elabCases env ss cls f (enumMembers env (findFieldType f scope)) cs = some tcs → LensDeepC tcs →
    ∃ (scNew : List SerCase) (recs : List CaseRec),
      sc' = sc ++ scNew ∧ d'.ser = d.ser ∧ d'.className = d.className ∧ d'.rmoAssigned = d.rmoAssigned ∧
      d'.aux = d.aux ++ recs.map (·.ir) ∧ RecsOK recs ∧
      (∀ cond cl b, TCase.mk cond cl b ∈ tcs → b ≠ [] → ∃ r ∈ recs, r.ir.name = cl ∧ r.b = b ∧ r.lex = lex) ∧
      Aligned (f ++ "_data") scNew tcs ∧
      True ∧ (ro = true → ro' = true) ∧
      (∀ c ∈ cs, (c.tag == "case") = true → xmlBool c "default" = true → ∃ cl b, TCase.mk none cl b ∈ tcs)
  | [], ctx, d, f, start, ro, rd, sc, dc, d', ro', rd', sc', dc', cls, scope, tcs, lex,
      hfr, hen, hlex, hcls, hg, he, hld => by
    unfold genCases at hg
    simp only [Except.ok.injEq, Prod.mk.injEq] at hg
    obtain ⟨rfl, rfl, rfl, rfl, rfl⟩ := hg
    unfold elabCases at he
    simp only [Option.some.injEq] at he
    subst he
    exact ⟨[], [], (List.append_nil _).symm, rfl, rfl, rfl, by simp, RecsOK.nil,
      (fun _ _ _ h => by cases h), trivial, trivial, id, (fun _ h => by cases h)⟩
  | (.mk ctag cattrs ctext ctail cchildren) :: cs, ctx, d, f, start, ro, rd, sc, dc, d', ro', rd', sc', dc', cls,
      scope, tcs, lex, hfr, hen, hlex, hcls, hg, he, hld => by
    unfold genCases at hg
    unfold fragCases at hfr
    rw [elabCases] at he
    dsimp only at hg he
    rw [Bool.and_eq_true] at hfr
    by_cases hct : (ctag != "case") = true
    · rw [if_pos hct] at hg he
      obtain ⟨scNew, recs, c1, c2, c3, c4, c5, c6, c7, c8, c9, c10, c11⟩ :=
        cases_all htf cs ctx d f start ro rd sc dc d' ro' rd' sc' dc' cls scope tcs lex hfr.2 hen hlex hcls hg he hld
      refine ⟨scNew, recs, c1, c2, c3, c4, c5, c6, c7, c8, c9, c10, ?_⟩
      intro c hc htag hdef
      rcases List.mem_cons.1 hc with rfl | hc
      · simp only [Xml.tag] at htag
        simp [bne, htag] at hct
      · exact c11 c hc htag hdef
    rw [if_neg hct] at hg he
    have hcase : (ctag == "case") = true := by simpa using hct
    rw [if_pos hcase] at hfr
    obtain ⟨hfb, hfrest⟩ := hfr
    -- the class name
    split at hg
    · cases hg
    rename_i clsName hcn
    have hname := caseDataTypeName_eq hcn
    rw [hcls] at hname
    -- the condition
    split at hg
    · cases hg
    rename_i cond hcond
    by_cases hfn : (ctx.field? f).isNone = true
    · rw [if_pos hfn] at hg; cases hg
    rw [if_neg hfn] at hg
    -- declarative side
    generalize hce : Xml.mk ctag cattrs ctext ctail cchildren = ce at hg he hcn hcond hname
    cases hb : elabBody env ss (cls ++ "." ++ PyStr.snakeToPascal f ++ "Data" ++
        (if xmlBool ce "default" = true then "Default" else (ce.get "value").getD "")) cchildren cchildren false with
    | none => rw [hb] at he; cases he
    | some b =>
    cases hr : elabCases env ss cls f (enumMembers env (findFieldType f scope)) cs with
    | none => rw [hb, hr] at he; cases he
    | some r =>
    rw [hb, hr] at he
    simp only [Option.some.injEq] at he
    subst he
    rw [← hname] at hb
    rw [LensDeepC] at hld
    obtain ⟨⟨hlb, hldb⟩, hldr⟩ := hld
    -- the condition, on both sides
    have hcondEq : cond = (if xmlBool ce "default" = true then none
        else match PyStr.pyInt? ((ce.get "value").getD "") with
          | some n => some n
          | none => Option.map (fun x => x.2) (List.find? (fun x => x.1 == (ce.get "value").getD "")
              (enumMembers env (findFieldType f scope)))) := by
      have hb' : ce.getBool "default" = xmlBool ce "default" := rfl
      rw [hb'] at hcond
      cases hdf : xmlBool ce "default" with
      | true =>
        rw [hdf] at hcond
        simp only [if_true] at hcond ⊢
        split at hcond
        · cases hcond
        · cases hcond; rfl
      | false =>
        rw [hdf] at hcond
        simp only [Bool.false_eq_true, if_false] at hcond ⊢
        cases hcv : caseValue ctx f ce with
        | error e => rw [hcv] at hcond; cases hcond
        | ok n =>
          rw [hcv] at hcond
          cases hcond
          have hv : ∃ v, ce.get "value" = some v := by
            unfold caseDataTypeName at hcn
            have hb'' : ce.getBool "default" = false := hdf
            rw [hb''] at hcn
            simp only [Bool.false_eq_true, if_false] at hcn
            obtain ⟨v, hv, _⟩ := except_bind_ok hcn
            exact ⟨v, getReq_ok hv⟩
          obtain ⟨v, hv⟩ := hv
          simp only [hv, Option.getD_some]
          cases hm : PyStr.pyInt? v with
          | some m => rw [caseValue_numeric hcv hv hm]
          | none =>
            obtain ⟨fd, en, path, k, vals, ev, hfd, harr, hty, hev, hn⟩ := caseValue_symbolic hcv hv hm
            rw [hen f fd hfd harr en path k vals hty, find_map_pair, hev, hn]
            rfl
    by_cases hem : (!(cchildren.any (fun x => Xml.instructionTags.contains x.tag))) = true
    · -- a case without data
      rw [if_pos hem] at hg
      have hbnil : b = [] := (elabBody_empty cchildren false b hb).2 (by simpa using hem)
      subst hbnil
      obtain ⟨scNew, recs, c1, c2, c3, c4, c5, c6, c7, c8, c9, c10, c11⟩ :=
        cases_all htf cs ctx { d with imports := d.imports ++ serErrImport } f false _ _ _ _ d' ro' rd' sc' dc' cls
          scope r lex hfrest hen hlex hcls hg hr hldr
      refine ⟨⟨cond, .expectNone (f ++ "_data")⟩ :: scNew, recs, ?_, c2, c3, c4, c5, c6, ?_, ?_, ?_, ?_, ?_⟩
      · rw [c1]; simp
      · intro cond' cl b' hm hne
        rcases List.mem_cons.1 hm with hm | hm
        · cases hm; exact absurd rfl hne
        · exact c7 cond' cl b' hm hne
      · exact ⟨hcondEq, rfl, c8⟩
      · trivial
      · intro h; exact c10 (by simp [h])
      · intro c hc htag hdef
        rcases List.mem_cons.1 hc with rfl | hc
        · simp only [hdef, if_true]
          exact ⟨_, _, List.mem_cons_self ..⟩
        · obtain ⟨cl, b', hm⟩ := c11 c hc htag hdef
          exact ⟨cl, b', List.mem_cons_of_mem _ hm⟩
    · -- a case with a data class
      rw [if_neg hem] at hg
      split at hg
      · cases hg
      rename_i cctx' cd hgb
      have hbne : b ≠ [] := by
        intro hbn
        have := (elabBody_empty cchildren false b hb).1 hbn
        rw [this] at hem; exact hem rfl
      have hok0 : CtxOK { ctx with accessible := [], lenRef := [] } (lensOf b) := CtxOK.empty _ rfl rfl
      rw [elabBody_flag env ss clsName cchildren cchildren false true] at hb
      have sall := body_all htf cchildren true { ctx with accessible := [], lenRef := [] } { className := clsName }
        cctx' cd b cchildren clsName lex (lensOf b) hfb hok0 (CtxEnum.empty rfl) hlex rfl hgb hb hlb hldb
      have hsim := classSim_of_stepAll sall rfl rfl
      obtain ⟨ops, recsb, e1, n1, a1, _, _, _, rOK, cov, _⟩ := sall
      obtain ⟨scNew, recs, c1, c2, c3, c4, c5, c6, c7, c8, c9, c10, c11⟩ :=
        cases_all htf cs ctx { d with aux := d.aux ++ [cd.toClass cctx'] ++ cd.aux, imports := d.imports ++ (cd.toClass cctx').imports ++ serErrImport } f false _ _ _ _ d' ro' rd' sc' dc' cls scope r lex hfrest hen hlex hcls hg hr hldr
      refine ⟨⟨cond, .expectCls (f ++ "_data") clsName⟩ :: scNew,
        (⟨cd.toClass cctx', lex, b⟩ :: recsb) ++ recs, ?_, c2, c3, c4, ?_, ?_, ?_, ?_, ?_, ?_, ?_⟩
      · rw [c1]; simp
      · rw [c5]
        show (d.aux ++ [cd.toClass cctx'] ++ cd.aux) ++ _ = _
        rw [a1]
        simp [List.append_assoc]
      · refine RecsOK.append ?_ c6
        intro r' hr'
        rcases List.mem_cons.1 hr' with rfl | hr'
        · exact ⟨hsim, cov.mono (fun _ h => List.mem_cons_of_mem _ h)⟩
        · exact ⟨(rOK r' hr').1, (rOK r' hr').2.mono (fun _ h => List.mem_cons_of_mem _ h)⟩
      · intro cond' cl b' hm hne
        rcases List.mem_cons.1 hm with hm | hm
        · cases hm
          exact ⟨_, List.mem_append_left _ (List.mem_cons_self ..), n1.trans hname, rfl, rfl⟩
        · obtain ⟨r', hr', h1⟩ := c7 cond' cl b' hm hne
          exact ⟨r', List.mem_append_right _ hr', h1⟩
      · refine ⟨hcondEq, ?_, c8⟩
        have : b.isEmpty = false := by cases b with | nil => exact absurd rfl hbne | cons _ _ => rfl
        rw [this, ← hname]; rfl
      · trivial
      · intro h; exact c10 (by simp [h])
      · intro c hc htag hdef
        rcases List.mem_cons.1 hc with rfl | hc
        · simp only [hdef, if_true]
          exact ⟨_, _, List.mem_cons_self ..⟩
        · obtain ⟨cl, b', hm⟩ := c11 c hc htag hdef
          exact ⟨cl, b', List.mem_cons_of_mem _ hm⟩

end
end

/-- names of the length fields of a body (case bodies excluded: they are classes of their own) -/
def lenNames : List TInstr → List String
  | [] => []
  | .length n _ _ _ _ :: rest => n :: lenNames rest
  | .chunked b :: rest => lenNames b ++ lenNames rest
  | _ :: rest => lenNames rest

theorem lensOf_none_of_not_mem : ∀ (body : List TInstr) (q : String), q ∉ lenNames body → lensOf body q = none
  | [], q, _ => by rw [lensOf]
  | .length n k off o r :: rest, q, h => by
    rw [lenNames, List.mem_cons, not_or] at h
    rw [lensOf, if_neg (by intro hh; exact h.1 (Eq.symm (by simpa using hh)))]
    exact lensOf_none_of_not_mem rest q h.2
  | .chunked b :: rest, q, h => by
    rw [lenNames, List.mem_append, not_or] at h
    rw [lensOf, lensOf_none_of_not_mem b q h.1]
    exact lensOf_none_of_not_mem rest q h.2
  | .field _ _ _ :: rest, q, h => by simpa [lensOf] using lensOf_none_of_not_mem rest q (by simpa [lenNames] using h)
  | .const _ _ :: rest, q, h => by simpa [lensOf] using lensOf_none_of_not_mem rest q (by simpa [lenNames] using h)
  | .namedConst _ _ _ _ :: rest, q, h => by simpa [lensOf] using lensOf_none_of_not_mem rest q (by simpa [lenNames] using h)
  | .array _ _ _ _ _ _ _ :: rest, q, h => by simpa [lensOf] using lensOf_none_of_not_mem rest q (by simpa [lenNames] using h)
  | .dummy _ _ :: rest, q, h => by simpa [lensOf] using lensOf_none_of_not_mem rest q (by simpa [lenNames] using h)
  | .switch _ _ :: rest, q, h => by simpa [lensOf] using lensOf_none_of_not_mem rest q (by simpa [lenNames] using h)
  | .brk :: rest, q, h => by simpa [lensOf] using lensOf_none_of_not_mem rest q (by simpa [lenNames] using h)

theorem lensOf_some_of_mem : ∀ (body : List TInstr) (q : String), q ∈ lenNames body → (lensOf body q).isSome = true
  | [], q, h => by simp [lenNames] at h
  | .length n k off o r :: rest, q, h => by
    rw [lensOf]
    by_cases hn : (n == q) = true
    · rw [if_pos hn]; rfl
    · rw [if_neg hn]
      rw [lenNames, List.mem_cons] at h
      rcases h with h | h
      · exact absurd (by simp [h]) hn
      · exact lensOf_some_of_mem rest q h
  | .chunked b :: rest, q, h => by
    rw [lensOf]
    rw [lenNames, List.mem_append] at h
    cases hb : lensOf b q with
    | some li => rfl
    | none =>
      rcases h with h | h
      · have := lensOf_some_of_mem b q h; rw [hb] at this; cases this
      · exact lensOf_some_of_mem rest q h
  | .field _ _ _ :: rest, q, h => by simpa [lensOf] using lensOf_some_of_mem rest q (by simpa [lenNames] using h)
  | .const _ _ :: rest, q, h => by simpa [lensOf] using lensOf_some_of_mem rest q (by simpa [lenNames] using h)
  | .namedConst _ _ _ _ :: rest, q, h => by simpa [lensOf] using lensOf_some_of_mem rest q (by simpa [lenNames] using h)
  | .array _ _ _ _ _ _ _ :: rest, q, h => by simpa [lensOf] using lensOf_some_of_mem rest q (by simpa [lenNames] using h)
  | .dummy _ _ :: rest, q, h => by simpa [lensOf] using lensOf_some_of_mem rest q (by simpa [lenNames] using h)
  | .switch _ _ :: rest, q, h => by simpa [lensOf] using lensOf_some_of_mem rest q (by simpa [lenNames] using h)
  | .brk :: rest, q, h => by simpa [lensOf] using lensOf_some_of_mem rest q (by simpa [lenNames] using h)

/-- with pairwise distinct length-field names, `lensOf` finds every declaration -/
theorem lensOK_of_nodup : ∀ (body : List TInstr) (lens : String → Option LenInfo),
    (lenNames body).Nodup → (∀ q ∈ lenNames body, lens q = lensOf body q) → LensOK lens body
  | [], _, _, _ => by simp [LensOK]
  | .length n k off o r :: rest, lens, hnd, hl => by
    rw [lenNames, List.nodup_cons] at hnd
    rw [LensOK]
    refine ⟨?_, lensOK_of_nodup rest lens hnd.2 ?_⟩
    · rw [hl n (by simp [lenNames]), lensOf, if_pos (by simp)]
    · intro q hq
      rw [hl q (by simp [lenNames, hq]), lensOf, if_neg]
      intro hh
      have : n = q := by simpa using hh
      subst this; exact hnd.1 hq
  | .chunked b :: rest, lens, hnd, hl => by
    rw [lenNames, List.nodup_append] at hnd
    obtain ⟨hb, hr, hdis⟩ := hnd
    rw [LensOK]
    refine ⟨lensOK_of_nodup b lens hb ?_, lensOK_of_nodup rest lens hr ?_⟩
    · intro q hq
      rw [hl q (by simp [lenNames, hq]), lensOf]
      have := lensOf_some_of_mem b q hq
      cases hb' : lensOf b q with
      | none => rw [hb'] at this; cases this
      | some li => rfl
    · intro q hq
      rw [hl q (by simp [lenNames, hq]), lensOf]
      have : q ∉ lenNames b := fun hqb => hdis q hqb q hq rfl
      rw [lensOf_none_of_not_mem b q this]
  | .field _ _ _ :: rest, lens, hnd, hl => by
    simp only [LensOK]
    exact lensOK_of_nodup rest lens (by simpa [lenNames] using hnd)
      (fun q hq => by rw [hl q (by simpa [lenNames] using hq)]; simp [lensOf])
  | .const _ _ :: rest, lens, hnd, hl => by
    simp only [LensOK]
    exact lensOK_of_nodup rest lens (by simpa [lenNames] using hnd)
      (fun q hq => by rw [hl q (by simpa [lenNames] using hq)]; simp [lensOf])
  | .namedConst _ _ _ _ :: rest, lens, hnd, hl => by
    simp only [LensOK]
    exact lensOK_of_nodup rest lens (by simpa [lenNames] using hnd)
      (fun q hq => by rw [hl q (by simpa [lenNames] using hq)]; simp [lensOf])
  | .array _ _ _ _ _ _ _ :: rest, lens, hnd, hl => by
    simp only [LensOK]
    exact lensOK_of_nodup rest lens (by simpa [lenNames] using hnd)
      (fun q hq => by rw [hl q (by simpa [lenNames] using hq)]; simp [lensOf])
  | .dummy _ _ :: rest, lens, hnd, hl => by
    simp only [LensOK]
    exact lensOK_of_nodup rest lens (by simpa [lenNames] using hnd)
      (fun q hq => by rw [hl q (by simpa [lenNames] using hq)]; simp [lensOf])
  | .switch _ _ :: rest, lens, hnd, hl => by
    simp only [LensOK]
    exact lensOK_of_nodup rest lens (by simpa [lenNames] using hnd)
      (fun q hq => by rw [hl q (by simpa [lenNames] using hq)]; simp [lensOf])
  | .brk :: rest, lens, hnd, hl => by
    simp only [LensOK]
    exact lensOK_of_nodup rest lens (by simpa [lenNames] using hnd)
      (fun q hq => by rw [hl q (by simpa [lenNames] using hq)]; simp [lensOf])

mutual
/-- `lenNames`, in a form the kernel can evaluate -/
def lenNamesI : TInstr → List String
  | .length n _ _ _ _ => [n]
  | .chunked b => lenNamesL b
  | _ => []
def lenNamesL : List TInstr → List String
  | [] => []
  | i :: rest => lenNamesI i ++ lenNamesL rest
end

theorem lenNamesL_eq : ∀ (body : List TInstr), lenNamesL body = lenNames body
  | [] => by rw [lenNamesL, lenNames]
  | .length n k off o r :: rest => by rw [lenNamesL, lenNamesI, lenNames, lenNamesL_eq rest]; rfl
  | .chunked b :: rest => by rw [lenNamesL, lenNamesI, lenNames, lenNamesL_eq rest, lenNamesL_eq b]
  | .field _ _ _ :: rest => by rw [lenNamesL, lenNamesL_eq rest]; simp [lenNames, lenNamesI]
  | .const _ _ :: rest => by rw [lenNamesL, lenNamesL_eq rest]; simp [lenNames, lenNamesI]
  | .namedConst _ _ _ _ :: rest => by rw [lenNamesL, lenNamesL_eq rest]; simp [lenNames, lenNamesI]
  | .array _ _ _ _ _ _ _ :: rest => by rw [lenNamesL, lenNamesL_eq rest]; simp [lenNames, lenNamesI]
  | .dummy _ _ :: rest => by rw [lenNamesL, lenNamesL_eq rest]; simp [lenNames, lenNamesI]
  | .switch _ _ :: rest => by rw [lenNamesL, lenNamesL_eq rest]; simp [lenNames, lenNamesI]
  | .brk :: rest => by rw [lenNamesL, lenNamesL_eq rest]; simp [lenNames, lenNamesI]


/-! ### The deep length-field check, computably -/

mutual
def lensDeepI : TInstr → Bool
  | .switch _ cases => lensDeepC cases
  | .chunked b => lensDeepL b
  | _ => true
def lensDeepL : List TInstr → Bool
  | [] => true
  | i :: rest => lensDeepI i && lensDeepL rest
def lensDeepC : List TCase → Bool
  | [] => true
  | .mk _ _ b :: rest => (decide (lenNamesL b).Nodup && lensDeepL b) && lensDeepC rest
end

mutual
theorem lensDeepI_sound : ∀ (i : TInstr), lensDeepI i = true → LensDeepI i
  | .switch _ cases, h => by rw [lensDeepI] at h; rw [LensDeepI]; exact lensDeepC_sound cases h
  | .chunked b, h => by rw [lensDeepI] at h; rw [LensDeepI]; exact lensDeepL_sound b h
  | .field _ _ _, _ => by simp [LensDeepI]
  | .const _ _, _ => by simp [LensDeepI]
  | .namedConst _ _ _ _, _ => by simp [LensDeepI]
  | .length _ _ _ _ _, _ => by simp [LensDeepI]
  | .array _ _ _ _ _ _ _, _ => by simp [LensDeepI]
  | .dummy _ _, _ => by simp [LensDeepI]
  | .brk, _ => by simp [LensDeepI]
theorem lensDeepL_sound : ∀ (is : List TInstr), lensDeepL is = true → LensDeepL is
  | [], _ => by simp [LensDeepL]
  | i :: rest, h => by
    rw [lensDeepL, Bool.and_eq_true] at h
    rw [LensDeepL]
    exact ⟨lensDeepI_sound i h.1, lensDeepL_sound rest h.2⟩
theorem lensDeepC_sound : ∀ (cs : List TCase), lensDeepC cs = true → LensDeepC cs
  | [], _ => by simp [LensDeepC]
  | .mk _ _ b :: rest, h => by
    rw [lensDeepC, Bool.and_eq_true, Bool.and_eq_true, decide_eq_true_eq] at h
    rw [LensDeepC]
    refine ⟨⟨lensOK_of_nodup b _ (by rw [← lenNamesL_eq]; exact h.1.1) (fun _ _ => rfl), lensDeepL_sound b h.1.2⟩,
      lensDeepC_sound rest h.2⟩
end

end EoVerif.Gen.Conform
