import EoVerif.Model.PyOps
/-! Loop lemmas shared by the source-tie proofs (`Props/Src*.lean`). -/
namespace EoVerif.SrcTie
open EoVerif

/-- a model byte string as the translated source sees it (Python ints) -/
def ofBytes (bs : Bytes) : List Int := bs.map Int.ofNat

/-- a `for i in range(len(xs))` loop that rewrites position `i` from its old value only is a `map` -/
theorem map_loop (P : Int → Prop) (f : Int → Int) (body : Int → List Int → Py.M (List Int × Bool))
    (hbody : ∀ (done : List Int) (c : Int) (rest : List Int), P c →
        body (done.length : Int) (done ++ c :: rest) = .ok (done ++ f c :: rest, false))
    (suf : List Int) : (∀ c ∈ suf, P c) → ∀ done : List Int,
      Py.forRangeGo body suf.length (done.length : Int) (done ++ suf) = .ok (done ++ suf.map f) := by
  induction suf with
  | nil => intro _ done; simp [Py.forRangeGo]
  | cons c cs ih =>
    intro hP done
    have hb := hbody done c cs (hP c (by simp))
    rw [List.length_cons, Py.forRangeGo_step _ _ _ _ _ hb]
    have h := ih (fun x hx => hP x (by simp [hx])) (done ++ [f c])
    simp only [List.length_append, List.length_cons, List.length_nil, Nat.zero_add, Int.natCast_add, Int.natCast_one,
      List.append_assoc, List.singleton_append] at h
    rw [h]; simp

theorem map_main (P : Int → Prop) (f : Int → Int) (body : Int → List Int → Py.M (List Int × Bool))
    (hbody : ∀ (done : List Int) (c : Int) (rest : List Int), P c →
        body (done.length : Int) (done ++ c :: rest) = .ok (done ++ f c :: rest, false))
    (xs : List Int) (hP : ∀ c ∈ xs, P c) :
    Py.bind (Py.forRangeGo body xs.length 0 xs) (fun data => Except.ok data) = .ok (xs.map f) := by
  have key := map_loop P f body hbody xs hP []
  simp only [List.length_nil, Int.natCast_zero, List.nil_append] at key
  rw [key]; rfl

end EoVerif.SrcTie
