import EoVerif.Model.Enc
/-! Helper lemmas for C10. -/
namespace EoVerif.Enc

/-! ## `permute` -/

theorem permute_length (idx : Nat → Nat → Nat) (d : Bytes) :
    (permute idx d).length = d.length := by
  simp [permute]

theorem permute_get (idx : Nat → Nat → Nat) (d : Bytes) (j : Nat) (h : j < d.length)
    (hi : idx d.length j < d.length) : (permute idx d)[j]? = d[idx d.length j]? := by
  simp [permute, h, List.getD_eq_getElem?_getD, List.getElem?_eq_getElem hi]

theorem getD_lt (d : Bytes) (h : ∀ b ∈ d, b < 256) (k : Nat) : d.getD k 0 < 256 := by
  rw [List.getD_eq_getElem?_getD]
  cases hk : d[k]? with
  | none => simp
  | some b => simpa using h b (List.mem_of_getElem? hk)

theorem permute_ok (idx : Nat → Nat → Nat) (d : Bytes) (h : ∀ b ∈ d, b < 256) :
    ∀ b ∈ permute idx d, b < 256 := by
  intro b hb
  simp only [permute, List.mem_map] at hb
  obtain ⟨j, _, rfl⟩ := hb
  exact getD_lt d h _

/-- Two permutations by mutually inverse index maps cancel. -/
theorem permute_permute (f g : Nat → Nat → Nat) (d : Bytes)
    (hf : ∀ n j, j < n → f n j < n) (hg : ∀ n j, j < n → g n j < n)
    (hfg : ∀ n j, j < n → f n (g n j) = j) : permute g (permute f d) = d := by
  apply List.ext_getElem?
  intro j
  by_cases hj : j < d.length
  · have hl := permute_length f d
    rw [permute_get g _ j (by omega) (by rw [hl]; exact hg _ _ hj), hl,
      permute_get f d _ (hg _ _ hj) (hf _ _ (hg _ _ hj)), hfg _ _ hj]
  · have h1 : (permute g (permute f d)).length ≤ j := by
      rw [permute_length, permute_length]; omega
    rw [List.getElem?_eq_none h1, List.getElem?_eq_none (by omega)]

/-! ## `flipB` -/

theorem flipB_invol' (b : Nat) (h : b < 256) : flipB (flipB b) = b := by
  unfold flipB; repeat' split
  all_goals omega

theorem flipB_lt' (b : Nat) (h : b < 256) : flipB b < 256 := by
  unfold flipB; split <;> (try split) <;> omega

theorem flipMsb_ok (d : Bytes) (h : ∀ b ∈ d, b < 256) : ∀ b ∈ flipMsb d, b < 256 := by
  intro b hb
  simp only [flipMsb, List.mem_map] at hb
  obtain ⟨a, ha, rfl⟩ := hb
  exact flipB_lt' a (h a ha)

theorem flipMsb_flipMsb (d : Bytes) (h : ∀ b ∈ d, b < 256) : flipMsb (flipMsb d) = d := by
  induction d with
  | nil => rfl
  | cons x xs ih =>
    have hx := flipB_invol' x (h x (by simp))
    have hxs := ih (fun b hb => h b (by simp [hb]))
    simp only [flipMsb, List.map_cons] at hxs ⊢
    rw [hx, hxs]

/-! ## `swapAux` -/

/-- A block of multiples at the front is pushed (reversed) onto the pending run. -/
theorem swapAux_run_append (m : Nat) (r l run : Bytes) (hr : ∀ x ∈ r, x % m = 0) :
    swapAux m (r ++ l) run = swapAux m l (r.reverse ++ run) := by
  induction r generalizing run with
  | nil => simp
  | cons x xs ih =>
    have hx : x % m = 0 := hr x (by simp)
    have hxs : ∀ y ∈ xs, y % m = 0 := fun y hy => hr y (by simp [hy])
    simp [swapAux, hx, ih _ hxs]

theorem swapAux_length (m : Nat) (l run : Bytes) :
    (swapAux m l run).length = run.length + l.length := by
  induction l generalizing run with
  | nil => simp [swapAux]
  | cons x xs ih =>
    unfold swapAux
    split
    · rw [ih]; simp; omega
    · simp [ih]

theorem swapAux_perm (m : Nat) (l run : Bytes) : (swapAux m l run).Perm (run ++ l) := by
  induction l generalizing run with
  | nil => simp [swapAux]
  | cons x xs ih =>
    unfold swapAux
    split
    · exact (ih (x :: run)).trans (List.perm_middle.symm)
    · exact List.Perm.append_left run (List.Perm.cons x (by simpa using ih []))

theorem swapAux_fixes (m : Nat) (l run : Bytes) (i : Nat) (hi : i < l.length)
    (h : l.getD i 0 % m ≠ 0) : (swapAux m l run)[run.length + i]? = l[i]? := by
  induction l generalizing run i with
  | nil => simp at hi
  | cons x xs ih =>
    unfold swapAux
    split
    next hx =>
      cases i with
      | zero => simp [hx] at h
      | succ i' =>
        have := ih (x :: run) i' (by simpa using hi) (by simpa using h)
        simpa [Nat.add_assoc, Nat.add_comm 1 i'] using this
    next hx =>
      rw [List.getElem?_append_right (by omega)]
      cases i with
      | zero => simp
      | succ i' =>
        have := ih [] i' (by simpa using hi) (by simpa using h)
        simpa [Nat.add_sub_cancel_left] using this

theorem swapAux_invol (m : Nat) (l run : Bytes) (hr : ∀ x ∈ run, x % m = 0) :
    swapAux m (swapAux m l run) [] = run.reverse ++ l := by
  induction l generalizing run with
  | nil =>
    have := swapAux_run_append m run [] [] hr
    simpa [swapAux] using this
  | cons x xs ih =>
    by_cases hx : x % m = 0
    · have hr' : ∀ y ∈ x :: run, y % m = 0 := by
        intro y hy
        rcases List.mem_cons.mp hy with rfl | hy
        · exact hx
        · exact hr y hy
      simp [swapAux, hx, ih _ hr']
    · have h0 := ih [] (by simp)
      simp only [swapAux, hx, if_false]
      rw [swapAux_run_append m run _ [] hr]
      simp [swapAux, hx, h0]

theorem swapAux_ok (m : Nat) (d : Bytes) (h : ∀ b ∈ d, b < 256) :
    ∀ b ∈ swapAux m d [], b < 256 := by
  intro b hb
  exact h b (by simpa using (swapAux_perm m d []).mem_iff.mp hb)

end EoVerif.Enc
