import EoVerif.Lemmas.ConformArray
/-! `<switch>` for the C02 simulation: case classes, what a body delivers for every run-time
    environment (`StepAll`), and the emitted `if / elif` chain against `wireCases`. -/
namespace EoVerif.Gen.Conform
open EoVerif EoVerif.Gen EoVerif.Spec EoVerif.Gen.WF

/-! ### Case classes -/

mutual
/-- the cases directly below a body (not those nested inside another case body): class name, case body,
    and the lexical flag at the switch -/
def directCasesI (lex : Bool) : TInstr → List (String × List TInstr × Bool)
  | .switch _ cases => cases.map (fun c => match c with | .mk _ cls b => (cls, b, lex))
  | .chunked b => directCases true b
  | _ => []
def directCases (lex : Bool) : List TInstr → List (String × List TInstr × Bool)
  | [] => []
  | i :: rest => directCasesI lex i ++ directCases lex rest
end

theorem directCases_append (lex : Bool) : ∀ (a b : List TInstr),
    directCases lex (a ++ b) = directCases lex a ++ directCases lex b
  | [], b => by simp [directCases]
  | i :: a, b => by rw [List.cons_append, directCases, directCases, directCases_append lex a b, List.append_assoc]

/-- the callback serializes the data object of case class `cls` as the case body prescribes -/
def CaseOK (call : SerCall) (wcall : String → Value → Bool → W) (TVs : List (String → Value → Prop))
    (lex : Bool) (cls : String) (b : List TInstr) : Prop :=
  match TVs with
  | [] => True
  | TV' :: TVs' => ∀ dv w, TypedInstrs TV' TVs' dv b →
    Conf (call cls dv w) ((wireInstrs wcall (lensOf b) dv lex b { san := w.san }).map (·.out))
      (fun w' bs => w' = { w with data := w.data ++ bs })

def CasesOK (call : SerCall) (wcall : String → Value → Bool → W) (TVs : List (String → Value → Prop))
    (lex : Bool) (is : List TInstr) : Prop :=
  ∀ x ∈ directCases lex is, x.2.1 ≠ [] → CaseOK call wcall TVs x.2.2 x.1 x.2.1

/-- a generated case class against the case body it was generated from -/
structure CaseRec where
  ir : ClassIR
  lex : Bool
  b : List TInstr

/-- the generated `serialize` of a class with statements `ops` conforms to body `b` -/
def ClassSim (ops : List SerOp) (lex : Bool) (b : List TInstr) : Prop :=
  ∀ (call : SerCall) (wcall : String → Value → Bool → W) (TV : String → Value → Prop)
    (TVs : List (String → Value → Prop)) (obj : Value) (w : Writer) (ir' : ClassIR), ir'.ser = ops →
    CallOK call wcall TV → CasesOK call wcall TVs lex b → TypedInstrs TV TVs obj b →
    Conf (serializeBody call ir' obj w)
      ((wireInstrs wcall (lensOf b) obj lex b { san := w.san }).map (·.out))
      (fun w' bs => w' = { w with data := w.data ++ bs })

/-- every non-empty direct case of `is` has its record -/
def Covers (recs : List CaseRec) (lex : Bool) (is : List TInstr) : Prop :=
  ∀ x ∈ directCases lex is, x.2.1 ≠ [] → ∃ r ∈ recs, r.ir.name = x.1 ∧ r.b = x.2.1 ∧ r.lex = x.2.2

def RecsOK (recs : List CaseRec) : Prop :=
  ∀ r ∈ recs, ClassSim r.ir.ser r.lex r.b ∧ Covers recs r.lex r.b

theorem Covers.mono {recs recs' : List CaseRec} {lex : Bool} {is : List TInstr} (h : Covers recs lex is)
    (hs : ∀ r ∈ recs, r ∈ recs') : Covers recs' lex is := by
  intro x hx hne
  obtain ⟨r, hr, h1⟩ := h x hx hne
  exact ⟨r, hs r hr, h1⟩

theorem RecsOK.append {a b : List CaseRec} (ha : RecsOK a) (hb : RecsOK b) : RecsOK (a ++ b) := by
  intro r hr
  rcases List.mem_append.1 hr with hr | hr
  · exact ⟨(ha r hr).1, (ha r hr).2.mono (fun _ h => List.mem_append_left _ h)⟩
  · exact ⟨(hb r hr).1, (hb r hr).2.mono (fun _ h => List.mem_append_right _ h)⟩

theorem RecsOK.nil : RecsOK [] := fun _ h => by cases h

/-- what one instruction (or body) delivers, for every run-time environment -/
def StepAll (lens : String → Option LenInfo) (lex : Bool) (env : Env) (scope : List Xml)
    (ctx : Ctx) (d : Data) (ctx' : Ctx) (d' : Data) (is : List TInstr) : Prop :=
  ∃ (ops : List SerOp) (recs : List CaseRec),
    d'.ser = d.ser ++ ops ∧ d'.className = d.className ∧ d'.aux = d.aux ++ recs.map (·.ir) ∧
    CtxOK ctx' lens ∧ CtxEnum env scope ctx' ∧ ctx'.chunked = ctx.chunked ∧
    RecsOK recs ∧ Covers recs lex is ∧
    ∀ (call : SerCall) (wcall : String → Value → Bool → W) (TV : String → Value → Prop)
      (TVs : List (String → Value → Prop)) (obj : Value) (base : Bytes),
      CallOK call wcall TV → CasesOK call wcall TVs lex is →
      ∀ st wst, TypedInstrs TV TVs obj is → Dyn base ctx.reachedOptional d.rmoAssigned d.ser.isEmpty st wst →
        Conf (execSerOps call obj ops st) (wireInstrs wcall lens obj lex is wst)
          (fun st' wst' => Dyn base ctx'.reachedOptional d'.rmoAssigned d'.ser.isEmpty st' wst')

theorem StepAll.refl {lens : String → Option LenInfo} {lex : Bool} {env : Env} {scope : List Xml} {ctx : Ctx}
    {d : Data} (hok : CtxOK ctx lens) (hen : CtxEnum env scope ctx) :
    StepAll lens lex env scope ctx d ctx d [] := by
  refine ⟨[], [], (List.append_nil _).symm, rfl, by simp, hok, hen, rfl, RecsOK.nil, ?_, ?_⟩
  · intro x hx; simp [directCases] at hx
  · intro call wcall TV TVs obj base _ _ st wst _ hdyn
    rw [execSerOps_nil, wireInstrs_nil]
    exact hdyn

theorem StepAll.trans {lens : String → Option LenInfo} {lex : Bool} {env : Env} {scope : List Xml}
    {c0 c1 c2 : Ctx} {d0 d1 d2 : Data}
    {is1 is2 : List TInstr} (h1 : StepAll lens lex env scope c0 d0 c1 d1 is1)
    (h2 : StepAll lens lex env scope c1 d1 c2 d2 is2) :
    StepAll lens lex env scope c0 d0 c2 d2 (is1 ++ is2) := by
  obtain ⟨ops1, recs1, e1, n1, a1, _, _, ch1, ro1, cv1, f1⟩ := h1
  obtain ⟨ops2, recs2, e2, n2, a2, ok2, en2, ch2, ro2, cv2, f2⟩ := h2
  refine ⟨ops1 ++ ops2, recs1 ++ recs2, by rw [e2, e1, List.append_assoc], n2.trans n1,
    by rw [a2, a1, List.map_append, List.append_assoc], ok2, en2, ch2.trans ch1, ro1.append ro2, ?_, ?_⟩
  · intro x hx hne
    rw [directCases_append, List.mem_append] at hx
    rcases hx with hx | hx
    · exact (cv1.mono (fun _ h => List.mem_append_left _ h)) x hx hne
    · exact (cv2.mono (fun _ h => List.mem_append_right _ h)) x hx hne
  · intro call wcall TV TVs obj base hcall hcases st wst hty hdyn
    rw [TypedInstrs_append] at hty
    rw [execSerOps_append, wireInstrs_append]
    have hc1 : CasesOK call wcall TVs lex is1 := fun x hx =>
      hcases x (by rw [directCases_append]; exact List.mem_append_left _ hx)
    have hc2 : CasesOK call wcall TVs lex is2 := fun x hx =>
      hcases x (by rw [directCases_append]; exact List.mem_append_right _ hx)
    exact Conf_bind (f1 call wcall TV TVs obj base hcall hc1 st wst hty.1 hdyn)
      (fun s a h => f2 call wcall TV TVs obj base hcall hc2 s a hty.2 h)

/-- a leaf instruction: no case classes -/
theorem StepAll.of_leaf {lens : String → Option LenInfo} {lex : Bool} {env : Env} {scope : List Xml}
    {ctx ctx' : Ctx} {d d' : Data}
    {is : List TInstr} (hnc : directCases lex is = [])
    (h : ∀ (call : SerCall) (wcall : String → Value → Bool → W) (TV : String → Value → Prop)
      (TVs : List (String → Value → Prop)) (obj : Value) (base : Bytes), CallOK call wcall TV →
      StepOK call wcall TV TVs lens obj base lex env scope ctx d ctx' d' is) :
    StepAll lens lex env scope ctx d ctx' d' is := by
  have hcall0 : CallOK (fun _ _ w => (w, .ok ())) (fun _ _ _ => none) (fun _ _ => False) :=
    fun _ _ _ h => h.elim
  obtain ⟨ops, e1, n1, a1, ok1, en1, ch1, _⟩ := h _ _ _ [] .none [] hcall0
  refine ⟨ops, [], e1, n1, by simpa using a1, ok1, en1, ch1, RecsOK.nil, ?_, ?_⟩
  · intro x hx; rw [hnc] at hx; cases hx
  · intro call wcall TV TVs obj base hcall _ st wst hty hdyn
    obtain ⟨ops', e1', _, _, _, _, _, f⟩ := h call wcall TV TVs obj base hcall
    have : ops' = ops := List.append_cancel_left (e1'.symm.trans e1)
    subst this
    exact f st wst hty hdyn


/-! ### The emitted `if / elif` chain against `wireCases` -/

/-- the emitted case list lines up with the declarative cases -/
def Aligned (df : String) : List SerCase → List TCase → Prop
  | [], [] => True
  | s :: ss, (.mk cond cls b) :: ts =>
    s.cond = cond ∧ s.body = (if b.isEmpty then .expectNone df else .expectCls df cls) ∧ Aligned df ss ts
  | _, _ => False

def selP (fv : Value) (c : Option Int) : Bool :=
  match c with
  | none => true
  | some n => (match fv.toInt? with | some m => m == n | none => false)

def execCase (call : SerCall) (obj : Value) (st : SerSt) : CaseSer → Res SerSt Unit
  | .expectNone df =>
    (match obj.attr df with
     | .missing => (st, .error .AttributeError)
     | .none => (st, .ok ())
     | _ => (st, .error .SerializationError))
  | .expectCls df cls =>
    (match obj.attr df with
     | .missing => (st, .error .AttributeError)
     | dv =>
       if dv.cls? == some cls then
         let (w', r) := call cls dv st.w
         ({ st with w := w' }, r)
       else (st, .error .SerializationError))

def execSel (call : SerCall) (obj : Value) (st : SerSt) : Option SerCase → Res SerSt Unit
  | none => (st, .ok ())
  | some c => execCase call obj st c.body

theorem exec_switch (call : SerCall) (obj : Value) (f : String) (cases : List SerCase) (st : SerSt)
    (hm : obj.attr f ≠ .missing) :
    execSerOp call obj (.switch f cases) st
      = execSel call obj st (cases.find? (fun c => selP (obj.attr f) c.cond)) := by
  rw [execSerOp]
  split
  next h => exact absurd h hm
  next =>
    unfold execSel execCase selP
    rfl

theorem wireCases_cons (call : String → Value → Bool → W) (lens : String → Option LenInfo) (lex : Bool)
    (fv data : Value) (cond : Option Int) (cls : String) (body : List TInstr) (rest : List TCase) (x : WSt) :
    wireCases call lens lex fv data (.mk cond cls body :: rest) x =
      if (!selP fv cond) = true then wireCases call lens lex fv data rest x
      else if body.isEmpty = true then (if data.isNone = true then some x else none)
      else if (data.cls? == some cls) = true then
        Option.map (fun s => { x with out := x.out ++ s.out })
          (wireInstrs call (lensOf body) data lex body { san := x.san })
      else none := by
  cases cond with
  | none => rw [wireCases]; rfl
  | some n => rw [wireCases]; rfl

/-- what a switch leaves behind: the bytes of the selected case body, appended -/
def SwitchPost (st : SerSt) (wst : WSt) (st' : SerSt) (wst' : WSt) : Prop :=
  ∃ bs, st' = appSt st bs ∧ wst' = { wst with out := wst.out ++ bs }

theorem switch_sim {call : SerCall} {wcall : String → Value → Bool → W} {TVs : List (String → Value → Prop)}
    {lens : String → Option LenInfo} {lex : Bool} {obj : Value} {df : String} {fv : Value} {st : SerSt} {wst : WSt}
    (hsan : st.w.san = wst.san)
    (hdata : obj.attr df = .none ∨ ∃ c fs z, obj.attr df = .obj c fs z)
    (extra : List SerCase) (hextra : extra = [] ∨ extra = [⟨none, .expectNone df⟩]) :
    ∀ (sc : List SerCase) (tcs : List TCase), Aligned df sc tcs →
      (extra = [] → ∃ cls b, TCase.mk none cls b ∈ tcs) →
      (∀ cond cls b, TCase.mk cond cls b ∈ tcs → b ≠ [] → CaseOK call wcall TVs lex cls b) →
      TypedCases TVs (obj.attr df) tcs →
      Conf (execSel call obj st ((sc ++ extra).find? (fun c => selP fv c.cond)))
        (wireCases wcall lens lex fv (obj.attr df) tcs wst) (SwitchPost st wst)
  | [], [], _, hdef, _, _ => by
    rw [List.nil_append, wireCases]
    rcases hextra with he | he
    · obtain ⟨_, _, h⟩ := hdef he; cases h
    · subst he
      simp only [List.find?, selP, execSel, execCase]
      rcases hdata with h | ⟨c, fs, z, h⟩
      · rw [h]; simp only [Value.isNone, if_true, Conf_ok_some]
        exact ⟨[], by simp [appSt], by simp⟩
      · rw [h]; simp [Value.isNone]
  | s :: ss, (.mk cond cls b) :: ts, hal, hdef, hcases, hty => by
    obtain ⟨hc, hb, hal'⟩ := hal
    have hty' : (obj.attr df).cls? = some cls → (match TVs with
        | [] => False
        | TV' :: TVs' => TypedInstrs TV' TVs' (obj.attr df) b) := by
      cases TVs <;> (rw [TypedCases] at hty; exact hty.1)
    have hty2 : TypedCases TVs (obj.attr df) ts := by
      cases TVs <;> (rw [TypedCases] at hty; exact hty.2)
    have hty1 := hty'
    rw [List.cons_append, List.find?_cons, wireCases_cons, hc]
    cases hhit : selP fv cond with
    | false =>
      simp only [Bool.not_false, if_true]
      refine switch_sim hsan hdata extra hextra ss ts hal' ?_ ?_ hty2
      · intro he
        obtain ⟨cls', b', hm⟩ := hdef he
        rcases List.mem_cons.1 hm with hm | hm
        · cases hm; simp [selP] at hhit
        · exact ⟨cls', b', hm⟩
      · intro c' cls' b' hm; exact hcases c' cls' b' (List.mem_cons_of_mem _ hm)
    | true =>
      simp only [Bool.not_true, Bool.false_eq_true, if_false, execSel]
      rw [hb]
      cases hbe : b.isEmpty with
      | true =>
        simp only [if_true, execCase]
        rcases hdata with h | ⟨c, fs, z, h⟩
        · rw [h]; simp only [Value.isNone, if_true, Conf_ok_some]
          exact ⟨[], by simp [appSt], by simp⟩
        · rw [h]; simp [Value.isNone]
      | false =>
        have hbne : b ≠ [] := by intro h; subst h; cases hbe
        simp only [Bool.false_eq_true, if_false, execCase]
        rcases hdata with h | ⟨c, fs, z, h⟩
        · rw [h]; simp [Value.cls?]
        · rw [h]
          simp only
          by_cases hcl : (Value.obj c fs z).cls? = some cls
          · have hbeq : ((Value.obj c fs z).cls? == some cls) = true := by simp [hcl]
            rw [hbeq]
            simp only [if_true]
            have hok := hcases cond cls b (List.mem_cons_self ..) hbne
            have htyb := hty1 (by rw [h]; exact hcl)
            cases TVs with
            | nil => exact htyb.elim
            | cons TV' TVs' =>
              simp only at htyb
              rw [h] at htyb
              have hconf := hok (.obj c fs z) st.w htyb
              generalize call cls (.obj c fs z) st.w = r at hconf
              obtain ⟨w', x⟩ := r
              rw [← hsan]
              cases hw : wireInstrs wcall (lensOf b) (.obj c fs z) lex b { san := st.w.san } with
              | none =>
                rw [hw] at hconf
                cases x with
                | error e => simpa using hconf
                | ok u => cases u; exact hconf.elim
              | some s' =>
                rw [hw] at hconf
                cases x with
                | error e => exact hconf.elim
                | ok u =>
                  cases u
                  simp only [Option.map_some, Conf_ok_some] at hconf ⊢
                  exact ⟨s'.out, by rw [hconf]; rfl, by rw [hsan]⟩
          · have hbeq : ((Value.obj c fs z).cls? == some cls) = false := by simp [hcl]
            rw [hbeq]
            simp
  | [], (.mk _ _ _) :: _, hal, _, _, _ => hal.elim
  | _ :: _, [], hal, _, _, _ => hal.elim

end EoVerif.Gen.Conform
