import EoVerif.Lemmas.DeConformStep
set_option linter.unusedVariables false
/-! The leaf instructions of the static part of C03b (`<field>`, `<length>`, `<dummy>`, `<array>`). -/
namespace EoVerif.Gen.DeConform
open EoVerif EoVerif.Gen EoVerif.Spec EoVerif.Gen.Conform EoVerif.Gen.WF

theorem scalarLen_rel {t : Ty} {lenStr : Option String} {padded : Bool} {sc : Scalar}
    (hrel : TyRel t lenStr padded sc) (hwl : ∀ l, lenStr = some l → ∃ e, t = .str e (some l)) :
    scalarLen sc = tlenRef (tlenOf lenStr) := by
  have hnone : (∀ e l0, t ≠ .str e l0) → lenStr = none := by
    intro hne
    cases hl : lenStr with
    | none => rfl
    | some l => obtain ⟨e, he⟩ := hwl l hl; exact absurd he (hne _ _)
  cases t with
  | str e l0 =>
    simp only [TyRel] at hrel; subst hrel
    cases hl : tlenOf lenStr with
    | none => rfl
    | some tl => cases tl <;> rfl
  | int k => simp only [TyRel] at hrel; subst hrel; rw [hnone (by intro e l0 h; cases h)]; rfl
  | bool k => simp only [TyRel] at hrel; subst hrel; rw [hnone (by intro e l0 h; cases h)]; rfl
  | blob => simp only [TyRel] at hrel; subst hrel; rw [hnone (by intro e l0 h; cases h)]; rfl
  | enum a b c d => simp only [TyRel] at hrel; subst hrel; rw [hnone (by intro e l0 h; cases h)]; rfl
  | struct a b c d => simp only [TyRel] at hrel; subst hrel; rw [hnone (by intro e l0 h; cases h)]; rfl

/-- the `__init__` expression of a hard-coded named field against the declared constant -/
theorem initExpr_const {t : Ty} {lenStr : Option String} {padded : Bool} {sc : Scalar} {p : FP} {n h : String}
    (hrel : TyRel t lenStr padded sc) (hh : p.hardcoded = some h) (hb : t.isBasic = true)
    (hd : ∀ k, t = .int k → PyStr.isdigit h = true) :
    evalConst (initExprOf p t n) = some (constValue (constOf sc h)) := by
  unfold initExprOf
  rw [hh]
  cases t with
  | str e l0 => simp only [TyRel] at hrel; subst hrel; rfl
  | bool k => simp only [TyRel] at hrel; subst hrel; rfl
  | int k =>
    simp only [TyRel] at hrel; subst hrel
    simp only [evalConst, hd k rfl, if_true, constOf, constValue]
  | blob => cases hb
  | enum a b c d => cases hb
  | struct a b c d => cases hb

set_option maxHeartbeats 800000 in
theorem de_field_step {lens : String → Option LenInfo} {lex : Bool}
    {okT : String → Bool} {tf : TypeEnv} {env : Env} {ss : String → Option Int} {cls : String}
    {scope following : List Xml} {ctx ctx' : Ctx} {d d' : Data} {is : List TInstr}
    {tag : String} {attrs : List (String × String)} {text tail : Option String} {children : List Xml}
    (htf : TfOK okT tf env) (hok : CtxOK ctx lens)
    (htag : (tag == "field") = true)
    (hfr : fragField okT (.mk tag attrs text tail children) = true)
    (hg : genFieldInstr tf ctx d (.mk tag attrs text tail children) = .ok (ctx', d'))
    (he : elabInstr env ss cls scope following (.mk tag attrs text tail children) = some is) :
    ∃ i, is = [i] ∧ DLeaf lex d d' i := by
  generalize hE : Xml.mk tag attrs text tail children = e at hg hfr
  unfold genFieldInstr at hg
  extract_lets optional padded jp at hg
  split at hg
  · cases hg
  rename_i hro
  simp only [jp] at hg
  obtain ⟨ty, hty, hg⟩ := except_bind_ok hg
  obtain ⟨txt, htext, hg⟩ := except_bind_ok hg
  obtain ⟨⟨c1, d1⟩, hall, hg⟩ := except_bind_ok hg
  simp only [pure, Except.pure, Except.ok.injEq, Prod.mk.injEq] at hg
  obtain ⟨rfl, rfl⟩ := hg
  generalize hp : ({ name := e.get "name", typeStr := ty, lenStr := e.get "length", padded := padded, optional := optional, hardcoded := txt } : FP) = p at hall
  have pn : p.name = e.get "name" := by rw [← hp]
  have pt : p.typeStr = ty := by rw [← hp]
  have pl : p.lenStr = e.get "length" := by rw [← hp]
  have ppad : p.padded = padded := by rw [← hp]
  have popt : p.optional = optional := by rw [← hp]
  have phard : p.hardcoded = txt := by rw [← hp]
  have parr : p.arrayField = false := by rw [← hp]
  have plf : p.lengthField = false := by rw [← hp]
  have poff : p.offset = 0 := by rw [← hp]
  have ptl : p.typeLen = e.get "length" := by unfold FP.typeLen; rw [parr, pl]; rfl
  obtain ⟨hval, t, vx, sl, ht, hvx, hsl, hc1, _⟩ := generateAll_scalar parr hall
  obtain ⟨_, dA, dB, hgf, hgs, hgd⟩ := generateAll_split hall
  obtain ⟨v1, v2, v3⟩ := validateField_ok hval
  have ht0 := ht
  rw [pt, ptl] at ht
  have hgt := getReq_ok hty
  unfold fragField at hfr
  rw [hgt, Bool.and_eq_true] at hfr
  obtain ⟨hokT, hfrn⟩ := hfr
  obtain ⟨sc, hsc, hrel⟩ := htf.resolve ty (e.get "length") t padded hokT ht
  have hwl : ∀ l, p.lenStr = some l → ∃ en, t = .str en (some l) := by
    intro l hl; rw [pl] at hl; rw [hl] at ht; exact htf.withLen ty l t ht
  have hfresh : ∀ n, p.name = some n → (ctx.field? n).isSome = false ∧ PyStr.pyInt? n = none := by
    intro n hn
    refine ⟨v2 n hn, ?_⟩
    rw [pn] at hn; simp only [hn] at hfrn
    cases h : PyStr.pyInt? n with
    | none => rfl
    | some x => rw [h] at hfrn; cases hfrn
  have hlc : ∀ l, p.lenStr = some l → LenCase c1 lens l := by
    intro l hl; rw [hc1]; exact lenCase_after hok (v3 l hl).1 hfresh
  -- the emitted statements
  obtain ⟨t2, le, ht2, hle, hde, hargs, hf3, hp3, hi3, ha3⟩ := generateDeserialize_scalar parr hgd
  rw [ht0] at ht2; cases ht2
  obtain ⟨s1, s2, s3, s4, s5, s6⟩ := generateSerialize_sameDe hgs
  rw [← ppad, ← pl] at hrel
  obtain ⟨hio, hco⟩ := ioKind_rel hrel (lenExpr_rel hle hlc)
  rw [hio, hco, poff] at hde
  -- declarative side
  rw [← hE] at hgt htext
  rw [elabInstr, if_pos htag] at he
  simp only [hgt, Option.bind_some] at he
  have hpadE : xmlBool (Xml.mk tag attrs text tail children) "padded" = padded := by rw [hE]; rfl
  have hoptE : xmlBool (Xml.mk tag attrs text tail children) "optional" = optional := by rw [hE]; rfl
  rw [hpadE, hE] at he
  have hsc' : scalarOf env ty (tlenOf (e.get "length")) padded = some sc := hsc
  rw [hsc'] at he
  rw [← hE, htext, hE] at he
  simp only at he
  cases hname : e.get "name" with
  | none =>
    rw [hname] at he
    have hpn : p.name = none := by rw [pn, hname]
    obtain ⟨hh, ho⟩ := v1 hpn
    cases txt with
    | none => rw [phard] at hh; cases hh
    | some h =>
      simp only [Option.some.injEq] at he
      subst he
      have hdA := generateField_noname hpn hgf
      subst hdA
      refine ⟨_, rfl, ?_⟩
      refine ⟨[rdOp .discard sc], [], ?_, ?_, ?_, ?_, ?_, ?_, ?_, ?_⟩
      · rw [hde, s1, ho]
        simp only [wrapOpt, Bool.false_eq_true, if_false, targetOf, hpn, rdOp]
      · rw [OpsI]
      · rw [hf3, s3]; simp [declsI]
      · rw [hp3, s4]; simp [declsI]
      · rw [hargs, s2, hpn]; simp [declsI]
      · rw [hi3, s5]; simp
      · rw [declsI, InitOK]
      · rw [ha3, s6]
  | some n =>
    rw [hname] at he
    have hpn : p.name = some n := by rw [pn, hname]
    obtain ⟨hfr1, hfr2⟩ := hfresh n hpn
    obtain ⟨g1, g2, g3, g4, g5, g6⟩ := generateField_decl hpn hgf
    obtain ⟨g6a, t3, ht3, g6b⟩ := g6 plf
    rw [ht0] at ht3; cases ht3
    have hlen := lenInit_rel (p := p) (n := n) (t := t) hok hfr1 (fun l hl => (v3 l hl).1)
    have hsl := scalarLen_rel hrel hwl
    have hopsE : wrapOpt optional n [rdOp (.var n) sc]
        = wrapOpt p.optional (p.name.getD "") [.read (targetOf p) (ioKindS sc) (coerceS sc) 0] := by
      rw [popt, hpn]; simp only [Option.getD_some, targetOf, hpn, rdOp]
    -- the common part of the two named shapes
    have hcommon : ∀ (dk : DKind), (dk = .param ∨ ∃ c, dk = .const c) → ExprOK ⟨n, dk, optional, scalarLen sc⟩ (initExprOf p t n) →
        ∃ (I : List InitStmt),
          d1.fields = d.fields ++ [fieldOfDecl ⟨n, dk, optional, scalarLen sc⟩] ∧
          d1.params = d.params ++ [⟨n, optional⟩] ∧ paramOfDecl ⟨n, dk, optional, scalarLen sc⟩ = some ⟨n, optional⟩ ∧
          d1.deArgs = d.deArgs ++ [n] ∧ argOfDecl ⟨n, dk, optional, scalarLen sc⟩ = some n ∧
          d1.initBody = d.initBody ++ I ∧ InitOK [⟨n, dk, optional, scalarLen sc⟩] I ∧ d1.aux = d.aux := by
      intro dk hdk hex
      refine ⟨[.assign n (initExprOf p t n)] ++ lenStmt ⟨n, dk, optional, scalarLen sc⟩, ?_, ?_, ?_, ?_, ?_, ?_, ?_, ?_⟩
      · rw [hf3, s3, g4, plf, parr]
        rcases hdk with rfl | ⟨c, rfl⟩ <;> rfl
      · rw [hp3, s4, g6a, popt]
      · rcases hdk with rfl | ⟨c, rfl⟩ <;> rfl
      · rw [hargs, s2, g2, hpn, plf]; rfl
      · rcases hdk with rfl | ⟨c, rfl⟩ <;> rfl
      · rw [hi3, s5, g6b, hlen, ← hsl, List.append_assoc]
        congr 2
        unfold lenStmt
        simp only [popt]
        cases scalarLen sc <;> rfl
      · rw [InitOK]
        have hnl : DKind.isLen dk = false := by rcases hdk with rfl | ⟨c, rfl⟩ <;> rfl
        rw [if_neg (by simp [hnl])]
        exact ⟨_, [], by simp, hex, by rw [InitOK]⟩
      · rw [ha3, s6, g3]
    cases txt with
    | some h =>
      simp only [Option.some.injEq] at he
      subst he
      obtain ⟨hb, hdg⟩ := validateField_hard hval phard ht0
      have hoptE' : xmlBool e "optional" = optional := rfl
      rw [hoptE']
      obtain ⟨I, c1', c2, c3, c4, c5, c6, c7, c8⟩ := hcommon (.const (constOf sc h)) (Or.inr ⟨_, rfl⟩)
        (initExpr_const hrel phard hb hdg)
      refine ⟨_, rfl, wrapOpt optional n [rdOp (.var n) sc], I, ?_, ?_, ?_, ?_, ?_, c6, ?_, c8⟩
      · rw [hde, s1, g1, hopsE]
      · rw [OpsI]
      · rw [c1']; simp [declsI]
      · rw [c2]; simp [declsI, c3]
      · rw [c4]; simp [declsI, c5]
      · rw [declsI]; exact c7
    | none =>
      simp only [Option.some.injEq] at he
      subst he
      have hoptE' : xmlBool e "optional" = optional := rfl
      rw [hoptE']
      have hex : ExprOK ⟨n, .param, optional, scalarLen sc⟩ (initExprOf p t n) := by
        unfold ExprOK initExprOf
        rw [phard, parr]; rfl
      obtain ⟨I, c1', c2, c3, c4, c5, c6, c7, c8⟩ := hcommon .param (Or.inl rfl) hex
      refine ⟨_, rfl, wrapOpt optional n [rdOp (.var n) sc], I, ?_, ?_, ?_, ?_, ?_, c6, ?_, c8⟩
      · rw [hde, s1, g1, hopsE]
      · rw [OpsI]
      · rw [c1']; simp [declsI]
      · rw [c2]; simp [declsI, c3]
      · rw [c4]; simp [declsI, c5]
      · rw [declsI]; exact c7

set_option maxHeartbeats 800000 in
theorem de_length_step {lens : String → Option LenInfo} {lex : Bool}
    {okT : String → Bool} {tf : TypeEnv} {env : Env} {ss : String → Option Int} {cls : String}
    {scope following : List Xml} {ctx ctx' : Ctx} {d d' : Data} {is : List TInstr}
    {tag : String} {attrs : List (String × String)} {text tail : Option String} {children : List Xml}
    (htf : TfOK okT tf env)
    (htag : (tag == "length") = true) (htag' : (tag == "field") = false)
    (hg : genLengthInstr tf ctx d (.mk tag attrs text tail children) = .ok (ctx', d'))
    (he : elabInstr env ss cls scope following (.mk tag attrs text tail children) = some is) :
    ∃ i, is = [i] ∧ DLeaf lex d d' i := by
  generalize hE : Xml.mk tag attrs text tail children = e at hg
  unfold genLengthInstr at hg
  extract_lets optional jp at hg
  split at hg
  · cases hg
  rename_i hro
  simp only [jp] at hg
  obtain ⟨name, hname, hg⟩ := except_bind_ok hg
  obtain ⟨ty, hty, hg⟩ := except_bind_ok hg
  obtain ⟨off, hoff, hg⟩ := except_bind_ok hg
  obtain ⟨⟨c1, d1⟩, hall, hg⟩ := except_bind_ok hg
  simp only [pure, Except.pure, Except.ok.injEq, Prod.mk.injEq] at hg
  obtain ⟨rfl, rfl⟩ := hg
  generalize hp : ({ name := some name, typeStr := ty, optional := optional, lengthField := true, offset := off } : FP) = p at hall
  have pn : p.name = some name := by rw [← hp]
  have pt : p.typeStr = ty := by rw [← hp]
  have pl : p.lenStr = none := by rw [← hp]
  have ppad : p.padded = false := by rw [← hp]
  have popt : p.optional = optional := by rw [← hp]
  have parr : p.arrayField = false := by rw [← hp]
  have plf : p.lengthField = true := by rw [← hp]
  have poff : p.offset = off := by rw [← hp]
  have ptl : p.typeLen = none := by unfold FP.typeLen; rw [parr, pl]; rfl
  obtain ⟨_, dA, dB, hgf, hgs, hgd⟩ := generateAll_split hall
  obtain ⟨t, le, ht, hle, hde, hargs, hf3, hp3, hi3, ha3⟩ := generateDeserialize_scalar parr hgd
  obtain ⟨s1, s2, s3, s4, s5, s6⟩ := generateSerialize_sameDe hgs
  obtain ⟨g1, g2, g3, g4, g5, _⟩ := generateField_decl pn hgf
  obtain ⟨g5a, g5b⟩ := g5 plf
  rw [pt, ptl] at ht
  have hgn := getReq_ok hname
  have hgt := getReq_ok hty
  have hgo := getInt_ok hoff
  rw [← hE] at hgn hgt hgo
  rw [elabInstr, if_neg (by rw [htag']; simp), if_pos htag] at he
  simp only [hgn, hgt, Option.bind_some] at he
  cases hk : IntKind.ofName? ty with
  | none => rw [hk] at he; cases he
  | some k =>
  rw [hk] at he
  simp only [Option.some.injEq] at he
  rw [hgo] at he
  subst he
  have htk : t = .int k := htf.intName ty k t hk ht
  subst htk
  have hle' : le = none := by unfold lenExpr at hle; rw [pl] at hle; cases hle; rfl
  subst hle'
  have hoptE : xmlBool (Xml.mk tag attrs text tail children) "optional" = optional := by rw [hE]; rfl
  rw [hoptE]
  refine ⟨_, rfl, wrapOpt optional name [.read (.var name) (.int k) .none off], [], ?_, ?_, ?_, ?_, ?_, ?_, ?_, ?_⟩
  · rw [hde, s1, g1, popt, pn, poff]
    simp only [Option.getD_some, targetOf, pn]
    rfl
  · rw [OpsI]
  · rw [hf3, s3, g4, plf, parr]; simp [declsI, fieldOfDecl]
  · rw [hp3, s4, g5a]; simp [declsI, paramOfDecl]
  · rw [hargs, s2, g2, plf]; simp [declsI, argOfDecl]
  · rw [hi3, s5, g5b]; simp
  · rw [declsI, InitOK, if_pos (by rfl), InitOK]
  · rw [ha3, s6, g3]

set_option maxHeartbeats 800000 in
theorem de_dummy_step {lens : String → Option LenInfo} {lex : Bool}
    {okT : String → Bool} {tf : TypeEnv} {env : Env} {ss : String → Option Int} {cls : String}
    {scope following : List Xml} {ctx ctx' : Ctx} {d d' : Data} {is : List TInstr}
    {tag : String} {attrs : List (String × String)} {text tail : Option String} {children : List Xml}
    (htf : TfOK okT tf env)
    (htag : (tag == "dummy") = true) (htag1 : (tag == "field") = false) (htag2 : (tag == "length") = false)
    (htag3 : (tag == "array") = false)
    (hfr : fragDummy okT (.mk tag attrs text tail children) = true)
    (hg : genDummyInstr tf ctx d (.mk tag attrs text tail children) = .ok (ctx', d'))
    (he : elabInstr env ss cls scope following (.mk tag attrs text tail children) = some is) :
    ∃ i, is = [i] ∧ DLeaf lex d d' i := by
  generalize hE : Xml.mk tag attrs text tail children = e at hg hfr
  unfold genDummyInstr at hg
  obtain ⟨ty, hty, hg⟩ := except_bind_ok hg
  obtain ⟨txt, htext, hg⟩ := except_bind_ok hg
  extract_lets p0 ng d0 at hg
  obtain ⟨u, hval, hg⟩ := except_bind_ok hg
  obtain ⟨d1, hs, hg⟩ := except_bind_ok hg
  obtain ⟨d2, hds, hg⟩ := except_bind_ok hg
  simp only [pure, Except.pure, Except.ok.injEq, Prod.mk.injEq] at hg
  obtain ⟨rfl, rfl⟩ := hg
  generalize hp : p0 = p at hval hs hds
  have pn : p.name = none := by rw [← hp]
  have pt : p.typeStr = ty := by rw [← hp]
  have pl : p.lenStr = none := by rw [← hp]
  have ppad : p.padded = false := by rw [← hp]
  have popt : p.optional = false := by rw [← hp]
  have phard : p.hardcoded = txt := by rw [← hp]
  have parr : p.arrayField = false := by rw [← hp]
  have poff : p.offset = 0 := by rw [← hp]
  have ptl : p.typeLen = none := by unfold FP.typeLen; rw [parr, pl]; rfl
  obtain ⟨t, le, ht, hle, hde, hargs, hf3, hp3, hi3, ha3⟩ := generateDeserialize_scalar parr hds
  obtain ⟨s1, s2, s3, s4, s5, s6⟩ := generateSerialize_sameDe hs
  obtain ⟨v1, v2, v3⟩ := validateField_ok hval
  rw [pt, ptl] at ht
  have hgt := getReq_ok hty
  unfold fragDummy at hfr
  simp only [hgt] at hfr
  obtain ⟨sc, hsc, hrel⟩ := htf.resolve ty none t false hfr ht
  have hh := (v1 pn).1
  cases txt with
  | none => rw [phard] at hh; cases hh
  | some h =>
  rw [← hE] at hgt htext
  rw [elabInstr, if_neg (by rw [htag1]; simp), if_neg (by rw [htag2]; simp), if_neg (by rw [htag3]; simp),
    if_pos htag] at he
  simp only [hgt, Option.bind_some] at he
  have hsc' : scalarOf env ty none false = some sc := hsc
  rw [hsc', htext] at he
  simp only [Option.some.injEq] at he
  subst he
  have hle' : le = none := by unfold lenExpr at hle; rw [pl] at hle; cases hle; rfl
  subst hle'
  obtain ⟨hio, hco⟩ := ioKind_rel (le := none) hrel rfl
  have hd0 : d0.de = [] := rfl
  have hd2 : d2.de = [rdOp .discard sc] := by
    rw [hde, s1, hd0, popt, ppad, hio, hco, poff]
    simp only [List.nil_append, wrapOpt, Bool.false_eq_true, if_false, targetOf, pn, rdOp]
  refine ⟨_, rfl, if ng then [.dummyGuard d2.de] else d2.de, [], rfl, ?_, ?_, ?_, ?_, ?_, ?_, ?_⟩
  · rw [OpsI, hd2]
    cases hng : ng with
    | true => exact Or.inl rfl
    | false =>
      refine Or.inr ⟨?_, rfl⟩
      have : (!d.ser.isEmpty || !d.de.isEmpty) = false := hng
      simp only [Bool.or_eq_false_iff, Bool.not_eq_false'] at this
      exact this.2
  · show d2.fields = _
    rw [hf3, s3]; simp [declsI]; first | rfl | done
  · show d2.params = _
    rw [hp3, s4]; simp [declsI]; first | rfl | done
  · show d2.deArgs = _
    rw [hargs, s2, pn]; simp [declsI]; first | rfl | done
  · show d2.initBody = _
    rw [hi3, s5]; simp; first | rfl | done
  · rw [declsI, InitOK]
  · show d2.aux = _
    rw [ha3, s6]; first | rfl | done

/-- the generator's fixed element size is the declared one -/
def FixOK (okT : String → Bool) (tf : TypeEnv) (env : Env) (ss : String → Option Int) : Prop :=
  ∀ s t sc, okT s = true → tf s none = .ok t → scalarOf env s none false = some sc →
    t.fixedSize = fixedOfScalar ss sc

theorem arrayBody_rel {p : FP} {t : Ty} {le : Option LenE} {n : String} {sc : Scalar} {len : Option TLen}
    {ef : Option Int}
    (hio : ioKind t none false = ioKindS sc) (hco : coerceOf t = coerceS sc) (hle : le = len.map lenES)
    (hfx : t.fixedSize = ef) (hpad : p.padded = false) (hoff : p.offset = 0) :
    arrayBodyG p t le n = arrayBody n sc len p.delimited p.trailing ef := by
  unfold arrayBodyG arrayBody
  subst hle
  simp only [hpad, hoff, hio, hco, hfx, rdOp, tempName]
  cases len with
  | some tl => cases tl <;> rfl
  | none => rfl

set_option maxHeartbeats 800000 in
theorem de_array_step {lens : String → Option LenInfo} {lex : Bool}
    {okT : String → Bool} {tf : TypeEnv} {env : Env} {ss : String → Option Int} {cls : String}
    {scope following : List Xml} {ctx ctx' : Ctx} {d d' : Data} {is : List TInstr}
    {tag : String} {attrs : List (String × String)} {text tail : Option String} {children : List Xml}
    (htf : TfOK okT tf env) (hfix : FixOK okT tf env ss) (hok : CtxOK ctx lens) (hlex : ctx.chunked = lex)
    (htag : (tag == "array") = true) (htag1 : (tag == "field") = false) (htag2 : (tag == "length") = false)
    (hfr : fragArray okT (.mk tag attrs text tail children) = true)
    (hg : genArrayInstr tf ctx d (.mk tag attrs text tail children) = .ok (ctx', d'))
    (he : elabInstr env ss cls scope following (.mk tag attrs text tail children) = some is) :
    ∃ i, is = [i] ∧ DLeaf lex d d' i := by
  generalize hE : Xml.mk tag attrs text tail children = e at hg hfr
  unfold genArrayInstr at hg
  extract_lets optional delimited jp2 jp at hg
  split at hg
  · cases hg
  rename_i hro
  simp only [jp] at hg
  split at hg
  · cases hg
  rename_i hdelch
  simp only [jp2] at hg
  obtain ⟨name, hname, hg⟩ := except_bind_ok hg
  obtain ⟨ty, hty, hg⟩ := except_bind_ok hg
  obtain ⟨⟨c1, d1⟩, hall, hg⟩ := except_bind_ok hg
  simp only [pure, Except.pure, Except.ok.injEq, Prod.mk.injEq] at hg
  obtain ⟨rfl, rfl⟩ := hg
  generalize hp : ({ name := some name, typeStr := ty, lenStr := e.get "length", optional := optional, arrayField := true, delimited := delimited, trailing := e.getBool "trailing-delimiter" true } : FP) = p at hall
  have pn : p.name = some name := by rw [← hp]
  have pt : p.typeStr = ty := by rw [← hp]
  have pl : p.lenStr = e.get "length" := by rw [← hp]
  have ppad : p.padded = false := by rw [← hp]
  have popt : p.optional = optional := by rw [← hp]
  have phard : p.hardcoded = none := by rw [← hp]
  have parr : p.arrayField = true := by rw [← hp]
  have plf : p.lengthField = false := by rw [← hp]
  have poff : p.offset = 0 := by rw [← hp]
  have pdel : p.delimited = delimited := by rw [← hp]
  have ptr : p.trailing = e.getBool "trailing-delimiter" true := by rw [← hp]
  have ptl : p.typeLen = none := by unfold FP.typeLen; rw [parr]; rfl
  obtain ⟨hval, t, al, ht, hal, hc1, _⟩ := generateAll_array parr pn ppad poff hall
  obtain ⟨_, dA, dB, hgf, hgs, hgd⟩ := generateAll_split hall
  obtain ⟨v1, v2, v3⟩ := validateField_ok hval
  have ht0 := ht
  rw [pt, ptl] at ht
  have hgn := getReq_ok hname
  have hgt := getReq_ok hty
  unfold fragArray at hfr
  simp only [hgt, hgn, Bool.and_eq_true] at hfr
  obtain ⟨hokT, hfrn⟩ := hfr
  obtain ⟨sc, hsc, hrel⟩ := htf.resolve ty none t false hokT ht
  have hpn : PyStr.pyInt? name = none := by
    cases h : PyStr.pyInt? name with
    | none => rfl
    | some x => rw [h] at hfrn; cases hfrn
  have hfresh : ∀ n, p.name = some n → (ctx.field? n).isSome = false ∧ PyStr.pyInt? n = none := by
    intro n hn
    rw [pn] at hn; cases hn
    exact ⟨v2 name pn, hpn⟩
  have hlc : ∀ l, p.lenStr = some l → LenCase c1 lens l := by
    intro l hl; rw [hc1]; exact lenCase_after hok (v3 l hl).1 hfresh
  obtain ⟨t2, le, ht2, hle, hde, hargs, hf3, hp3, hi3, ha3⟩ := generateDeserialize_array parr pn hgd
  rw [ht0] at ht2; cases ht2
  obtain ⟨s1, s2, s3, s4, s5, s6⟩ := generateSerialize_sameDe hgs
  obtain ⟨g1, g2, g3, g4, g5, g6⟩ := generateField_decl pn hgf
  obtain ⟨g6a, t3, ht3, g6b⟩ := g6 plf
  rw [ht0] at ht3; cases ht3
  obtain ⟨hio, hco⟩ := ioKind_rel (le := none) hrel rfl
  have hfx := hfix ty t sc hokT ht hsc
  have hlen := lenInit_rel (p := p) (n := name) (t := t) hok (v2 name pn) (fun l hl => (v3 l hl).1)
  -- declarative side
  rw [← hE] at hgn hgt
  rw [elabInstr, if_neg (by rw [htag1]; simp), if_neg (by rw [htag2]; simp), if_pos htag] at he
  simp only [hgn, hgt, Option.bind_some] at he
  have hsc' : scalarOf env ty none false = some sc := hsc
  rw [hsc'] at he
  simp only [Option.some.injEq] at he
  rw [hE] at he
  subst he
  have hoptE : xmlBool e "optional" = optional := rfl
  have hdelE : xmlBool e "delimited" = delimited := rfl
  have htrE : xmlBool e "trailing-delimiter" true = p.trailing := by rw [ptr]; rfl
  rw [hoptE, hdelE, htrE, ← pl]
  have hbody := arrayBody_rel (p := p) (n := name) (ef := fixedOfScalar ss sc) hio hco (lenExpr_rel hle hlc) hfx ppad poff
  refine ⟨_, rfl, wrapOpt optional name (arrayBody name sc (tlenOf p.lenStr) delimited p.trailing (fixedOfScalar ss sc)),
    [.assign name (.tupleOf name optional)] ++ lenStmt ⟨name, .arr, optional, tlenRef (tlenOf p.lenStr)⟩,
    ?_, ?_, ?_, ?_, ?_, ?_, ?_, ?_⟩
  · rw [hde, s1, g1, hbody, popt, pdel]
  · rw [OpsI]
    refine ⟨?_, rfl⟩
    intro hd
    rw [← hlex]
    cases hch : ctx.chunked with
    | true => rfl
    | false =>
      exfalso; apply hdelch
      show (delimited && !ctx.chunked) = true
      rw [hd, hch]; rfl
  · rw [hf3, s3, g4, plf, parr]; simp [declsI, fieldOfDecl]
  · rw [hp3, s4, g6a, popt]; simp [declsI, paramOfDecl]
  · rw [hargs, s2, g2, plf]; simp [declsI, argOfDecl]
  · rw [hi3, s5, g6b, hlen, List.append_assoc]
    congr 2
    · unfold initExprOf; rw [phard, parr, popt]; rfl
    · unfold lenStmt
      simp only [popt]
      cases tlenRef (tlenOf p.lenStr) <;> rfl
  · rw [declsI, InitOK, if_neg (by simp [DKind.isLen])]
    exact ⟨_, [], by simp, rfl, by rw [InitOK]⟩
  · rw [ha3, s6, g3]

end EoVerif.Gen.DeConform
